// Session-level contact scenarios of property C18 (-mode contact): a real torrent.Session on loopback
// addresses, its blocklist loaded from Config.BlocklistURL (served by this process; reloads go through
// the session's own periodic reloader), scripted listeners / dialers / trackers / web seeds on several
// 127.0.0.x addresses.  One ndjson line per observation, in the vocabulary of spec/Trace_Admission.tla:
//
//	Init, CInit, CSelf, Reload   scenario start, switches, own address, "the session reports this list as loaded"
//	CConn / CDisc / CBan         admission state: connected-or-connecting IPs (as the scripted side sees them),
//	                             banned IPs (hook H1 snapshot of the client's own state)
//	CDial / CAccept / CAnnounce / CWebseed   observed contacts (judged)
//	CNote, CEnd                  offers, controls; CEnd.ok = every positive control of the scenario was observed
//
// Negative observations use a settle window that starts after the positive controls of the same run were seen.
package main

import (
	"bytes"
	"encoding/binary"
	"fmt"
	"net"
	"net/http"
	"os"
	"strings"
	"sync"
	"sync/atomic"
	"time"

	"github.com/cenkalti/rain/v2/internal/verif/vh"
	"github.com/cenkalti/rain/v2/torrent"
)

var (
	cmu   sync.Mutex
	vhNul *vh.Tracer
)

// cemit is the concurrency-safe emitter of the contact scenarios.
func cemit(e ev) {
	cmu.Lock()
	emit(e)
	cmu.Unlock()
}

func ipHalves(ip string) [2]int {
	return halves(binary.BigEndian.Uint32(net.ParseIP(ip).To4()))
}

type cScenario struct {
	kind          string // static | dup | banned | banq | banrs | bandup | reload | yourip
	out, inc, trk bool
	variant       int
	settle        time.Duration
}

// crun holds the observations of one scenario.
type crun struct {
	sc      cScenario
	mu      sync.Mutex
	dials   map[string]int // "ip:port" -> accepted connections
	accepts map[string]int // ip -> handshake answers
	reqs    map[string]int // ip -> tracker / web seed requests
	conns   map[string][]net.Conn
	banned  map[string]bool
	watch   map[string]int // IP -> port: a dial to it is only visible in the client's own state
	seenW   map[string]bool
	open    map[string]int  // IP -> connections the scripted side holds open with the client (CConn minus CDisc)
	banPort map[string]int  // IP -> port to report when the client's own state shows it connecting to that banned IP
	seenBD  map[string]bool // IP -> such a "connecting to a banned IP" state has been reported and still lasts
	lst     []net.Listener
	closers []func()
	last    *torrent.VerifSnap
	tid     string
	ended   bool // guarded by cmu
}

// emit records an observation of this scenario; observations arriving after its end (teardown: stop announces,
// closing connections) are dropped so that they cannot be attributed to the next scenario.
func (r *crun) emit(e ev) {
	cmu.Lock()
	if !r.ended {
		emit(e)
	}
	cmu.Unlock()
}

func (r *crun) count(m map[string]int, k string) int {
	r.mu.Lock()
	defer r.mu.Unlock()
	return m[k]
}

// connUp / connDown record the scripted side's view of its own connections with the client.
func (r *crun) connUp(ip, state string) {
	r.mu.Lock()
	r.open[ip]++
	r.mu.Unlock()
	r.emit(ev{"op": "CConn", "ip": ipHalves(ip), "a": ip, "state": state})
}

func (r *crun) connDown(ip string) {
	r.emit(ev{"op": "CDisc", "ip": ipHalves(ip), "a": ip})
	r.mu.Lock()
	if r.open[ip] > 0 {
		r.open[ip]--
	}
	r.mu.Unlock()
}

// dialSeen records a connection attempt that arrived at a scripted listener.  The scripted side orders its own
// observations first: if it still holds a connection with that IP whose end it has not noticed yet (the client closes
// the old connection and dials the IP again at once), it waits a moment for its reader to see the close.
func (r *crun) dialSeen(ip string, port int, key string) {
	r.waitFor(250*time.Millisecond, func() bool { return r.count(r.open, ip) == 0 })
	r.emit(ev{"op": "CDial", "ip": ipHalves(ip), "port": port, "a": key, "via": "listener"})
}

func (r *crun) waitFor(timeout time.Duration, pred func() bool) bool {
	dl := time.Now().Add(timeout)
	for time.Now().Before(dl) {
		if pred() {
			return true
		}
		time.Sleep(5 * time.Millisecond)
	}
	return pred()
}

// onSnap is hook H1: the loop's own view after every handled event.
func (r *crun) onSnap(s *torrent.VerifSnap) {
	r.mu.Lock()
	if r.tid != "" && s.ID != r.tid {
		r.mu.Unlock()
		return
	}
	r.last = s
	var evs []ev
	for _, ip := range s.Banned {
		if !r.banned[ip] {
			r.banned[ip] = true
			evs = append(evs, ev{"op": "CBan", "ip": ipHalves(ip), "a": ip})
		}
	}
	// the client's own state shows an OUTGOING handshake towards an IP it lists as banned: the IP is in connectedPeerIPs
	// although no established peer has it and no incoming handshake is in progress (taken at a linearization point of the
	// loop, so the order of ban and dial cannot be blurred by the scheduling of the scripted listeners)
	for _, ip := range s.Banned {
		conn := false
		for _, x := range s.ConnectedIPs {
			conn = conn || x == ip
		}
		for _, pe := range s.PeerList {
			if h, _, err := net.SplitHostPort(pe.Addr); err == nil && h == ip {
				conn = false
			}
		}
		if conn && s.InHS == 0 && s.OutHS > 0 {
			if !r.seenBD[ip] {
				r.seenBD[ip] = true
				p := r.banPort[ip]
				if p == 0 {
					p = 1
				}
				evs = append(evs, ev{"op": "CDial", "ip": ipHalves(ip), "port": p, "a": fmt.Sprintf("%s:%d", ip, p), "via": "snapshot"})
			}
		} else {
			r.seenBD[ip] = false
		}
	}
	for _, ip := range s.ConnectedIPs {
		if p, ok := r.watch[ip]; ok && !r.seenW[ip] {
			r.seenW[ip] = true
			evs = append(evs, ev{"op": "CDial", "ip": ipHalves(ip), "port": p, "a": fmt.Sprintf("%s:%d", ip, p), "via": "snapshot"})
		}
	}
	r.mu.Unlock()
	for _, e := range evs {
		r.emit(e)
	}
}

// listen starts a scripted peer listener on ip (port chosen by the OS).
// mode: "hs" answer the handshake and stay; "hsclose" answer and hang up after 60 ms; "hang" accept and stay silent.
// onConn (optional) runs after the handshake with the connection.
func (r *crun) listen(ip, mode string, ext bool, onConn func(c *vh.Conn)) *net.TCPAddr {
	l, err := net.ListenTCP("tcp4", &net.TCPAddr{IP: net.ParseIP(ip)})
	if err != nil {
		panic(err)
	}
	r.lst = append(r.lst, l)
	addr := l.Addr().(*net.TCPAddr)
	key := addr.String()
	go func() {
		for {
			nc, err := l.Accept()
			if err != nil {
				return
			}
			r.dialSeen(ip, addr.Port, key)
			r.mu.Lock()
			r.dials[key]++
			r.conns[ip] = append(r.conns[ip], nc)
			r.mu.Unlock()
			go func() {
				if mode == "hang" {
					r.connUp(ip, "connecting")
					buf := make([]byte, 256)
					for {
						if _, err := nc.Read(buf); err != nil {
							break
						}
					}
					r.connDown(ip)
					nc.Close()
					return
				}
				rh, err := vh.PlainHandshakeAccept(nc, vh.PeerID("c18-"+key), vh.ReservedBits(false, ext, false), 3*time.Second)
				if err != nil {
					nc.Close()
					return
				}
				r.connUp(ip, "connected")
				c := &vh.Conn{C: nc, Name: key, T: vhNul, Remote: rh, Quiet: true}
				if onConn != nil {
					go onConn(c)
				}
				if mode == "hsclose" {
					time.Sleep(60 * time.Millisecond)
					r.connDown(ip)
					nc.Close()
					return
				}
				for {
					if _, err := c.Recv(0); err != nil {
						break
					}
				}
				r.connDown(ip)
				nc.Close()
			}()
		}
	}()
	return addr
}

// dialIn connects to the client from localIP and offers a handshake; reports whether it was answered.
func (r *crun) dialIn(localIP string, port int, ih [20]byte, keep bool) bool {
	nc, err := vh.DialFrom(localIP, fmt.Sprintf("127.0.0.1:%d", port), 2*time.Second)
	if err != nil {
		r.emit(ev{"op": "CNote", "what": "in-dial-failed", "a": localIP})
		return false
	}
	_, err = vh.PlainHandshake(nc, ih, vh.PeerID("c18-in-"+localIP), vh.ReservedBits(false, false, false), 1500*time.Millisecond)
	if err != nil {
		r.emit(ev{"op": "CNote", "what": "in-refused", "a": localIP})
		nc.Close()
		return false
	}
	r.emit(ev{"op": "CAccept", "ip": ipHalves(localIP), "a": localIP})
	r.connUp(localIP, "connected")
	r.mu.Lock()
	r.accepts[localIP]++
	r.mu.Unlock()
	go func() {
		buf := make([]byte, 4096)
		for {
			if _, err := nc.Read(buf); err != nil {
				break
			}
		}
		r.connDown(localIP)
		nc.Close()
	}()
	if !keep {
		time.AfterFunc(time.Second, func() { nc.Close() })
	}
	return true
}

// httpOn serves HTTP on ip; every request is an observation of kind op (CAnnounce / CWebseed).
func (r *crun) httpOn(ip, op string, body []byte, status int) string {
	l, err := net.Listen("tcp4", ip+":0")
	if err != nil {
		panic(err)
	}
	srv := &http.Server{Handler: http.HandlerFunc(func(w http.ResponseWriter, q *http.Request) {
		r.emit(ev{"op": op, "ip": ipHalves(ip), "a": ip, "via": "http"})
		r.mu.Lock()
		r.reqs[ip]++
		r.mu.Unlock()
		if status != 0 {
			w.WriteHeader(status)
		}
		w.Write(body)
	})}
	go srv.Serve(l)
	r.closers = append(r.closers, func() { srv.Close() })
	return "http://" + l.Addr().String()
}

func (r *crun) udpOn(ip string) string {
	c, err := net.ListenUDP("udp4", &net.UDPAddr{IP: net.ParseIP(ip)})
	if err != nil {
		panic(err)
	}
	go func() {
		buf := make([]byte, 2048)
		for {
			if _, _, err := c.ReadFromUDP(buf); err != nil {
				return
			}
			r.emit(ev{"op": "CAnnounce", "ip": ipHalves(ip), "a": ip, "via": "udp"})
			r.mu.Lock()
			r.reqs[ip]++
			r.mu.Unlock()
		}
	}()
	r.closers = append(r.closers, func() { c.Close() })
	return "udp://" + c.LocalAddr().String() + "/announce"
}

// blocklist server: serves the current text; the session fetches it at start and every BlocklistUpdateInterval.
type blServer struct {
	mu    sync.Mutex
	lines []line
	url   string
	srv   *http.Server
}

func startBlServer() *blServer {
	b := &blServer{}
	l, err := net.Listen("tcp4", "127.0.0.1:0")
	if err != nil {
		panic(err)
	}
	b.url = "http://" + l.Addr().String() + "/list.cidr"
	b.srv = &http.Server{Handler: http.HandlerFunc(func(w http.ResponseWriter, q *http.Request) {
		b.mu.Lock()
		ls := append([]line(nil), b.lines...)
		b.mu.Unlock()
		body := []byte("# c18 contact scenario\n\n" + render(ls, false))
		w.Header().Set("Content-Length", fmt.Sprint(len(body)))
		w.Write(body)
	})}
	go b.srv.Serve(l)
	return b
}

func cidr(a string, p int) line {
	return cidrLine(binary.BigEndian.Uint32(net.ParseIP(a).To4()), p)
}

// load publishes ls and waits until the session reports exactly that many rules, then records the Reload.
func (b *blServer) load(r *crun, s *torrent.Session, ls []line) bool {
	b.mu.Lock()
	b.lines = ls
	b.mu.Unlock()
	dl := time.Now().Add(5 * time.Second)
	for time.Now().Before(dl) {
		if s.Stats().BlockListRules == len(ls) {
			r.emit(ev{"op": "Reload", "lines": ls, "err": false, "n": len(ls), "len": len(ls)})
			return true
		}
		time.Sleep(10 * time.Millisecond)
	}
	return false
}

func compactPeers(as ...*net.TCPAddr) []*net.TCPAddr { return as }

const selfIP = "127.0.0.1"

func runContact(sc cScenario, dir string, seed int64) {
	r := &crun{sc: sc, dials: map[string]int{}, accepts: map[string]int{}, reqs: map[string]int{}, conns: map[string][]net.Conn{},
		banned: map[string]bool{}, watch: map[string]int{}, seenW: map[string]bool{},
		open: map[string]int{}, banPort: map[string]int{}, seenBD: map[string]bool{}}
	torrent.VerifSetTracer(r.onSnap)
	defer torrent.VerifSetTracer(nil)
	defer func() {
		for _, l := range r.lst {
			l.Close()
		}
		for _, f := range r.closers {
			f()
		}
		r.mu.Lock()
		for _, cs := range r.conns {
			for _, c := range cs {
				c.Close()
			}
		}
		r.mu.Unlock()
	}()
	r.emit(ev{"op": "Init", "cap": 0, "port": 0, "cip": [2]int{-1, -1}, "bl": true, "pool": []int{}})
	r.emit(ev{"op": "CInit", "kind": sc.kind, "variant": sc.variant, "out": sc.out, "inc": sc.inc, "trk": sc.trk, "self": ipHalves(selfIP), "sport": 0})

	// the first list: 127.0.0.40/29, .50/31, .52/32 (written with host bits / as several lines in some variants)
	list1 := []line{cidr("127.0.0.40", 29), cidr("127.0.0.50", 31), cidr("127.0.0.52", 32)}
	switch sc.variant % 3 {
	case 1:
		list1 = []line{cidr("127.0.0.45", 29), cidr("127.0.0.51", 31), cidr("127.0.0.52", 32), cidr("127.0.0.52", 32)}
	case 2:
		list1 = []line{cidr("127.0.0.40", 30), cidr("127.0.0.44", 30), cidr("127.0.0.50", 32), cidr("127.0.0.51", 32), cidr("127.0.0.52", 31)}
		// .52/31 also covers .53 (unused)
	}
	bls := startBlServer()
	defer bls.srv.Close()
	bls.lines = list1

	var mpMu sync.Mutex
	var mainPeers func(port int) []*net.TCPAddr
	setMainPeers := func(f func(port int) []*net.TCPAddr) { mpMu.Lock(); mainPeers = f; mpMu.Unlock() }
	mainTrk, err := vh.StartHTTPTracker(nil, "main", func(q vh.AnnReq) vh.AnnReply {
		mpMu.Lock()
		f := mainPeers
		mpMu.Unlock()
		if q.Event == "stopped" || f == nil {
			return vh.AnnReply{Interval: vh.I64(1800)}
		}
		return vh.AnnReply{Interval: vh.I64(1800), Peers: f(q.Port)}
	})
	if err != nil {
		panic(err)
	}
	defer mainTrk.Close()

	emptyReply := vh.Enc(vh.Dict{"interval": 1800, "peers": []byte{}})
	trackers := [][]string{{mainTrk.URL()}}
	var webseeds []string
	npieces := 3
	controls := map[string]func() bool{}
	ctl := func(name string, f func() bool) { controls[name] = f }
	dialled := func(a *net.TCPAddr) func() bool { return func() bool { return r.count(r.dials, a.String()) > 0 } }

	// ---- scripted environment per kind
	var manOk, manB, trkOk, trkB, pexOk, pexB *net.TCPAddr
	var a1, a2, cCtl, inL, hang, hang2, later, ok1, ok2, xL, yCtl, x2, pexP *net.TCPAddr
	var phase2 atomic.Bool             // banrs: the torrent has been restarted
	var xLp atomic.Pointer[net.TCPAddr] // banrs: address of the corrupting listener (known after the torrent is built)
	gate := make(chan struct{})        // bandup: the corrupting peer answers only after the gate is opened
	var tor *vh.Torrent
	switch sc.kind {
	case "static":
		pexOk = r.listen("127.0.0.26", "hs", false, nil)
		pexB = r.listen("127.0.0.44", "hs", false, nil)
		manOk = r.listen("127.0.0.21", "hs", true, func(c *vh.Conn) { // this peer tells the client about two more peers (ut_pex)
			c.Send(vh.Msg{ID: vh.MsgExtended, ExtID: 0, Data: vh.Enc(vh.Dict{"m": vh.Dict{"ut_pex": 1}, "v": "vh-c18"})})
			time.Sleep(80 * time.Millisecond) // the client's extension handshake has been processed by then
			add := append(compactAddr(pexOk), compactAddr(pexB)...)
			r.emit(ev{"op": "CNote", "what": "pex-offer", "a": pexOk.String() + "," + pexB.String()})
			c.Send(vh.Msg{ID: vh.MsgExtended, ExtID: 2, Data: vh.Enc(vh.Dict{"added": add, "added.f": []byte{0, 0}, "dropped": []byte{}})})
		})
		manB = r.listen("127.0.0.41", "hs", false, nil)
		trkOk = r.listen("127.0.0.22", "hs", false, nil)
		trkB = r.listen("127.0.0.42", "hs", false, nil)
		r.watch["127.0.0.70"] = 0
		setMainPeers(func(port int) []*net.TCPAddr {
			r.mu.Lock()
			r.watch[selfIP] = port
			r.mu.Unlock()
			r.emit(ev{"op": "CNote", "what": "tracker-offer", "a": fmt.Sprintf("%s,%s,127.0.0.70:0,%s:%d", trkOk, trkB, selfIP, port)})
			return compactPeers(trkOk, trkB, &net.TCPAddr{IP: net.ParseIP("127.0.0.70"), Port: 0}, &net.TCPAddr{IP: net.ParseIP(selfIP), Port: port})
		})
		trackers = append(trackers,
			[]string{r.httpOn("127.0.0.24", "CAnnounce", emptyReply, 0) + "/announce"},
			[]string{r.httpOn("127.0.0.50", "CAnnounce", emptyReply, 0) + "/announce"},
			[]string{r.udpOn("127.0.0.52")})
		webseeds = []string{r.httpOn("127.0.0.25", "CWebseed", []byte("no"), 404) + "/", r.httpOn("127.0.0.51", "CWebseed", []byte("no"), 404) + "/"}
		npieces = 8
		ctl("manual-ok-dialled", dialled(manOk))
		ctl("tracker-ok-dialled", dialled(trkOk))
		ctl("pex-ok-dialled", dialled(pexOk))
		ctl("incoming-ok-accepted", func() bool { return r.count(r.accepts, "127.0.0.23") > 0 })
		ctl("tracker-ok-announced", func() bool { return r.count(r.reqs, "127.0.0.24") > 0 })
		ctl("webseed-ok-requested", func() bool { return r.count(r.reqs, "127.0.0.25") > 0 })
	case "dup":
		a1 = r.listen("127.0.0.21", "hs", false, nil)
		a2 = r.listen("127.0.0.21", "hs", false, nil)
		cCtl = r.listen("127.0.0.27", "hs", false, nil)
		inL = r.listen("127.0.0.23", "hs", false, nil)
		hang = r.listen("127.0.0.30", "hang", false, nil)
		hang2 = r.listen("127.0.0.30", "hs", false, nil)
		ctl("first-address-dialled", dialled(a1))
		ctl("control-dialled", dialled(cCtl))
		ctl("incoming-ok-accepted", func() bool { return r.count(r.accepts, "127.0.0.23") > 0 })
		ctl("hanging-listener-dialled", dialled(hang))
	case "yourip":
		// a peer tells the client its external address (yourip); the tracker then returns that address with the
		// client's own port.  The address is not local: a dial shows up in the client's own state only.
		manOk = r.listen("127.0.0.21", "hs", true, func(c *vh.Conn) {
			c.Send(vh.Msg{ID: vh.MsgExtended, ExtID: 0, Data: vh.Enc(vh.Dict{"m": vh.Dict{}, "v": "vh-c18", "yourip": []byte{10, 9, 8, byte(7 + sc.variant)}})})
		})
		cCtl = r.listen("127.0.0.27", "hs", false, nil)
		ctl("peer-dialled", dialled(manOk))
		ctl("control-dialled", dialled(cCtl))
	case "reload":
		hang = r.listen("127.0.0.30", "hang", false, nil)
		later = r.listen("127.0.0.60", "hsclose", false, nil)
		ok1 = r.listen("127.0.0.31", "hsclose", false, nil)
		ok2 = r.listen("127.0.0.32", "hsclose", false, nil)
		ctl("queued-ok1-dialled", dialled(ok1))
		ctl("queued-ok2-dialled", dialled(ok2))
	case "banned", "banq":
		hang = r.listen("127.0.0.30", "hang", false, nil)
		yCtl = r.listen("127.0.0.29", "hsclose", false, nil)
		ctl("control-dialled", dialled(yCtl))
	case "banrs":
		// ban, then stop/start (or Verify) of the torrent, then the banned IP is offered again by every source.
		// x2: the banned IP under a second port; pexP: a peer that (after the restart) tells the client about the banned
		// address and about the control address pexOk through ut_pex; yCtl / pexOk are only offered after the restart.
		yCtl = r.listen("127.0.0.29", "hsclose", false, nil)
		x2 = r.listen("127.0.0.28", "hs", false, nil)
		pexOk = r.listen("127.0.0.26", "hs", false, nil)
		pexP = r.listen("127.0.0.21", "hs", true, func(c *vh.Conn) {
			c.Send(vh.Msg{ID: vh.MsgExtended, ExtID: 0, Data: vh.Enc(vh.Dict{"m": vh.Dict{"ut_pex": 1}, "v": "vh-c18"})})
			time.Sleep(80 * time.Millisecond)
			if !phase2.Load() {
				return
			}
			add := append(append(compactAddr(pexOk), compactAddr(xLp.Load())...), compactAddr(x2)...)
			r.emit(ev{"op": "CNote", "what": "pex-offer", "a": pexOk.String() + "," + xLp.Load().String() + "," + x2.String()})
			c.Send(vh.Msg{ID: vh.MsgExtended, ExtID: 2, Data: vh.Enc(vh.Dict{"added": add, "added.f": []byte{0, 0, 0}, "dropped": []byte{}})})
		})
		ctl("control-dialled-after-restart", dialled(yCtl))
		ctl("pex-control-dialled-after-restart", dialled(pexOk))
	case "bandup":
		// one dial slot, held by the corrupting peer itself; the same IP is queued under a second port meanwhile
		yCtl = r.listen("127.0.0.29", "hsclose", false, nil)
		x2 = r.listen("127.0.0.28", "hs", false, nil)
		r.banPort["127.0.0.28"] = x2.Port
		ctl("control-dialled", dialled(yCtl))
	}
	lay := vh.Layout{Name: fmt.Sprintf("c18-%s-%d", sc.kind, sc.variant), PieceLen: 16384, Files: []vh.FileSpec{{Length: int64(npieces)*16384 - 100}}}
	tor = vh.Build(lay, seed, trackers, webseeds)

	// the corrupting seeder of the ban scenarios (address X = 127.0.0.28)
	corrupt := &vh.SeederPolicy{NoExt: true, Reply: func(s *vh.Seeder, req vh.Msg) ([]vh.Msg, bool) {
		m := s.HonestPiece(req)
		if len(m.Data) > 0 {
			m.Data[len(m.Data)/2] ^= 0xff
		}
		return []vh.Msg{m}, true
	}}
	if sc.kind == "bandup" {
		inner := corrupt.Reply
		corrupt = &vh.SeederPolicy{NoExt: true, Reply: func(s *vh.Seeder, req vh.Msg) ([]vh.Msg, bool) {
			select {
			case <-gate:
			case <-time.After(8 * time.Second):
			}
			return inner(s, req)
		}}
	}
	if sc.kind == "banned" || sc.kind == "banq" || sc.kind == "banrs" || sc.kind == "bandup" {
		l, err := vh.ListenSeeder(vhNul, "X", "127.0.0.28", tor, corrupt, func(s *vh.Seeder) {
			a := s.C.LocalAddr().(*net.TCPAddr)
			r.dialSeen("127.0.0.28", a.Port, a.String())
			r.connUp("127.0.0.28", "connected")
			r.mu.Lock()
			r.dials[a.String()]++
			r.mu.Unlock()
			go func() {
				<-s.Done()
				r.connDown("127.0.0.28")
			}()
		})
		if err != nil {
			panic(err)
		}
		r.lst = append(r.lst, l.L)
		xL = l.Addr
		xLp.Store(xL)
	}

	cfg, err := vh.BaseConfig(dir, 4)
	if err != nil {
		panic(err)
	}
	os.Remove(cfg.Database)
	prov := vh.NewMemProvider(vhNul)
	prov.Truth[""] = tor
	prov.Quiet = true
	cfg.CustomStorage = prov
	cfg.PEXEnabled = true
	cfg.DisableOutgoingEncryption = true
	cfg.PeerHandshakeTimeout = 8 * time.Second
	cfg.BlocklistURL = bls.url
	cfg.BlocklistUpdateInterval = 150 * time.Millisecond
	cfg.BlocklistEnabledForOutgoingConnections = sc.out
	cfg.BlocklistEnabledForIncomingConnections = sc.inc
	cfg.BlocklistEnabledForTrackers = sc.trk
	if sc.kind == "reload" || sc.kind == "banq" || sc.kind == "bandup" {
		cfg.MaxPeerDial = 1
	}
	sess, err := torrent.NewSession(cfg)
	if err != nil {
		panic(err)
	}
	defer sess.Close()
	finish := func(ok bool, missing []string) {
		if missing == nil {
			missing = []string{}
		}
		r.emit(ev{"op": "CEnd", "ok": ok, "missing": missing, "kind": sc.kind})
		cmu.Lock()
		r.ended = true
		cmu.Unlock()
	}
	if !bls.load(r, sess, list1) {
		finish(false, []string{"blocklist-not-loaded"})
		return
	}
	tr, err := sess.AddTorrent(bytes.NewReader(tor.Bytes), &torrent.AddTorrentOptions{ID: fmt.Sprintf("c18c%d", time.Now().UnixNano())})
	if err != nil {
		panic(err)
	}
	r.mu.Lock()
	r.tid = tr.ID()
	r.mu.Unlock()
	if !r.waitFor(5*time.Second, func() bool {
		r.mu.Lock()
		defer r.mu.Unlock()
		return r.last != nil && r.last.Acceptor && r.last.Status == "Downloading"
	}) {
		finish(false, []string{"torrent-not-downloading"})
		return
	}
	port := tr.Port()
	r.emit(ev{"op": "CSelf", "self": ipHalves(selfIP), "sport": port})
	offer := func(a *net.TCPAddr) {
		r.emit(ev{"op": "CNote", "what": "manual-offer", "a": a.String()})
		if err := tr.AddPeer(a.String()); err != nil {
			panic(err)
		}
	}
	connected := func(ip string) func() bool {
		return func() bool {
			r.mu.Lock()
			defer r.mu.Unlock()
			if r.last == nil {
				return false
			}
			for _, x := range r.last.ConnectedIPs {
				if x == ip {
					return true
				}
			}
			return false
		}
	}
	isBanned := func(ip string) func() bool {
		return func() bool { r.mu.Lock(); defer r.mu.Unlock(); return r.banned[ip] }
	}
	closeConns := func(ip string) {
		r.mu.Lock()
		cs := r.conns[ip]
		r.mu.Unlock()
		for _, c := range cs {
			c.Close()
		}
	}

	switch sc.kind {
	case "static":
		offer(manOk)
		offer(manB)
		r.dialIn("127.0.0.23", port, tor.InfoHash, true)
		r.dialIn("127.0.0.43", port, tor.InfoHash, true)
	case "dup":
		offer(a1)
		offer(hang)
		r.dialIn("127.0.0.23", port, tor.InfoHash, true)
		if !r.waitFor(4*time.Second, func() bool {
			return connected("127.0.0.21")() && connected("127.0.0.23")() && r.count(r.dials, hang.String()) > 0
		}) {
			finish(false, []string{"first-connections"})
			return
		}
		// the same IPs again under other ports while connected / connecting, and one fresh address as control
		offer(a2)
		offer(inL)
		offer(hang2)
		offer(cCtl)
		setMainPeers(func(int) []*net.TCPAddr { return compactPeers(a2, inL, hang2) })
		tr.Announce()
	case "yourip":
		offer(manOk)
		if !r.waitFor(4*time.Second, connected("127.0.0.21")) {
			finish(false, []string{"peer-not-connected"})
			return
		}
		time.Sleep(250 * time.Millisecond) // the extension handshake has been handled by then
		ext := fmt.Sprintf("10.9.8.%d", 7+sc.variant)
		r.mu.Lock()
		r.watch[ext] = port
		r.mu.Unlock()
		r.emit(ev{"op": "CSelf", "self": ipHalves(ext), "sport": port})
		own := &net.TCPAddr{IP: net.ParseIP(ext), Port: port}
		r.emit(ev{"op": "CNote", "what": "tracker-offer", "a": own.String() + "," + cCtl.String()})
		setMainPeers(func(int) []*net.TCPAddr { return compactPeers(own, cCtl) })
		tr.Announce()
	case "reload":
		offer(hang)
		if !r.waitFor(4*time.Second, func() bool { return r.count(r.dials, hang.String()) > 0 }) {
			finish(false, []string{"hanging-listener"})
			return
		}
		// the only dial slot is busy: these stay queued
		offer(later)
		offer(ok1)
		offer(ok2)
		time.Sleep(100 * time.Millisecond)
		list2 := append(append([]line(nil), list1...), cidr("127.0.0.60", 32))
		if sc.variant%2 == 1 {
			list2 = append(append([]line(nil), list1...), cidr("127.0.0.56", 29))
		}
		if !bls.load(r, sess, list2) {
			finish(false, []string{"blocklist-not-reloaded"})
			return
		}
		r.emit(ev{"op": "CNote", "what": "release-dial-slot"})
		closeConns("127.0.0.30")
	case "banned":
		offer(xL)
		if !r.waitFor(6*time.Second, isBanned("127.0.0.28")) {
			finish(false, []string{"ban-not-observed"})
			return
		}
		r.waitFor(2*time.Second, func() bool { return !connected("127.0.0.28")() })
		time.Sleep(50 * time.Millisecond)
		// the banned address again: by the user, by the tracker, and dialling in itself
		offer(xL)
		setMainPeers(func(int) []*net.TCPAddr { return compactPeers(xL) })
		tr.Announce()
		offer(yCtl)
		if r.dialIn("127.0.0.28", port, tor.InfoHash, false) {
			r.emit(ev{"op": "CNote", "what": "banned-ip-accepted-incoming", "a": "127.0.0.28"})
		}
	case "banrs":
		offer(xL)
		if !r.waitFor(6*time.Second, isBanned("127.0.0.28")) {
			finish(false, []string{"ban-not-observed"})
			return
		}
		r.waitFor(2*time.Second, func() bool { return !connected("127.0.0.28")() })
		time.Sleep(50 * time.Millisecond)
		status := func(want string) func() bool {
			return func() bool { r.mu.Lock(); defer r.mu.Unlock(); return r.last != nil && r.last.Status == want }
		}
		running := func() bool {
			r.mu.Lock()
			defer r.mu.Unlock()
			return r.last != nil && r.last.Acceptor && r.last.Status == "Downloading"
		}
		// the tracker returns the banned address (both ports) from now on: also in its answer to the 'started' announce
		setMainPeers(func(int) []*net.TCPAddr {
			r.emit(ev{"op": "CNote", "what": "tracker-offer", "a": xL.String() + "," + x2.String()})
			return compactPeers(xL, x2)
		})
		rounds := 1
		if sc.variant%3 == 2 {
			rounds = 2
		}
		for k := 0; k < rounds; k++ {
			if sc.variant%3 == 1 {
				// Verify on the running torrent: stops it, checks the data, leaves it stopped
				r.emit(ev{"op": "CNote", "what": "verify"})
				if err := tr.Verify(); err != nil {
					panic(err)
				}
				r.waitFor(3*time.Second, func() bool { return status("Verifying")() || status("Stopped")() })
				r.waitFor(5*time.Second, func() bool { return status("Stopped")() || running() })
			} else {
				r.emit(ev{"op": "CNote", "what": "stop"})
				if err := tr.Stop(); err != nil {
					panic(err)
				}
				if !r.waitFor(5*time.Second, status("Stopped")) {
					finish(false, []string{"torrent-not-stopped"})
					return
				}
			}
			if !running() {
				r.emit(ev{"op": "CNote", "what": "start"})
				if err := tr.Start(); err != nil {
					panic(err)
				}
			}
			if !r.waitFor(5*time.Second, running) {
				finish(false, []string{"torrent-not-restarted"})
				return
			}
			port = tr.Port()
			r.emit(ev{"op": "CSelf", "self": ipHalves(selfIP), "sport": port})
			phase2.Store(true)
			// the banned address again: by the user, by the tracker (answer to 'started' and to a manual announce),
			// through ut_pex of another peer, and dialling in itself
			offer(xL)
			offer(x2)
			tr.Announce()
			offer(pexP)
			if r.dialIn("127.0.0.28", port, tor.InfoHash, false) {
				r.emit(ev{"op": "CNote", "what": "banned-ip-accepted-incoming", "a": "127.0.0.28"})
			}
			time.Sleep(150 * time.Millisecond)
		}
		offer(yCtl)
	case "bandup":
		offer(xL)
		if !r.waitFor(4*time.Second, func() bool {
			r.mu.Lock()
			defer r.mu.Unlock()
			return r.last != nil && r.last.Outgoing == 1 && r.dials[xL.String()] > 0
		}) {
			finish(false, []string{"corrupting-peer-not-connected"})
			return
		}
		// the same IP under a second port: stays queued, the only dial slot is held by the first connection
		offer(x2)
		if !r.waitFor(3*time.Second, func() bool { r.mu.Lock(); defer r.mu.Unlock(); return r.last != nil && r.last.AddrListLen >= 1 }) {
			finish(false, []string{"second-address-not-queued"})
			return
		}
		r.emit(ev{"op": "CNote", "what": "corrupt-data-released"})
		close(gate)
		if !r.waitFor(6*time.Second, isBanned("127.0.0.28")) {
			finish(false, []string{"ban-not-observed"})
			return
		}
		time.Sleep(100 * time.Millisecond)
		closeConns("127.0.0.28") // frees the dial slot if the second port was dialled
		offer(yCtl)
	case "banq":
		offer(hang)
		if !r.waitFor(4*time.Second, func() bool { return r.count(r.dials, hang.String()) > 0 }) {
			finish(false, []string{"hanging-listener"})
			return
		}
		offer(xL) // stays queued: the only dial slot is busy
		time.Sleep(80 * time.Millisecond)
		sd, err := vh.ConnectSeeder(vhNul, "Xin", "127.0.0.28", fmt.Sprintf("127.0.0.1:%d", port), tor, corrupt)
		if err != nil {
			finish(false, []string{"seeder-not-accepted"})
			return
		}
		r.emit(ev{"op": "CAccept", "ip": ipHalves("127.0.0.28"), "a": "127.0.0.28"})
		r.connUp("127.0.0.28", "connected")
		if !r.waitFor(6*time.Second, isBanned("127.0.0.28")) {
			finish(false, []string{"ban-not-observed"})
			return
		}
		select {
		case <-sd.Done():
		case <-time.After(2 * time.Second):
			sd.Close()
		}
		r.connDown("127.0.0.28")
		r.waitFor(2*time.Second, func() bool { return !connected("127.0.0.28")() })
		offer(yCtl)
		time.Sleep(80 * time.Millisecond)
		r.emit(ev{"op": "CNote", "what": "release-dial-slot"})
		closeConns("127.0.0.30")
	}

	// positive controls first, then the settle window for the negative observations
	var missing []string
	r.waitFor(5*time.Second, func() bool {
		missing = missing[:0]
		for name, f := range controls {
			if !f() {
				missing = append(missing, name)
			}
		}
		return len(missing) == 0
	})
	if len(missing) > 0 {
		finish(false, missing)
		return
	}
	time.Sleep(sc.settle)
	finish(true, nil)
}

func compactAddr(a *net.TCPAddr) []byte {
	b := append([]byte(nil), a.IP.To4()...)
	return binary.BigEndian.AppendUint16(b, uint16(a.Port))
}

// modeContact runs the scenarios named in spec ("kind:out:inc:trk:variant,..."), sequentially.
func modeContact(spec string, seed int64, settleMs int) {
	torrent.DisableLogging()
	vhNul, _ = vh.NewTracer("")
	dir, err := os.MkdirTemp(".", "c18c")
	if err != nil {
		panic(err)
	}
	defer os.RemoveAll(dir)
	for i, s := range strings.Split(spec, ",") {
		f := strings.Split(s, ":")
		if len(f) != 5 {
			panic("bad scenario " + s)
		}
		var v int
		fmt.Sscan(f[4], &v)
		sc := cScenario{kind: f[0], out: f[1] == "1", inc: f[2] == "1", trk: f[3] == "1", variant: v, settle: time.Duration(settleMs) * time.Millisecond}
		fmt.Printf("BEGIN %d %s\n", i, s)
		runContact(sc, dir, seed+int64(i))
		cmu.Lock()
		out.Flush()
		cmu.Unlock()
		fmt.Printf("END %d\n", i)
	}
}
