// Command x02 drives the real PEX sender of rain (internal/peer/pex.go + internal/pexlist) the way the torrent loop
// does (torrent_peer.go startPeer, torrent_messagehandler.go extension handshake, torrent_close.go closePeer,
// torrent_pex.go) and records, per remote peer, what it was told: the ut_pex messages are decoded from the bytes the
// real peerconn writer puts on the peer's (fake) socket.  The real pex goroutine runs with its real one-minute ticker
// under the fake clock of testing/synctest, so a history of many minutes takes milliseconds and is deterministic.
//
//	x02 -out f -seed N [-n 40] [-big 3] [-scripts s.ndjson]
package main

import (
	"bufio"
	"encoding/binary"
	"encoding/json"
	"flag"
	"fmt"
	"io"
	"math/rand"
	"net"
	"os"
	"sort"
	"sync"
	"testing"
	"testing/synctest"
	"time"

	"github.com/cenkalti/rain/v2/internal/logger"
	"github.com/cenkalti/rain/v2/internal/peer"
	"github.com/cenkalti/rain/v2/internal/peerconn"
	"github.com/cenkalti/rain/v2/internal/peerprotocol"
	"github.com/cenkalti/rain/v2/internal/pexlist"
)

type ev map[string]any

const pexExtID = 7 // the id the remote peer announced for ut_pex in its extension handshake

func addrOf(id int) *net.TCPAddr {
	return &net.TCPAddr{IP: net.IPv4(10, 1, byte(id>>8), byte(id)), Port: 6881 + id%7}
}

func idOf(b []byte) int { // 6 bytes of a compact peer -> id (0 = not an address of this harness)
	if len(b) != 6 || b[0] != 10 || b[1] != 1 {
		return 0
	}
	id := int(b[2])<<8 | int(b[3])
	if id == 0 || int(binary.BigEndian.Uint16(b[4:])) != 6881+id%7 {
		return 0
	}
	return id
}

// fakeConn: the peer's socket.  Read blocks until Close; Write records the bytes with the (fake) time.
type wr struct {
	at time.Time
	b  []byte
}
type fakeConn struct {
	remote *net.TCPAddr
	mu     sync.Mutex
	writes []wr
	closed chan struct{}
	once   sync.Once
}

func newFakeConn(a *net.TCPAddr) *fakeConn { return &fakeConn{remote: a, closed: make(chan struct{})} }
func (c *fakeConn) Read(b []byte) (int, error) {
	<-c.closed
	return 0, io.EOF
}
func (c *fakeConn) Write(b []byte) (int, error) {
	select {
	case <-c.closed:
		return 0, io.ErrClosedPipe
	default:
	}
	c.mu.Lock()
	c.writes = append(c.writes, wr{time.Now(), append([]byte(nil), b...)})
	c.mu.Unlock()
	return len(b), nil
}
func (c *fakeConn) Close() error                     { c.once.Do(func() { close(c.closed) }); return nil }
func (c *fakeConn) LocalAddr() net.Addr              { return &net.TCPAddr{IP: net.IPv4(10, 0, 0, 1), Port: 50000} }
func (c *fakeConn) RemoteAddr() net.Addr             { return c.remote }
func (c *fakeConn) SetDeadline(time.Time) error      { return nil }
func (c *fakeConn) SetReadDeadline(time.Time) error  { return nil }
func (c *fakeConn) SetWriteDeadline(time.Time) error { return nil }

// minimal bencode reader for a dictionary of byte strings (independent of rain's bencode)
func decodeDict(b []byte) (map[string][]byte, bool) {
	if len(b) < 2 || b[0] != 'd' {
		return nil, false
	}
	i := 1
	str := func() ([]byte, bool) {
		n := 0
		j := i
		for j < len(b) && b[j] >= '0' && b[j] <= '9' {
			n = n*10 + int(b[j]-'0')
			j++
		}
		if j == i || j >= len(b) || b[j] != ':' || j+1+n > len(b) {
			return nil, false
		}
		s := b[j+1 : j+1+n]
		i = j + 1 + n
		return s, true
	}
	out := map[string][]byte{}
	for i < len(b) && b[i] != 'e' {
		k, ok := str()
		if !ok {
			return nil, false
		}
		v, ok := str()
		if !ok {
			return nil, false
		}
		out[string(k)] = v
	}
	if i != len(b)-1 {
		return nil, false
	}
	return out, true
}

type tpeer struct {
	id     int
	addr   *net.TCPAddr
	fc     *fakeConn
	pe     *peer.Peer
	run    bool // peerconn.Conn.Run started (PEX peers only)
	t0     time.Time
	nread  int
	tr     []ev
	closed bool
	res    int
}

type sim struct {
	rng   *rand.Rand
	peers map[int]*tpeer          // t.peers
	pmap  map[*peer.Peer]struct{} // the map handed to StartPEX
	rs    pexlist.RecentlySeen    // t.recentlySeen
	rsTr  []ev
	all   []*tpeer    // every peer that ever had PEX, in start order
	resid map[int]int // second-of-minute residues of the flush instants of the running PEX goroutines
	epoch time.Time
	bad   string
}

func (s *sim) now() int   { return int(time.Since(s.epoch) / time.Second) }
func (p *tpeer) rel() int { return int(time.Since(p.t0) / time.Second) }

func ids(m map[int]*tpeer) []int {
	var out []int
	for id := range m {
		out = append(out, id)
	}
	sort.Ints(out)
	return out
}

// collect turns the bytes written to the socket of p since the last call into Msg events.
func (s *sim) collect(p *tpeer) {
	p.fc.mu.Lock()
	ws := p.fc.writes[p.nread:]
	p.nread = len(p.fc.writes)
	p.fc.mu.Unlock()
	for _, w := range ws {
		b := w.b
		for len(b) >= 4 {
			n := int(binary.BigEndian.Uint32(b))
			if n == 0 { // keep-alive
				b = b[4:]
				continue
			}
			if 4+n > len(b) {
				s.bad = "short frame"
				return
			}
			body := b[4 : 4+n]
			b = b[4+n:]
			if body[0] != 20 {
				s.bad = fmt.Sprintf("unexpected message id %d", body[0])
				continue
			}
			if len(body) < 2 || body[1] != pexExtID {
				s.bad = fmt.Sprintf("extension message with id %d", body[1])
				continue
			}
			d, ok := decodeDict(body[2:])
			if !ok || len(d["added"])%6 != 0 || len(d["dropped"])%6 != 0 {
				s.bad = "undecodable ut_pex payload"
				continue
			}
			conv := func(v []byte) []int {
				out := []int{}
				for i := 0; i+6 <= len(v); i += 6 {
					out = append(out, idOf(v[i:i+6]))
				}
				return out
			}
			p.tr = append(p.tr, ev{"op": "Msg", "t": int(w.at.Sub(p.t0) / time.Second), "added": conv(d["added"]), "dropped": conv(d["dropped"])})
		}
	}
}

func (s *sim) settle(checkpoint bool) {
	synctest.Wait()
	for _, p := range s.all {
		s.collect(p)
		if checkpoint && !p.closed {
			p.tr = append(p.tr, ev{"op": "At", "t": p.rel()})
		}
	}
}

// wait lets d seconds of fake time pass and makes sure that the next operation does not fall on a flush instant.
func (s *sim) wait(d int) {
	if d > 0 {
		time.Sleep(time.Duration(d) * time.Second)
	}
	for s.resid[s.now()%60] > 0 {
		time.Sleep(time.Second)
	}
	s.settle(true)
}

func (s *sim) pexAdd(a *net.TCPAddr, id int) { // torrent_pex.go pexAddPeer
	for _, q := range ids(s.peers) {
		p := s.peers[q]
		if p.pe.PEX != nil {
			p.pe.PEX.Add(a)
			p.tr = append(p.tr, ev{"op": "Add", "a": id, "t": p.rel()})
		}
	}
}

func (s *sim) pexDrop(a *net.TCPAddr, id int) { // torrent_pex.go pexDropPeer
	for _, q := range ids(s.peers) {
		p := s.peers[q]
		if p.pe.PEX != nil {
			p.pe.PEX.Drop(a)
			p.tr = append(p.tr, ev{"op": "Drop", "a": id, "t": p.rel()})
		}
	}
}

func (s *sim) connect(id int) bool { // torrent_peer.go startPeer
	if _, ok := s.peers[id]; ok {
		return false
	}
	a := addrOf(id)
	s.pexAdd(a, id)
	fc := newFakeConn(a)
	p := &tpeer{id: id, addr: a, fc: fc}
	p.pe = &peer.Peer{Conn: peerconn.New(fc, logger.New("x02"), time.Minute, 10, 1<<20, true, nil, nil)}
	s.peers[id] = p
	s.pmap[p.pe] = struct{}{}
	s.rs.Add(a)
	lst := []int{}
	for _, cp := range s.rs.Peers() {
		b, _ := cp.MarshalBinary()
		lst = append(lst, idOf(b))
	}
	s.rsTr = append(s.rsTr, ev{"op": "RsAdd", "a": id, "list": lst, "len": s.rs.Len()})
	return true
}

func (s *sim) dup(id int) bool { // startPeer, "peer with same id already connected": add, then drop
	if _, ok := s.peers[id]; ok {
		return false
	}
	a := addrOf(id)
	s.pexAdd(a, id)
	s.pexDrop(a, id)
	return true
}

func (s *sim) exths(id int) bool { // extension handshake announcing ut_pex on a public torrent
	p, ok := s.peers[id]
	if !ok || p.pe.PEX != nil {
		return false
	}
	p.pe.ExtensionHandshake = &peerprotocol.ExtensionHandshakeMessage{M: map[string]uint8{peerprotocol.ExtensionKeyPEX: pexExtID}}
	go p.pe.Conn.Run()
	p.run = true
	recent := []int{}
	for _, cp := range s.rs.Peers() {
		b, _ := cp.MarshalBinary()
		recent = append(recent, idOf(b))
	}
	p.t0 = time.Now()
	p.res = s.now() % 60
	s.resid[p.res]++
	p.tr = append(p.tr, ev{"op": "Init", "self": id, "L": 50, "R": 25},
		ev{"op": "Start", "t": 0, "initial": ids(s.peers), "recent": recent})
	s.all = append(s.all, p)
	p.pe.StartPEX(s.pmap, &s.rs)
	s.settle(false) // the first flush happens at once
	return true
}

func (s *sim) closeConn(p *tpeer) { // Peer.Close: PEX.close(), then Conn.Close()
	if p.pe.PEX != nil && !p.closed {
		peer.VerifClosePEX(p.pe)
		p.closed = true
		s.resid[p.res]--
		s.settle(false)
		p.tr = append(p.tr, ev{"op": "Close", "t": p.rel()})
	}
	if p.run {
		p.pe.Conn.Close()
		p.run = false
	}
}

func (s *sim) disconnect(id int) bool { // torrent_close.go closePeer
	p, ok := s.peers[id]
	if !ok {
		return false
	}
	s.closeConn(p)
	delete(s.peers, id)
	delete(s.pmap, p.pe)
	s.pexDrop(p.addr, id)
	return true
}

func (s *sim) finish(w *bufio.Writer) int {
	s.wait(130)
	for _, id := range ids(s.peers) {
		s.closeConn(s.peers[id])
	}
	s.settle(false)
	n := 0
	put := func(e ev) {
		b, _ := json.Marshal(e)
		w.Write(b)
		w.WriteByte('\n')
		n++
	}
	for _, p := range s.all {
		for _, e := range p.tr {
			put(e)
		}
		if s.bad != "" {
			put(ev{"op": "Panic", "msg": s.bad})
		}
	}
	if len(s.rsTr) > 0 {
		put(ev{"op": "Init", "self": 0, "L": 50, "R": 25})
		for _, e := range s.rsTr {
			put(e)
		}
	}
	return n
}

func newSim(rng *rand.Rand) *sim {
	return &sim{rng: rng, peers: map[int]*tpeer{}, pmap: map[*peer.Peer]struct{}{}, resid: map[int]int{}, epoch: time.Now()}
}

// small: a handful of addresses, every kind of step, waits of up to a few minutes
func (s *sim) small() {
	na := 3 + s.rng.Intn(6)
	steps := 25 + s.rng.Intn(45)
	for i := 0; i < steps; i++ {
		id := 1 + s.rng.Intn(na)
		switch d := s.rng.Intn(100); {
		case d < 28:
			s.connect(id)
		case d < 48:
			s.exths(id)
		case d < 63:
			s.disconnect(id)
		case d < 68:
			s.dup(id)
		case d < 85:
			s.wait(1 + s.rng.Intn(50))
		default:
			s.wait(55 + s.rng.Intn(130))
		}
		s.settle(false)
	}
}

// big: bursts of more than 50 connects / disconnects inside one minute, a late PEX start with more than 50 peers,
// more than 25 recently seen addresses
func (s *sim) big() {
	s.connect(1)
	s.exths(1)
	if s.rng.Intn(2) == 0 {
		s.connect(2)
		s.exths(2)
	}
	s.wait(5 + s.rng.Intn(100))
	n := 75 + s.rng.Intn(60)
	for i := 0; i < n; i++ {
		s.connect(10 + i)
		if s.rng.Intn(10) == 0 {
			s.wait(s.rng.Intn(3))
		}
	}
	s.wait(20 + s.rng.Intn(60))
	// a late joiner gets everything at once
	s.exths(10 + s.rng.Intn(n))
	s.wait(61 + s.rng.Intn(200))
	// mass disconnect, some of them before they were ever announced
	// (inside one flush period, and enough of them that more than 50 stay dropped after the reconnects below)
	m := 65 + s.rng.Intn(n-65+1)
	perm := s.rng.Perm(n)
	for i := 0; i < m; i++ {
		s.disconnect(10 + perm[i])
	}
	// some come back inside the same minute
	for i := 0; i < 10; i++ {
		s.connect(10 + perm[i])
	}
	s.wait(30)
	s.connect(3)
	s.exths(3)
	s.wait(61 * (2 + s.rng.Intn(4)))
}

type scriptOp struct {
	Op string `json:"op"`
	A  int    `json:"a"`
	D  int    `json:"d"`
}
type script struct {
	Ops []scriptOp `json:"ops"`
}

func (s *sim) replay(sc script) {
	for _, o := range sc.Ops {
		switch o.Op {
		case "Connect":
			s.connect(o.A)
		case "ExtHs":
			s.exths(o.A)
		case "Disconnect":
			s.disconnect(o.A)
		case "Dup":
			s.dup(o.A)
		case "Wait":
			s.wait(o.D)
		}
		s.settle(false)
	}
}

func main() {
	seed := flag.Int64("seed", 1, "")
	nsmall := flag.Int("n", 40, "number of small random histories")
	nbig := flag.Int("big", 3, "number of burst histories")
	scripts := flag.String("scripts", "", "ndjson file with TLC-generated histories")
	outp := flag.String("out", "trace.ndjson", "")
	testing.Init()
	flag.Parse()
	logger.Disable()
	testing.Main(func(pat, str string) (bool, error) { return true, nil },
		[]testing.InternalTest{{Name: "X02", F: func(t *testing.T) {
			f, err := os.Create(*outp)
			if err != nil {
				t.Fatal(err)
			}
			w := bufio.NewWriterSize(f, 1<<20)
			rng := rand.New(rand.NewSource(*seed))
			total, nh := 0, 0
			one := func(body func(s *sim)) {
				synctest.Test(t, func(t *testing.T) {
					s := newSim(rng)
					body(s)
					total += s.finish(w)
					nh++
				})
			}
			if *scripts != "" {
				sf, err := os.Open(*scripts)
				if err != nil {
					t.Fatal(err)
				}
				sc := bufio.NewScanner(sf)
				sc.Buffer(make([]byte, 1<<20), 1<<26)
				for sc.Scan() {
					var x script
					if json.Unmarshal(sc.Bytes(), &x) != nil || len(x.Ops) == 0 {
						continue
					}
					one(func(s *sim) { s.replay(x) })
				}
			}
			for i := 0; i < *nsmall; i++ {
				one(func(s *sim) { s.small() })
			}
			for i := 0; i < *nbig; i++ {
				one(func(s *sim) { s.big() })
			}
			w.Flush()
			f.Close()
			fmt.Printf("{\"events\":%d,\"histories\":%d}\n", total, nh)
		}}}, nil, nil)
}
