// Command x05: extension check X05 - moving a torrent between two sessions over RPC (Torrent.Move / handleMoveTorrent).
//
// The parent process is the "user": it talks to two REAL torrent.Session instances through their real RPC servers
// (rainrpc client: AddTorrent, StartTorrent, StopTorrent, RemoveTorrent, AddTracker, GetTorrentStats, MoveTorrent).
// Each session lives in a child process of this binary (sub-command `node`), so that a crash of a session is a real
// SIGKILL and a restart is a real NewSession on the same bbolt database and data directory.  The only things a node
// does on behalf of the parent are observations through overlay shims (registry, ports, database records, in-memory
// bitfield) and the database seams of C14 (hold the write transaction, plant a key).
// Between the source and the target RPC port sits a TCP proxy written here: it can refuse, cut the request after N
// bytes, stall it (while the parent kills a node, removes the torrent, adds a colliding id, ...), hold or drop the
// response.  Every step and every observation is one ndjson event; spec/Trace_Move.tla is the judge.
package main

import (
	"bufio"
	"bytes"
	"crypto/sha1"
	"encoding/hex"
	"encoding/json"
	"errors"
	"flag"
	"fmt"
	"io"
	"math/rand"
	"net"
	"net/http"
	"os"
	"os/exec"
	"path/filepath"
	"runtime"
	"sort"
	"strconv"
	"strings"
	"sync"
	"sync/atomic"
	"syscall"
	"time"

	"github.com/cenkalti/rain/v2/internal/verif/vh"
	"github.com/cenkalti/rain/v2/rainrpc"
	"github.com/cenkalti/rain/v2/torrent"
)

type J = map[string]any

// =====================================================================================================================
// node: one real session in a child process

type rawTorrent struct {
	ID       string
	IH       string
	Name     string
	Port     int
	Status   string
	Trackers [][]string
	HasBF    bool
	BF       string // hex
	NP       int
}

type rawRec struct {
	ID       string
	Port     int
	Started  bool
	IH       string
	Name     string
	Trackers [][]string
	HasBF    bool
	BF       string
}

type rawObs struct {
	Err     string
	Live    []rawTorrent
	Avail   []int
	Invalid []string
	ByIH    map[string][]string
	DB      []rawRec
	Loops   int
}

func torrentLoops() int {
	buf := make([]byte, 1<<20)
	for {
		n := runtime.Stack(buf, true)
		if n < len(buf) {
			return strings.Count(string(buf[:n]), "torrent.(*torrent).run(")
		}
		buf = make([]byte, 2*len(buf))
	}
}

func nodeObserve(s *torrent.Session) rawObs {
	var o rawObs
	v := torrent.VerifC14Snapshot(s)
	o.Avail = v.Avail
	o.Invalid = v.Invalid
	o.ByIH = v.ByInfoHash
	o.Loops = torrentLoops()
	for _, t := range s.ListTorrents() {
		ih := t.InfoHash()
		rt := rawTorrent{ID: t.ID(), IH: hex.EncodeToString(ih[:]), Name: t.Name(), Port: t.Port(), Trackers: torrent.VerifC14Trackers(t)}
		rt.Status = t.Stats().Status.String()
		b, n, ok := torrent.VerifX05MemBitfield(t)
		rt.HasBF, rt.BF, rt.NP = ok, hex.EncodeToString(b), int(n)
		o.Live = append(o.Live, rt)
	}
	sort.Slice(o.Live, func(i, j int) bool { return o.Live[i].ID < o.Live[j].ID })
	var ids []string
	for id := range v.Buckets {
		ids = append(ids, id)
	}
	sort.Strings(ids)
	for _, id := range ids {
		b := v.Buckets[id]
		r := rawRec{ID: id, IH: hex.EncodeToString(b["info_hash"]), Name: string(b["name"])}
		r.Port, _ = strconv.Atoi(string(b["port"]))
		r.Started = string(b["started"]) == "true"
		_ = json.Unmarshal(b["trackers"], &r.Trackers)
		r.HasBF = len(b["bitfield"]) > 0
		r.BF = hex.EncodeToString(b["bitfield"])
		o.DB = append(o.DB, r)
	}
	return o
}

func nodeMain(args []string) {
	fs := flag.NewFlagSet("node", flag.ExitOnError)
	dir := fs.String("dir", "", "")
	rpc := fs.Int("rpc", 0, "")
	pbase := fs.Int("pbase", 0, "")
	pn := fs.Int("pn", 0, "")
	rwi := fs.Int("rwi", 3600000, "resume write interval, ms")
	fs.Parse(args)
	if os.Getenv("VERIF_X05_LOG") == "" {
		torrent.DisableLogging()
	}
	out := bufio.NewWriter(os.Stdout)
	reply := func(v any) {
		b, _ := json.Marshal(v)
		out.Write(b)
		out.WriteByte('\n')
		out.Flush()
	}
	cfg := torrent.DefaultConfig
	cfg.Database = filepath.Join(*dir, "session.db")
	cfg.DataDir = filepath.Join(*dir, "data")
	cfg.Host = "127.0.0.1"
	cfg.PortBegin, cfg.PortEnd = uint16(*pbase), uint16(*pbase+*pn)
	cfg.MaxOpenFiles = 0
	cfg.DHTEnabled, cfg.PEXEnabled = false, false
	cfg.BlocklistURL = ""
	cfg.RPCEnabled, cfg.RPCHost, cfg.RPCPort = true, "127.0.0.1", *rpc
	cfg.RPCShutdownTimeout = time.Second
	cfg.ResumeWriteInterval = time.Duration(*rwi) * time.Millisecond
	cfg.ResumeOnStartup = true
	cfg.TrackerStopTimeout = 300 * time.Millisecond
	cfg.TrackerMinAnnounceInterval = 500 * time.Millisecond
	cfg.TrackerHTTPTimeout = 2 * time.Second
	cfg.HealthCheckInterval = 5 * time.Second
	cfg.HealthCheckTimeout = 60 * time.Second
	cfg.PeerConnectTimeout = 2 * time.Second
	cfg.PeerHandshakeTimeout = 3 * time.Second
	cfg.DNSResolveTimeout = time.Second
	s, err := torrent.NewSession(cfg)
	if err != nil {
		reply(J{"err": err.Error()})
		os.Exit(3)
	}
	reply(J{"ready": true})
	var release func()
	sc := bufio.NewScanner(os.Stdin)
	sc.Buffer(make([]byte, 1<<20), 1<<24)
	for sc.Scan() {
		var c J
		if json.Unmarshal(sc.Bytes(), &c) != nil {
			continue
		}
		switch c["cmd"] {
		case "obs":
			reply(nodeObserve(s))
		case "holddb":
			if release == nil {
				release = torrent.VerifC14HoldDB(s)
			}
			reply(J{"ok": true})
		case "releasedb":
			if release != nil {
				release()
				release = nil
			}
			reply(J{"ok": true})
		case "plant":
			reply(J{"ok": torrent.VerifC14PlantKey(s, c["id"].(string))})
		case "unplant":
			torrent.VerifC14UnplantKey(s, c["id"].(string))
			reply(J{"ok": true})
		case "close":
			if release != nil {
				release()
				release = nil
			}
			err := s.Close()
			if err != nil {
				reply(J{"ok": false, "err": err.Error()})
			} else {
				reply(J{"ok": true})
			}
			os.Exit(0)
		}
	}
	// the parent is gone
	os.Exit(0)
}

// =====================================================================================================================
// parent side handle of a node

type node struct {
	name      string
	dir       string
	rpc       int
	pbase, pn int
	rwi       int
	cmd       *exec.Cmd
	in        io.WriteCloser
	out       *bufio.Reader
	cl        *rainrpc.Client
	up        bool
	stderr    *os.File
}

var selfBin string

func (n *node) addr() string { return fmt.Sprintf("http://127.0.0.1:%d", n.rpc) }

func (n *node) start() error {
	se, err := os.OpenFile(filepath.Join(n.dir, "stderr.log"), os.O_CREATE|os.O_APPEND|os.O_WRONLY, 0o644)
	if err != nil {
		return err
	}
	n.stderr = se
	cmd := exec.Command(selfBin, "node", "-dir", n.dir, "-rpc", strconv.Itoa(n.rpc), "-pbase", strconv.Itoa(n.pbase),
		"-pn", strconv.Itoa(n.pn), "-rwi", strconv.Itoa(n.rwi))
	cmd.Stderr = se
	in, _ := cmd.StdinPipe()
	outp, _ := cmd.StdoutPipe()
	if err := cmd.Start(); err != nil {
		return err
	}
	n.cmd, n.in, n.out = cmd, in, bufio.NewReaderSize(outp, 1<<20)
	var r J
	if err := n.read(&r, 30*time.Second); err != nil {
		n.kill()
		return fmt.Errorf("node %s did not start: %v", n.name, err)
	}
	if r["ready"] != true {
		n.kill()
		return fmt.Errorf("node %s: %v", n.name, r["err"])
	}
	n.cl = rainrpc.NewClient(n.addr())
	n.cl.SetTimeout(30 * time.Second)
	n.up = true
	return nil
}

func (n *node) read(v any, timeout time.Duration) error {
	type res struct {
		b   []byte
		err error
	}
	ch := make(chan res, 1)
	go func() {
		b, err := n.out.ReadBytes('\n')
		ch <- res{b, err}
	}()
	select {
	case r := <-ch:
		if r.err != nil {
			return r.err
		}
		return json.Unmarshal(r.b, v)
	case <-time.After(timeout):
		return errors.New("timeout waiting for node reply")
	}
}

func (n *node) call(c J, v any) error {
	if !n.up {
		return errors.New("node down")
	}
	b, _ := json.Marshal(c)
	if _, err := n.in.Write(append(b, '\n')); err != nil {
		return err
	}
	return n.read(v, 30*time.Second)
}

// kill is the crash of the session: SIGKILL, nothing is flushed.
func (n *node) kill() {
	if n.cmd != nil && n.cmd.Process != nil {
		n.cmd.Process.Signal(syscall.SIGKILL)
		n.cmd.Wait()
	}
	n.gone()
}

func (n *node) gone() {
	if n.cl != nil {
		n.cl.Close()
		n.cl = nil
	}
	if n.in != nil {
		n.in.Close()
	}
	if n.stderr != nil {
		n.stderr.Close()
		n.stderr = nil
	}
	n.cmd, n.up = nil, false
}

// closeGraceful is Session.Close followed by the exit of the process.
func (n *node) closeGraceful() string {
	if !n.up {
		return "down"
	}
	var r J
	err := n.call(J{"cmd": "close"}, &r)
	done := make(chan struct{})
	go func() { n.cmd.Wait(); close(done) }()
	select {
	case <-done:
	case <-time.After(20 * time.Second):
		n.cmd.Process.Signal(syscall.SIGKILL)
		<-done
		n.gone()
		return "hang"
	}
	n.gone()
	if err != nil {
		return "died" // the process ended without an answer: a panic in Close
	}
	if r["ok"] != true {
		return "err"
	}
	return "ok"
}

func (n *node) panicked() string {
	b, _ := os.ReadFile(filepath.Join(n.dir, "stderr.log"))
	s := string(b)
	if i := strings.Index(s, "panic:"); i >= 0 {
		e := s[i:]
		if len(e) > 300 {
			e = e[:300]
		}
		return strings.ReplaceAll(e, "\n", " | ")
	}
	if i := strings.Index(s, "fatal error:"); i >= 0 {
		e := s[i:]
		if len(e) > 300 {
			e = e[:300]
		}
		return strings.ReplaceAll(e, "\n", " | ")
	}
	return ""
}

// =====================================================================================================================
// TCP proxy with failure injection

type pplan struct {
	Refuse bool
	// request direction: stop after StopAt bytes (counted after the `name="data"` marker unless Abs), then act
	StopAt int64 // < 0: never
	Abs    bool
	Then   string // "cut" | "stall" (forward the rest after release) | "stallcut" (cut after release)
	// response direction
	Resp string // "" pass | "hold" (pass after respRelease) | "drop" (cut when it arrives) | "holddrop" (cut after respRelease)
}

type proxy struct {
	ln          net.Listener
	target      string
	plan        pplan
	mu          sync.Mutex
	conns       []net.Conn
	first       atomic.Bool
	reached     chan struct{}
	release     chan struct{}
	respSeen    chan struct{}
	respRelease chan struct{}
	done        chan struct{} // first connection finished in both directions
	once        [5]sync.Once
	dataBytes   atomic.Int64
	reqBytes    atomic.Int64
}

func newProxy(target string, plan pplan) (*proxy, error) {
	ln, err := net.Listen("tcp4", "127.0.0.1:0")
	if err != nil {
		return nil, err
	}
	p := &proxy{ln: ln, target: target, plan: plan, reached: make(chan struct{}), release: make(chan struct{}),
		respSeen: make(chan struct{}), respRelease: make(chan struct{}), done: make(chan struct{})}
	go p.serve()
	return p, nil
}

func (p *proxy) url() string { return "http://" + p.ln.Addr().String() }

func (p *proxy) sig(i int, ch chan struct{}) { p.once[i].Do(func() { close(ch) }) }
func (p *proxy) Reached()                    { p.sig(0, p.reached) }
func (p *proxy) Release()                    { p.sig(1, p.release) }
func (p *proxy) RespSeen()                   { p.sig(2, p.respSeen) }
func (p *proxy) RespRelease()                { p.sig(3, p.respRelease) }
func (p *proxy) Done()                       { p.sig(4, p.done) }

func (p *proxy) track(c net.Conn) {
	p.mu.Lock()
	p.conns = append(p.conns, c)
	p.mu.Unlock()
}

func (p *proxy) Close() {
	p.ln.Close()
	p.Release()
	p.RespRelease()
	p.mu.Lock()
	for _, c := range p.conns {
		c.Close()
	}
	p.mu.Unlock()
}

func (p *proxy) serve() {
	for {
		c, err := p.ln.Accept()
		if err != nil {
			return
		}
		p.track(c)
		planned := p.first.CompareAndSwap(false, true)
		go p.handle(c, planned)
	}
}

func (p *proxy) handle(c net.Conn, planned bool) {
	plan := pplan{StopAt: -1}
	if planned {
		plan = p.plan
		defer p.Done()
	}
	if plan.Refuse {
		c.Close()
		p.Reached()
		return
	}
	s, err := net.DialTimeout("tcp4", p.target, 3*time.Second)
	if err != nil {
		c.Close()
		p.Reached()
		return
	}
	p.track(s)
	// a cut: the source's connection is closed at once; towards the target the request body just ends (the handler sees an
	// unexpected EOF exactly after the bytes let through) and the proxy waits for the handler's answer before it closes, so
	// that "the proxied connection has ended" implies "the handler has returned"
	var cutOnce sync.Once
	cut := func() {
		cutOnce.Do(func() {
			c.Close()
			if tc, ok := s.(*net.TCPConn); ok {
				tc.CloseWrite()
			}
			s.SetReadDeadline(time.Now().Add(8 * time.Second))
			io.Copy(io.Discard, s)
			s.Close()
		})
	}
	var wg sync.WaitGroup
	wg.Add(2)
	go func() { // request direction
		defer wg.Done()
		buf := make([]byte, 4096)
		var tail []byte
		seenData := plan.Abs
		var cnt int64
		marker := []byte(`name="data"`)
		stopped := plan.StopAt < 0
		for {
			n, err := c.Read(buf)
			if n > 0 {
				chunk := buf[:n]
				p.reqBytes.Add(int64(n))
				for len(chunk) > 0 {
					if !seenData {
						joined := append(append([]byte{}, tail...), chunk...)
						i := bytes.Index(joined, marker)
						if i < 0 {
							if _, e := s.Write(chunk); e != nil {
								return
							}
							if len(joined) > len(marker) {
								tail = append([]byte{}, joined[len(joined)-len(marker):]...)
							} else {
								tail = joined
							}
							chunk = nil
							continue
						}
						// bytes of chunk up to and including the marker
						upto := i + len(marker) - len(tail)
						if upto < 0 {
							upto = 0
						}
						if _, e := s.Write(chunk[:upto]); e != nil {
							return
						}
						chunk = chunk[upto:]
						seenData = true
						continue
					}
					if stopped {
						if _, e := s.Write(chunk); e != nil {
							return
						}
						p.dataBytes.Add(int64(len(chunk)))
						chunk = nil
						continue
					}
					room := plan.StopAt - cnt
					if int64(len(chunk)) < room {
						if _, e := s.Write(chunk); e != nil {
							return
						}
						cnt += int64(len(chunk))
						p.dataBytes.Add(int64(len(chunk)))
						chunk = nil
						continue
					}
					if _, e := s.Write(chunk[:room]); e != nil {
						return
					}
					p.dataBytes.Add(room)
					chunk = chunk[room:]
					cnt = plan.StopAt
					stopped = true
					switch plan.Then {
					case "cut":
						cut()
						p.Reached()
						return
					case "stall", "stallcut":
						p.Reached()
						<-p.release
						if plan.Then == "stallcut" {
							cut()
							return
						}
					}
				}
			}
			if err != nil {
				if tc, ok := s.(*net.TCPConn); ok {
					tc.CloseWrite()
				}
				return
			}
		}
	}()
	go func() { // response direction
		defer wg.Done()
		buf := make([]byte, 4096)
		first := true
		for {
			n, err := s.Read(buf)
			if n > 0 {
				if first {
					first = false
					p.RespSeen()
					switch plan.Resp {
					case "drop":
						cut()
						return
					case "hold":
						<-p.respRelease
					case "holddrop":
						<-p.respRelease
						cut()
						return
					}
				}
				if _, e := c.Write(buf[:n]); e != nil {
					// the source side is gone: drain what the target still says
					s.SetReadDeadline(time.Now().Add(8 * time.Second))
					io.Copy(io.Discard, s)
					return
				}
				// the answer of the handler is short: once it has started, 200 ms of silence end the connection (the
				// HTTP client of the source would keep it in its idle pool otherwise)
				s.SetReadDeadline(time.Now().Add(200 * time.Millisecond))
			}
			if err != nil {
				p.RespSeen()
				c.Close()
				s.Close()
				return
			}
		}
	}()
	wg.Wait()
	cut()
}

// =====================================================================================================================
// torrents and disk

func layouts() []vh.Layout {
	return []vh.Layout{
		{Name: "multi3", PieceLen: 16384, Files: []vh.FileSpec{{Path: []string{"a.bin"}, Length: 40000}, {Path: []string{"d", "b.bin"}, Length: 30000}, {Path: []string{"c.bin"}, Length: 20000}}},
		{Name: "two", PieceLen: 16384, Files: []vh.FileSpec{{Path: []string{"x"}, Length: 32768}, {Path: []string{"y"}, Length: 32868}}},
		{Name: "single", PieceLen: 16384, Files: []vh.FileSpec{{Length: 70000}}},
		// a first file that is larger than everything the pipes and socket buffers between generateTar and the proxy can
		// hold: while the proxy stalls, the archive generator is still inside a.bin
		{Name: "big", PieceLen: 262144, Files: []vh.FileSpec{{Path: []string{"a.bin"}, Length: 20 << 20}, {Path: []string{"z.bin"}, Length: 300000}}},
	}
}

var baseTrackers = [][]string{{"http://127.0.0.1:1/announce"}}

const addedTracker = "http://127.0.0.1:2/announce"

func writeData(dir string, tor *vh.Torrent, have map[int]bool) error {
	for i, f := range tor.Files {
		if f.Pad {
			continue
		}
		p := filepath.Join(dir, tor.StoragePath(i))
		if err := os.MkdirAll(filepath.Dir(p), 0o750); err != nil {
			return err
		}
		b := make([]byte, f.Length)
		start := tor.FileStart(i)
		pl := int64(tor.PieceLen)
		for off := int64(0); off < f.Length; {
			k := (start + off) / pl
			end := (k+1)*pl - start // end of piece k inside this file
			if end > f.Length {
				end = f.Length
			}
			if have[int(k)] {
				copy(b[off:end], tor.Data[start+off:start+end])
			}
			off = end
		}
		if err := os.WriteFile(p, b, 0o640); err != nil {
			return err
		}
	}
	return nil
}

// diskGood returns the pieces (1-based) of tor whose bytes are all present and correct under dir, and the number of
// regular files under dir.
func diskGood(dir string, tor *vh.Torrent) []int {
	flat := make([]byte, tor.Total)
	present := make([]bool, tor.Total)
	for i, f := range tor.Files {
		if f.Pad {
			for off := int64(0); off < f.Length; off++ {
				present[tor.FileStart(i)+off] = true
			}
			continue
		}
		b, err := os.ReadFile(filepath.Join(dir, tor.StoragePath(i)))
		if err != nil {
			continue
		}
		n := int64(len(b))
		if n > f.Length {
			n = f.Length
		}
		copy(flat[tor.FileStart(i):], b[:n])
		for off := int64(0); off < n; off++ {
			present[tor.FileStart(i)+off] = true
		}
	}
	good := []int{}
	for k := 0; k < tor.NumPieces; k++ {
		lo := int64(k) * int64(tor.PieceLen)
		hi := lo + int64(tor.PieceLenOf(k))
		ok := true
		for x := lo; x < hi; x++ {
			if !present[x] {
				ok = false
				break
			}
		}
		if ok {
			h := sha1.Sum(flat[lo:hi])
			ok = bytes.Equal(h[:], tor.Hashes[k])
		}
		if ok {
			good = append(good, k+1)
		}
	}
	return good
}

type tarEntry struct {
	rel  string
	size int64
}

// tarOrder lists the regular files under dir in filepath.Walk order (the order generateTar streams them).
func tarOrder(dir string) []tarEntry {
	var out []tarEntry
	filepath.Walk(dir, func(p string, info os.FileInfo, err error) error {
		if err != nil || info.IsDir() {
			return nil
		}
		out = append(out, tarEntry{p[len(dir)+1:], info.Size()})
		return nil
	})
	return out
}

func countFiles(dir string) int {
	n := 0
	filepath.Walk(dir, func(p string, info os.FileInfo, err error) error {
		if err == nil && info.Mode().IsRegular() {
			n++
		}
		return nil
	})
	return n
}

func bfPieces(hexs string, np int) []int {
	b, _ := hex.DecodeString(hexs)
	out := []int{}
	for i := 0; i < np; i++ {
		if i/8 < len(b) && b[i/8]&(0x80>>uint(i%8)) != 0 {
			out = append(out, i+1)
		}
	}
	return out
}

// =====================================================================================================================
// scenario

type moveSpec struct {
	Src   string `json:"src"`
	Dst   string `json:"dst"`
	ID    string `json:"id"`
	Fault string `json:"fault"`
	After string `json:"after"` // restart after the move: "" | "crash" | "close"  (both sessions)
}

type plan struct {
	Kind    string     `json:"kind"`
	Layout  int        `json:"layout"`
	Have    []int      `json:"have"` // 1-based pieces the source has
	Run     bool       `json:"run"`
	Dirty   bool       `json:"dirty"` // one more piece downloaded after the last resume write
	BInit   string     `json:"binit"` // empty | dupsame | dupother | dupih | full
	Tracker bool       `json:"tracker"` // AddTracker on the source before the move
	Two     bool       `json:"two"`     // a second, unrelated torrent at the source
	Moves   []moveSpec `json:"moves"`
	Pred    any        `json:"pred"` // predictions of the design model, carried to the judge
	Key     string     `json:"key"`
}

type scen struct {
	idx   int
	seed  int64
	rng   *rand.Rand
	dir   string
	pl    plan
	nodes map[string]*node
	tors  map[string]*vh.Torrent // label -> torrent
	byIH  map[string]string      // hex info-hash -> label
	idT   map[string]string      // id -> label (what the user added under that id; the last one wins)
	ev    []J
	env   string // environment failure: the scenario is abandoned
	seeders []*vh.Seeder
}

func (sc *scen) emit(e J) { sc.ev = append(sc.ev, e) }

func (sc *scen) fail(format string, a ...any) {
	if sc.env == "" {
		sc.env = fmt.Sprintf(format, a...)
	}
}

func freeTCPPort() int {
	l, err := net.Listen("tcp4", "127.0.0.1:0")
	if err != nil {
		return 0
	}
	defer l.Close()
	return l.Addr().(*net.TCPAddr).Port
}

const nPorts = 2

func (sc *scen) setupNodes() bool {
	sc.nodes = map[string]*node{}
	for _, name := range []string{"A", "B"} {
		d := filepath.Join(sc.dir, name)
		os.MkdirAll(d, 0o750)
		base, err := vh.FreePortRange(nPorts)
		if err != nil {
			sc.fail("ports: %v", err)
			return false
		}
		n := &node{name: name, dir: d, rpc: freeTCPPort(), pbase: base, pn: nPorts, rwi: 3600000}
		sc.nodes[name] = n
		if err := n.start(); err != nil {
			// port races with parallel scenarios: one more try on other ports
			n.rpc = freeTCPPort()
			if b2, e2 := vh.FreePortRange(nPorts); e2 == nil {
				n.pbase = b2
			}
			if err = n.start(); err != nil {
				sc.fail("start %s: %v", name, err)
				return false
			}
		}
	}
	return true
}

func (sc *scen) cleanup() {
	for _, s := range sc.seeders {
		s.Conn.C.Close()
	}
	for _, n := range sc.nodes {
		if n.up {
			n.kill()
		}
	}
	os.RemoveAll(sc.dir)
}

func (sc *scen) dataDir(n *node, id string) string { return filepath.Join(n.dir, "data", id) }

func waitStatus(n *node, id string, want func(string) bool, d time.Duration) (string, bool) {
	deadline := time.Now().Add(d)
	last := ""
	for time.Now().Before(deadline) {
		st, err := n.cl.GetTorrentStats(id)
		if err == nil {
			last = st.Status
			if want(last) {
				return last, true
			}
		}
		time.Sleep(5 * time.Millisecond)
	}
	return last, false
}

func running(st string) bool { return st == "Downloading" || st == "Seeding" }

// addTorrent puts torrent `label` under `id` into session n with the pieces of have on disk and in the bitfield.
func (sc *scen) addTorrent(n *node, id, label string, have []int, run bool, dirty bool) {
	tor := sc.tors[label]
	_, err := n.cl.AddTorrent(bytes.NewReader(tor.Bytes), &rainrpc.AddTorrentOptions{ID: id, Stopped: true})
	if err != nil {
		sc.fail("add %s/%s: %v", n.name, id, err)
		return
	}
	hm := map[int]bool{}
	for _, p := range have {
		hm[p-1] = true
	}
	if err := writeData(sc.dataDir(n, id), tor, hm); err != nil {
		sc.fail("prefill: %v", err)
		return
	}
	if err := n.cl.StartTorrent(id); err != nil {
		sc.fail("start: %v", err)
		return
	}
	if _, ok := waitStatus(n, id, running, 10*time.Second); !ok {
		sc.fail("torrent %s/%s does not reach a running state", n.name, id)
		return
	}
	finalHave := append([]int{}, have...)
	if dirty {
		// one more piece arrives from a scripted seeder after the verification wrote the bitfield: the bitfield in
		// memory is ahead of the resume database (ResumeWriteInterval is 1 h)
		extra := 0
		for p := 1; p <= tor.NumPieces; p++ {
			if !hm[p-1] {
				extra = p
				break
			}
		}
		if extra == 0 {
			sc.fail("dirty: no missing piece")
			return
		}
		st, err := n.cl.GetTorrentStats(id)
		if err != nil {
			sc.fail("stats: %v", err)
			return
		}
		vt, _ := vh.NewTracer("")
		sd, err := vh.ConnectSeeder(vt, "seedx", "127.0.0.9", fmt.Sprintf("127.0.0.1:%d", st.Port), tor,
			&vh.SeederPolicy{Have: func(i int) bool { return i == extra-1 }})
		if err != nil {
			sc.fail("seeder: %v", err)
			return
		}
		sc.seeders = append(sc.seeders, sd)
		deadline := time.Now().Add(10 * time.Second)
		okd := false
		for time.Now().Before(deadline) {
			st, err := n.cl.GetTorrentStats(id)
			if err == nil && int(st.Pieces.Have) == len(have)+1 {
				okd = true
				break
			}
			time.Sleep(5 * time.Millisecond)
		}
		if !okd {
			sc.fail("dirty: the extra piece did not arrive")
			return
		}
		finalHave = append(finalHave, extra)
		sort.Ints(finalHave)
	}
	if !run {
		if err := n.cl.StopTorrent(id); err != nil {
			sc.fail("stop: %v", err)
			return
		}
		if _, ok := waitStatus(n, id, func(s string) bool { return s == "Stopped" }, 10*time.Second); !ok {
			sc.fail("torrent does not stop")
			return
		}
	}
	sc.idT[n.name+"/"+id] = label
	sc.emit(J{"op": "add", "s": n.name, "id": id, "t": label, "have": finalHave, "run": run, "dirty": dirty && run,
		"name": tor.Name, "trk": baseTrackers, "np": tor.NumPieces})
}

func strs2(x [][]string) [][]string {
	out := [][]string{}
	for _, t := range x {
		out = append(out, append([]string{}, t...))
	}
	return out
}

func ints(x []int) []int {
	if x == nil {
		return []int{}
	}
	return x
}

func (sc *scen) label(ih string) string {
	if l, ok := sc.byIH[ih]; ok {
		return l
	}
	return "?"
}

// obsSettled polls the node until no torrent is in a transient state.
func (sc *scen) obsSettled(n *node) (rawObs, bool) {
	var o rawObs
	deadline := time.Now().Add(4 * time.Second)
	for {
		o = rawObs{}
		if err := n.call(J{"cmd": "obs"}, &o); err != nil {
			return o, false
		}
		settled := true
		for _, t := range o.Live {
			switch t.Status {
			case "Stopping", "Verifying", "Allocating":
				settled = false
			}
		}
		// a move handler that is still running holds a port that belongs to no registered torrent yet
		if len(o.Avail)+len(o.Live) != n.pn {
			settled = false
		}
		if settled || time.Now().After(deadline) {
			return o, true
		}
		time.Sleep(10 * time.Millisecond)
	}
}

func (sc *scen) abstractDisk(n *node) []J {
	out := []J{}
	ents, _ := os.ReadDir(filepath.Join(n.dir, "data"))
	for _, e := range ents {
		if !e.IsDir() {
			continue
		}
		d := filepath.Join(n.dir, "data", e.Name())
		nf := countFiles(d)
		if nf == 0 {
			continue // nothing but (planted) empty directories
		}
		out = append(out, J{"id": e.Name(), "nfiles": nf, "g1": diskGood(d, sc.tors["t1"]), "g2": diskGood(d, sc.tors["t2"])})
	}
	return out
}

func (sc *scen) observeNode(n *node) J {
	r := J{"s": n.name, "up": n.up, "range": n.pn, "avail": []int{}, "loops": 0, "live": []J{}, "db": []J{}, "invalid": []string{},
		"byih": []J{}, "disk": sc.abstractDisk(n), "panic": ""}
	if !n.up {
		return r
	}
	o, ok := sc.obsSettled(n)
	if !ok {
		// the node died under us
		r["up"] = false
		r["panic"] = n.panicked()
		n.kill()
		return r
	}
	av := []int{}
	for _, p := range o.Avail {
		av = append(av, p-n.pbase+1)
	}
	r["avail"] = av
	r["loops"] = o.Loops
	live := []J{}
	for _, t := range o.Live {
		lab := sc.label(t.IH)
		port := t.Port - n.pbase + 1
		if t.Port < n.pbase || t.Port >= n.pbase+n.pn {
			port = 100
		}
		live = append(live, J{"id": t.ID, "t": lab, "name": t.Name, "trk": strs2(t.Trackers), "port": port, "run": running(t.Status) || t.Status == "Downloading Metadata",
			"st": t.Status, "hasbf": t.HasBF, "bf": bfPieces(t.BF, t.NP)})
	}
	r["live"] = live
	db := []J{}
	for _, d := range o.DB {
		lab := sc.label(d.IH)
		np := 0
		if tor, ok := sc.tors[lab]; ok {
			np = tor.NumPieces
		}
		port := d.Port - n.pbase + 1
		if d.Port < n.pbase || d.Port >= n.pbase+n.pn {
			port = 100
		}
		db = append(db, J{"id": d.ID, "t": lab, "name": d.Name, "trk": strs2(d.Trackers), "port": port, "started": d.Started, "hasbf": d.HasBF, "bf": bfPieces(d.BF, np)})
	}
	r["db"] = db
	inv := append([]string{}, o.Invalid...)
	sort.Strings(inv)
	r["invalid"] = inv
	bi := []J{}
	var ihs []string
	for ih := range o.ByIH {
		ihs = append(ihs, ih)
	}
	sort.Strings(ihs)
	for _, ih := range ihs {
		bi = append(bi, J{"t": sc.label(ih), "ids": o.ByIH[ih]})
	}
	r["byih"] = bi
	return r
}

func (sc *scen) observe(tag string) {
	ss := []J{}
	for _, name := range []string{"A", "B"} {
		ss = append(ss, sc.observeNode(sc.nodes[name]))
	}
	sc.emit(J{"op": "obs", "tag": tag, "ss": ss})
}

func (sc *scen) restart(n *node, how string) {
	res := "ok"
	switch how {
	case "crash":
		if n.up {
			n.kill()
		}
	case "close":
		if n.up {
			res = n.closeGraceful()
		}
	}
	if tr, ok := http.DefaultTransport.(*http.Transport); ok {
		tr.CloseIdleConnections()
	}
	if err := n.start(); err != nil {
		// the RPC port may linger for a moment after a kill
		time.Sleep(200 * time.Millisecond)
		if err = n.start(); err != nil {
			sc.fail("restart %s: %v", n.name, err)
		}
	}
	sc.emit(J{"op": "restart", "s": n.name, "how": how, "res": res, "panic": n.panicked()})
}

// ---------------------------------------------------------------------------------------------------------------------
// one move with its fault

func classifyMoveErr(err error) (res, cls string) {
	if err == nil {
		return "ok", ""
	}
	s := err.Error()
	switch {
	case strings.Contains(s, "torrent not found"):
		return "notfound", "notfound"
	case strings.Contains(s, "Client.Timeout") || strings.Contains(s, "deadline exceeded"):
		return "unknown", "timeout"
	case strings.Contains(s, "EOF") && !strings.Contains(s, "http error") && !strings.Contains(s, "move-torrent"):
		// the RPC connection to the source ended without an answer: the source died
		return "unknown", "source-gone"
	case strings.Contains(s, "connection refused") && !strings.Contains(s, "move-torrent"):
		return "unknown", "source-gone"
	case strings.Contains(s, "http error: "):
		i := strings.Index(s, "http error: ")
		code := s[i+12:]
		if len(code) > 3 {
			code = code[:3]
		}
		return "fail", "http" + code
	default:
		return "fail", "transport"
	}
}

// dataOffset turns a position of the tar stream ("u<k>": k files complete plus half of the next one; or permille) into
// a byte count after the data marker.
func dataOffset(pos string, ents []tarEntry) int64 {
	var total int64
	starts := []int64{}
	for _, e := range ents {
		starts = append(starts, total)
		total += 512 + (e.size+511)/512*512
	}
	const hdr = 100 // multipart part header and the first chunk header
	if strings.HasPrefix(pos, "u") {
		k, _ := strconv.Atoi(pos[1:])
		if k >= len(ents) {
			k = len(ents) - 1
		}
		if k < 0 {
			return hdr
		}
		return hdr + starts[k] + 512 + ents[k].size/2
	}
	pm, _ := strconv.Atoi(pos)
	return hdr + total*int64(pm)/1000
}

// caughtUp waits until the handler of the target has consumed what the proxy has let through: for a position "u<k>" the
// k-th file of the archive exists at the target and is torn (0 < size < full size).  The proxy decides what reaches the
// target, not how far the handler has got with it.
func (sc *scen) caughtUp(dst *node, id string, ents []tarEntry, pos string) {
	if !strings.HasPrefix(pos, "u") {
		time.Sleep(60 * time.Millisecond)
		return
	}
	k, _ := strconv.Atoi(pos[1:])
	if k >= len(ents) {
		k = len(ents) - 1
	}
	if k < 0 {
		return
	}
	p := filepath.Join(sc.dataDir(dst, id), ents[k].rel)
	deadline := time.Now().Add(6 * time.Second)
	for time.Now().Before(deadline) {
		if fi, err := os.Stat(p); err == nil && fi.Mode().IsRegular() && fi.Size() > 0 && fi.Size() < ents[k].size {
			time.Sleep(5 * time.Millisecond)
			return
		}
		time.Sleep(2 * time.Millisecond)
	}
}

func (sc *scen) move(m moveSpec) {
	src, dst := sc.nodes[m.Src], sc.nodes[m.Dst]
	f := strings.Split(m.Fault, ":")
	kind := f[0]
	arg := func(i int) string {
		if i < len(f) {
			return f[i]
		}
		return ""
	}
	ents := tarOrder(sc.dataDir(src, m.ID))
	pp := pplan{StopAt: -1}
	obstacle := ""
	target := fmt.Sprintf("127.0.0.1:%d", dst.rpc)
	// -------- preparation of the fault
	switch kind {
	case "none", "self":
	case "refuse":
		pp.Refuse = true
	case "cut":
		switch arg(1) {
		case "pre":
			pp.StopAt, pp.Abs, pp.Then = 200, true, "cut"
		case "resp":
			pp.Resp = "drop"
		default:
			pp.StopAt, pp.Then = dataOffset(arg(2), ents), "cut"
		}
	case "disk":
		k, _ := strconv.Atoi(arg(1))
		if k < len(ents) {
			// a directory where file k of the stream has to be created (only where nothing is yet)
			op := filepath.Join(sc.dataDir(dst, m.ID), ents[k].rel)
			if _, err := os.Lstat(op); os.IsNotExist(err) && os.MkdirAll(op, 0o750) == nil {
				obstacle = op
			}
		}
	case "dbfail":
		var r J
		if dst.call(J{"cmd": "plant", "id": m.ID}, &r) != nil || r["ok"] != true {
			sc.fail("plant refused")
		}
	case "tcrash", "scrash":
		switch arg(1) {
		case "data":
			pp.StopAt, pp.Then = dataOffset(arg(2), ents), "stallcut"
		case "db", "dbx":
			var r J
			dst.call(J{"cmd": "holddb"}, &r)
		case "resp":
			pp.Resp = "holddrop"
		}
	case "srm", "sclose", "tadd", "timeout":
		pos := arg(1)
		if kind == "srm" {
			pos = arg(2)
		}
		pp.StopAt, pp.Then = dataOffset(pos, ents), "stall"
		if kind == "sclose" {
			pp.Then = "stallcut" // what the dying source still had in flight is lost
		}
	}
	if kind == "self" {
		target = fmt.Sprintf("127.0.0.1:%d", src.rpc)
	}
	px, err := newProxy(target, pp)
	if err != nil {
		sc.fail("proxy: %v", err)
		return
	}
	defer px.Close()
	hadDir := countFiles(sc.dataDir(dst, m.ID)) > 0
	sc.emit(J{"op": "move", "src": m.Src, "dst": m.Dst, "id": m.ID, "fault": m.Fault, "kind": kind, "haddir": hadDir})
	if kind == "timeout" {
		src.cl.SetTimeout(400 * time.Millisecond)
		defer func() {
			if src.cl != nil {
				src.cl.SetTimeout(30 * time.Second)
			}
		}()
	}
	type mres struct {
		err error
		dt  time.Duration
	}
	resC := make(chan mres, 1)
	t0 := time.Now()
	cl := src.cl
	go func() {
		err := cl.MoveTorrent(m.ID, px.url())
		resC <- mres{err, time.Since(t0)}
	}()
	waitCh := func(ch chan struct{}, what string) bool {
		select {
		case <-ch:
			return true
		case r := <-resC:
			resC <- r // the move ended before the fault point was reached
			return false
		case <-time.After(15 * time.Second):
			sc.fail("fault point %s not reached", what)
			return false
		}
	}
	note := ""
	// -------- the fault itself
	switch kind {
	case "tcrash":
		switch arg(1) {
		case "data":
			if waitCh(px.reached, "stall") {
				sc.caughtUp(dst, m.ID, ents, arg(2))
				dst.kill()
				px.Release()
			}
		case "db", "dbx":
			// the handler blocks in its first database transaction after the data has been written
			want := len(ents)
			deadline := time.Now().Add(10 * time.Second)
			for time.Now().Before(deadline) {
				if countFiles(sc.dataDir(dst, m.ID)) >= want && dirSize(sc.dataDir(dst, m.ID)) >= sumSize(ents) {
					break
				}
				time.Sleep(2 * time.Millisecond)
			}
			time.Sleep(30 * time.Millisecond)
			if arg(1) == "dbx" {
				var r J
				dst.call(J{"cmd": "releasedb"}, &r)
				us, _ := strconv.Atoi(arg(2))
				time.Sleep(time.Duration(us) * time.Microsecond)
			}
			dst.kill()
		case "resp":
			if waitCh(px.respSeen, "response") {
				dst.kill()
				px.RespRelease()
			}
		}
	case "scrash":
		switch arg(1) {
		case "data":
			if waitCh(px.reached, "stall") {
				sc.caughtUp(dst, m.ID, ents, arg(2))
				src.kill()
				px.Release()
			}
		case "resp":
			if waitCh(px.respSeen, "response") {
				src.kill()
				px.RespRelease()
			}
		}
	case "srm":
		if waitCh(px.reached, "stall") {
			sc.caughtUp(dst, m.ID, ents, arg(2))
			keep := arg(1) == "keep"
			err := src.cl.RemoveTorrent(m.ID, keep)
			sc.emit(J{"op": "remove", "s": m.Src, "id": m.ID, "keep": keep, "ok": err == nil, "during": true})
			px.Release()
		}
	case "sclose":
		if waitCh(px.reached, "stall") {
			sc.caughtUp(dst, m.ID, ents, arg(1))
			// Session.Close waits for the RPC handler (RPCShutdownTimeout 1 s), then the process exits
			go func() { time.Sleep(1500 * time.Millisecond); px.Release() }()
			note = src.closeGraceful()
		}
	case "tadd":
		if waitCh(px.reached, "stall") {
			sc.caughtUp(dst, m.ID, ents, arg(1))
			tor := sc.tors["t2"]
			_, err := dst.cl.AddTorrent(bytes.NewReader(tor.Bytes), &rainrpc.AddTorrentOptions{ID: m.ID, Stopped: true})
			ok := err == nil
			if ok {
				sc.idT[dst.name+"/"+m.ID] = "t2"
			}
			sc.emit(J{"op": "addsame", "s": m.Dst, "id": m.ID, "t": "t2", "ok": ok, "name": tor.Name, "trk": baseTrackers})
			px.Release()
		}
	case "timeout":
		if waitCh(px.reached, "stall") {
			time.Sleep(700 * time.Millisecond)
			px.Release()
		}
	}
	var r mres
	hang := false
	select {
	case r = <-resC:
	case <-time.After(25 * time.Second):
		hang = true
	}
	res, cls := classifyMoveErr(r.err)
	if hang {
		res, cls = "hang", "hang"
	}
	if kind == "scrash" || kind == "sclose" {
		// the caller lost its connection to the source: nothing was reported
		if res != "ok" {
			res = "unknown"
		}
	}
	if px.first.Load() && dst.up {
		// the handler of the target (and, after a time-out of the caller, the move itself) may still be running: the
		// proxied connection ends when the handler has answered
		select {
		case <-px.done:
		case <-time.After(12 * time.Second):
		}
	}
	if kind == "timeout" || res == "unknown" && src.up {
		time.Sleep(150 * time.Millisecond) // the source's RemoveTorrent after the answer
	}
	// -------- clean-up of the seams
	switch kind {
	case "dbfail":
		if dst.up {
			var x J
			dst.call(J{"cmd": "unplant", "id": m.ID}, &x)
		}
	case "disk":
		if obstacle != "" {
			syscall.Rmdir(obstacle) // the planted (empty) directory; never a file that the handler has put in its place
		}
	}
	errs := ""
	if r.err != nil {
		errs = r.err.Error()
		if len(errs) > 160 {
			errs = errs[:160]
		}
	}
	sc.emit(J{"op": "ret", "res": res, "cls": cls, "err": errs, "ms": int(r.dt.Milliseconds()), "note": note,
		"srcup": src.up, "dstup": dst.up})
}

func dirSize(dir string) int64 {
	var n int64
	filepath.Walk(dir, func(p string, info os.FileInfo, err error) error {
		if err == nil && info.Mode().IsRegular() {
			n += info.Size()
		}
		return nil
	})
	return n
}

func sumSize(e []tarEntry) int64 {
	var n int64
	for _, x := range e {
		n += x.size
	}
	return n
}

// ---------------------------------------------------------------------------------------------------------------------

func (sc *scen) run() {
	defer func() {
		if r := recover(); r != nil {
			sc.fail("driver panic: %v", r)
		}
	}()
	pl := sc.pl
	lays := layouts()
	l1 := lays[pl.Layout%len(lays)]
	l2 := lays[(pl.Layout+1)%3]
	l2.Name = l2.Name + "-other"
	sc.tors = map[string]*vh.Torrent{"t1": vh.Build(l1, 1000+sc.seed, baseTrackers, nil), "t2": vh.Build(l2, 2000+sc.seed, baseTrackers, nil)}
	sc.byIH = map[string]string{}
	for l, t := range sc.tors {
		sc.byIH[hex.EncodeToString(t.InfoHash[:])] = l
	}
	sc.idT = map[string]string{}
	pred := pl.Pred
	if pred == nil {
		pred = J{"settled": []any{}, "final": []any{}}
	}
	sc.emit(J{"op": "Init", "sc": sc.idx, "kind": pl.Kind, "key": pl.Key, "np1": sc.tors["t1"].NumPieces, "np2": sc.tors["t2"].NumPieces,
		"range": nPorts, "layout": pl.Layout, "binit": pl.BInit, "pred": pred})
	if !sc.setupNodes() {
		return
	}
	A, B := sc.nodes["A"], sc.nodes["B"]
	sc.addTorrent(A, "m", "t1", pl.Have, pl.Run, pl.Dirty)
	if sc.env != "" {
		return
	}
	if pl.Two {
		all := []int{}
		for p := 1; p <= sc.tors["t2"].NumPieces; p++ {
			all = append(all, p)
		}
		sc.addTorrent(A, "m2", "t2", all[:len(all)/2], true, false)
	}
	if pl.Tracker {
		err := A.cl.AddTracker("m", addedTracker)
		sc.emit(J{"op": "addtracker", "s": "A", "id": "m", "url": addedTracker, "ok": err == nil})
	}
	switch pl.BInit {
	case "dupsame":
		sc.addTorrent(B, "m", "t1", pl.Have[:len(pl.Have)/2], false, false)
	case "dupother":
		sc.addTorrent(B, "m", "t2", []int{1, 2}, false, false)
	case "dupih":
		sc.addTorrent(B, "m9", "t1", pl.Have[:len(pl.Have)/2], false, false)
	case "full":
		for i := 1; i <= nPorts; i++ {
			sc.addTorrent(B, fmt.Sprintf("f%d", i), "t2", []int{1}, false, false)
		}
	}
	if sc.env != "" {
		return
	}
	sc.observe("setup")
	for _, m := range pl.Moves {
		if m.Src == "auto" {
			// from the session that holds the torrent now to the other one
			var hs []string
			for _, name := range []string{"A", "B"} {
				if n := sc.nodes[name]; n.up {
					if _, err := n.cl.GetTorrentStats("m"); err == nil {
						hs = append(hs, name)
					}
				}
			}
			if len(hs) == 0 {
				break
			}
			m.Src = hs[sc.rng.Intn(len(hs))]
			m.Dst = "B"
			if m.Src == "B" {
				m.Dst = "A"
			}
			if m.Fault == "self" {
				m.Dst = m.Src
			}
		}
		if !sc.nodes[m.Src].up || (m.Fault != "refuse" && !sc.nodes[m.Dst].up) {
			break
		}
		sc.move(m)
		if sc.env != "" {
			return
		}
		sc.observe("after-move")
		// every session that is down comes back; then, optionally, both go through a crash or a close
		for _, name := range []string{"A", "B"} {
			if !sc.nodes[name].up {
				sc.restart(sc.nodes[name], "down")
			}
		}
		if sc.env != "" {
			return
		}
		if m.After == "crash" || m.After == "close" {
			for _, name := range []string{"A", "B"} {
				sc.restart(sc.nodes[name], m.After)
			}
		}
		if sc.env != "" {
			return
		}
		sc.observe("after-restart")
	}
}

// =====================================================================================================================

func runPlans(plans []plan, seed int64, par int, out string, keep string) {
	evs := make([][]J, len(plans))
	envs := make([]string, len(plans))
	var wg sync.WaitGroup
	sem := make(chan struct{}, par)
	wd, _ := os.Getwd()
	if strings.HasPrefix(wd, "/tmp") {
		wd = "/var/tmp"
	}
	for i := range plans {
		wg.Add(1)
		sem <- struct{}{}
		go func(i int) {
			defer wg.Done()
			defer func() { <-sem }()
			dir, err := os.MkdirTemp(wd, "x05-")
			if err != nil {
				envs[i] = err.Error()
				return
			}
			sc := &scen{idx: i, seed: seed*100000 + int64(i), dir: dir, pl: plans[i]}
			sc.rng = rand.New(rand.NewSource(sc.seed))
			sc.run()
			if keep != "" && sc.env != "" {
				fmt.Fprintf(os.Stderr, "scenario %d abandoned: %s (dir %s)\n", i, sc.env, dir)
			}
			sc.cleanup()
			evs[i], envs[i] = sc.ev, sc.env
		}(i)
	}
	wg.Wait()
	f, err := os.Create(out)
	if err != nil {
		panic(err)
	}
	w := bufio.NewWriter(f)
	nenv := 0
	done := 0
	for i := range plans {
		if envs[i] != "" {
			nenv++
			fmt.Fprintf(os.Stderr, "env: scenario %d (%s): %s\n", i, plans[i].Key, envs[i])
			continue
		}
		done++
		for _, e := range evs[i] {
			b, err := json.Marshal(e)
			if err != nil {
				panic(err)
			}
			w.Write(b)
			w.WriteByte('\n')
		}
	}
	w.Flush()
	f.Close()
	b, _ := json.Marshal(J{"scenarios": len(plans), "recorded": done, "env_abandoned": nenv})
	fmt.Println(string(b))
}

func main() {
	if len(os.Args) < 2 {
		fmt.Fprintln(os.Stderr, "usage: x05 node|run ...")
		os.Exit(2)
	}
	var err error
	selfBin, err = os.Executable()
	if err != nil {
		panic(err)
	}
	switch os.Args[1] {
	case "node":
		nodeMain(os.Args[2:])
	case "run":
		fs := flag.NewFlagSet("run", flag.ExitOnError)
		plansF := fs.String("plans", "", "ndjson file of plans")
		seed := fs.Int64("seed", 1, "")
		par := fs.Int("par", 6, "")
		out := fs.String("out", "trace.ndjson", "")
		keep := fs.String("keep", "", "")
		fs.Parse(os.Args[2:])
		var plans []plan
		fh, err := os.Open(*plansF)
		if err != nil {
			panic(err)
		}
		scn := bufio.NewScanner(fh)
		scn.Buffer(make([]byte, 1<<20), 1<<26)
		for scn.Scan() {
			if len(bytes.TrimSpace(scn.Bytes())) == 0 {
				continue
			}
			var p plan
			if err := json.Unmarshal(scn.Bytes(), &p); err != nil {
				panic(err)
			}
			plans = append(plans, p)
		}
		fh.Close()
		runPlans(plans, *seed, *par, *out, *keep)
	default:
		fmt.Fprintln(os.Stderr, "unknown sub-command")
		os.Exit(2)
	}
}
