// Command c02 drives the real geometry code (metainfo.NewInfo, allocator, piece.NewPieces,
// calculateBlocks, filesection ReadAt/Write, urldownloader createJobs, metainfo.NewInfoBytes,
// filestorage, verifier) over enumerated / sampled layouts and records one ndjson line per layout.
// It never judges: Trace_Geometry.tla does (spec/Geometry.tla is the flat byte-array oracle).
//
// Every layout line also carries the real verifier's bitfield over the freshly allocated storage (vb0) and over the fully
// written storage (vb1); the piece hashes of the metainfo are the hashes of the layout's content.  Sampled layouts add
// zero-CONTENT chunks (layout.Zero) and crafted file names that the client's cleaner maps onto one on-disk name (layout.NC).
//
//	-mode byte    unit = 1 byte, calculateBlocks(bs) for bs in -bss, every (off,n) read back
//	-mode scaled  unit = 4096/5461/8192 bytes, exported CalculateBlocks() (16 KiB), boundary reads (run-length logged)
//	-mode rt      create -> parse -> allocate -> verify on real directory trees (and copy through Write)
package main

import (
	"bufio"
	"bytes"
	"crypto/sha1"
	"encoding/json"
	"flag"
	"fmt"
	"io"
	"math/rand"
	"os"
	"path/filepath"
	"sort"
	"strconv"
	"strings"
	"sync/atomic"
	"time"

	"github.com/cenkalti/rain/v2/internal/allocator"
	"github.com/cenkalti/rain/v2/internal/bufferpool"
	"github.com/cenkalti/rain/v2/internal/logger"
	"github.com/cenkalti/rain/v2/internal/metainfo"
	"github.com/cenkalti/rain/v2/internal/piece"
	"github.com/cenkalti/rain/v2/internal/piecedownloader"
	"github.com/cenkalti/rain/v2/internal/storage"
	"github.com/cenkalti/rain/v2/internal/storage/filestorage"
	"github.com/cenkalti/rain/v2/internal/urldownloader"
	"github.com/cenkalti/rain/v2/internal/verifier"
)

type ev map[string]any

type fileSpec struct{ Len, Pad int } // length in units

type layout struct {
	Files []fileSpec
	PL    int // units
	Unit  int // bytes per unit
	SF    bool
	Zero  []int // unit-sized chunks (numbered from 1 along the concatenation) whose CONTENT is zero bytes
	NC    int   // name class of the non-padding files: 0 = distinct plain names, k > 0 = namePairs[k-1] on two of them
}

// val is the content of chunk c (1-based): the chunk number, 0 for zero-content chunks.
func (l layout) zeroSet() map[int]bool {
	m := map[int]bool{}
	for _, c := range l.Zero {
		m[c] = true
	}
	return m
}

// namePairs: two raw path components that differ but that the client's name cleaner maps onto ONE on-disk name
// (separator replaced by "_", names longer than 255 bytes trimmed with the extension kept, invalid UTF-8 replaced,
// components dropped by the join) - and near misses that stay distinct.  An accepted metainfo must keep two files
// of the torrent on two different on-disk paths.
var namePairs = [][2][]string{
	{{"d", "x/y.bin"}, {"d", "x_y.bin"}},
	{{"x/y"}, {"x_y"}},
	{{"d", strings.Repeat("n", 300) + "A.bin"}, {"d", strings.Repeat("n", 300) + "B.bin"}},
	{{strings.Repeat("é", 140) + "1"}, {strings.Repeat("é", 140) + "2"}},
	{{"d", "a\xffb"}, {"d", "a\uFFFDb"}},
	{{"a\xffb"}, {"a\xfeb"}},
	{{"d", "f"}, {"d", ".", "f"}},
	{{"d", "f"}, {"d", "", "f"}},
	{{"d", "same"}, {"d", "same"}},
	{{"d", "x/y.bin"}, {"d", "x\\y.bin"}},                                              // near miss
	{{"d", strings.Repeat("n", 200) + "A.bin"}, {"d", strings.Repeat("n", 200) + "B.bin"}}, // near miss (not trimmed)
}

// nameClassFiles: which two files get the pair (the first and the last non-padding file), nil if there are fewer than two
func (l layout) nameClassFiles() []int {
	var np []int
	for i, f := range l.Files {
		if f.Pad == 0 {
			np = append(np, i)
		}
	}
	if l.NC == 0 || l.SF || len(np) < 2 {
		return nil
	}
	return []int{np[0], np[len(np)-1]}
}

func (l layout) total() int64 {
	var t int64
	for _, f := range l.Files {
		t += int64(f.Len) * int64(l.Unit)
	}
	return t
}

// ---------------------------------------------------------------- bencode (hand written, sorted keys)

func bstr(s string) string { return strconv.Itoa(len(s)) + ":" + s }
func bint(i int64) string  { return "i" + strconv.FormatInt(i, 10) + "e" }

func (l layout) fileName(i int) []string {
	if nf := l.nameClassFiles(); nf != nil {
		if i == nf[0] {
			return namePairs[l.NC-1][0]
		}
		if i == nf[1] {
			return namePairs[l.NC-1][1]
		}
	}
	return fileName(i, l.Files[i], l.Unit)
}

func fileName(i int, f fileSpec, unit int) []string {
	if f.Pad == 1 {
		// BEP 47: pad files share the path .pad/<length>; duplicates are common
		return []string{".pad", strconv.Itoa(f.Len * unit)}
	}
	return []string{"d", "f" + strconv.Itoa(i+1)}
}

func infoBytes(l layout, pieces []byte) []byte {
	var b strings.Builder
	b.WriteString("d")
	if l.SF {
		b.WriteString(bstr("length") + bint(l.total()))
	} else {
		b.WriteString(bstr("files") + "l")
		for i, f := range l.Files {
			b.WriteString("d")
			if f.Pad == 1 {
				b.WriteString(bstr("attr") + bstr("p"))
			}
			b.WriteString(bstr("length") + bint(int64(f.Len)*int64(l.Unit)))
			b.WriteString(bstr("path") + "l")
			for _, p := range l.fileName(i) {
				b.WriteString(bstr(p))
			}
			b.WriteString("ee")
		}
		b.WriteString("e")
	}
	b.WriteString(bstr("name") + bstr("t"))
	b.WriteString(bstr("piece length") + bint(int64(l.PL)*int64(l.Unit)))
	b.WriteString(bstr("pieces") + strconv.Itoa(len(pieces)) + ":")
	b.Write(pieces)
	b.WriteString("e")
	return []byte(b.String())
}

// ---------------------------------------------------------------- in-memory storage

type memFile struct {
	size int64
	data []byte
	sto  *memStorage
}

type memStorage struct {
	files map[string]*memFile
	oob   int // accesses outside [0,size)
	pad   int // padding files opened (they must never reach the disk)
	alias int // a name opened a second time: two files of the torrent share one on-disk file
}

// Open behaves like a file system: one name = one file (a second Open of the same name gets the SAME bytes, resized).
func (s *memStorage) Open(name string, size int64) (storage.File, bool, error) {
	if strings.Contains(name, ".pad") {
		s.pad++
	}
	if old, ok := s.files[filepath.Clean(name)]; ok {
		s.alias++
		if int64(len(old.data)) < size {
			old.data = append(old.data, make([]byte, size-int64(len(old.data)))...)
		}
		old.data = old.data[:size]
		old.size = size
		return old, true, nil
	}
	f := &memFile{size: size, data: make([]byte, size), sto: s}
	s.files[filepath.Clean(name)] = f
	return f, false, nil
}
func (s *memStorage) RootDir() string { return "/mem" }

func (f *memFile) ReadAt(p []byte, off int64) (int, error) {
	if off < 0 || off+int64(len(p)) > f.size {
		f.sto.oob++
		if off < 0 || off >= f.size {
			return 0, io.EOF
		}
		n := copy(p, f.data[off:])
		return n, io.EOF
	}
	copy(p, f.data[off:off+int64(len(p))])
	return len(p), nil
}

func (f *memFile) WriteAt(p []byte, off int64) (int, error) {
	if off < 0 || off+int64(len(p)) > f.size {
		f.sto.oob++
		if off >= 0 && off < f.size {
			copy(f.data[off:], p)
		}
		return len(p), nil
	}
	copy(f.data[off:], p)
	return len(p), nil
}
func (f *memFile) Close() error { return nil }

// ---------------------------------------------------------------- helpers

// countingPeer counts the requests a PieceDownloader issues.
type countingPeer struct{ nreq int }

func (p *countingPeer) RequestPiece(index, begin, length uint32) { p.nreq++ }
func (p *countingPeer) CancelPiece(index, begin, length uint32)  {}
func (p *countingPeer) EnabledFast() bool                        { return true }

func b2i(b bool) int {
	if b {
		return 1
	}
	return 0
}

func runAllocator(info *metainfo.Info, sto storage.Storage) (*allocator.Allocator, error) {
	a := allocator.New()
	progressC := make(chan allocator.Progress)
	resultC := make(chan *allocator.Allocator, 1)
	go a.Run(info, sto, progressC, resultC)
	for {
		select {
		case <-progressC:
		case r := <-resultC:
			return r, r.Error
		}
	}
}

func rle(b []byte) [][]int {
	out := [][]int{}
	for i := 0; i < len(b); {
		j := i
		for j < len(b) && b[j] == b[i] {
			j++
		}
		out = append(out, []int{int(b[i]), j - i})
		i = j
	}
	return out
}

func ints(b []byte) []int {
	out := make([]int, len(b))
	for i, v := range b {
		out[i] = int(v)
	}
	return out
}

var progress atomic.Int64
var current atomic.Value // string: layout being processed

// ---------------------------------------------------------------- one layout

func process(l layout, mode string, bss []int, rng *rand.Rand) (e ev) {
	fl := make([][]int, len(l.Files))
	for i, f := range l.Files {
		fl[i] = []int{f.Len, f.Pad}
	}
	zero := l.Zero
	if zero == nil {
		zero = []int{}
	}
	e = ev{"op": "L", "mode": mode, "unit": l.Unit, "files": fl, "pl": l.PL, "sf": b2i(l.SF), "pan": 0, "hang": 0, "zero": zero, "nc": l.NC}
	cur, _ := json.Marshal(e)
	current.Store(string(cur))
	stage := 1
	defer func() {
		if r := recover(); r != nil {
			e["pan"] = stage
			e["panmsg"] = fmt.Sprint(r)
		}
	}()

	unit := int64(l.Unit)
	pl := int64(l.PL) * unit
	total := l.total()
	var np int64
	if pl > 0 {
		np = (total + pl - 1) / pl
	}
	// the content of the torrent, from the layout alone: chunk c (1-based, unit bytes) carries the value c, zero-content
	// chunks and padding carry 0; the piece hashes of the metainfo are the hashes of that content
	zs := l.zeroSet()
	padAt := make([]bool, 0, total/unit+1) // per chunk: inside a padding file
	for _, f := range l.Files {
		for k := 0; k < f.Len; k++ {
			padAt = append(padAt, f.Pad == 1)
		}
	}
	content := func(i int64, masked bool) []byte { // piece i; masked = what a reader sees (padding reads as zeros)
		lo, hi := i*pl, (i+1)*pl
		if hi > total {
			hi = total
		}
		buf := make([]byte, hi-lo)
		for j := range buf {
			c := int((lo+int64(j))/unit) + 1
			if zs[c] || (masked && padAt[c-1]) {
				continue
			}
			buf[j] = byte(c)
		}
		return buf
	}
	hashes := make([]byte, 0, 20*np)
	for i := int64(0); i < np; i++ {
		h := sha1.Sum(content(i, true))
		hashes = append(hashes, h[:]...)
	}
	info, err := metainfo.NewInfo(infoBytes(l, hashes), true, true)
	if err != nil {
		e["acc"] = 0
		return e
	}
	e["acc"] = 1
	e["np"] = int(info.NumPieces)

	// file identity: non-padding files by their (unique) path, padding files are anonymous (0)
	idx := map[string]int{}
	for i, f := range l.Files {
		if f.Pad == 1 {
			continue
		}
		if l.SF {
			idx["t"] = i + 1
		} else if l.nameClassFiles() != nil {
			idx[info.Files[i].Path] = i + 1 // crafted names: identity = the (cleaned) path the client derived for file i
		} else {
			idx[filepath.Join(append([]string{"t"}, fileName(i, f, l.Unit)...)...)] = i + 1
		}
	}
	fidx := func(name string, padding bool) int {
		if padding {
			return 0
		}
		return idx[name]
	}

	stage = 2
	sto := &memStorage{files: map[string]*memFile{}}
	al, err := runAllocator(info, sto)
	if err != nil {
		panic("allocator: " + err.Error())
	}
	stage = 3
	pieces := piece.NewPieces(info, al.Files)
	progress.Add(1)
	// verification pass over freshly allocated (zero-filled) storage: which pieces does the real verifier report present?
	verify := func() []int {
		v := verifier.New()
		progressC := make(chan verifier.Progress)
		resultC := make(chan *verifier.Verifier, 1)
		go v.Run(pieces, progressC, resultC)
		var res *verifier.Verifier
		for res == nil {
			select {
			case <-progressC:
			case res = <-resultC:
			}
		}
		if res.Error != nil {
			panic("verifier: " + res.Error.Error())
		}
		bits := make([]int, res.Bitfield.Len())
		for i := range bits {
			bits[i] = b2i(res.Bitfield.Test(uint32(i)))
		}
		return bits
	}
	e["vb0"] = verify()

	plen := make([]int, len(pieces))
	secs := make([][][]int, len(pieces))
	for i := range pieces {
		plen[i] = int(pieces[i].Length)
		secs[i] = [][]int{}
		for _, s := range pieces[i].Data {
			secs[i] = append(secs[i], []int{fidx(s.Name, s.Padding), int(s.Offset), int(s.Length), b2i(s.Padding)})
		}
	}
	e["plen"] = plen
	e["secs"] = secs

	stage = 4
	blk := make([][][][]int, len(bss))
	for k, bs := range bss {
		blk[k] = make([][][]int, len(pieces))
		for i := range pieces {
			var bl []piece.Block
			if mode == "scaled" {
				bl = pieces[i].CalculateBlocks()
			} else {
				bl = piece.VerifCalculateBlocks(&pieces[i], uint32(bs))
			}
			blk[k][i] = [][]int{}
			for _, b := range bl {
				blk[k][i] = append(blk[k][i], []int{int(b.Begin), int(b.Length)})
			}
		}
	}
	e["bss"] = bss
	e["blk"] = blk
	// probe (not an obligation of C02, evidence for the liveness lead "a piece that consists only of padding
	// can never complete"): what does the real PieceDownloader do with such a piece?
	allpad := [][]int{}
	for i := range pieces {
		data := false
		for _, s := range pieces[i].Data {
			if !s.Padding && s.Length > 0 {
				data = true
			}
		}
		if data {
			continue
		}
		pe := &countingPeer{}
		pool := bufferpool.New(int(pieces[i].Length))
		pd := piecedownloader.New(&pieces[i], pe, false, pool.Get(int(pieces[i].Length)))
		pd.RequestBlocks(16)
		allpad = append(allpad, []int{i, len(pieces[i].CalculateBlocks()), pe.nreq, b2i(pd.Done())})
	}
	e["allpad"] = allpad
	progress.Add(1)

	// write every piece: byte at flat position k (0-based) carries the value k/unit + 1 (never 0)
	stage = 5
	werr, wpanic := 0, 0
	for i := range pieces {
		buf := make([]byte, pieces[i].Length)
		lo := int64(i) * pl
		for j := range buf {
			if c := int((lo+int64(j))/unit) + 1; !zs[c] {
				buf[j] = byte(c) // bytes that fall into padding are handed over as well: Write must skip them
			}
		}
		func() {
			defer func() {
				if r := recover(); r != nil {
					wpanic++
					e["wpanmsg"] = fmt.Sprint(r)
				}
			}()
			if _, err := pieces[i].Data.Write(buf); err != nil {
				werr++
			}
		}()
	}
	e["werr"] = werr
	e["wpanic"] = wpanic
	// verification pass over the written data: every piece must be reported present
	stage = 55
	e["vb1"] = verify()
	e["alias"] = sto.alias
	stage = 5
	disk := make([]any, len(l.Files))
	for i, f := range l.Files {
		var mf *memFile
		if f.Pad == 0 {
			mf = sto.files[filepath.Clean(info.Files[i].Path)]
		}
		switch {
		case mf == nil && mode == "scaled":
			disk[i] = [][]int{}
		case mf == nil:
			disk[i] = []int{}
		case mode == "scaled":
			disk[i] = rle(mf.data)
		default:
			disk[i] = ints(mf.data)
		}
	}
	e["disk"] = disk
	progress.Add(1)

	// read back
	stage = 6
	rerr := 0
	readAt := func(i int, off, n int) []byte {
		b := bytes.Repeat([]byte{0xEE}, n)
		func() {
			defer func() {
				if r := recover(); r != nil {
					rerr++
					e["rpanmsg"] = fmt.Sprint(r)
				}
			}()
			nn, err := pieces[i].Data.ReadAt(b, int64(off))
			if err != nil || nn != n {
				rerr++
			}
		}()
		return b
	}
	if mode == "scaled" {
		rds := make([][][]any, len(pieces))
		for i := range pieces {
			L := int(pieces[i].Length)
			cuts := map[int]bool{0: true, 1: true, L - 1: true, L: true}
			pos := 0
			for _, s := range pieces[i].Data {
				for _, d := range []int{-1, 0, 1} {
					cuts[pos+d] = true
				}
				pos += int(s.Length)
			}
			for k := piece.BlockSize; k < L; k += piece.BlockSize {
				for _, d := range []int{-1, 0, 1} {
					cuts[k+d] = true
				}
			}
			var cs []int
			for c := range cuts {
				if c >= 0 && c <= L {
					cs = append(cs, c)
				}
			}
			sort.Ints(cs)
			for len(cs) > 10 { // thin out deterministically (seeded), keep both ends
				k := 1 + rng.Intn(len(cs)-2)
				cs = append(cs[:k], cs[k+1:]...)
			}
			rds[i] = [][]any{}
			for a := 0; a < len(cs); a++ {
				for b := a + 1; b < len(cs); b++ {
					off, n := cs[a], cs[b]-cs[a]
					rds[i] = append(rds[i], []any{off, n, rle(readAt(i, off, n))})
				}
			}
		}
		e["rds"] = rds
	} else {
		rd := make([][][]int, len(pieces))
		for i := range pieces {
			L := int(pieces[i].Length)
			rd[i] = [][]int{}
			for off := 0; off < L; off++ {
				for n := 1; n <= L-off; n++ {
					rd[i] = append(rd[i], ints(readAt(i, off, n)))
				}
			}
			for off := 0; off <= L; off++ { // empty reads must not fail either
				readAt(i, off, 0)
			}
		}
		e["rd"] = rd
	}
	e["rerr"] = rerr
	e["oob"] = sto.oob
	e["padopen"] = sto.pad
	progress.Add(1)

	// web-seed jobs
	stage = 7
	jobs := [][]any{}
	n := len(pieces)
	for b := 0; b < n; b++ {
		for en := b + 1; en <= n; en++ {
			if !(n <= 5 || b == 0 || en == n || en-b <= 2) {
				continue
			}
			js := urldownloader.VerifCreateJobs(pieces, uint32(b), uint32(en))
			jl := [][]int{}
			for _, j := range js {
				jl = append(jl, []int{fidx(j.Filename, j.Padding), int(j.RangeBegin), int(j.Length), b2i(j.Padding)})
			}
			jobs = append(jobs, []any{b, en, jl})
		}
	}
	e["jobs"] = jobs
	progress.Add(1)
	return e
}

// zeroChunks draws the zero-content chunks of a sampled layout: none (1/3), the chunks of one whole piece, of one whole
// non-padding file, a run, or a random subset.
func zeroChunks(l layout, rng *rand.Rand) []int {
	n := 0
	for _, f := range l.Files {
		n += f.Len
	}
	if n == 0 || l.PL <= 0 {
		return nil
	}
	set := map[int]bool{}
	switch rng.Intn(6) {
	case 0, 1:
		return nil
	case 2: // one whole piece (and sometimes its neighbour)
		np := (n + l.PL - 1) / l.PL
		i := rng.Intn(np)
		k := 1 + rng.Intn(2)
		for c := i*l.PL + 1; c <= (i+k)*l.PL && c <= n; c++ {
			set[c] = true
		}
	case 3: // one whole file
		i := rng.Intn(len(l.Files))
		st := 0
		for j := 0; j < i; j++ {
			st += l.Files[j].Len
		}
		for c := st + 1; c <= st+l.Files[i].Len; c++ {
			set[c] = true
		}
	case 4: // a run
		a := 1 + rng.Intn(n)
		b := a + rng.Intn(n-a+1)
		for c := a; c <= b; c++ {
			set[c] = true
		}
	default:
		for c := 1; c <= n; c++ {
			if rng.Intn(2) == 0 {
				set[c] = true
			}
		}
	}
	out := []int{}
	for c := range set {
		out = append(out, c)
	}
	sort.Ints(out)
	return out
}

// ---------------------------------------------------------------- layout space

type space struct{ maxFiles, maxLen, maxPL int }

func (s space) k() int64 { return int64(2 * (s.maxLen + 1)) }
func (s space) size() int64 {
	var n, p int64 = 0, 1
	for i := 1; i <= s.maxFiles; i++ {
		p *= s.k()
		n += p
	}
	return n * int64(s.maxPL)
}

// at decodes index i in [0,size) into a layout
func (s space) at(i int64, unit int) layout {
	pl := int(i%int64(s.maxPL)) + 1
	i /= int64(s.maxPL)
	nf := 1
	p := s.k()
	for i >= p {
		i -= p
		p *= s.k()
		nf++
	}
	fs := make([]fileSpec, nf)
	for j := 0; j < nf; j++ {
		c := int(i % s.k())
		i /= s.k()
		fs[j] = fileSpec{Len: c / 2, Pad: c % 2}
	}
	return layout{Files: fs, PL: pl, Unit: unit}
}

func parseSpace(v string) space {
	p := strings.Split(v, ",")
	if len(p) != 3 {
		fatal("bad -space")
	}
	a, _ := strconv.Atoi(p[0])
	b, _ := strconv.Atoi(p[1])
	c, _ := strconv.Atoi(p[2])
	return space{a, b, c}
}

func fatal(a ...any) {
	fmt.Fprintln(os.Stderr, a...)
	os.Exit(3)
}

// ---------------------------------------------------------------- output in chunks

type chunked struct {
	prefix string
	per    int
	n, k   int
	f      *os.File
	w      *bufio.Writer
	names  []string
}

func (c *chunked) emit(e ev) {
	if c.w == nil || c.n >= c.per {
		c.close()
		name := fmt.Sprintf("%s.%d.ndjson", c.prefix, c.k)
		f, err := os.Create(name)
		if err != nil {
			fatal(err)
		}
		c.f, c.w, c.n = f, bufio.NewWriterSize(f, 1<<20), 0
		c.names = append(c.names, name)
		c.k++
	}
	b, err := json.Marshal(e)
	if err != nil {
		fatal(err)
	}
	c.w.Write(b)
	c.w.WriteByte('\n')
	c.n++
}

func (c *chunked) close() {
	if c.w != nil {
		c.w.Flush()
		c.f.Close()
		c.w = nil
	}
}

// ---------------------------------------------------------------- round trip on real directory trees

type treeFile struct {
	rel  string
	size int64
}

// walkLess orders relative paths the way filepath.Walk visits them (lexical, component by component).
func walkLess(a, b string) bool {
	as, bs := strings.Split(a, "/"), strings.Split(b, "/")
	for i := 0; i < len(as) && i < len(bs); i++ {
		if as[i] != bs[i] {
			return as[i] < bs[i]
		}
	}
	return len(as) < len(bs)
}

// treeCase is one case printed by MC_GeometryTree: a tree (paths as component ids, in REVERSE walk order), the creation
// argument kind and the walk order as computed by TLC (1-based positions into Tree).
type treeCase struct {
	Tree  [][]int `json:"tree"`
	Kind  string  `json:"kind"`
	Order []int   `json:"order"`
}

// nameTable maps component id k (1-based) to a name; it is sorted in byte order (checked at start-up), so < on ids is
// the order in which filepath.Walk visits the entries of one directory.
var nameTable = []string{"0", "B", "Sub", "a", "a-b", "a.d", "b", "c.txt", "deep", "sub", "z.d"}

func relOf(path []int) string {
	parts := make([]string, len(path))
	for i, c := range path {
		if c < 1 || c > len(nameTable) {
			fatal("tree case: component id out of range: ", c)
		}
		parts[i] = nameTable[c-1]
	}
	return strings.Join(parts, "/")
}

// roundTrip: tc == nil -> a seeded random tree (argument: the directory, or the file itself for half of the one-file trees);
// tc != nil -> the tree and the creation argument kind of a TLC-generated case (sizes and contents seeded).
func roundTrip(dir string, id int, rng *rand.Rand, log logger.Logger, tc *treeCase) (e ev) {
	e = ev{"op": "RT", "pan": 0, "hang": 0, "verr": 0}
	current.Store(fmt.Sprintf(`{"op":"RT","id":%d,"pan":0,"hang":1}`, id))
	stage := 1
	defer func() {
		if r := recover(); r != nil {
			e["pan"] = stage
			e["panmsg"] = fmt.Sprint(r)
		}
	}()
	units := []int64{1, 1000, 4096, 5461, 8192, 16384}
	unit := units[rng.Intn(len(units))]
	randSize := func() int64 {
		size := int64(rng.Intn(7)) * unit
		if rng.Intn(4) == 0 {
			size += int64(rng.Intn(3)) - 1
		}
		if size < 0 {
			size = 0
		}
		return size
	}
	var files []treeFile
	root := filepath.Join(dir, fmt.Sprintf("tree%d", id))
	kind := "dir"
	if tc != nil {
		kind = tc.Kind
		if len(tc.Order) != len(tc.Tree) {
			fatal("tree case: order and tree differ in length")
		}
		tlen := make([]int, len(tc.Tree))
		for j := range tc.Tree {
			tlen[j] = int(randSize())
		}
		// the expected file order is TLC's (WalkOrder), not computed here
		for _, o := range tc.Order {
			files = append(files, treeFile{relOf(tc.Tree[o-1]), int64(tlen[o-1])})
		}
		tot := 0
		for _, v := range tlen {
			tot += v
		}
		if tot == 0 {
			o := tc.Order[len(tc.Order)-1]
			tlen[o-1] = int(unit + 1)
			files[len(files)-1].size = unit + 1
		}
		e["tree"] = tc.Tree
		e["tlen"] = tlen
	} else {
		nf := 1 + rng.Intn(5)
		if nf == 1 && rng.Intn(2) == 0 {
			kind = "file"
		}
		names := []string{"a", "b", "c.txt", "B", "z", "0", "a.d", "a-b", "_x"}
		dirs := []string{"", "", "sub/", "sub/deep/", "a/", "z.d/", "Sub/"}
		seen := map[string]bool{}
		for len(files) < nf {
			rel := dirs[rng.Intn(len(dirs))] + names[rng.Intn(len(names))]
			if kind == "file" {
				rel = names[rng.Intn(len(names))]
			}
			// a name may not be both a file and a directory
			bad := seen[rel]
			for o := range seen {
				if strings.HasPrefix(o, rel+"/") || strings.HasPrefix(rel, o+"/") {
					bad = true
				}
			}
			if bad {
				continue
			}
			seen[rel] = true
			files = append(files, treeFile{rel, randSize()})
		}
		sort.Slice(files, func(i, j int) bool { return walkLess(files[i].rel, files[j].rel) })
	}
	single := kind == "file"
	e["kind"] = kind
	var total int64
	for _, f := range files {
		total += f.size
	}
	if total == 0 {
		files[len(files)-1].size = unit + 1
		total = unit + 1
	}
	content := map[string][]byte{}
	for _, f := range files {
		p := filepath.Join(root, filepath.FromSlash(f.rel))
		if err := os.MkdirAll(filepath.Dir(p), 0o755); err != nil {
			fatal(err)
		}
		b := make([]byte, f.size)
		// content class: random bytes | all zeros (sparse / preallocated file) | a long zero run inside random bytes |
		// zeros with a few non-zero bytes
		switch kind := rng.Intn(6); {
		case kind <= 2 || f.size == 0:
			rng.Read(b)
		case kind == 3:
		case kind == 4:
			rng.Read(b)
			a := rng.Intn(len(b))
			z := a + rng.Intn(len(b)-a+1)
			for j := a; j < z; j++ {
				b[j] = 0
			}
		default:
			for j := 0; j < 3; j++ {
				b[rng.Intn(len(b))] = byte(1 + rng.Intn(255))
			}
		}
		content[f.rel] = b
		if err := os.WriteFile(p, b, 0o644); err != nil {
			fatal(err)
		}
	}
	plk := 1 + rng.Intn(3)
	pl := uint32(plk * 16384)
	fl := make([][]int, len(files))
	for i, f := range files {
		fl[i] = []int{int(f.size), 0}
	}
	if tc != nil { // tree order (the order TLC handed the tree over in); Trace_Geometry sorts
		for j, v := range e["tlen"].([]int) {
			fl[j] = []int{v, 0}
		}
	}
	e["files"] = fl
	e["pl"] = int(pl)
	e["unit"] = 1
	e["single"] = b2i(single)

	stage = 2
	var ib []byte
	var err error
	switch kind {
	case "file": // the regular file itself
		ib, err = metainfo.NewInfoBytes("", []string{filepath.Join(root, files[0].rel)}, false, pl, "", log)
	case "dir": // the directory
		ib, err = metainfo.NewInfoBytes("", []string{root}, false, pl, "", log)
	case "paths": // the directory as root, its top-level entries one by one (directory order), named after the directory
		var tops []string
		for _, f := range files { // files are in walk order, so first components come out in directory order
			t := strings.SplitN(f.rel, "/", 2)[0]
			if len(tops) == 0 || tops[len(tops)-1] != t {
				tops = append(tops, t)
			}
		}
		if len(tops) < 2 {
			fatal("tree case: kind paths needs two top-level entries")
		}
		paths := make([]string, len(tops))
		for i, t := range tops {
			paths[i] = filepath.Join(root, t)
		}
		ib, err = metainfo.NewInfoBytes(root, paths, false, pl, filepath.Base(root), log)
	default:
		fatal("tree case: unknown kind ", kind)
	}
	if err != nil {
		panic("NewInfoBytes: " + err.Error())
	}
	stage = 3
	info, err := metainfo.NewInfo(ib, true, true)
	if err != nil {
		e["acc"] = 0
		e["accmsg"] = err.Error()
		return e
	}
	e["acc"] = 1
	e["np"] = int(info.NumPieces)
	il := make([]int, len(info.Files))
	for i, f := range info.Files {
		il[i] = int(f.Length)
	}
	e["ilen"] = il

	// an error of the storage / the allocator (the torrent's files cannot be opened below dest) is an observation, not a crash
	verify := func(dest string) (bits []int, pieces []piece.Piece, al *allocator.Allocator, verr error) {
		sto, err := filestorage.New(dest, 0o755)
		if err != nil {
			return nil, nil, nil, err
		}
		al, err = runAllocator(info, sto)
		if err != nil {
			return nil, nil, nil, err
		}
		pieces = piece.NewPieces(info, al.Files)
		v := verifier.New()
		progressC := make(chan verifier.Progress)
		resultC := make(chan *verifier.Verifier, 1)
		go v.Run(pieces, progressC, resultC)
		var res *verifier.Verifier
		for res == nil {
			select {
			case <-progressC:
			case res = <-resultC:
			}
		}
		if res.Error != nil {
			panic("verifier: " + res.Error.Error())
		}
		bits = make([]int, res.Bitfield.Len())
		for i := range bits {
			bits[i] = b2i(res.Bitfield.Test(uint32(i)))
		}
		return
	}
	closeAll := func(al *allocator.Allocator) {
		for _, f := range al.Files {
			f.Storage.Close()
		}
	}

	// (a) verify against the very directory the torrent was created from
	stage = 4
	src := filepath.Dir(root) // info paths start with the torrent name = base name of the tree
	if single {
		src = root
	}
	bits, srcPieces, srcAl, verr := verify(src)
	if verr != nil {
		// the directory the torrent was created from cannot be opened as the torrent's storage
		e["verr"] = stage
		e["vmsg"] = verr.Error()
		os.RemoveAll(root)
		return e
	}
	e["bits"] = bits
	e["existing"] = b2i(srcAl.HasExisting && !srcAl.HasMissing)
	progress.Add(1)

	// (b) copy piece by piece through ReadAt / Write into a fresh directory, verify there, compare files
	stage = 5
	dest := filepath.Join(dir, fmt.Sprintf("copy%d", id))
	dsto, err := filestorage.New(dest, 0o755)
	if err != nil {
		panic(err)
	}
	dal, err := runAllocator(info, dsto)
	if err != nil {
		closeAll(srcAl)
		e["verr"] = stage
		e["vmsg"] = err.Error()
		os.RemoveAll(root)
		os.RemoveAll(dest)
		return e
	}
	dpieces := piece.NewPieces(info, dal.Files)
	order := rng.Perm(len(dpieces))
	for _, i := range order {
		buf := make([]byte, srcPieces[i].Length)
		if _, err := srcPieces[i].Data.ReadAt(buf, 0); err != nil {
			panic("ReadAt: " + err.Error())
		}
		if _, err := dpieces[i].Data.Write(buf); err != nil {
			panic("Write: " + err.Error())
		}
	}
	closeAll(dal)
	closeAll(srcAl)
	cbits, _, cal, verr := verify(dest)
	if verr != nil {
		e["verr"] = stage
		e["vmsg"] = verr.Error()
		os.RemoveAll(root)
		os.RemoveAll(dest)
		return e
	}
	closeAll(cal)
	e["cbits"] = cbits
	// the copy is the tree: every file of the tree is found at the same place relative to the storage root, same content
	same := 1
	for _, f := range files {
		loc := filepath.Join(dest, filepath.Base(root), filepath.FromSlash(f.rel))
		if single {
			loc = filepath.Join(dest, filepath.FromSlash(f.rel))
		}
		got, err := os.ReadFile(loc)
		if err != nil || !bytes.Equal(got, content[f.rel]) {
			same = 0
		}
	}
	e["same"] = same
	// independent piece hashes over the concatenation in walk order
	stage = 6
	var cat []byte
	for _, f := range files {
		cat = append(cat, content[f.rel]...)
	}
	hok := 1
	zp := 0
	for i := 0; i < int(info.NumPieces); i++ {
		lo := i * int(pl)
		hi := lo + int(pl)
		if hi > len(cat) {
			hi = len(cat)
		}
		if lo > hi {
			hok = 0
			break
		}
		h := sha1.Sum(cat[lo:hi])
		if !bytes.Equal(h[:], info.PieceHash(uint32(i))) {
			hok = 0
		}
		if len(bytes.Trim(cat[lo:hi], "\x00")) == 0 {
			zp++
		}
	}
	e["hashok"] = hok
	e["zp"] = zp // pieces that consist of zero bytes only (evidence)
	os.RemoveAll(root)
	os.RemoveAll(dest)
	progress.Add(1)
	return e
}

// ---------------------------------------------------------------- main

func main() {
	mode := flag.String("mode", "byte", "byte | scaled | rt")
	out := flag.String("out", "c02", "output prefix (<prefix>.<k>.ndjson)")
	chunk := flag.Int("chunk", 4000, "lines per output file")
	spaceS := flag.String("space", "3,4,5", "maxFiles,maxLen,maxPL")
	all := flag.Bool("all", false, "enumerate the whole space")
	from := flag.Int64("from", 0, "with -all: first index")
	stride := flag.Int64("stride", 1, "with -all: step")
	sample := flag.Int("sample", 0, "number of seeded random layouts")
	seed := flag.Int64("seed", 1, "seed")
	bssS := flag.String("bss", "2,3", "block sizes (byte mode)")
	dir := flag.String("dir", "", "scratch directory (rt mode)")
	n := flag.Int("n", 20, "number of trees (rt mode)")
	treesF := flag.String("trees", "", "rt mode: ndjson file of TLC-generated tree cases {tree,kind,order}, run before the -n seeded trees")
	layoutsF := flag.String("layouts", "", "ndjson file of {files,pl,unit,sf,mode}: process exactly these layouts (replay)")
	flag.Parse()

	logger.Disable()
	rng := rand.New(rand.NewSource(*seed))
	c := &chunked{prefix: *out, per: *chunk}

	// watchdog: a layout that makes the real code spin is reported as a line with hang = 1
	go func() {
		last, lastT := int64(-1), time.Now()
		for {
			time.Sleep(500 * time.Millisecond)
			p := progress.Load()
			if p != last {
				last, lastT = p, time.Now()
				continue
			}
			if time.Since(lastT) > 20*time.Second {
				cur, _ := current.Load().(string)
				if cur != "" {
					var e ev
					if json.Unmarshal([]byte(cur), &e) == nil {
						e["hang"] = 1
						name := fmt.Sprintf("%s.hang.ndjson", *out)
						b, _ := json.Marshal(e)
						os.WriteFile(name, append(b, '\n'), 0o644)
					}
				}
				fmt.Println("HANG")
				os.Exit(0)
			}
		}
	}()

	if *layoutsF != "" {
		data, err := os.ReadFile(*layoutsF)
		if err != nil {
			fatal(err)
		}
		for _, line := range strings.Split(string(data), "\n") {
			if strings.TrimSpace(line) == "" {
				continue
			}
			var in struct {
				Files [][]int `json:"files"`
				PL    int     `json:"pl"`
				Unit  int     `json:"unit"`
				SF    int     `json:"sf"`
				Mode  string  `json:"mode"`
				Zero  []int   `json:"zero"`
				NC    int     `json:"nc"`
			}
			if err := json.Unmarshal([]byte(line), &in); err != nil {
				fatal(err)
			}
			l := layout{PL: in.PL, Unit: in.Unit, SF: in.SF == 1, Zero: in.Zero, NC: in.NC}
			for _, f := range in.Files {
				l.Files = append(l.Files, fileSpec{Len: f[0], Pad: f[1]})
			}
			bss := []int{2, 3}
			if in.Mode == "scaled" {
				bss = []int{piece.BlockSize}
			}
			c.emit(process(l, in.Mode, bss, rng))
			progress.Add(1)
		}
		c.close()
		for _, nme := range c.names {
			fmt.Println(nme)
		}
		return
	}

	switch *mode {
	case "byte", "scaled":
		sp := parseSpace(*spaceS)
		var bss []int
		if *mode == "scaled" {
			bss = []int{piece.BlockSize}
		} else {
			for _, s := range strings.Split(*bssS, ",") {
				v, _ := strconv.Atoi(s)
				bss = append(bss, v)
			}
		}
		units := []int{1}
		if *mode == "scaled" {
			units = []int{4096, 5461, 8192}
		}
		do := func(i int64, variants bool) {
			l := sp.at(i, units[rng.Intn(len(units))])
			if variants {
				// content class: zero-content chunks (a whole piece, a whole file, a run, a random subset)
				l.Zero = zeroChunks(l, rng)
				// name class: two non-padding files whose raw names differ but clean to one on-disk name
				if rng.Intn(6) == 0 {
					l.NC = 1 + rng.Intn(len(namePairs))
					if l.nameClassFiles() == nil {
						l.NC = 0
					}
				}
			}
			c.emit(process(l, *mode, bss, rng))
			progress.Add(1)
			if len(l.Files) == 1 && l.Files[0].Pad == 0 {
				l.SF = true
				c.emit(process(l, *mode, bss, rng))
				progress.Add(1)
			}
		}
		if *all {
			for i := *from; i < sp.size(); i += *stride {
				do(i, false)
			}
		}
		for k := 0; k < *sample; k++ {
			do(rng.Int63n(sp.size()), true)
		}
	case "rt":
		if *dir == "" {
			fatal("-dir required")
		}
		log := logger.New("c02")
		if !sort.StringsAreSorted(nameTable) {
			fatal("nameTable is not in byte order")
		}
		if *treesF != "" { // TLC-generated tree cases (MC_GeometryTree), one JSON object per line
			data, err := os.ReadFile(*treesF)
			if err != nil {
				fatal(err)
			}
			k := 0
			for _, line := range strings.Split(string(data), "\n") {
				if strings.TrimSpace(line) == "" {
					continue
				}
				var tc treeCase
				if err := json.Unmarshal([]byte(line), &tc); err != nil {
					fatal(err)
				}
				c.emit(roundTrip(*dir, 100000+k, rng, log, &tc))
				progress.Add(1)
				k++
			}
		}
		for i := 0; i < *n; i++ {
			c.emit(roundTrip(*dir, i, rng, log, nil))
			progress.Add(1)
		}
	default:
		fatal("bad -mode")
	}
	c.close()
	for _, nme := range c.names {
		fmt.Println(nme)
	}
}
