// Command smoke: one straight-line leech from a scripted seeder into a real Session (harness self-test).
package main

import (
	"bytes"
	"fmt"
	"os"
	"time"

	"github.com/cenkalti/rain/v2/internal/verif/vh"
	"github.com/cenkalti/rain/v2/torrent"
)

func main() {
	torrent.DisableLogging()
	dir, _ := os.MkdirTemp("/var/tmp", "vh-smoke")
	defer os.RemoveAll(dir)
	T, _ := vh.NewTracer(dir + "/trace.ndjson")
	T.Keep = true
	hub := vh.InstallSnapHub(T, true)
	for _, lay := range vh.StdLayouts(16384) {
		tor := vh.Build(lay, 1, nil, nil)
		cfg, err := vh.BaseConfig(dir, 20)
		if err != nil {
			panic(err)
		}
		prov := vh.NewMemProvider(T)
		prov.Truth[""] = tor
		prov.Quiet = true
		cfg.CustomStorage = prov
		os.Remove(cfg.Database)
		s, err := torrent.NewSession(cfg)
		if err != nil {
			panic(err)
		}
		t0 := time.Now()
		tr, err := s.AddTorrent(bytes.NewReader(tor.Bytes), nil)
		if err != nil {
			panic(err)
		}
		ok := hub.Wait(tr.ID(), 5*time.Second, func(s *torrent.VerifSnap) bool { return s.Acceptor && s.Status == "Downloading" })
		if !ok {
			fmt.Println(lay.Name, "not downloading", hub.Get(tr.ID()))
		}
		sd, err := vh.ConnectSeeder(T, "seed1", "127.0.0.2", fmt.Sprintf("127.0.0.1:%d", tr.Port()), tor, &vh.SeederPolicy{})
		if err != nil {
			panic(err)
		}
		select {
		case <-tr.NotifyComplete():
			fmt.Printf("%s: complete in %v, files ok=%v served=%d pieces=%d\n", lay.Name, time.Since(t0), prov.Store(tr.ID()).Complete(tor), sd.Served.Load(), tor.NumPieces)
		case <-time.After(10 * time.Second):
			fmt.Printf("%s: TIMEOUT %+v\n", lay.Name, hub.Get(tr.ID()))
		}
		s.Close()
	}
	T.Close()
	fi, _ := os.Stat(dir + "/trace.ndjson")
	fmt.Println("trace bytes", fi.Size(), "events", len(T.Mem))
}
