//go:build verif

package torrent

import "go.etcd.io/bbolt"

// Overlay-only shim for property C05 (never written into /repo): a consistent copy of the open session
// database taken inside one read transaction - exactly the committed state a process death at this
// instant leaves in the database file (bbolt commits are atomic).
func VerifC05SnapshotDB(s *Session, path string) error {
	return s.db.View(func(tx *bbolt.Tx) error { return tx.CopyFile(path, 0o600) })
}
