//go:build verif

package torrent

// Overlay-only shim for the extension check X05 (never written into /repo): the in-memory bitfield of a torrent,
// read under the lock the code itself uses for readers outside the torrent loop.
func VerifX05MemBitfield(t *Torrent) (b []byte, n uint32, ok bool) {
	t.torrent.mBitfield.RLock()
	defer t.torrent.mBitfield.RUnlock()
	if t.torrent.bitfield == nil {
		return nil, 0, false
	}
	return append([]byte(nil), t.torrent.bitfield.Bytes()...), t.torrent.bitfield.Len(), true
}
