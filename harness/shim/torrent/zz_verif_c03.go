//go:build verif

package torrent

import "time"

// Overlay-only shim for C03 (never written into /repo): the unchoke period is a hard-coded 10 s ticker
// owned by the torrent loop; shortening it lets a scenario see many choke/unchoke decisions of the
// real unchoker within a second. Call only after the torrent has reached Seeding/Downloading
// (the loop creates the ticker when it starts).
func VerifSetUnchokePeriod(t *Torrent, d time.Duration) {
	if tk := t.torrent.unchokeTicker; tk != nil {
		tk.Reset(d)
	}
}
