//go:build verif

package torrent

import (
	"github.com/cenkalti/rain/v2/internal/resumer/boltdbresumer"
	"go.etcd.io/bbolt"
)

// Overlay-only shim for property C05 (never written into /repo): a read-only view of the resume
// bitfield of one torrent as it is stored in the open session database (one read transaction).
func VerifC05DBBitfield(s *Session, id string) (val []byte, ok bool) {
	_ = s.db.View(func(tx *bbolt.Tx) error {
		tb := tx.Bucket(torrentsBucket)
		if tb == nil {
			return nil
		}
		b := tb.Bucket([]byte(id))
		if b == nil {
			return nil
		}
		v := b.Get(boltdbresumer.Keys.Bitfield)
		if len(v) > 0 {
			val = append([]byte(nil), v...)
			ok = true
		}
		return nil
	})
	return
}
