//go:build verif

package torrent

import (
	"time"

	"github.com/cenkalti/rain/v2/internal/peer"
)

// Overlay-only shim for check C08 (never written into /repo): the request-timeout ("snub") timer event of a
// peer as an environment action.
//
// peer.Run takes the event from snubTimer.C and then hands it to the torrent loop (`snubbed <- p`). Between the
// two steps the loop may handle messages that peer.Run delivered earlier (a Choke stops the timer, but the event
// is already on its way). That window is a few instructions wide in real time; VerifC08Snub performs the
// second step on behalf of peer.Run so that a driver can place it anywhere in a history.

// VerifC08Peer returns the established peer with remote IP ip, nil if there is none.
// t.peers is owned by the torrent loop: call it ON THE LOOP GOROUTINE (inside the H1 tracer callback).
func VerifC08Peer(tt *Torrent, ip string) *peer.Peer {
	for pe := range tt.torrent.peers {
		if pe.IP() == ip {
			return pe
		}
	}
	return nil
}

// VerifC08Snub hands the timer event of pe to the torrent loop exactly as peer.Run does (same channel, gives
// up when the peer's run loop has ended). Returns 1 = taken by the loop, 0 = peer gone, -1 = loop did not take
// it within d.
func VerifC08Snub(tt *Torrent, pe *peer.Peer, d time.Duration) int {
	select {
	case tt.torrent.peerSnubbedC <- pe:
		return 1
	case <-pe.Done():
		return 0
	case <-time.After(d):
		return -1
	}
}
