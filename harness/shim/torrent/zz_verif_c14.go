package torrent

import (
	"encoding/hex"
	"sort"

	"go.etcd.io/bbolt"
)

// Overlay-only shim (never written into /repo): read-only views of the session registry for the C14 harness,
// taken under the locks the code itself uses, plus a setter for the per-torrent transfer counters (the
// counters are go-metrics counters, safe for concurrent use).

// VerifC14View is the registry as the session sees it.
type VerifC14View struct {
	Avail      []int                        // available ports (mPorts)
	IDs        []string                     // keys of s.torrents (mTorrents)
	ByInfoHash map[string][]string          // hex info-hash -> ids (mTorrents)
	Invalid    []string                     // ids whose record could not be loaded at startup
	Buckets    map[string]map[string][]byte // resume database: id -> key -> value (one read transaction)
}

// VerifC14Snapshot reads the registry (ports, maps) and the resume database of an open session.
func VerifC14Snapshot(s *Session) VerifC14View {
	var v VerifC14View
	s.mPorts.RLock()
	for p := range s.availablePorts {
		v.Avail = append(v.Avail, p)
	}
	s.mPorts.RUnlock()
	sort.Ints(v.Avail)
	v.ByInfoHash = map[string][]string{}
	s.mTorrents.RLock()
	for id := range s.torrents {
		v.IDs = append(v.IDs, id)
	}
	for ih, l := range s.torrentsByInfoHash {
		if len(l) == 0 {
			continue
		}
		k := hex.EncodeToString([]byte(ih))
		for _, t := range l {
			v.ByInfoHash[k] = append(v.ByInfoHash[k], t.torrent.id)
		}
		sort.Strings(v.ByInfoHash[k])
	}
	s.mTorrents.RUnlock()
	sort.Strings(v.IDs)
	v.Invalid = append(v.Invalid, s.invalidTorrentIDs...)
	v.Buckets = VerifC14ReadDB(s.db)
	return v
}

// VerifC14ReadDB dumps every torrent bucket of a resume database in one read transaction.
func VerifC14ReadDB(db *bbolt.DB) map[string]map[string][]byte {
	out := map[string]map[string][]byte{}
	_ = db.View(func(tx *bbolt.Tx) error {
		tb := tx.Bucket(torrentsBucket)
		if tb == nil {
			return nil
		}
		return tb.ForEach(func(k, v []byte) error {
			b := tb.Bucket(k)
			if b == nil {
				return nil
			}
			m := map[string][]byte{}
			_ = b.ForEach(func(k2, v2 []byte) error {
				m[string(k2)] = append([]byte{}, v2...)
				return nil
			})
			out[string(k)] = m
			return nil
		})
	})
	return out
}

// VerifC14Opts returns the option flags of a torrent (constant after creation unless the torrent completes).
func VerifC14Opts(t *Torrent) (stopAfterDownload, stopAfterMetadata, sequential bool) {
	return t.torrent.stopAfterDownload, t.torrent.stopAfterMetadata, t.torrent.sequential
}

// VerifC14Bump adds to the transfer counters of a torrent, as traffic would.
func VerifC14Bump(t *Torrent, dl, ul, wasted, seeded int64) {
	t.torrent.bytesDownloaded.Inc(dl)
	t.torrent.bytesUploaded.Inc(ul)
	t.torrent.bytesWasted.Inc(wasted)
	t.torrent.seededFor.Inc(seeded)
}

// VerifC14Counters reads the transfer counters without going through the torrent loop.
func VerifC14Counters(t *Torrent) (dl, ul, wasted, seeded int64) {
	return t.torrent.bytesDownloaded.Count(), t.torrent.bytesUploaded.Count(), t.torrent.bytesWasted.Count(), t.torrent.seededFor.Count()
}

// VerifC14HasInfo tells whether the torrent has metadata (constant for torrents that are never started).
func VerifC14HasInfo(t *Torrent) bool { return t.torrent.info != nil }

// VerifC14HoldDB opens a write transaction on the resume database and keeps it until release is called:
// every db.Update of the session blocks meanwhile (scheduler gate for the database steps).
func VerifC14HoldDB(s *Session) (release func()) {
	tx, err := s.db.Begin(true)
	if err != nil {
		return func() {}
	}
	return func() { _ = tx.Rollback() }
}

// VerifC14Trackers returns the tracker tiers of the live torrent (what Magnet() / Torrent() would export).
func VerifC14Trackers(t *Torrent) [][]string { return t.torrent.getTieredTrackers() }

// VerifC14PlantKey puts a plain KEY (not a bucket) named id into the torrents bucket of the open database: the next
// resumer.Write(id) fails inside its transaction (CreateBucketIfNotExists: incompatible value) - a database fault at
// exactly the resume-write step of an add.  It refuses (false) if a record or key of that name exists.
func VerifC14PlantKey(s *Session, id string) bool {
	ok := false
	_ = s.db.Update(func(tx *bbolt.Tx) error {
		tb := tx.Bucket(torrentsBucket)
		if tb.Bucket([]byte(id)) != nil || tb.Get([]byte(id)) != nil {
			return nil
		}
		ok = tb.Put([]byte(id), []byte("verif-planted")) == nil
		return nil
	})
	return ok
}

// VerifC14UnplantKey removes a planted plain key again.
func VerifC14UnplantKey(s *Session, id string) {
	_ = s.db.Update(func(tx *bbolt.Tx) error {
		tb := tx.Bucket(torrentsBucket)
		if tb.Bucket([]byte(id)) == nil && tb.Get([]byte(id)) != nil {
			return tb.Delete([]byte(id))
		}
		return nil
	})
}

// VerifC14BreakRecord replaces the record (bucket) of id by a plain key: the DeleteBucket of a following RemoveTorrent(id)
// fails (incompatible value) - a database fault at exactly the record-delete step of a remove.
func VerifC14BreakRecord(s *Session, id string) bool {
	ok := false
	_ = s.db.Update(func(tx *bbolt.Tx) error {
		tb := tx.Bucket(torrentsBucket)
		if tb.Bucket([]byte(id)) == nil {
			return nil
		}
		if tb.DeleteBucket([]byte(id)) != nil {
			return nil
		}
		ok = tb.Put([]byte(id), []byte("verif-planted")) == nil
		return nil
	})
	return ok
}

// VerifC14HasRecord tells whether the resume database holds a record (bucket) of that id (a read transaction: it is never
// blocked by a writer and sees the last committed state).
func VerifC14HasRecord(s *Session, id string) bool {
	ok := false
	_ = s.db.View(func(tx *bbolt.Tx) error {
		tb := tx.Bucket(torrentsBucket)
		ok = tb != nil && tb.Bucket([]byte(id)) != nil
		return nil
	})
	return ok
}
