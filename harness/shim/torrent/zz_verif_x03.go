//go:build verif

package torrent

import (
	"encoding/hex"
	"fmt"
	"sort"
)

// Overlay-only shim for check X03 (never written into /repo): the connection bookkeeping of one torrent
// with the identities hook H1 only counts (handshaker addresses, peer ids, queued addresses).
//
// The fields are owned by the torrent loop. VerifX03Snapshot must therefore be called ON THE LOOP
// GOROUTINE, i.e. from inside the H1 tracer callback (torrent.VerifSetTracer), which the loop calls
// synchronously after every handled event.

// VerifX03Peer is one established peer.
type VerifX03Peer struct {
	Addr     string `json:"addr"`
	ID       string `json:"id"`
	Incoming bool   `json:"incoming"`
	Outgoing bool   `json:"outgoing"`
}

// VerifX03HS is one handshaker: its address (remote address of the accepted socket / dialled address)
// and its identity (two handshakers for the same address one after the other are different handshakers).
type VerifX03HS struct {
	Addr string `json:"addr"`
	Ptr  string `json:"ptr"`
}

// VerifX03 is the connection state of one torrent.
type VerifX03 struct {
	OwnID   string         `json:"ownID"`
	InHS    []VerifX03HS   `json:"inHS"`    // incoming handshakers
	OutHS   []VerifX03HS   `json:"outHS"`   // outgoing handshakers
	Peers   []VerifX03Peer `json:"peers"`   // t.peers
	PeerIDs []string       `json:"peerIDs"` // t.peerIDs
	Queue   []string       `json:"queue"`   // t.addrList
	NIn     int            `json:"nIn"`     // len(t.incomingPeers)
	NOut    int            `json:"nOut"`    // len(t.outgoingPeers)
}

// VerifX03Snapshot reads the loop-owned connection maps (loop goroutine only, see above).
func VerifX03Snapshot(tt *Torrent) VerifX03 {
	t := tt.torrent
	v := VerifX03{OwnID: hex.EncodeToString(t.peerID[:]), InHS: []VerifX03HS{}, OutHS: []VerifX03HS{}, Peers: []VerifX03Peer{}, PeerIDs: []string{}, Queue: []string{}}
	for h := range t.incomingHandshakers {
		// h.Conn is written by the handshaker goroutine only when an ENCRYPTED handshake succeeds (the
		// plaintext path stores the same value again); the X03 driver uses plaintext remote sides only.
		v.InHS = append(v.InHS, VerifX03HS{Addr: h.Conn.RemoteAddr().String(), Ptr: fmt.Sprintf("%p", h)})
	}
	for h := range t.outgoingHandshakers {
		v.OutHS = append(v.OutHS, VerifX03HS{Addr: h.Addr.String(), Ptr: fmt.Sprintf("%p", h)})
	}
	for pe := range t.peers {
		p := VerifX03Peer{Addr: pe.Addr().String(), ID: hex.EncodeToString(pe.ID[:])}
		_, p.Incoming = t.incomingPeers[pe]
		_, p.Outgoing = t.outgoingPeers[pe]
		v.Peers = append(v.Peers, p)
	}
	for id := range t.peerIDs {
		v.PeerIDs = append(v.PeerIDs, hex.EncodeToString(id[:]))
	}
	for _, it := range t.addrList.VerifDump() {
		v.Queue = append(v.Queue, it.Addr.String())
	}
	v.NIn, v.NOut = len(t.incomingPeers), len(t.outgoingPeers)
	sort.Slice(v.InHS, func(i, j int) bool { return v.InHS[i].Addr+v.InHS[i].Ptr < v.InHS[j].Addr+v.InHS[j].Ptr })
	sort.Slice(v.OutHS, func(i, j int) bool { return v.OutHS[i].Addr+v.OutHS[i].Ptr < v.OutHS[j].Addr+v.OutHS[j].Ptr })
	sort.Strings(v.PeerIDs)
	sort.Strings(v.Queue)
	sort.Slice(v.Peers, func(i, j int) bool { return v.Peers[i].Addr < v.Peers[j].Addr })
	return v
}
