//go:build verifshim

package torrent

// Overlay-only shim (never written into /repo), used by harness/c07: gives the driver access to the unexported
// archive extraction used when a torrent is moved between sessions (session_move_torrent.go).

import (
	"io"
	"io/fs"
)

// VerifC07ReadData calls readData unchanged.
func VerifC07ReadData(r io.Reader, dir string, perm fs.FileMode) error { return readData(r, dir, perm) }
