package urldownloader

// Overlay-only shim for the extension check X06 (never written into /repo).

// VerifDoneC is closed when Run has returned.
func VerifDoneC(d *URLDownloader) <-chan struct{} { return d.doneC }
