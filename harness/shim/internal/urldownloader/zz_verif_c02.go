package urldownloader

import "github.com/cenkalti/rain/v2/internal/piece"

// Overlay-only shim for property C02 (never written into /repo): exposes the web-seed job list.

// VerifJob mirrors downloadJob.
type VerifJob struct {
	Filename   string
	RangeBegin int64
	Length     int64
	Padding    bool
}

// VerifCreateJobs calls createJobs(pieces, begin, end).
func VerifCreateJobs(pieces []piece.Piece, begin, end uint32) []VerifJob {
	js := createJobs(pieces, begin, end)
	out := make([]VerifJob, len(js))
	for i, j := range js {
		out[i] = VerifJob{Filename: j.Filename, RangeBegin: j.RangeBegin, Length: j.Length, Padding: j.Padding}
	}
	return out
}
