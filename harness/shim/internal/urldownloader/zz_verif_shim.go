package urldownloader

// Overlay-only shim (never written into /repo): lets a harness create a URLDownloader whose
// position is driven by the harness instead of by HTTP traffic.

// VerifNewIdle returns a downloader for [begin,end) whose Run goroutine is considered finished,
// so that Close() returns immediately.
func VerifNewIdle(url string, begin, end uint32) *URLDownloader {
	d := New(url, begin, end, nil)
	close(d.doneC)
	return d
}

// VerifSetCurrent sets the index of the piece currently being downloaded.
func VerifSetCurrent(d *URLDownloader, v uint32) {
	for d.ReadCurrent() < v {
		d.incrCurrent()
	}
}
