package bufferpool

import "sync"

// Overlay-only shim for the extension check X06 (never written into /repo): a Pool whose allocations are
// observable and whose content can be taken out, so that a harness sees every Get (the pool is kept empty,
// hence every Get allocates) and every Release (the released buffer is found in the pool).

// VerifNewPool is New(buflen) with a callback for every buffer the pool allocates; the buffers come dirty, as
// recycled ones do.
func VerifNewPool(buflen int, onNew func(id *[]byte)) *Pool {
	return &Pool{
		pool: sync.Pool{
			New: func() any {
				b := make([]byte, buflen)
				for i := range b { // a recycled buffer is dirty: Get has to clear it
					b[i] = 0xDD
				}
				onNew(&b)
				return &b
			},
		},
	}
}

// VerifDrain removes and returns everything that is in the pool (complete only with GOMAXPROCS(1) and no
// garbage collection since the last drain). Must not run concurrently with Get.
func VerifDrain(p *Pool) []*[]byte {
	nw := p.pool.New
	p.pool.New = nil
	var out []*[]byte
	for {
		x := p.pool.Get()
		if x == nil {
			break
		}
		out = append(out, x.(*[]byte))
	}
	p.pool.New = nw
	return out
}

// VerifID returns the identity of the backing array of a Buffer.
func VerifID(b Buffer) *[]byte { return b.buf }
