package piececache

// Overlay-only shim (never written into /repo): read-only projection of the cache for the C17 harness.
// Meant to be called when no Get is in flight.

// VerifEntry is one entry of the access heap.
type VerifEntry struct {
	Key   string
	Value []byte
}

// VerifSnap is the projection of the cache state.
type VerifSnap struct {
	Size     int64
	MaxSize  int64
	Items    int // len(c.items)
	Heap     []VerifEntry
	HeapOK   bool // heap indices, map entries and heap entries agree one to one
	TimersOK bool // every cached entry has its expiry timer
}

// VerifSnapshot returns the projection under the cache lock.
func (c *Cache) VerifSnapshot() VerifSnap {
	c.m.RLock()
	defer c.m.RUnlock()
	s := VerifSnap{Size: c.size, MaxSize: c.maxSize, Items: len(c.items), HeapOK: true, TimersOK: true}
	for idx, it := range c.accessList {
		s.Heap = append(s.Heap, VerifEntry{Key: it.key, Value: it.value})
		if it.index != idx || c.items[it.key] != it || !it.loaded || it.err != nil {
			s.HeapOK = false
		}
		if it.timer == nil {
			s.TimersOK = false
		}
	}
	if len(c.items) != len(c.accessList) {
		s.HeapOK = false
	}
	return s
}
