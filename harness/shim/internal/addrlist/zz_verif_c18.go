package addrlist

import (
	"net"

	"github.com/cenkalti/rain/v2/internal/peersource"
	"github.com/google/btree"
)

// Overlay-only shim (never written into /repo): read-only view of the queue content for the C18 harness.

// VerifItem is one queued address.
type VerifItem struct {
	Addr     *net.TCPAddr
	Source   peersource.Source
	Priority uint32 // the priority the address was queued with
}

// VerifDump returns the queued addresses in ascending priority order.
func (d *AddrList) VerifDump() []VerifItem {
	var out []VerifItem
	d.peerByPriority.Ascend(func(i btree.Item) bool {
		p := i.(*peerAddr)
		out = append(out, VerifItem{Addr: p.addr, Source: p.source, Priority: p.priority})
		return true
	})
	return out
}
