package announcer

import (
	"time"

	"github.com/cenkalti/backoff/v7"
)

// Overlay-only shim (never written into /repo) for the C16 announcer-level driver: the retry back-off of a
// PeriodicalAnnouncer is a struct field created in NewPeriodicalAnnouncer (5 s initial, not a package variable);
// the driver replaces it before Run so that many fail-over cycles fit into a few seconds. Only the constants
// change; the retry/fail-over logic under test is untouched.
func VerifSetBackoff(a *PeriodicalAnnouncer, initial, max time.Duration, multiplier float64) {
	a.backoff = &backoff.ExponentialBackOff{
		InitialInterval:     initial,
		RandomizationFactor: 0.5,
		Multiplier:          multiplier,
		MaxInterval:         max,
	}
}

// VerifStatus returns the announcer status through the stats command (0 NotContactedYet, 1 Contacting, 2 Working, 3 NotWorking).
func VerifStatus(a *PeriodicalAnnouncer) int { return int(a.Stats().Status) }
