package piece

// Overlay-only shim for property C02 (never written into /repo): reaches the unexported
// calculateBlocks so that the block split can be exercised with small block sizes.

// VerifCalculateBlocks calls calculateBlocks(blockSize).
func VerifCalculateBlocks(p *Piece, blockSize uint32) []Block {
	return p.calculateBlocks(blockSize)
}
