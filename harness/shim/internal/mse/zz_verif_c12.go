package mse

// Overlay-only shim (never written into /repo), used by harness/c12 for a SCRIPTED MISBEHAVING PEER only.

import (
	"bytes"
	"crypto/sha1"
	"encoding/binary"
	"errors"
	"io"
	"math/big"
)

// VerifHandshakeIncomingLoose is the receiving side of the handshake as a hostile or broken peer would run it:
// the same message layout as HandshakeIncoming (it reuses the package's helpers), but the value returned by
// cryptoSelect is sent as crypto_select WITHOUT any validation (zero, several bits, a method that was not offered).
// The code under test is the initiator that talks to it.
func (s *Stream) VerifHandshakeIncomingLoose(
	getSKey func(sKeyHash [20]byte) (sKey []byte),
	cryptoSelect func(provided CryptoMethod) (selected CryptoMethod)) (err error) {
	writeBuf := bytes.NewBuffer(make([]byte, 0, 96+512))
	Xb, Yb, err := keyPair()
	if err != nil {
		return
	}
	b := make([]byte, 96+512)
	firstRead, err := io.ReadAtLeast(s.raw, b, 96)
	if err != nil {
		return
	}
	Ya := new(big.Int)
	Ya.SetBytes(b[:96])
	S := Ya.Exp(Ya, Xb, p)
	writeBuf.Write(bytesWithPad(Yb))
	padB, err := padRandom()
	if err != nil {
		return
	}
	writeBuf.Write(padB)
	if _, err = writeBuf.WriteTo(s.raw); err != nil {
		return
	}
	if err = s.readSync(hashInt("req1", S), 628-firstRead); err != nil {
		return
	}
	var hashRead [20]byte
	if _, err = io.ReadFull(s.raw, hashRead[:]); err != nil {
		return
	}
	req3 := hashInt("req3", S)
	for i := 0; i < sha1.Size; i++ {
		hashRead[i] ^= req3[i]
	}
	sKey := getSKey(hashRead)
	if sKey == nil {
		return errors.New("invalid SKEY hash")
	}
	if err = s.initRC4("keyB", "keyA", S, sKey); err != nil {
		return
	}
	vcRead := make([]byte, 8)
	if _, err = io.ReadFull(s.r, vcRead); err != nil {
		return
	}
	if !bytes.Equal(vcRead, vc) {
		return errors.New("invalid VC")
	}
	var cryptoProvide CryptoMethod
	if err = binary.Read(s.r, binary.BigEndian, &cryptoProvide); err != nil {
		return
	}
	selected := cryptoSelect(cryptoProvide) // not validated
	var lenPadC uint16
	if err = binary.Read(s.r, binary.BigEndian, &lenPadC); err != nil {
		return
	}
	if _, err = io.CopyN(io.Discard, s.r, int64(lenPadC)); err != nil {
		return
	}
	var lenIA uint16
	if err = binary.Read(s.r, binary.BigEndian, &lenIA); err != nil {
		return
	}
	IA := bytes.NewBuffer(make([]byte, 0, lenIA))
	if _, err = io.CopyN(IA, s.r, int64(lenIA)); err != nil {
		return
	}
	writeBuf.Write(vc)
	_ = binary.Write(writeBuf, binary.BigEndian, selected)
	padD, err := padZero()
	if err != nil {
		return
	}
	_ = binary.Write(writeBuf, binary.BigEndian, uint16(len(padD)))
	writeBuf.Write(padD)
	if _, err = writeBuf.WriteTo(s.w); err != nil {
		return
	}
	s.updateCipher(selected)
	s.r2 = io.MultiReader(IA, s.r)
	return nil
}
