package peer

// Overlay-only shim (never written into /repo) for the X02 harness.

// VerifClosePEX stops the PEX goroutine of p exactly as Peer.Close does (the rest of Close needs a Peer built by New).
func VerifClosePEX(p *Peer) {
	if p.PEX != nil {
		p.PEX.close()
	}
}
