package vh

import (
	"bufio"
	"encoding/json"
	"os"
	"sync"
	"sync/atomic"
	"time"
)

// Ev is one trace event.
type Ev map[string]any

// Tracer writes ndjson events; every event takes its number from one atomic counter at its
// occurrence point, so happens-before order implies sequence order (DESIGN.md section 6).
type Tracer struct {
	mu    sync.Mutex
	w     *bufio.Writer
	f     *os.File
	seq   atomic.Int64
	t0    time.Time
	Mem   []Ev // in-memory copy when Keep is set
	Keep  bool
	Trace int // current trace id
	// AutoFlush writes every event through at once (drivers that may be killed by a panic of the code under test)
	AutoFlush bool
}

func NewTracer(path string) (*Tracer, error) {
	t := &Tracer{t0: time.Now()}
	if path != "" {
		f, err := os.Create(path)
		if err != nil {
			return nil, err
		}
		t.f = f
		t.w = bufio.NewWriterSize(f, 1<<20)
	}
	return t, nil
}

// Emit stamps and writes the event. Safe for concurrent use.
func (t *Tracer) Emit(e Ev) {
	t.mu.Lock()
	e["seq"] = t.seq.Add(1)
	e["t_ms"] = time.Since(t.t0).Milliseconds()
	e["tr"] = t.Trace
	if t.w != nil {
		b, err := json.Marshal(e)
		if err == nil {
			t.w.Write(b)
			t.w.WriteByte('\n')
			if t.AutoFlush {
				t.w.Flush()
			}
		}
	}
	if t.Keep {
		t.Mem = append(t.Mem, e)
	}
	t.mu.Unlock()
}

func (t *Tracer) Flush() {
	t.mu.Lock()
	if t.w != nil {
		t.w.Flush()
	}
	t.mu.Unlock()
}

func (t *Tracer) Close() {
	t.Flush()
	if t.f != nil {
		t.f.Close()
	}
}

// Snapshot returns a copy of the in-memory events (Keep must be set).
func (t *Tracer) Snapshot() []Ev {
	t.mu.Lock()
	defer t.mu.Unlock()
	out := make([]Ev, len(t.Mem))
	copy(out, t.Mem)
	return out
}
