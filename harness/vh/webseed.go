package vh

import (
	"fmt"
	"net"
	"net/http"
	"net/url"
	"strconv"
	"strings"
	"sync/atomic"
	"time"
)

// WebSeed is a scripted HTTP file server for BEP 19.
type WebSeed struct {
	Name    string
	T       *Tracer
	Tor     *Torrent
	L       net.Listener
	srv     *http.Server
	Reqs    atomic.Int64
	Corrupt func(absOff int64) bool // flip the byte at that absolute torrent offset
	Status  func(n int) int         // HTTP status for the n-th request (0 = serve)
	Gate    chan struct{}           // every request consumes a token first if non-nil
	Delay   time.Duration
	TrickleEvery int // >0: write in chunks of this size with Delay between
}

// URL returns the url-list entry (directory form, ending in slash).
func (w *WebSeed) URL() string { return "http://" + w.L.Addr().String() + "/" }

func StartWebSeed(t *Tracer, name string, tor *Torrent) (*WebSeed, error) {
	l, err := net.Listen("tcp4", "127.0.0.1:0")
	if err != nil {
		return nil, err
	}
	w := &WebSeed{Name: name, T: t, Tor: tor, L: l}
	w.srv = &http.Server{Handler: http.HandlerFunc(w.serve)}
	go w.srv.Serve(l)
	return w, nil
}

func (w *WebSeed) Close() { w.srv.Close() }

func (w *WebSeed) serve(rw http.ResponseWriter, r *http.Request) {
	n := int(w.Reqs.Add(1))
	p, _ := url.PathUnescape(strings.TrimPrefix(r.URL.EscapedPath(), "/"))
	fi := -1
	for i := range w.Tor.Files {
		if w.Tor.Files[i].Pad {
			continue
		}
		if strings.ReplaceAll(w.Tor.StoragePath(i), "\\", "/") == p {
			fi = i
			break
		}
	}
	rng := r.Header.Get("Range")
	if w.T != nil {
		w.T.Emit(Ev{"ev": "ws", "src": w.Name, "path": p, "range": rng, "file": fi, "n": n})
	}
	if w.Gate != nil {
		select {
		case <-w.Gate:
		case <-r.Context().Done():
			return
		}
	}
	if w.Status != nil {
		if st := w.Status(n); st != 0 {
			rw.WriteHeader(st)
			return
		}
	}
	if fi < 0 {
		rw.WriteHeader(404)
		return
	}
	data := w.Tor.FileData(fi)
	lo, hi := int64(0), int64(len(data))-1
	if strings.HasPrefix(rng, "bytes=") {
		parts := strings.SplitN(strings.TrimPrefix(rng, "bytes="), "-", 2)
		lo, _ = strconv.ParseInt(parts[0], 10, 64)
		if len(parts) > 1 && parts[1] != "" {
			hi, _ = strconv.ParseInt(parts[1], 10, 64)
		}
	}
	if lo < 0 || hi >= int64(len(data)) || lo > hi {
		rw.WriteHeader(416)
		return
	}
	out := append([]byte(nil), data[lo:hi+1]...)
	if w.Corrupt != nil {
		base := w.Tor.FileStart(fi) + lo
		for i := range out {
			if w.Corrupt(base + int64(i)) {
				out[i] ^= 0x5a
			}
		}
	}
	rw.Header().Set("Content-Range", fmt.Sprintf("bytes %d-%d/%d", lo, hi, len(data)))
	rw.Header().Set("Content-Length", strconv.Itoa(len(out)))
	rw.WriteHeader(206)
	if w.TrickleEvery > 0 {
		for len(out) > 0 {
			k := min(w.TrickleEvery, len(out))
			rw.Write(out[:k])
			if f, ok := rw.(http.Flusher); ok {
				f.Flush()
			}
			out = out[k:]
			select {
			case <-time.After(w.Delay):
			case <-r.Context().Done():
				return
			}
		}
		return
	}
	if w.Delay > 0 {
		time.Sleep(w.Delay)
	}
	rw.Write(out)
}
