package vh

import (
	"crypto/sha1"
	"math/rand"
	"path/filepath"
)

// FileSpec is one file of a generated torrent.
type FileSpec struct {
	Path   []string
	Length int64
	Pad    bool
}

// Layout describes a generated torrent.
type Layout struct {
	Name     string
	Files    []FileSpec // a single entry with nil Path = single-file mode
	PieceLen int
	Private  any // nil = key absent; otherwise encoded as given (int, string, ...)
}

// Torrent is a generated torrent with its ground truth.
type Torrent struct {
	Layout
	Total      int64
	NumPieces  int
	Data       []byte // flat concatenation of all files, padding as zeros
	Hashes     [][]byte
	InfoBytes  []byte
	InfoHash   [20]byte
	Bytes      []byte // .torrent file
	fileStart  []int64
	SingleFile bool
	// Unsat marks pieces whose recorded hash was altered (BreakHash): no content can match it, so any
	// byte stored for such a piece is unverified content.
	Unsat map[int]bool
}

// BreakHash flips one byte (position pos of 20) of the recorded SHA-1 of piece k and rebuilds the metainfo.
// The ground-truth content keeps its real hash, so an honest seeder's data must be refused for that piece.
func BreakHash(l Layout, seed int64, trackers [][]string, webseeds []string, k, pos int) *Torrent {
	t := Build(l, seed, trackers, webseeds)
	if k < 0 || k >= t.NumPieces {
		return t
	}
	t.Hashes[k] = append([]byte(nil), t.Hashes[k]...)
	t.Hashes[k][pos%20] ^= 0xff
	var pieces []byte
	for _, h := range t.Hashes {
		pieces = append(pieces, h...)
	}
	info := Dict{"name": l.Name, "piece length": l.PieceLen, "pieces": pieces}
	if l.Private != nil {
		info["private"] = l.Private
	}
	if t.SingleFile {
		info["length"] = l.Files[0].Length
	} else {
		var fl []any
		for _, f := range l.Files {
			d := Dict{"length": f.Length, "path": f.Path}
			if f.Pad {
				d["attr"] = "p"
			}
			fl = append(fl, d)
		}
		info["files"] = fl
	}
	t.InfoBytes = Enc(info)
	t.InfoHash = sha1.Sum(t.InfoBytes)
	top := Dict{"info": Raw(t.InfoBytes)}
	if len(trackers) == 1 && len(trackers[0]) == 1 {
		top["announce"] = trackers[0][0]
	} else if len(trackers) > 0 {
		top["announce-list"] = trackers
	}
	if len(webseeds) == 1 {
		top["url-list"] = webseeds[0]
	} else if len(webseeds) > 1 {
		top["url-list"] = webseeds
	}
	t.Bytes = Enc(top)
	t.Unsat = map[int]bool{k: true}
	return t
}

// Build creates content (seeded), hashes and the bencoded metainfo.
func Build(l Layout, seed int64, trackers [][]string, webseeds []string) *Torrent {
	t := &Torrent{Layout: l}
	rng := rand.New(rand.NewSource(seed))
	for _, f := range l.Files {
		t.fileStart = append(t.fileStart, t.Total)
		t.Total += f.Length
	}
	t.Data = make([]byte, t.Total)
	for i, f := range l.Files {
		if f.Pad {
			continue
		}
		seg := t.Data[t.fileStart[i] : t.fileStart[i]+f.Length]
		rng.Read(seg)
		for j := range seg { // never zero, so "zero" content is distinguishable from truth
			if seg[j] == 0 {
				seg[j] = 0xA5
			}
		}
	}
	pl := int64(l.PieceLen)
	t.NumPieces = int((t.Total + pl - 1) / pl)
	var pieces []byte
	for i := 0; i < t.NumPieces; i++ {
		h := sha1.Sum(t.PieceData(i))
		t.Hashes = append(t.Hashes, h[:])
		pieces = append(pieces, h[:]...)
	}
	info := Dict{"name": l.Name, "piece length": l.PieceLen, "pieces": pieces}
	if l.Private != nil {
		info["private"] = l.Private
	}
	if len(l.Files) == 1 && l.Files[0].Path == nil {
		t.SingleFile = true
		info["length"] = l.Files[0].Length
	} else {
		var fl []any
		for _, f := range l.Files {
			d := Dict{"length": f.Length, "path": f.Path}
			if f.Pad {
				d["attr"] = "p"
			}
			fl = append(fl, d)
		}
		info["files"] = fl
	}
	t.InfoBytes = Enc(info)
	t.InfoHash = sha1.Sum(t.InfoBytes)
	top := Dict{"info": Raw(t.InfoBytes)}
	if len(trackers) == 1 && len(trackers[0]) == 1 {
		top["announce"] = trackers[0][0]
	} else if len(trackers) > 0 {
		top["announce-list"] = trackers
	}
	if len(webseeds) == 1 {
		top["url-list"] = webseeds[0]
	} else if len(webseeds) > 1 {
		top["url-list"] = webseeds
	}
	t.Bytes = Enc(top)
	return t
}

// PieceLenOf returns the length of piece i.
func (t *Torrent) PieceLenOf(i int) int {
	pl := int64(t.PieceLen)
	end := (int64(i) + 1) * pl
	if end > t.Total {
		end = t.Total
	}
	return int(end - int64(i)*pl)
}

// PieceData returns the ground-truth content of piece i.
func (t *Torrent) PieceData(i int) []byte {
	pl := int64(t.PieceLen)
	return t.Data[int64(i)*pl : int64(i)*pl+int64(t.PieceLenOf(i))]
}

// StoragePath is the name rain passes to Storage.Open for file i.
func (t *Torrent) StoragePath(i int) string {
	if t.SingleFile {
		return t.Name
	}
	return filepath.Join(append([]string{t.Name}, t.Files[i].Path...)...)
}

// FileIndex finds the non-padding file with the given storage path (-1 if none).
func (t *Torrent) FileIndex(path string) int {
	for i, f := range t.Files {
		if !f.Pad && t.StoragePath(i) == path {
			return i
		}
	}
	return -1
}

// FileData returns ground-truth content of file i.
func (t *Torrent) FileData(i int) []byte {
	return t.Data[t.fileStart[i] : t.fileStart[i]+t.Files[i].Length]
}

// FileStart returns the absolute offset of file i in the flat data.
func (t *Torrent) FileStart(i int) int64 { return t.fileStart[i] }

// PiecesOfRange returns the piece indexes overlapped by [off, off+n) of file i.
func (t *Torrent) PiecesOfRange(i int, off int64, n int) []int {
	if n <= 0 {
		return []int{}
	}
	a := (t.fileStart[i] + off) / int64(t.PieceLen)
	b := (t.fileStart[i] + off + int64(n) - 1) / int64(t.PieceLen)
	out := []int{}
	for p := a; p <= b; p++ {
		out = append(out, int(p))
	}
	return out
}

// NonPadLen returns the number of non-padding bytes of piece i.
func (t *Torrent) NonPadLen(i int) int {
	n := 0
	ps := int64(i) * int64(t.PieceLen)
	pe := ps + int64(t.PieceLenOf(i))
	for fi, f := range t.Files {
		if f.Pad {
			continue
		}
		lo, hi := max(ps, t.fileStart[fi]), min(pe, t.fileStart[fi]+f.Length)
		if lo < hi {
			n += int(hi - lo)
		}
	}
	return n
}

// StdLayouts returns a family of layout classes (single/multi-file, empty files, padding in several
// positions, short last piece, piece length not a multiple of 16 KiB) scaled by unit bytes.
func StdLayouts(unit int) []Layout {
	u := int64(unit)
	return []Layout{
		{Name: "single", PieceLen: 2 * unit, Files: []FileSpec{{Length: 5*u + u/2}}},
		{Name: "multi", PieceLen: 2 * unit, Files: []FileSpec{{Path: []string{"a.bin"}, Length: 3 * u}, {Path: []string{"d", "b.bin"}, Length: 2*u + 7}, {Path: []string{"c.bin"}, Length: u / 3}}},
		{Name: "empties", PieceLen: unit, Files: []FileSpec{{Path: []string{"e0"}, Length: 0}, {Path: []string{"a"}, Length: 2*u + 1}, {Path: []string{"e1"}, Length: 0}, {Path: []string{"b"}, Length: u - 1}, {Path: []string{"e2"}, Length: 0}}},
		{Name: "padmid", PieceLen: 2 * unit, Files: []FileSpec{{Path: []string{"a"}, Length: 3 * u}, {Path: []string{".pad", "1"}, Length: u, Pad: true}, {Path: []string{"b"}, Length: 2*u + 5}}},
		{Name: "padalign", PieceLen: 2 * unit, Files: []FileSpec{{Path: []string{"a"}, Length: u + 100}, {Path: []string{".pad", "x"}, Length: u - 100, Pad: true}, {Path: []string{"b"}, Length: 2 * u}, {Path: []string{".pad", "y"}, Length: u, Pad: true}, {Path: []string{"c"}, Length: u / 2}}},
		{Name: "padend", PieceLen: unit, Files: []FileSpec{{Path: []string{"a"}, Length: u + u/2}, {Path: []string{".pad", "z"}, Length: u / 2, Pad: true}}},
		{Name: "odd", PieceLen: unit + unit/3, Files: []FileSpec{{Path: []string{"a"}, Length: 2*u + 11}, {Path: []string{"b"}, Length: 3*u - 5}}},
		{Name: "onepiece", PieceLen: 4 * unit, Files: []FileSpec{{Length: u + 3}}},
	}
}

// PadWholeLayout has a piece that consists of padding only.
func PadWholeLayout(unit int) Layout {
	u := int64(unit)
	return Layout{Name: "padwhole", PieceLen: 2 * unit, Files: []FileSpec{{Path: []string{"a"}, Length: 2 * u}, {Path: []string{".pad", "y"}, Length: 2 * u, Pad: true}, {Path: []string{"c"}, Length: u / 2}}}
}
