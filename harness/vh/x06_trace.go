package vh

import "time"

// TracerT0 returns the origin of the t_ms stamps of a Tracer (added for harness/x06).
func TracerT0(t *Tracer) time.Time { return t.t0 }
