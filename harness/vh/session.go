package vh

import (
	"bytes"
	"encoding/json"
	"fmt"
	"math/rand"
	"net"
	"os"
	"path/filepath"
	"sync"
	"time"

	"github.com/cenkalti/rain/v2/torrent"
)

// FreePortRange finds n consecutive free TCP ports on 127.0.0.1.
func FreePortRange(n int) (int, error) {
	rng := rand.New(rand.NewSource(time.Now().UnixNano() + int64(os.Getpid())*7919))
	for try := 0; try < 200; try++ {
		base := 20000 + rng.Intn(40000)
		ok := true
		var ls []net.Listener
		for p := base; p < base+n; p++ {
			l, err := net.Listen("tcp4", fmt.Sprintf("127.0.0.1:%d", p))
			if err != nil {
				ok = false
				break
			}
			ls = append(ls, l)
		}
		for _, l := range ls {
			l.Close()
		}
		if ok {
			return base, nil
		}
	}
	return 0, fmt.Errorf("no free port range")
}

// BaseConfig returns a session configuration suited to loopback scenarios: no DHT, no RPC, short
// timeouts; dir holds the resume database and (if no custom storage is set) the data.
func BaseConfig(dir string, nports int) (torrent.Config, error) {
	cfg := torrent.DefaultConfig
	cfg.Database = filepath.Join(dir, "session.db")
	cfg.DataDir = filepath.Join(dir, "data")
	cfg.Host = "127.0.0.1"
	base, err := FreePortRange(nports)
	if err != nil {
		return cfg, err
	}
	cfg.PortBegin = uint16(base)
	cfg.PortEnd = uint16(base + nports)
	cfg.MaxOpenFiles = 0
	cfg.RPCEnabled = false
	cfg.DHTEnabled = false
	cfg.PEXEnabled = false
	cfg.BlocklistURL = ""
	cfg.ResumeWriteInterval = 200 * time.Millisecond
	cfg.TrackerStopTimeout = 500 * time.Millisecond
	cfg.TrackerMinAnnounceInterval = 500 * time.Millisecond
	cfg.TrackerHTTPTimeout = 2 * time.Second
	cfg.HealthCheckInterval = 2 * time.Second
	cfg.HealthCheckTimeout = 20 * time.Second
	cfg.PeerConnectTimeout = 2 * time.Second
	cfg.PeerHandshakeTimeout = 3 * time.Second
	cfg.RequestTimeout = 3 * time.Second
	cfg.PieceReadTimeout = 5 * time.Second
	cfg.DNSResolveTimeout = time.Second
	cfg.WebseedResponseBodyReadTimeout = 3 * time.Second
	cfg.WebseedResponseHeaderTimeout = 3 * time.Second
	cfg.WebseedDialTimeout = 2 * time.Second
	cfg.WebseedVerifyTLS = false
	return cfg, nil
}

// SnapHub receives loop snapshots (hook H1), forwards them to the tracer and lets drivers wait for
// a state predicate on the latest snapshot of a torrent.
type SnapHub struct {
	T    *Tracer
	mu   sync.Mutex
	cond *sync.Cond
	Last map[string]*torrent.VerifSnap
	N    map[string]int
	Log  bool // emit snapshots into the trace
	Dedup bool // skip a snapshot equal (except sequence numbers) to the previous one of that torrent
	prev map[string][]byte
}

// InstallSnapHub installs the tracer hook (only one per process).
func InstallSnapHub(t *Tracer, log bool) *SnapHub {
	h := &SnapHub{T: t, Last: map[string]*torrent.VerifSnap{}, N: map[string]int{}, Log: log, Dedup: true, prev: map[string][]byte{}}
	h.cond = sync.NewCond(&h.mu)
	torrent.VerifSetTracer(h.on)
	return h
}

func (h *SnapHub) on(s *torrent.VerifSnap) {
	h.mu.Lock()
	h.Last[s.ID] = s
	h.N[s.ID]++
	emit := h.Log
	var js []byte
	if emit {
		seq := s.Seq
		s.Seq = 0
		js, _ = json.Marshal(s)
		s.Seq = seq
		if h.Dedup && bytes.Equal(h.prev[s.ID], js) {
			emit = false
		} else {
			h.prev[s.ID] = js
		}
	}
	h.cond.Broadcast()
	h.mu.Unlock()
	if emit {
		e := Ev{}
		json.Unmarshal(js, &e)
		e["ev"] = "snap"
		e["lseq"] = s.Seq
		h.T.Emit(e)
	}
}

// Get returns the latest snapshot of torrent id (nil if none yet).
func (h *SnapHub) Get(id string) *torrent.VerifSnap {
	h.mu.Lock()
	defer h.mu.Unlock()
	return h.Last[id]
}

// Wait blocks until pred holds on the latest snapshot of id, or the timeout expires.
func (h *SnapHub) Wait(id string, timeout time.Duration, pred func(*torrent.VerifSnap) bool) bool {
	deadline := time.Now().Add(timeout)
	stop := make(chan struct{})
	defer close(stop)
	go func() { // wake the waiter periodically so the deadline is honoured
		tk := time.NewTicker(20 * time.Millisecond)
		defer tk.Stop()
		for {
			select {
			case <-tk.C:
				h.cond.Broadcast()
			case <-stop:
				return
			}
		}
	}()
	h.mu.Lock()
	defer h.mu.Unlock()
	for {
		if s := h.Last[id]; s != nil && pred(s) {
			return true
		}
		if time.Now().After(deadline) {
			return false
		}
		h.cond.Wait()
	}
}

// Poke makes the torrent loop run once (Stats is handled by the loop) so that a fresh snapshot exists.
func Poke(t *torrent.Torrent) torrent.Stats { return t.Stats() }
