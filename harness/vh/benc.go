// Package vh is the shared end-to-end harness of the verification framework: torrent generator with
// ground truth, independent bencode + BitTorrent wire codec, scripted peers / trackers / web seeds,
// recording in-memory storage, and the ndjson tracer. It deliberately does not reuse rain's codecs.
package vh

import (
	"errors"
	"fmt"
	"sort"
	"strconv"
)

// Raw is a pre-encoded bencode value.
type Raw []byte

// Dict preserves insertion order when Sorted is false (adversarial encodings); Enc sorts keys otherwise.
type Dict map[string]any

// Enc encodes int/int64/uint32/string/[]byte/[]any/Dict/Raw.
func Enc(v any) []byte {
	switch x := v.(type) {
	case Raw:
		return x
	case int:
		return []byte("i" + strconv.Itoa(x) + "e")
	case int64:
		return []byte("i" + strconv.FormatInt(x, 10) + "e")
	case uint32:
		return []byte("i" + strconv.FormatUint(uint64(x), 10) + "e")
	case string:
		return append([]byte(strconv.Itoa(len(x))+":"), x...)
	case []byte:
		return append([]byte(strconv.Itoa(len(x))+":"), x...)
	case []string:
		out := []byte("l")
		for _, e := range x {
			out = append(out, Enc(e)...)
		}
		return append(out, 'e')
	case [][]string:
		out := []byte("l")
		for _, e := range x {
			out = append(out, Enc(e)...)
		}
		return append(out, 'e')
	case []any:
		out := []byte("l")
		for _, e := range x {
			out = append(out, Enc(e)...)
		}
		return append(out, 'e')
	case Dict:
		keys := make([]string, 0, len(x))
		for k := range x {
			keys = append(keys, k)
		}
		sort.Strings(keys)
		out := []byte("d")
		for _, k := range keys {
			out = append(out, Enc(k)...)
			out = append(out, Enc(x[k])...)
		}
		return append(out, 'e')
	case map[string]any:
		return Enc(Dict(x))
	}
	panic(fmt.Sprintf("vh.Enc: unsupported %T", v))
}

// Dec decodes one bencode value; returns the value and the number of bytes consumed.
// ints -> int64, strings -> string, lists -> []any, dicts -> map[string]any.
func Dec(b []byte) (any, int, error) {
	if len(b) == 0 {
		return nil, 0, errors.New("empty")
	}
	switch {
	case b[0] == 'i':
		for i := 1; i < len(b); i++ {
			if b[i] == 'e' {
				n, err := strconv.ParseInt(string(b[1:i]), 10, 64)
				return n, i + 1, err
			}
		}
		return nil, 0, errors.New("unterminated int")
	case b[0] >= '0' && b[0] <= '9':
		for i := 0; i < len(b); i++ {
			if b[i] == ':' {
				n, err := strconv.Atoi(string(b[:i]))
				if err != nil || n < 0 || i+1+n > len(b) {
					return nil, 0, errors.New("bad string")
				}
				return string(b[i+1 : i+1+n]), i + 1 + n, nil
			}
		}
		return nil, 0, errors.New("bad string")
	case b[0] == 'l':
		var out []any
		pos := 1
		for pos < len(b) && b[pos] != 'e' {
			v, n, err := Dec(b[pos:])
			if err != nil {
				return nil, 0, err
			}
			out = append(out, v)
			pos += n
		}
		if pos >= len(b) {
			return nil, 0, errors.New("unterminated list")
		}
		return out, pos + 1, nil
	case b[0] == 'd':
		out := map[string]any{}
		pos := 1
		for pos < len(b) && b[pos] != 'e' {
			k, n, err := Dec(b[pos:])
			if err != nil {
				return nil, 0, err
			}
			ks, ok := k.(string)
			if !ok {
				return nil, 0, errors.New("non-string key")
			}
			pos += n
			v, n, err := Dec(b[pos:])
			if err != nil {
				return nil, 0, err
			}
			out[ks] = v
			pos += n
		}
		if pos >= len(b) {
			return nil, 0, errors.New("unterminated dict")
		}
		return out, pos + 1, nil
	}
	return nil, 0, errors.New("bad token")
}
