package vh

import (
	"encoding/binary"
	"errors"
	"fmt"
	"io"
	"net"
	"sync"
	"time"
)

// Message ids (BEP 3, 5, 6, 10).
const (
	MsgChoke         = 0
	MsgUnchoke       = 1
	MsgInterested    = 2
	MsgNotInterested = 3
	MsgHave          = 4
	MsgBitfield      = 5
	MsgRequest       = 6
	MsgPiece         = 7
	MsgCancel        = 8
	MsgPort          = 9
	MsgSuggest       = 13
	MsgHaveAll       = 14
	MsgHaveNone      = 15
	MsgReject        = 16
	MsgAllowedFast   = 17
	MsgExtended      = 20
	MsgKeepAlive     = -1
)

var msgNames = map[int]string{0: "choke", 1: "unchoke", 2: "interested", 3: "notinterested", 4: "have", 5: "bitfield", 6: "request",
	7: "piece", 8: "cancel", 9: "port", 13: "suggest", 14: "haveall", 15: "havenone", 16: "reject", 17: "allowedfast", 20: "extended", -1: "keepalive"}

// Msg is a decoded peer message.
type Msg struct {
	ID      int
	Index   uint32
	Begin   uint32
	Length  uint32
	Data    []byte // bitfield bytes / piece payload / extended payload (after ext id)
	ExtID   int
	Port    uint16
	RawLen  int
	Unknown bool
}

func (m Msg) Name() string {
	if n, ok := msgNames[m.ID]; ok {
		return n
	}
	return fmt.Sprintf("id%d", m.ID)
}

// EncodeMsg frames a message (independent of rain's codec).
func EncodeMsg(m Msg) []byte {
	if m.ID == MsgKeepAlive {
		return []byte{0, 0, 0, 0}
	}
	var body []byte
	u32 := func(v uint32) { body = binary.BigEndian.AppendUint32(body, v) }
	switch m.ID {
	case MsgHave, MsgSuggest, MsgAllowedFast:
		u32(m.Index)
	case MsgBitfield:
		body = append(body, m.Data...)
	case MsgRequest, MsgCancel, MsgReject:
		u32(m.Index)
		u32(m.Begin)
		u32(m.Length)
	case MsgPiece:
		u32(m.Index)
		u32(m.Begin)
		body = append(body, m.Data...)
	case MsgPort:
		body = binary.BigEndian.AppendUint16(body, m.Port)
	case MsgExtended:
		body = append(body, byte(m.ExtID))
		body = append(body, m.Data...)
	default:
		body = append(body, m.Data...)
	}
	out := binary.BigEndian.AppendUint32(nil, uint32(1+len(body)))
	out = append(out, byte(m.ID))
	return append(out, body...)
}

// ReadMsg reads one framed message. maxLen bounds the accepted frame.
func ReadMsg(r io.Reader, maxLen int) (Msg, error) {
	var hdr [4]byte
	if _, err := io.ReadFull(r, hdr[:]); err != nil {
		return Msg{}, err
	}
	n := int(binary.BigEndian.Uint32(hdr[:]))
	if n == 0 {
		return Msg{ID: MsgKeepAlive}, nil
	}
	if n > maxLen {
		return Msg{}, fmt.Errorf("frame too long: %d", n)
	}
	b := make([]byte, n)
	if _, err := io.ReadFull(r, b); err != nil {
		return Msg{}, err
	}
	m := Msg{ID: int(b[0]), RawLen: n}
	p := b[1:]
	need := func(k int) bool { return len(p) >= k }
	switch m.ID {
	case MsgChoke, MsgUnchoke, MsgInterested, MsgNotInterested, MsgHaveAll, MsgHaveNone:
	case MsgHave, MsgSuggest, MsgAllowedFast:
		if !need(4) {
			return m, errors.New("short")
		}
		m.Index = binary.BigEndian.Uint32(p)
	case MsgBitfield:
		m.Data = p
	case MsgRequest, MsgCancel, MsgReject:
		if !need(12) {
			return m, errors.New("short")
		}
		m.Index, m.Begin, m.Length = binary.BigEndian.Uint32(p), binary.BigEndian.Uint32(p[4:]), binary.BigEndian.Uint32(p[8:])
	case MsgPiece:
		if !need(8) {
			return m, errors.New("short")
		}
		m.Index, m.Begin = binary.BigEndian.Uint32(p), binary.BigEndian.Uint32(p[4:])
		m.Data = p[8:]
	case MsgPort:
		if !need(2) {
			return m, errors.New("short")
		}
		m.Port = binary.BigEndian.Uint16(p)
	case MsgExtended:
		if !need(1) {
			return m, errors.New("short")
		}
		m.ExtID = int(p[0])
		m.Data = p[1:]
	default:
		m.Unknown = true
		m.Data = p
	}
	return m, nil
}

// Handshake is the 68-byte BitTorrent handshake.
type Handshake struct {
	Reserved [8]byte
	InfoHash [20]byte
	PeerID   [20]byte
}

func (h Handshake) Bytes() []byte {
	out := []byte{19}
	out = append(out, "BitTorrent protocol"...)
	out = append(out, h.Reserved[:]...)
	out = append(out, h.InfoHash[:]...)
	return append(out, h.PeerID[:]...)
}

func ReadHandshake(r io.Reader) (Handshake, error) {
	var b [68]byte
	var h Handshake
	if _, err := io.ReadFull(r, b[:]); err != nil {
		return h, err
	}
	if b[0] != 19 || string(b[1:20]) != "BitTorrent protocol" {
		return h, errors.New("bad protocol string")
	}
	copy(h.Reserved[:], b[20:28])
	copy(h.InfoHash[:], b[28:48])
	copy(h.PeerID[:], b[48:68])
	return h, nil
}

// Reserved bits.
func ReservedBits(fast, ext, dht bool) [8]byte {
	var r [8]byte
	if ext {
		r[5] |= 0x10
	}
	if fast {
		r[7] |= 0x04
	}
	if dht {
		r[7] |= 0x01
	}
	return r
}

// BitfieldBytes builds a bitfield message payload from a have predicate.
func BitfieldBytes(n int, have func(i int) bool) []byte {
	b := make([]byte, (n+7)/8)
	for i := 0; i < n; i++ {
		if have(i) {
			b[i/8] |= 1 << (7 - uint(i%8))
		}
	}
	return b
}

// Conn is a scripted peer connection (plain TCP or any net.Conn, e.g. an MSE stream).
type Conn struct {
	C      net.Conn
	Name   string // label used in the trace
	T      *Tracer
	wmu    sync.Mutex
	Remote Handshake
	MaxLen int
	Quiet  bool
}

// Send writes one message and logs it (dir tx = sent by the scripted side).
func (c *Conn) Send(m Msg) error {
	b := EncodeMsg(m)
	c.wmu.Lock()
	c.C.SetWriteDeadline(time.Now().Add(20 * time.Second))
	_, err := c.C.Write(b)
	c.wmu.Unlock()
	if c.T != nil && !c.Quiet {
		e := Ev{"ev": "wire", "conn": c.Name, "dir": "tx", "kind": m.Name(), "index": m.Index, "begin": m.Begin, "length": m.Length, "datalen": len(m.Data)}
		if err != nil {
			e["err"] = err.Error()
		}
		c.T.Emit(e)
	}
	return err
}

// SendRaw writes raw bytes.
func (c *Conn) SendRaw(b []byte) error {
	c.wmu.Lock()
	defer c.wmu.Unlock()
	c.C.SetWriteDeadline(time.Now().Add(20 * time.Second))
	_, err := c.C.Write(b)
	return err
}

// Recv reads one message (blocking, with deadline) and logs it (dir rx).
func (c *Conn) Recv(timeout time.Duration) (Msg, error) {
	if timeout > 0 {
		c.C.SetReadDeadline(time.Now().Add(timeout))
	} else {
		c.C.SetReadDeadline(time.Time{})
	}
	ml := c.MaxLen
	if ml == 0 {
		ml = 1 << 22
	}
	m, err := ReadMsg(c.C, ml)
	if err == nil && c.T != nil && !c.Quiet && m.ID != MsgKeepAlive {
		e := Ev{"ev": "wire", "conn": c.Name, "dir": "rx", "kind": m.Name(), "index": m.Index, "begin": m.Begin, "length": m.Length, "datalen": len(m.Data)}
		if m.ID == MsgBitfield {
			bits := []int{}
			for i := 0; i < len(m.Data)*8 && i < 4096; i++ {
				if m.Data[i/8]&(1<<(7-uint(i%8))) != 0 {
					bits = append(bits, i)
				}
			}
			e["bits"] = bits
		}
		c.T.Emit(e)
	}
	return m, err
}

func (c *Conn) Close() { c.C.Close() }

// DialFrom connects to addr from the given local IP (rain keeps one connection per remote IP).
func DialFrom(localIP string, addr string, timeout time.Duration) (net.Conn, error) {
	d := net.Dialer{Timeout: timeout}
	if localIP != "" {
		d.LocalAddr = &net.TCPAddr{IP: net.ParseIP(localIP)}
	}
	return d.Dial("tcp4", addr)
}

// PlainHandshake performs the plaintext BitTorrent handshake as initiator (we dial rain).
func PlainHandshake(c net.Conn, ih [20]byte, id [20]byte, reserved [8]byte, timeout time.Duration) (Handshake, error) {
	c.SetDeadline(time.Now().Add(timeout))
	defer c.SetDeadline(time.Time{})
	if _, err := c.Write(Handshake{Reserved: reserved, InfoHash: ih, PeerID: id}.Bytes()); err != nil {
		return Handshake{}, err
	}
	return ReadHandshake(c)
}

// PlainHandshakeAccept answers a plaintext handshake as receiver (rain dialled us).
func PlainHandshakeAccept(c net.Conn, id [20]byte, reserved [8]byte, timeout time.Duration) (Handshake, error) {
	c.SetDeadline(time.Now().Add(timeout))
	defer c.SetDeadline(time.Time{})
	h, err := ReadHandshake(c)
	if err != nil {
		return h, err
	}
	_, err = c.Write(Handshake{Reserved: reserved, InfoHash: h.InfoHash, PeerID: id}.Bytes())
	return h, err
}
