package vh

import (
	"crypto/sha1"
	"math/rand"
)

// BuildZero is Build for torrents without trackers / web seeds whose content has all-zero DATA ranges
// (property C05: a piece whose hash equals the hash of zeros must still be on disk before it is counted).
// zero lists absolute [from, to) ranges of the flat data that are set to zero after the seeded fill.
func BuildZero(l Layout, seed int64, zero [][2]int64) *Torrent {
	t := &Torrent{Layout: l}
	rng := rand.New(rand.NewSource(seed))
	for _, f := range l.Files {
		t.fileStart = append(t.fileStart, t.Total)
		t.Total += f.Length
	}
	t.Data = make([]byte, t.Total)
	for i, f := range l.Files {
		if f.Pad {
			continue
		}
		seg := t.Data[t.fileStart[i] : t.fileStart[i]+f.Length]
		rng.Read(seg)
		for j := range seg {
			if seg[j] == 0 {
				seg[j] = 0xA5
			}
		}
	}
	for _, z := range zero {
		lo, hi := max(z[0], 0), min(z[1], t.Total)
		for j := lo; j < hi; j++ {
			t.Data[j] = 0
		}
	}
	pl := int64(l.PieceLen)
	t.NumPieces = int((t.Total + pl - 1) / pl)
	var pieces []byte
	for i := 0; i < t.NumPieces; i++ {
		h := sha1.Sum(t.PieceData(i))
		t.Hashes = append(t.Hashes, h[:])
		pieces = append(pieces, h[:]...)
	}
	info := Dict{"name": l.Name, "piece length": l.PieceLen, "pieces": pieces}
	if len(l.Files) == 1 && l.Files[0].Path == nil {
		t.SingleFile = true
		info["length"] = l.Files[0].Length
	} else {
		var fl []any
		for _, f := range l.Files {
			d := Dict{"length": f.Length, "path": f.Path}
			if f.Pad {
				d["attr"] = "p"
			}
			fl = append(fl, d)
		}
		info["files"] = fl
	}
	t.InfoBytes = Enc(info)
	t.InfoHash = sha1.Sum(t.InfoBytes)
	t.Bytes = Enc(Dict{"info": Raw(t.InfoBytes)})
	return t
}
