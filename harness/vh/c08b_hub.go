package vh

import "github.com/cenkalti/rain/v2/torrent"

// ChainTracer re-installs hook H1 so that f runs ON THE LOOP GOROUTINE of the torrent (after every handled
// event) before the hub records the snapshot. Used by drivers that must read loop-owned state through an
// overlay shim (only one tracer per process: call it after InstallSnapHub).
func (h *SnapHub) ChainTracer(f func(*torrent.VerifSnap)) {
	torrent.VerifSetTracer(func(s *torrent.VerifSnap) {
		f(s)
		h.on(s)
	})
}
