package vh

import (
	"crypto/sha1"
	"net"
	"sync"
	"sync/atomic"
	"time"
)

// SeederPolicy scripts a peer that uploads to rain.
type SeederPolicy struct {
	Have       func(i int) bool // pieces claimed and served (nil = all)
	NoFast     bool             // do not announce the fast extension
	NoExt      bool             // do not announce the extension protocol
	Metadata   bool             // offer ut_metadata (extension handshake with metadata_size)
	MetaBytes  []byte           // info bytes served for metadata requests (nil = the torrent's)
	MetaSize   int              // advertised metadata_size (0 = len(MetaBytes))
	Reply      func(s *Seeder, req Msg) (msgs []Msg, handled bool)
	Gate       chan struct{}    // if non-nil, every block delivery consumes one token first
	BlockDelay time.Duration
	NoUnchoke  bool // never unchoke (allowed-fast only)
	AllowedFast []int
	LazyBitfield bool // send have messages one by one instead of a bitfield
	OnMsg      func(s *Seeder, m Msg) bool // observe every message; return true if consumed
}

// Seeder is a running scripted uploader.
type Seeder struct {
	*Conn
	Tor     *Torrent
	Pol     *SeederPolicy
	Served  atomic.Int64 // blocks served
	ReqSeen atomic.Int64
	Choking atomic.Bool
	mu      sync.Mutex
	Pending []Msg // requests not yet answered
	done    chan struct{}
	RemoteExt map[string]any
	utMetaID  int // rain's id for ut_metadata
}

func (s *Seeder) has(i int) bool { return s.Pol.Have == nil || s.Pol.Have(i) }

// HonestPiece builds the correct piece message for a request.
func (s *Seeder) HonestPiece(req Msg) Msg {
	pd := s.Tor.PieceData(int(req.Index))
	return Msg{ID: MsgPiece, Index: req.Index, Begin: req.Begin, Data: append([]byte(nil), pd[req.Begin:req.Begin+req.Length]...)}
}

// Done is closed when the seeder loop has ended (connection closed).
func (s *Seeder) Done() <-chan struct{} { return s.done }

const ourMetaID = 3

// StartSeeder sends the initial messages and runs the serve loop in a goroutine.
func StartSeeder(c *Conn, tor *Torrent, pol *SeederPolicy) *Seeder {
	s := &Seeder{Conn: c, Tor: tor, Pol: pol, done: make(chan struct{})}
	s.Choking.Store(true)
	go s.run()
	return s
}

func (s *Seeder) run() {
	defer close(s.done)
	p := s.Pol
	fast := !p.NoFast && s.Remote.Reserved[7]&0x04 != 0
	ext := !p.NoExt && s.Remote.Reserved[5]&0x10 != 0
	n := s.Tor.NumPieces
	all, none := true, true
	for i := 0; i < n; i++ {
		if s.has(i) {
			none = false
		} else {
			all = false
		}
	}
	if ext {
		d := Dict{"m": Dict{}, "v": "vh-peer"}
		if p.Metadata {
			mb := p.MetaBytes
			if mb == nil {
				mb = s.Tor.InfoBytes
			}
			ms := p.MetaSize
			if ms == 0 {
				ms = len(mb)
			}
			d["m"] = Dict{"ut_metadata": ourMetaID}
			d["metadata_size"] = ms
		}
		s.Send(Msg{ID: MsgExtended, ExtID: 0, Data: Enc(d)})
	}
	switch {
	case p.LazyBitfield:
		for i := 0; i < n; i++ {
			if s.has(i) {
				s.Send(Msg{ID: MsgHave, Index: uint32(i)})
			}
		}
	case fast && all:
		s.Send(Msg{ID: MsgHaveAll})
	case fast && none:
		s.Send(Msg{ID: MsgHaveNone})
	default:
		s.Send(Msg{ID: MsgBitfield, Data: BitfieldBytes(n, s.has)})
	}
	if fast {
		for _, i := range p.AllowedFast {
			s.Send(Msg{ID: MsgAllowedFast, Index: uint32(i)})
		}
	}
	for {
		m, err := s.Recv(0)
		if err != nil {
			return
		}
		if p.OnMsg != nil && p.OnMsg(s, m) {
			continue
		}
		switch m.ID {
		case MsgInterested:
			if !p.NoUnchoke && s.Choking.Load() {
				s.Choking.Store(false)
				s.Send(Msg{ID: MsgUnchoke})
			}
		case MsgRequest:
			s.ReqSeen.Add(1)
			if p.Reply != nil {
				if msgs, handled := p.Reply(s, m); handled {
					for _, x := range msgs {
						s.deliver(x)
					}
					continue
				}
			}
			if int(m.Index) >= n || !s.has(int(m.Index)) || int(m.Begin)+int(m.Length) > s.Tor.PieceLenOf(int(m.Index)) {
				if fast {
					s.Send(Msg{ID: MsgReject, Index: m.Index, Begin: m.Begin, Length: m.Length})
				}
				continue
			}
			s.deliver(s.HonestPiece(m))
		case MsgExtended:
			s.handleExt(m)
		}
	}
}

func (s *Seeder) deliver(x Msg) {
	if x.ID == MsgPiece {
		if s.Pol.Gate != nil {
			select {
			case <-s.Pol.Gate:
			case <-time.After(60 * time.Second):
				return
			}
		}
		if s.Pol.BlockDelay > 0 {
			time.Sleep(s.Pol.BlockDelay)
		}
		s.Served.Add(1)
	}
	s.Send(x)
}

func (s *Seeder) handleExt(m Msg) {
	if m.ExtID == 0 {
		v, _, err := Dec(m.Data)
		if err == nil {
			if d, ok := v.(map[string]any); ok {
				s.RemoteExt = d
				if mm, ok := d["m"].(map[string]any); ok {
					if id, ok := mm["ut_metadata"].(int64); ok {
						s.utMetaID = int(id)
					}
				}
			}
		}
		return
	}
	if m.ExtID == ourMetaID && s.Pol.Metadata {
		v, _, err := Dec(m.Data)
		if err != nil {
			return
		}
		d, _ := v.(map[string]any)
		typ, _ := d["msg_type"].(int64)
		pc, _ := d["piece"].(int64)
		if typ != 0 {
			return
		}
		mb := s.Pol.MetaBytes
		if mb == nil {
			mb = s.Tor.InfoBytes
		}
		lo := int(pc) * 16384
		if lo >= len(mb) || pc < 0 {
			s.Send(Msg{ID: MsgExtended, ExtID: s.utMetaID, Data: Enc(Dict{"msg_type": 2, "piece": int(pc)})})
			return
		}
		hi := min(lo+16384, len(mb))
		payload := append(Enc(Dict{"msg_type": 1, "piece": int(pc), "total_size": len(mb)}), mb[lo:hi]...)
		s.Send(Msg{ID: MsgExtended, ExtID: s.utMetaID, Data: payload})
	}
}

// PeerID makes a deterministic 20-byte peer id.
func PeerID(tag string) [20]byte {
	h := sha1.Sum([]byte(tag))
	copy(h[:8], "-VH0001-")
	return h
}

// ConnectSeeder dials rain at addr from localIP, handshakes in plaintext and starts a seeder.
func ConnectSeeder(t *Tracer, name, localIP, addr string, tor *Torrent, pol *SeederPolicy) (*Seeder, error) {
	nc, err := DialFrom(localIP, addr, 5*time.Second)
	if err != nil {
		return nil, err
	}
	rh, err := PlainHandshake(nc, tor.InfoHash, PeerID(name), ReservedBits(!pol.NoFast, !pol.NoExt, false), 10*time.Second)
	if err != nil {
		nc.Close()
		return nil, err
	}
	c := &Conn{C: nc, Name: name, T: t, Remote: rh}
	t.Emit(Ev{"ev": "conn", "conn": name, "what": "accepted-by-rain", "laddr": nc.LocalAddr().String(), "peerid": hexs(rh.PeerID[:]), "reserved": hexs(rh.Reserved[:])})
	return StartSeeder(c, tor, pol), nil
}

// PeerListener accepts connections dialled by rain on ip:port (port 0 = any).
type PeerListener struct {
	L    net.Listener
	Addr *net.TCPAddr
}

// ListenPeer starts a listener; handler runs per accepted connection (raw, before handshake).
func ListenPeer(ip string, port int, handler func(net.Conn)) (*PeerListener, error) {
	l, err := net.ListenTCP("tcp4", &net.TCPAddr{IP: net.ParseIP(ip), Port: port})
	if err != nil {
		return nil, err
	}
	pl := &PeerListener{L: l, Addr: l.Addr().(*net.TCPAddr)}
	go func() {
		for {
			c, err := l.Accept()
			if err != nil {
				return
			}
			go handler(c)
		}
	}()
	return pl, nil
}

func (p *PeerListener) Close() { p.L.Close() }

// ListenSeeder accepts rain's outgoing connections (plaintext only: an MSE attempt is closed so
// that rain falls back to its plaintext retry) and serves them with pol.
func ListenSeeder(t *Tracer, name, ip string, tor *Torrent, pol *SeederPolicy, onSeeder func(*Seeder)) (*PeerListener, error) {
	var n atomic.Int64
	return ListenPeer(ip, 0, func(nc net.Conn) {
		k := n.Add(1)
		cname := name
		if k > 1 {
			cname = name + "#" + itoa(int(k))
		}
		rh, err := PlainHandshakeAccept(nc, PeerID(name), ReservedBits(!pol.NoFast, !pol.NoExt, false), 5*time.Second)
		if err != nil {
			t.Emit(Ev{"ev": "conn", "conn": cname, "what": "hs-fail", "err": err.Error()})
			nc.Close()
			return
		}
		c := &Conn{C: nc, Name: cname, T: t, Remote: rh}
		t.Emit(Ev{"ev": "conn", "conn": cname, "what": "dialled-by-rain", "laddr": nc.LocalAddr().String(), "peerid": hexs(rh.PeerID[:]), "reserved": hexs(rh.Reserved[:])})
		s := StartSeeder(c, tor, pol)
		if onSeeder != nil {
			onSeeder(s)
		}
	})
}

func hexs(b []byte) string {
	const d = "0123456789abcdef"
	out := make([]byte, 0, 2*len(b))
	for _, x := range b {
		out = append(out, d[x>>4], d[x&15])
	}
	return string(out)
}

func itoa(i int) string {
	if i == 0 {
		return "0"
	}
	neg := i < 0
	if neg {
		i = -i
	}
	var b []byte
	for i > 0 {
		b = append([]byte{byte('0' + i%10)}, b...)
		i /= 10
	}
	if neg {
		b = append([]byte{'-'}, b...)
	}
	return string(b)
}
