package vh

// C16bSetNextConnID makes the scripted BEP 15 tracker answer its NEXT connect request with connection id `id` (any 64-bit value,
// 0 included: BEP 15 reserves no value). Meant to be called from the UDPTracker.Connect script, which runs right before the id
// of that connect reply is taken; ids issued earlier stay valid.
func (u *UDPTracker) C16bSetNextConnID(id uint64) {
	u.mu.Lock()
	u.nextID = id - 1 // run() increments before use (wraps around for 0)
	u.mu.Unlock()
}
