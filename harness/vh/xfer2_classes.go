package vh

import "bytes"

// PieceClasses classifies every piece of the stored content against ground truth (good / bad / missing) like
// PieceClass does, but compares in place instead of copying each file once per piece (torrents of many big pieces).
func (s *MemStorage) PieceClasses(t *Torrent) []string {
	out := make([]string, t.NumPieces)
	for i := range out {
		out[i] = "good"
		if t.Unsat[i] {
			out[i] = "bad"
		}
	}
	for fi, f := range t.Files {
		if f.Pad || f.Length == 0 {
			continue
		}
		s.mu.Lock()
		mf := s.files[t.StoragePath(fi)]
		s.mu.Unlock()
		fs := t.FileStart(fi)
		first, last := int(fs/int64(t.PieceLen)), int((fs+f.Length-1)/int64(t.PieceLen))
		if mf != nil {
			mf.mu.Lock()
		}
		for p := first; p <= last; p++ {
			if out[p] != "good" {
				continue
			}
			if mf == nil {
				out[p] = "missing"
				continue
			}
			ps := int64(p) * int64(t.PieceLen)
			lo, hi := max(ps, fs), min(ps+int64(t.PieceLenOf(p)), fs+f.Length)
			a, b := lo-fs, hi-fs
			if int64(len(mf.data)) < b || !bytes.Equal(mf.data[a:b], t.Data[lo:hi]) {
				out[p] = "bad"
			}
		}
		if mf != nil {
			mf.mu.Unlock()
		}
	}
	return out
}
