package vh

import (
	"bytes"
	"errors"
	"io"
	"sync"
	"sync/atomic"

	"github.com/cenkalti/rain/v2/internal/storage"
)

// StoHook is called at "enter" (before the operation; may block = scheduler gate; a non-nil error
// makes the operation fail without touching the data) and at "exit" (after the operation, before
// returning to rain; may block).
type StoHook func(phase, op, torrentID, name string, off int64, n int) error

// MemProvider is a recording in-memory storage.Provider (injected through Config.CustomStorage).
type MemProvider struct {
	mu       sync.Mutex
	T        *Tracer
	Truth    map[string]*Torrent // by torrent id ("" = default for all)
	stores   map[string]*MemStorage
	Hook     atomic.Pointer[StoHook]
	openCnt  atomic.Int64
	Quiet    bool // do not log read events (verification of big torrents)
	FailOpen atomic.Pointer[error]
}

func NewMemProvider(t *Tracer) *MemProvider {
	return &MemProvider{T: t, Truth: map[string]*Torrent{}, stores: map[string]*MemStorage{}}
}

func (p *MemProvider) SetHook(h StoHook) {
	if h == nil {
		p.Hook.Store(nil)
		return
	}
	p.Hook.Store(&h)
}

func (p *MemProvider) hook(phase, op, id, name string, off int64, n int) error {
	h := p.Hook.Load()
	if h == nil {
		return nil
	}
	return (*h)(phase, op, id, name, off, n)
}

// OpenHandles is the number of file handles currently open.
func (p *MemProvider) OpenHandles() int { return int(p.openCnt.Load()) }

func (p *MemProvider) truth(id string) *Torrent {
	p.mu.Lock()
	defer p.mu.Unlock()
	if t, ok := p.Truth[id]; ok {
		return t
	}
	return p.Truth[""]
}

func (p *MemProvider) GetStorage(id string) (storage.Storage, error) {
	p.mu.Lock()
	defer p.mu.Unlock()
	s, ok := p.stores[id]
	if !ok {
		s = &MemStorage{p: p, id: id, files: map[string]*memFile{}}
		p.stores[id] = s
	}
	return s, nil
}

// Store returns the storage of a torrent (created on demand), for inspection / mutation by the harness.
func (p *MemProvider) Store(id string) *MemStorage {
	s, _ := p.GetStorage(id)
	return s.(*MemStorage)
}

type memFile struct {
	mu   sync.Mutex
	data []byte
}

// MemStorage is the per-torrent storage.
type MemStorage struct {
	p     *MemProvider
	id    string
	mu    sync.Mutex
	files map[string]*memFile
}

func (s *MemStorage) RootDir() string { return "/mem/" + s.id }

func (s *MemStorage) Open(name string, size int64) (storage.File, bool, error) {
	p := s.p
	if !p.Quiet || true {
		p.T.Emit(Ev{"ev": "sto", "phase": "enter", "op": "open", "tid": s.id, "file": name, "len": size})
	}
	if err := p.hook("enter", "open", s.id, name, 0, int(size)); err != nil {
		p.T.Emit(Ev{"ev": "sto", "phase": "exit", "op": "open", "tid": s.id, "file": name, "err": err.Error()})
		return nil, false, err
	}
	if e := p.FailOpen.Load(); e != nil {
		p.T.Emit(Ev{"ev": "sto", "phase": "exit", "op": "open", "tid": s.id, "file": name, "err": (*e).Error()})
		return nil, false, *e
	}
	s.mu.Lock()
	f, exists := s.files[name]
	if !exists {
		f = &memFile{data: make([]byte, size)}
		s.files[name] = f
	} else {
		f.mu.Lock()
		if int64(len(f.data)) != size {
			nd := make([]byte, size)
			copy(nd, f.data)
			f.data = nd
		}
		f.mu.Unlock()
	}
	s.mu.Unlock()
	p.openCnt.Add(1)
	h := &memHandle{s: s, f: f, name: name}
	p.T.Emit(Ev{"ev": "sto", "phase": "exit", "op": "open", "tid": s.id, "file": name, "exists": exists, "handles": p.OpenHandles()})
	_ = p.hook("exit", "open", s.id, name, 0, int(size))
	return h, exists, nil
}

type memHandle struct {
	s      *MemStorage
	f      *memFile
	name   string
	closed atomic.Bool
}

func (h *memHandle) classify(b []byte, off int64) (string, []int) {
	t := h.s.p.truth(h.s.id)
	if t == nil {
		return "n/a", []int{}
	}
	fi := t.FileIndex(h.name)
	if fi < 0 {
		return "n/a", []int{}
	}
	pcs := t.PiecesOfRange(fi, off, len(b))
	for _, pc := range pcs {
		if t.Unsat[pc] { // no content can match the recorded hash of this piece
			return "bad", pcs
		}
	}
	truth := t.FileData(fi)
	if off < 0 || off+int64(len(b)) > int64(len(truth)) {
		return "bad", pcs
	}
	if bytes.Equal(b, truth[off:off+int64(len(b))]) {
		return "good", pcs
	}
	allZero := true
	for _, x := range b {
		if x != 0 {
			allZero = false
			break
		}
	}
	if allZero {
		return "zero", pcs
	}
	return "bad", pcs
}

func (h *memHandle) WriteAt(b []byte, off int64) (int, error) {
	p := h.s.p
	cls, pcs := h.classify(b, off)
	p.T.Emit(Ev{"ev": "sto", "phase": "enter", "op": "write", "tid": h.s.id, "file": h.name, "off": off, "len": len(b), "class": cls, "piece": pcs})
	if err := p.hook("enter", "write", h.s.id, h.name, off, len(b)); err != nil {
		p.T.Emit(Ev{"ev": "sto", "phase": "exit", "op": "write", "tid": h.s.id, "file": h.name, "off": off, "len": len(b), "class": cls, "piece": pcs, "err": err.Error()})
		return 0, err
	}
	if h.closed.Load() {
		err := errors.New("file already closed")
		p.T.Emit(Ev{"ev": "sto", "phase": "exit", "op": "write", "tid": h.s.id, "file": h.name, "off": off, "len": len(b), "class": cls, "piece": pcs, "err": err.Error()})
		return 0, err
	}
	h.f.mu.Lock()
	var err error
	n := 0
	if off < 0 || off+int64(len(b)) > int64(len(h.f.data)) {
		err = errors.New("write beyond end of file")
	} else {
		n = copy(h.f.data[off:], b)
	}
	h.f.mu.Unlock()
	e := Ev{"ev": "sto", "phase": "exit", "op": "write", "tid": h.s.id, "file": h.name, "off": off, "len": len(b), "class": cls, "piece": pcs}
	if err != nil {
		e["err"] = err.Error()
	}
	if t := p.truth(h.s.id); t != nil {
		// storage truth after this write: is every touched piece now entirely correct on "disk"?
		pg := make([]bool, len(pcs))
		for i, pc := range pcs {
			pg[i] = h.s.PieceClass(t, pc) == "good"
		}
		e["pgood"] = pg
	}
	p.T.Emit(e)
	_ = p.hook("exit", "write", h.s.id, h.name, off, len(b))
	return n, err
}

func (h *memHandle) ReadAt(b []byte, off int64) (int, error) {
	p := h.s.p
	if !p.Quiet {
		p.T.Emit(Ev{"ev": "sto", "phase": "enter", "op": "read", "tid": h.s.id, "file": h.name, "off": off, "len": len(b)})
	}
	if err := p.hook("enter", "read", h.s.id, h.name, off, len(b)); err != nil {
		return 0, err
	}
	if h.closed.Load() {
		return 0, errors.New("file already closed")
	}
	h.f.mu.Lock()
	var err error
	n := 0
	if off < 0 || off > int64(len(h.f.data)) {
		err = io.EOF
	} else {
		n = copy(b, h.f.data[off:])
		if n < len(b) {
			err = io.EOF
		}
	}
	h.f.mu.Unlock()
	if !p.Quiet {
		p.T.Emit(Ev{"ev": "sto", "phase": "exit", "op": "read", "tid": h.s.id, "file": h.name, "off": off, "len": n})
	}
	_ = p.hook("exit", "read", h.s.id, h.name, off, len(b))
	return n, err
}

func (h *memHandle) Close() error {
	p := h.s.p
	if h.closed.Swap(true) {
		p.T.Emit(Ev{"ev": "sto", "phase": "exit", "op": "close", "tid": h.s.id, "file": h.name, "err": "double close", "handles": p.OpenHandles()})
		return errors.New("double close")
	}
	p.openCnt.Add(-1)
	p.T.Emit(Ev{"ev": "sto", "phase": "exit", "op": "close", "tid": h.s.id, "file": h.name, "handles": p.OpenHandles()})
	return nil
}

// ---- harness-side inspection / mutation (only while the torrent is stopped)

// FileBytes returns a copy of the stored content (nil if the file does not exist).
func (s *MemStorage) FileBytes(name string) []byte {
	s.mu.Lock()
	f := s.files[name]
	s.mu.Unlock()
	if f == nil {
		return nil
	}
	f.mu.Lock()
	defer f.mu.Unlock()
	return append([]byte(nil), f.data...)
}

// Put creates or replaces a file.
func (s *MemStorage) Put(name string, data []byte) {
	s.mu.Lock()
	s.files[name] = &memFile{data: append([]byte(nil), data...)}
	s.mu.Unlock()
}

// Delete removes a file; returns whether it existed.
func (s *MemStorage) Delete(name string) bool {
	s.mu.Lock()
	defer s.mu.Unlock()
	_, ok := s.files[name]
	delete(s.files, name)
	return ok
}

// Names lists stored files.
func (s *MemStorage) Names() []string {
	s.mu.Lock()
	defer s.mu.Unlock()
	var out []string
	for n := range s.files {
		out = append(out, n)
	}
	return out
}

// PieceClass classifies the stored content of piece i against ground truth: good / bad / missing.
func (s *MemStorage) PieceClass(t *Torrent, i int) string {
	if t.Unsat[i] {
		return "bad"
	}
	ps := int64(i) * int64(t.PieceLen)
	pe := ps + int64(t.PieceLenOf(i))
	for fi, f := range t.Files {
		if f.Pad {
			continue
		}
		lo, hi := max(ps, t.FileStart(fi)), min(pe, t.FileStart(fi)+f.Length)
		if lo >= hi {
			continue
		}
		d := s.FileBytes(t.StoragePath(fi))
		if d == nil {
			return "missing"
		}
		a, b := lo-t.FileStart(fi), hi-t.FileStart(fi)
		if int64(len(d)) < b || !bytes.Equal(d[a:b], t.Data[lo:hi]) {
			return "bad"
		}
	}
	return "good"
}

// Complete reports whether every non-empty non-padding file is byte-identical to ground truth.
func (s *MemStorage) Complete(t *Torrent) bool {
	for fi, f := range t.Files {
		if f.Pad || f.Length == 0 {
			continue
		}
		if !bytes.Equal(s.FileBytes(t.StoragePath(fi)), t.FileData(fi)) {
			return false
		}
	}
	return true
}

// Fill stores the ground truth of the torrent (a complete seed).
func (s *MemStorage) Fill(t *Torrent) {
	for fi, f := range t.Files {
		if !f.Pad {
			s.Put(t.StoragePath(fi), t.FileData(fi))
		}
	}
}
