package vh

import (
	"encoding/binary"
	"fmt"
	"net"
	"net/http"
	"net/url"
	"strconv"
	"sync"
	"sync/atomic"
	"time"
)

// AnnReq is what a scripted tracker saw.
type AnnReq struct {
	Transport  string
	InfoHash   string // hex
	PeerID     string // hex
	Port       int
	Up, Down, Left int64
	Event      string
	Key        string
	NumWant    int
	UA         string
	Compact    string
	At         time.Time
	N          int // ordinal at this tracker
	Raw        string
}

// AnnReply scripts the answer.
type AnnReply struct {
	Interval    *int64 // nil = absent
	MinInterval *int64
	Peers       []*net.TCPAddr
	Failure     string
	Delay       time.Duration
	RawBody     []byte // HTTP: send these bytes instead
	Status      int    // HTTP status (0 = 200)
	Drop        bool   // do not answer (UDP) / hang until client gives up (HTTP)
	DictPeers   []Dict // non-compact peers model
}

func I64(v int64) *int64 { return &v }

// HTTPTracker is a scripted HTTP tracker.
type HTTPTracker struct {
	Name   string
	T      *Tracer
	L      net.Listener
	srv    *http.Server
	mu     sync.Mutex
	Reqs   []AnnReq
	Script func(r AnnReq) AnnReply
	n      atomic.Int64
}

func (h *HTTPTracker) URL() string { return "http://" + h.L.Addr().String() + "/announce" }

func StartHTTPTracker(t *Tracer, name string, script func(AnnReq) AnnReply) (*HTTPTracker, error) {
	l, err := net.Listen("tcp4", "127.0.0.1:0")
	if err != nil {
		return nil, err
	}
	h := &HTTPTracker{Name: name, T: t, L: l, Script: script}
	mux := http.NewServeMux()
	mux.HandleFunc("/", h.serve)
	h.srv = &http.Server{Handler: mux}
	go h.srv.Serve(l)
	return h, nil
}

func (h *HTTPTracker) Close() { h.srv.Close() }

func (h *HTTPTracker) Requests() []AnnReq {
	h.mu.Lock()
	defer h.mu.Unlock()
	return append([]AnnReq(nil), h.Reqs...)
}

func rawQueryGet(raw, key string) string {
	// info_hash / peer_id are binary; decode percent escapes ourselves
	vals, _ := url.ParseQuery(raw)
	return vals.Get(key)
}

func (h *HTTPTracker) serve(w http.ResponseWriter, r *http.Request) {
	q := r.URL.RawQuery
	atoi := func(s string) int64 { v, _ := strconv.ParseInt(s, 10, 64); return v }
	req := AnnReq{Transport: "http", InfoHash: hexs([]byte(rawQueryGet(q, "info_hash"))), PeerID: hexs([]byte(rawQueryGet(q, "peer_id"))),
		Port: int(atoi(rawQueryGet(q, "port"))), Up: atoi(rawQueryGet(q, "uploaded")), Down: atoi(rawQueryGet(q, "downloaded")),
		Left: atoi(rawQueryGet(q, "left")), Event: rawQueryGet(q, "event"), Key: rawQueryGet(q, "key"), NumWant: int(atoi(rawQueryGet(q, "numwant"))),
		UA: r.UserAgent(), Compact: rawQueryGet(q, "compact"), At: time.Now(), Raw: q}
	req.N = int(h.n.Add(1))
	h.mu.Lock()
	h.Reqs = append(h.Reqs, req)
	h.mu.Unlock()
	logAnn(h.T, h.Name, req)
	rep := AnnReply{Interval: I64(1800)}
	if h.Script != nil {
		rep = h.Script(req)
	}
	if rep.Delay > 0 {
		select {
		case <-time.After(rep.Delay):
		case <-r.Context().Done():
			return
		}
	}
	if rep.Drop {
		<-r.Context().Done()
		return
	}
	if rep.Status != 0 {
		w.WriteHeader(rep.Status)
	}
	if rep.RawBody != nil {
		w.Write(rep.RawBody)
		return
	}
	d := Dict{}
	if rep.Failure != "" {
		d["failure reason"] = rep.Failure
	} else {
		if rep.Interval != nil {
			d["interval"] = *rep.Interval
		}
		if rep.MinInterval != nil {
			d["min interval"] = *rep.MinInterval
		}
		if rep.DictPeers != nil {
			var l []any
			for _, p := range rep.DictPeers {
				l = append(l, p)
			}
			d["peers"] = l
		} else {
			var cp []byte
			for _, a := range rep.Peers {
				cp = append(cp, a.IP.To4()...)
				cp = binary.BigEndian.AppendUint16(cp, uint16(a.Port))
			}
			d["peers"] = cp
		}
	}
	w.Write(Enc(d))
}

func logAnn(t *Tracer, name string, r AnnReq) {
	if t == nil {
		return
	}
	t.Emit(Ev{"ev": "trk", "tracker": name, "transport": r.Transport, "infohash": r.InfoHash, "peerid": r.PeerID, "port": r.Port,
		"up": r.Up, "down": r.Down, "left": r.Left, "event": r.Event, "key": r.Key, "numwant": r.NumWant, "ua": r.UA, "n": r.N})
}

// UDPTracker is a scripted BEP 15 tracker.
type UDPTracker struct {
	Name    string
	T       *Tracer
	C       *net.UDPConn
	mu      sync.Mutex
	Reqs    []AnnReq
	Script  func(r AnnReq) AnnReply
	Connect func(n int) (answer bool, delay time.Duration) // script for connect requests (nil = answer at once)
	Connects atomic.Int64
	n       atomic.Int64
	conns   map[uint64]time.Time
	nextID  uint64
	Mangle  func(kind string, pkt []byte) [][]byte // transform outgoing datagrams (duplicates, wrong ids ...)
}

func (u *UDPTracker) URL() string { return fmt.Sprintf("udp://%s/announce", u.C.LocalAddr().String()) }

func StartUDPTracker(t *Tracer, name string, script func(AnnReq) AnnReply) (*UDPTracker, error) {
	c, err := net.ListenUDP("udp4", &net.UDPAddr{IP: net.ParseIP("127.0.0.1")})
	if err != nil {
		return nil, err
	}
	u := &UDPTracker{Name: name, T: t, C: c, Script: script, conns: map[uint64]time.Time{}, nextID: 0x1000}
	go u.run()
	return u, nil
}

func (u *UDPTracker) Close() { u.C.Close() }

func (u *UDPTracker) Requests() []AnnReq {
	u.mu.Lock()
	defer u.mu.Unlock()
	return append([]AnnReq(nil), u.Reqs...)
}

func (u *UDPTracker) send(kind string, pkt []byte, to *net.UDPAddr) {
	pkts := [][]byte{pkt}
	if u.Mangle != nil {
		pkts = u.Mangle(kind, pkt)
	}
	for _, p := range pkts {
		u.C.WriteToUDP(p, to)
	}
}

func (u *UDPTracker) run() {
	buf := make([]byte, 65536)
	for {
		n, from, err := u.C.ReadFromUDP(buf)
		if err != nil {
			return
		}
		p := append([]byte(nil), buf[:n]...)
		if n < 16 {
			continue
		}
		connID := binary.BigEndian.Uint64(p[0:8])
		action := binary.BigEndian.Uint32(p[8:12])
		txid := p[12:16]
		switch action {
		case 0: // connect
			k := int(u.Connects.Add(1))
			if u.T != nil {
				u.T.Emit(Ev{"ev": "trkconn", "tracker": u.Name, "n": k, "magic_ok": connID == 0x41727101980})
			}
			answer, delay := true, time.Duration(0)
			if u.Connect != nil {
				answer, delay = u.Connect(k)
			}
			if !answer {
				continue
			}
			u.mu.Lock()
			u.nextID++
			id := u.nextID
			u.conns[id] = time.Now()
			u.mu.Unlock()
			out := make([]byte, 16)
			binary.BigEndian.PutUint32(out[0:4], 0)
			copy(out[4:8], txid)
			binary.BigEndian.PutUint64(out[8:16], id)
			go func() {
				if delay > 0 {
					time.Sleep(delay)
				}
				u.send("connect", out, from)
			}()
		case 1: // announce
			if n < 98 {
				continue
			}
			u.mu.Lock()
			_, known := u.conns[connID]
			u.mu.Unlock()
			ev := map[uint32]string{0: "", 1: "completed", 2: "started", 3: "stopped"}[binary.BigEndian.Uint32(p[80:84])]
			req := AnnReq{Transport: "udp", InfoHash: hexs(p[16:36]), PeerID: hexs(p[36:56]),
				Down: int64(binary.BigEndian.Uint64(p[56:64])), Left: int64(binary.BigEndian.Uint64(p[64:72])), Up: int64(binary.BigEndian.Uint64(p[72:80])),
				Event: ev, Key: fmt.Sprintf("%08x", binary.BigEndian.Uint32(p[88:92])), NumWant: int(int32(binary.BigEndian.Uint32(p[92:96]))),
				Port: int(binary.BigEndian.Uint16(p[96:98])), At: time.Now(), Raw: hexs(p)}
			req.N = int(u.n.Add(1))
			u.mu.Lock()
			u.Reqs = append(u.Reqs, req)
			u.mu.Unlock()
			logAnn(u.T, u.Name, req)
			if !known {
				out := make([]byte, 8)
				binary.BigEndian.PutUint32(out[0:4], 3)
				copy(out[4:8], txid)
				out = append(out, "unknown connection id"...)
				u.send("error", out, from)
				continue
			}
			rep := AnnReply{Interval: I64(1800)}
			if u.Script != nil {
				rep = u.Script(req)
			}
			if rep.Drop {
				continue
			}
			var out []byte
			if rep.Failure != "" {
				out = make([]byte, 8)
				binary.BigEndian.PutUint32(out[0:4], 3)
				copy(out[4:8], txid)
				out = append(out, rep.Failure...)
			} else {
				out = make([]byte, 20)
				binary.BigEndian.PutUint32(out[0:4], 1)
				copy(out[4:8], txid)
				iv := int64(1800)
				if rep.Interval != nil {
					iv = *rep.Interval
				}
				binary.BigEndian.PutUint32(out[8:12], uint32(int32(iv)))
				binary.BigEndian.PutUint32(out[12:16], 0)
				binary.BigEndian.PutUint32(out[16:20], uint32(len(rep.Peers)))
				for _, a := range rep.Peers {
					out = append(out, a.IP.To4()...)
					out = binary.BigEndian.AppendUint16(out, uint16(a.Port))
				}
			}
			if rep.RawBody != nil {
				out = rep.RawBody
				if len(out) >= 8 {
					// callers may leave the transaction id zero to have it filled in
					if binary.BigEndian.Uint32(out[4:8]) == 0 {
						copy(out[4:8], txid)
					}
				}
			}
			d := rep.Delay
			go func() {
				if d > 0 {
					time.Sleep(d)
				}
				u.send("announce", out, from)
			}()
		}
	}
}
