// Command c12 exercises the real MSE handshake (internal/mse) and the encryption policy layer
// (internal/btconn Dial/Accept) and records one ndjson line per handshake / policy scenario.
// spec/Trace_MSE.tla judges every line against spec/MSE.tla.
//
//	c12 -mode hs  -n N -seed S [-grid] [-frag cases.ndjson] [-shard i/k] -out f   bare mse.Stream endpoints on an in-memory duplex pipe
//	c12 -mode pol -scen scenarios.json -seed S -out f         btconn.Dial / Accept against scripted peers over loopback TCP
//	c12 -mode iso -sched schedules.ndjson -seed S -out f      2-3 simultaneous incoming handshakes with distinct initial payloads (iso.go)
//	c12 -mode ses -sched scenarios.ndjson -seed S -out f      real torrent.Session dialing a raw scripted listener under every encryption setting (ses.go)
//	c12 -mode probe                                           the stale-cipher probe (prints a line, exit 0)
package main

import (
	"bufio"
	"bytes"
	"encoding/json"
	"errors"
	"flag"
	"fmt"
	"io"
	"math/rand"
	"net"
	"os"
	"strings"
	"sync"
	"sync/atomic"
	"time"

	"github.com/cenkalti/rain/v2/internal/btconn"
	"github.com/cenkalti/rain/v2/internal/mse"
)

// ---------------------------------------------------------------------------------------------
// in-memory duplex transport with scripted fragmentation

// chunking describes how reads of one endpoint are fragmented.
type chunking struct {
	First int    // size of the first delivery (0 = none); the read blocks until that many bytes are there
	Rest  string // "one" | "max" | "rand"
}

func (c chunking) class() string {
	if c.First > 0 {
		return "first+" + c.Rest
	}
	return c.Rest
}

// half is one direction of the transport: an unbounded buffer (like a socket buffer that never fills).
type half struct {
	mu     sync.Mutex
	cond   *sync.Cond
	buf    []byte // everything ever written (the wire tap)
	r      int    // consumed
	closed bool
}

func newHalf() *half { h := &half{}; h.cond = sync.NewCond(&h.mu); return h }

func (h *half) close() {
	h.mu.Lock()
	h.closed = true
	h.mu.Unlock()
	h.cond.Broadcast()
}

// endpoint is what an mse.Stream sees.
type endpoint struct {
	in, out    *half
	ch         chunking
	rng        *rand.Rand
	firstDone  bool
	nread      atomic.Int64 // bytes delivered so far
	readBefore []int        // nread at the time of each Write call
	writeLens  []int
	truncWrite int // if >0: the truncWrite-th Write call delivers only truncN bytes and closes the transport
	truncN     int
	localClose bool
}

func (e *endpoint) Read(p []byte) (int, error) {
	if len(p) == 0 {
		return 0, nil
	}
	h := e.in
	h.mu.Lock()
	defer h.mu.Unlock()
	want := 1
	if !e.firstDone && e.ch.First > 0 {
		want = e.ch.First
		if want > len(p) {
			want = len(p)
		}
	}
	for len(h.buf)-h.r < want && !h.closed {
		h.cond.Wait()
	}
	if e.localClose {
		return 0, io.ErrClosedPipe
	}
	avail := len(h.buf) - h.r
	if avail == 0 {
		return 0, io.EOF
	}
	max := len(p)
	if avail < max {
		max = avail
	}
	n := max
	if !e.firstDone && e.ch.First > 0 {
		if e.ch.First < n {
			n = e.ch.First
		}
	} else {
		switch e.ch.Rest {
		case "one":
			n = 1
		case "rand":
			n = 1 + e.rng.Intn(max)
		}
	}
	e.firstDone = true
	copy(p, h.buf[h.r:h.r+n])
	h.r += n
	e.nread.Add(int64(n))
	return n, nil
}

func (e *endpoint) Write(p []byte) (int, error) {
	h := e.out
	h.mu.Lock()
	if h.closed {
		h.mu.Unlock()
		return 0, io.ErrClosedPipe
	}
	e.readBefore = append(e.readBefore, int(e.nread.Load()))
	e.writeLens = append(e.writeLens, len(p))
	if e.truncWrite > 0 && len(e.writeLens) == e.truncWrite {
		n := e.truncN
		if n > len(p) {
			n = len(p)
		}
		h.buf = append(h.buf, p[:n]...)
		h.mu.Unlock()
		h.cond.Broadcast()
		e.Close()
		return n, io.ErrClosedPipe
	}
	h.buf = append(h.buf, p...)
	h.mu.Unlock()
	h.cond.Broadcast()
	return len(p), nil
}

// Close closes the whole connection (both directions), like net.Conn.Close.
func (e *endpoint) Close() error {
	e.in.mu.Lock()
	e.localClose = true
	e.in.mu.Unlock()
	e.in.close()
	e.out.close()
	return nil
}

// ---------------------------------------------------------------------------------------------
// pad steering (hook H2).  Pads are requested in protocol order PadA, PadB, PadC, PadD
// (mse.go:121 padRandom, :258 padRandom, :152 padZero, :351 padZero; each is causally after the previous).

type padScript struct {
	mu    sync.Mutex
	pads  []int
	calls int
}

func (p *padScript) next() (int, bool) {
	p.mu.Lock()
	defer p.mu.Unlock()
	i := p.calls
	p.calls++
	if i < len(p.pads) {
		return p.pads[i], true
	}
	return 0, true
}

func installPads(pads []int) *padScript {
	ps := &padScript{pads: pads}
	mse.VerifSetPadSource(ps.next)
	return ps
}

// ---------------------------------------------------------------------------------------------
// classification of results

func errClass(err error) string {
	if err == nil {
		return "ok"
	}
	s := err.Error()
	switch {
	case strings.Contains(s, "sync point is not found"):
		return "sync"
	case strings.Contains(s, "invalid SKEY hash"):
		return "skey"
	case strings.Contains(s, "invalid VC"):
		return "vc"
	case strings.Contains(s, "no crypto methods are provided"):
		return "noprovide"
	case strings.Contains(s, "none of the provided methods are accepted"):
		return "noselect"
	case strings.Contains(s, "invalid crypto selected"), strings.Contains(s, "selected crypto was not provided"),
		strings.Contains(s, "selected crypto is not provided"):
		return "badselect"
	case strings.Contains(s, "initial payload is too big"):
		return "toobig"
	case strings.Contains(s, "connection is not encrypted"):
		return "notenc"
	case strings.Contains(s, "invalid protocol"):
		return "proto"
	case strings.Contains(s, "invalid info hash"):
		return "infohash"
	case strings.Contains(s, "verif timeout"):
		return "timeout"
	case errors.Is(err, io.EOF), errors.Is(err, io.ErrUnexpectedEOF), errors.Is(err, io.ErrClosedPipe):
		return "eof"
	}
	var ne net.Error
	if errors.As(err, &ne) {
		if ne.Timeout() {
			return "timeout"
		}
		return "eof"
	}
	return "other"
}

func selectFunc(pol string, got *int) func(mse.CryptoMethod) mse.CryptoMethod {
	return func(provided mse.CryptoMethod) (sel mse.CryptoMethod) {
		switch pol {
		case "preferRC4":
			if provided&mse.RC4 != 0 {
				sel = mse.RC4
			} else if provided&mse.PlainText != 0 {
				sel = mse.PlainText
			}
		case "preferPlain":
			if provided&mse.PlainText != 0 {
				sel = mse.PlainText
			} else if provided&mse.RC4 != 0 {
				sel = mse.RC4
			}
		case "onlyPlain":
			sel = mse.PlainText
		case "onlyRC4":
			sel = mse.RC4
		case "both":
			sel = mse.PlainText | mse.RC4
		case "none":
			sel = 0
		}
		*got = int(sel)
		return sel
	}
}

func skeyFunc(mode string, key []byte) func([20]byte) []byte {
	h := mse.HashSKey(key)
	return func(got [20]byte) []byte {
		switch mode {
		case "same":
			if got == h {
				return key
			}
			return nil
		case "wrong":
			k := append([]byte{}, key...)
			k[0] ^= 0xff
			return k
		}
		return nil // "unknown"
	}
}

// ---------------------------------------------------------------------------------------------
// mode hs: bare streams

type hsCase struct {
	Pads     [4]int
	ChA, ChB chunking
	IA       int
	Provide  int
	SelPol   string
	KeyMode  string
	Loose    bool   // B is the hostile receiver of the overlay shim: crypto_select is sent unvalidated
	Fam      string // "frag": pads / first-read sizes come from TLC (MC_MSE FragCases); "" = generated here
}

var postSizes = []int{1, 1000, 2500}

const maxHangs = 5 // after that many hanging runs the driver stops (hs: handshakes, pol: scenarios)

var hsTimeout = 20 * time.Second

func b2i(b bool) int {
	if b {
		return 1
	}
	return 0
}

func randBytes(rng *rand.Rand, n int) []byte {
	b := make([]byte, n)
	rng.Read(b)
	return b
}

type sideResult struct {
	res    string
	cipher int
	gotOK  int // everything the peer wrote was read unchanged
	iaOK   int
}

func runHS(cs hsCase, rng *rand.Rand) map[string]any {
	ps := installPads(cs.Pads[:])
	defer mse.VerifSetPadSource(nil)
	ab, ba := newHalf(), newHalf()
	ea := &endpoint{in: ba, out: ab, ch: cs.ChA, rng: rand.New(rand.NewSource(rng.Int63()))}
	eb := &endpoint{in: ab, out: ba, ch: cs.ChB, rng: rand.New(rand.NewSource(rng.Int63()))}
	sa, sb := mse.NewStream(ea), mse.NewStream(eb)
	key := randBytes(rng, 20)
	ia := randBytes(rng, cs.IA)
	postA := randBytes(rng, 3501)
	postB := randBytes(rng, 3501)
	selGot := -1
	var ra, rb sideResult
	var wg sync.WaitGroup
	wg.Add(2)
	// exchange after the handshake: write own data in several pieces while reading the peer's
	exchange := func(s *mse.Stream, mine, expect []byte) int {
		done := make(chan struct{})
		go func() {
			defer close(done)
			off := 0
			for _, n := range postSizes {
				if _, err := s.Write(mine[off : off+n]); err != nil {
					return
				}
				off += n
			}
		}()
		got := make([]byte, len(expect))
		_, err := io.ReadFull(s, got)
		<-done
		if err == nil && bytes.Equal(got, expect) {
			return 1
		}
		return 0
	}
	go func() {
		defer wg.Done()
		sel, err := sa.HandshakeOutgoing(key, mse.CryptoMethod(cs.Provide), ia)
		ra.res, ra.cipher = errClass(err), int(sel)
		if err != nil {
			ea.Close()
			return
		}
		ra.gotOK = exchange(sa, postA, postB)
	}()
	go func() {
		defer wg.Done()
		var err error
		if cs.Loose {
			err = sb.VerifHandshakeIncomingLoose(skeyFunc(cs.KeyMode, key), selectFunc(cs.SelPol, &selGot))
		} else {
			err = sb.HandshakeIncoming(skeyFunc(cs.KeyMode, key), selectFunc(cs.SelPol, &selGot))
		}
		rb.res, rb.cipher = errClass(err), selGot
		if err != nil {
			eb.Close()
			return
		}
		// the initial payload comes first (mse.go:365), then whatever A writes after its handshake
		gotIA := make([]byte, len(ia))
		if _, err := io.ReadFull(sb, gotIA); err == nil && bytes.Equal(gotIA, ia) {
			rb.iaOK = 1
		}
		rb.gotOK = exchange(sb, postB, postA)
	}()
	fin := make(chan struct{})
	go func() { wg.Wait(); close(fin) }()
	hang := 0
	select {
	case <-fin:
	case <-time.After(hsTimeout):
		hang = 1
		ea.Close()
		eb.Close()
		<-fin
	}
	// first-read sizes as seen on the transport
	frA, frB := -1, -1
	if len(ea.readBefore) >= 2 {
		frA = ea.readBefore[1] - ea.readBefore[0]
	}
	if len(eb.readBefore) >= 1 {
		frB = eb.readBefore[0]
	}
	// is the data written after the handshake visible in clear on the wire?
	wab, wba := 0, 0
	if bytes.Contains(ab.buf, postA[1001:]) {
		wab = 1
	}
	if bytes.Contains(ba.buf, postB[1001:]) {
		wba = 1
	}
	// steering sanity (machinery): write lengths must show the scripted pads
	steer := 1
	if len(ea.writeLens) >= 1 && ea.writeLens[0] != 96+cs.Pads[0] {
		steer = 0
	}
	if len(eb.writeLens) >= 1 && eb.writeLens[0] != 96+cs.Pads[1] {
		steer = 0
	}
	if len(ea.writeLens) >= 2 && ea.writeLens[1] != 40+14+cs.Pads[2]+2+cs.IA {
		steer = 0
	}
	if len(eb.writeLens) >= 2 && eb.writeLens[1] != 14+cs.Pads[3] {
		steer = 0
	}
	if ps.calls > 4 {
		steer = 0
	}
	if hang == 1 {
		if ra.res == "eof" || ra.res == "" {
			ra.res = "timeout"
		}
		if rb.res == "eof" || rb.res == "" {
			rb.res = "timeout"
		}
	}
	return map[string]any{
		"op": "HS", "fam": cs.Fam, "padA": cs.Pads[0], "padB": cs.Pads[1], "padC": cs.Pads[2], "padD": cs.Pads[3],
		"chA": cs.ChA.class(), "chB": cs.ChB.class(), "frA": frA, "frB": frB, "ia": cs.IA,
		"provide": cs.Provide, "selpol": cs.SelPol, "keymode": cs.KeyMode, "sel": selGot, "loose": b2i(cs.Loose),
		"ra": ra.res, "ca": ra.cipher, "rb": rb.res, "cb": rb.cipher,
		"iaok": rb.iaOK, "sab": rb.gotOK, "sba": ra.gotOK, "wab": wab, "wba": wba, "hang": hang, "steer": steer,
	}
}

var padVals = []int{0, 1, 2, 255, 256, 510, 511}
var iaVals = []int{0, 1, 68, 65535}

func genChunk(rng *rand.Rand, pad int) chunking {
	rest := []string{"one", "max", "rand"}[rng.Intn(3)]
	switch rng.Intn(5) {
	case 0:
		return chunking{Rest: rest}
	case 1:
		return chunking{First: 96, Rest: rest}
	case 2:
		return chunking{First: 96 + pad, Rest: rest}
	case 3:
		k := 96 + pad - 1
		if k < 96 {
			k = 96
		}
		return chunking{First: k, Rest: rest}
	}
	return chunking{First: 1 + rng.Intn(96+pad), Rest: rest} // never more than the peer sends before it waits for us
}

func genCase(rng *rand.Rand, randomPads bool) hsCase {
	var cs hsCase
	for i := range cs.Pads {
		if randomPads {
			cs.Pads[i] = rng.Intn(512)
		} else {
			cs.Pads[i] = padVals[rng.Intn(len(padVals))]
		}
	}
	cs.ChA = genChunk(rng, cs.Pads[1])
	cs.ChB = genChunk(rng, cs.Pads[0])
	cs.IA = iaVals[rng.Intn(len(iaVals))]
	cs.Provide = 3
	cs.SelPol = []string{"preferRC4", "preferPlain"}[rng.Intn(2)]
	cs.KeyMode = "same"
	switch rng.Intn(10) { // negotiation / key / payload variations
	case 0:
		cs.Provide = rng.Intn(4)
		cs.SelPol = []string{"preferRC4", "preferPlain", "onlyPlain", "onlyRC4", "both", "none"}[rng.Intn(6)]
	case 1:
		cs.Provide = 1 + rng.Intn(3)
		cs.SelPol = []string{"onlyPlain", "onlyRC4", "both", "none"}[rng.Intn(4)]
	case 2:
		cs.KeyMode = []string{"unknown", "wrong"}[rng.Intn(2)]
	case 3:
		cs.IA = 65536 + rng.Intn(3)*1000
	case 4:
		cs.Provide = 1 + rng.Intn(2)
	case 5: // hostile receiver
		cs.Loose = true
		cs.Provide = 1 + rng.Intn(3)
		cs.SelPol = []string{"preferRC4", "preferPlain", "onlyPlain", "onlyRC4", "both", "none"}[rng.Intn(6)]
	}
	return cs
}

// fragCase is one case of the fragmentation family printed by TLC (spec/MC_MSE.tla FragCases): the pads of step 1 / step 2
// and the size of the first read of each side (MSE!FragFr: key only / inside the pad / one byte short / whole message).
type fragCase struct {
	PadA int `json:"padA"`
	PadB int `json:"padB"`
	FrA  int `json:"frA"`
	FrB  int `json:"frB"`
}

func readFragCases(file string) []fragCase {
	if file == "" {
		return nil
	}
	f, err := os.Open(file)
	if err != nil {
		panic(err)
	}
	defer f.Close()
	var cases []fragCase
	sc := bufio.NewScanner(f)
	for sc.Scan() {
		if len(bytes.TrimSpace(sc.Bytes())) == 0 {
			continue
		}
		var c fragCase
		if err := json.Unmarshal(sc.Bytes(), &c); err != nil {
			panic(err)
		}
		cases = append(cases, c)
	}
	return cases
}

func modeHS(n int, seed int64, grid bool, shard, nshard int, frag []fragCase, out *bufio.Writer) {
	rng := rand.New(rand.NewSource(seed)) // case generation only: identical in every shard
	emit := func(m map[string]any) {
		b, _ := json.Marshal(m)
		out.Write(b)
		out.WriteByte('\n')
	}
	idx := 0
	mine := func() bool { idx++; return (idx-1)%nshard == shard }
	hangs := 0
	emitRun := func(cs hsCase, rs int64) {
		if hangs >= maxHangs { // every hang costs hsTimeout; the recorded ones are verdict enough
			return
		}
		m := runHS(cs, rand.New(rand.NewSource(rs)))
		if m["hang"].(int) == 1 {
			hangs++
		}
		emit(m)
	}
	// the fragmentation family generated by TLC: the transport delivers exactly frA / frB bytes to the first read of A / B
	// (the sizes are recorded again from the transport and judged as observed); PadC, PadD, payload and selection rotate
	for _, fc := range frag {
		// a well-formed handshake (right key, both methods offered, payload within the limit): it has to complete
		cs := hsCase{IA: iaVals[rng.Intn(len(iaVals))], Provide: 3, SelPol: []string{"preferRC4", "preferPlain"}[rng.Intn(2)], KeyMode: "same"}
		cs.Pads = [4]int{fc.PadA, fc.PadB, padVals[rng.Intn(len(padVals))], padVals[rng.Intn(len(padVals))]}
		rest := []string{"one", "max", "rand"}
		cs.ChA = chunking{First: fc.FrA, Rest: rest[rng.Intn(3)]}
		cs.ChB = chunking{First: fc.FrB, Rest: rest[rng.Intn(3)]}
		cs.Fam = "frag"
		rs := rng.Int63()
		if mine() {
			emitRun(cs, rs)
		}
	}
	if grid {
		// the full grid of boundary pads; chunking / payload / selection rotate with the cell
		for _, a := range padVals {
			for _, b := range padVals {
				for _, c := range padVals {
					for _, d := range padVals {
						cs := genCase(rng, false)
						cs.Pads = [4]int{a, b, c, d}
						cs.ChA = genChunk(rng, b)
						cs.ChB = genChunk(rng, a)
						rs := rng.Int63()
						if mine() {
							emitRun(cs, rs)
						}
					}
				}
			}
		}
	}
	for i := 0; i < n; i++ {
		cs := genCase(rng, i%3 == 2)
		rs := rng.Int63()
		if mine() {
			emitRun(cs, rs)
		}
	}
}

// ---------------------------------------------------------------------------------------------
// mode pol: btconn.Dial / btconn.Accept against scripted peers, through a recording TCP tap

type scenario struct {
	Dk      string `json:"dk"`
	Ck      string `json:"ck"`
	Enable  bool   `json:"enable"`
	Force   bool   `json:"force"`
	ForceIn bool   `json:"forceIn"`
	Provide int    `json:"provide"`
	IA      int    `json:"ia"`
	KeyMode string `json:"keymode"`
	SelPol  string `json:"selpol"`
	Trunc   bool   `json:"trunc"`
	Loose   bool   `json:"loose"`
}

var (
	extD     = [8]byte{0x0A}
	extC     = [8]byte{0x0B}
	idD      = [20]byte{0x0C}
	idC      = [20]byte{0x0D}
	infoHash = [20]byte{0x0E, 1, 2, 3, 4, 5, 6, 7, 8, 9, 10, 11, 12, 13, 14, 15, 16, 17, 18, 19}
	pstr     = append([]byte{19}, []byte("BitTorrent protocol")...)
)

const polTimeout = 5 * time.Second

func btHandshake(ext [8]byte, ih, id [20]byte) []byte {
	b := append([]byte{}, pstr...)
	b = append(b, ext[:]...)
	b = append(b, ih[:]...)
	b = append(b, id[:]...)
	return b
}

// tapConn records one proxied connection.
type tapConn struct {
	mu     sync.Mutex
	dc, cd []byte // dialer->acceptor, acceptor->dialer
}

type tap struct {
	l     net.Listener
	to    string
	mu    sync.Mutex
	conns []*tapConn
	wg    sync.WaitGroup
}

func (t *tap) run() {
	for {
		c, err := t.l.Accept()
		if err != nil {
			return
		}
		up, err := net.DialTimeout("tcp", t.to, polTimeout)
		if err != nil {
			c.Close()
			continue
		}
		tc := &tapConn{}
		t.mu.Lock()
		t.conns = append(t.conns, tc)
		t.mu.Unlock()
		t.wg.Add(2)
		pipe := func(dst, src net.Conn, rec *[]byte) {
			defer t.wg.Done()
			buf := make([]byte, 32768)
			for {
				n, err := src.Read(buf)
				if n > 0 {
					tc.mu.Lock()
					*rec = append(*rec, buf[:n]...)
					tc.mu.Unlock()
					if _, werr := dst.Write(buf[:n]); werr != nil {
						break
					}
				}
				if err != nil {
					break
				}
			}
			// propagate the end of this direction; a failed endpoint closes its whole connection
			if tcp, ok := dst.(*net.TCPConn); ok {
				tcp.CloseWrite()
			}
		}
		var cw sync.WaitGroup
		cw.Add(2)
		go func() { pipe(up, c, &tc.dc); cw.Done() }()
		go func() { pipe(c, up, &tc.cd); cw.Done() }()
		go func() { cw.Wait(); c.Close(); up.Close() }()
	}
}

type polSide struct {
	res    string
	cipher int
	gotOK  int
}

// exchangeMarkers: write own marker, read the peer's.
func exchangeMarkers(conn net.Conn, mine, expect []byte) int {
	conn.SetDeadline(time.Now().Add(polTimeout))
	done := make(chan struct{})
	go func() { defer close(done); conn.Write(mine) }()
	got := make([]byte, len(expect))
	_, err := io.ReadFull(conn, got)
	<-done
	if err == nil && bytes.Equal(got, expect) {
		return 1
	}
	return 0
}

type rwc struct {
	io.Reader
	io.Writer
}

// truncWriter lets the k-th Write through only partially and closes the connection.
type truncWriter struct {
	conn  net.Conn
	calls int
	at, n int
}

func (t *truncWriter) Write(p []byte) (int, error) {
	t.calls++
	if t.at > 0 && t.calls == t.at {
		n := t.n
		if n > len(p) {
			n = len(p)
		}
		t.conn.Write(p[:n])
		t.conn.Close()
		return n, io.ErrClosedPipe
	}
	return t.conn.Write(p)
}

// streamConn makes an mse.Stream usable where a net.Conn is needed (deadlines go to the socket).
type streamConn struct {
	net.Conn
	s *mse.Stream
}

func (s *streamConn) Read(p []byte) (int, error)  { return s.s.Read(p) }
func (s *streamConn) Write(p []byte) (int, error) { return s.s.Write(p) }

func acceptOne(sc scenario, conn net.Conn, markC, markD []byte) (r polSide) {
	defer func() {
		if r.res != "ok" {
			conn.Close()
		}
	}()
	conn.SetDeadline(time.Now().Add(polTimeout))
	switch sc.Ck {
	case "rain":
		ec, cipher, _, _, _, err := btconn.Accept(conn, polTimeout, skeyFunc(sc.KeyMode, infoHash[:]), sc.ForceIn,
			func([20]byte) bool { return true }, extC, idC)
		r.res, r.cipher = errClass(err), int(cipher)
		if err != nil {
			return
		}
		r.gotOK = exchangeMarkers(ec, markC, markD)
		ec.Close()
		return
	case "plainonly", "mse", "any":
		head := make([]byte, 20)
		if _, err := io.ReadFull(conn, head); err != nil {
			r.res = errClass(err)
			return
		}
		isPlain := bytes.Equal(head, pstr)
		if (isPlain && sc.Ck == "mse") || (!isPlain && sc.Ck == "plainonly") {
			r.res = "proto"
			return
		}
		var rw net.Conn = conn
		if isPlain {
			rest := make([]byte, 48)
			if _, err := io.ReadFull(conn, rest); err != nil {
				r.res = errClass(err)
				return
			}
		} else {
			tw := &truncWriter{conn: conn}
			if sc.Trunc {
				tw.at, tw.n = 2, 12
			}
			s := mse.NewStream(rwc{io.MultiReader(bytes.NewReader(head), conn), tw})
			got := -1
			var err error
			if sc.Loose {
				err = s.VerifHandshakeIncomingLoose(skeyFunc(sc.KeyMode, infoHash[:]), selectFunc(sc.SelPol, &got))
			} else {
				err = s.HandshakeIncoming(skeyFunc(sc.KeyMode, infoHash[:]), selectFunc(sc.SelPol, &got))
			}
			r.cipher = got
			if err != nil {
				r.res = errClass(err)
				if sc.Trunc && tw.calls >= 2 {
					r.res = "trunc"
				}
				return
			}
			rw = &streamConn{conn, s}
			hs := make([]byte, 68)
			if _, err := io.ReadFull(rw, hs); err != nil {
				r.res = errClass(err)
				return
			}
		}
		if _, err := rw.Write(btHandshake(extC, infoHash, idC)); err != nil {
			r.res = errClass(err)
			return
		}
		r.res = "ok"
		r.gotOK = exchangeMarkers(rw, markC, markD)
		conn.Close()
		return
	}
	r.res = "other"
	return
}

func dialOne(sc scenario, addr *net.TCPAddr, markD, markC []byte) (r polSide) {
	switch sc.Dk {
	case "rain":
		conn, cipher, _, _, err := btconn.Dial(addr, polTimeout, polTimeout, sc.Enable, sc.Force, extD, infoHash, idD, nil)
		r.res, r.cipher = errClass(err), int(cipher)
		if err != nil {
			return
		}
		r.gotOK = exchangeMarkers(conn, markD, markC)
		conn.Close()
		return
	case "plain", "raw":
		conn, err := net.DialTimeout("tcp", addr.String(), polTimeout)
		if err != nil {
			r.res = "other"
			return
		}
		defer conn.Close()
		conn.SetDeadline(time.Now().Add(polTimeout))
		var rw net.Conn = conn
		if sc.Dk == "plain" {
			if _, err := conn.Write(btHandshake(extD, infoHash, idD)); err != nil {
				r.res = errClass(err)
				return
			}
		} else {
			s := mse.NewStream(conn)
			sel, err := s.HandshakeOutgoing(infoHash[:], mse.CryptoMethod(sc.Provide), btHandshake(extD, infoHash, idD))
			r.cipher = int(sel)
			if err != nil {
				r.res = errClass(err)
				return
			}
			rw = &streamConn{conn, s}
		}
		hs := make([]byte, 68)
		if _, err := io.ReadFull(rw, hs); err != nil {
			r.res = errClass(err)
			return
		}
		r.res = "ok"
		r.gotOK = exchangeMarkers(rw, markD, markC)
		return
	}
	r.res = "other"
	return
}

func runPol(sc scenario, rng *rand.Rand) map[string]any {
	pads := [4]int{}
	for i := range pads {
		pads[i] = padVals[rng.Intn(len(padVals))]
	}
	ps := installPads(pads[:])
	defer mse.VerifSetPadSource(nil)
	markD, markC := randBytes(rng, 600), randBytes(rng, 600)

	l, err := net.Listen("tcp", "127.0.0.1:0")
	if err != nil {
		panic(err)
	}
	tl, err := net.Listen("tcp", "127.0.0.1:0")
	if err != nil {
		panic(err)
	}
	tp := &tap{l: tl, to: l.Addr().String()}
	go tp.run()

	var accs []polSide
	var amu sync.Mutex
	accDone := make(chan struct{})
	go func() {
		defer close(accDone)
		for {
			conn, err := l.Accept()
			if err != nil {
				return
			}
			r := acceptOne(sc, conn, markC, markD)
			amu.Lock()
			accs = append(accs, r)
			amu.Unlock()
		}
	}()
	dr := dialOne(sc, tl.Addr().(*net.TCPAddr), markD, markC)
	// let the acceptor finish the connection it is working on
	deadline := time.Now().Add(2 * polTimeout)
	for time.Now().Before(deadline) {
		tp.mu.Lock()
		nconn := len(tp.conns)
		tp.mu.Unlock()
		amu.Lock()
		nacc := len(accs)
		amu.Unlock()
		if nacc >= nconn {
			break
		}
		time.Sleep(2 * time.Millisecond)
	}
	l.Close()
	tl.Close()
	<-accDone
	tp.mu.Lock()
	conns := tp.conns
	tp.mu.Unlock()
	amu.Lock()
	defer amu.Unlock()
	natt := len(conns)
	last := polSide{res: "none"}
	first := polSide{res: "none"}
	if len(accs) > 0 {
		last = accs[len(accs)-1]
	}
	if len(accs) > 1 {
		first = accs[0]
	}
	wab, wba, w1 := 0, 0, 0
	if natt > 0 {
		tc := conns[natt-1]
		tc.mu.Lock()
		if bytes.Contains(tc.dc, markD[100:]) {
			wab = 1
		}
		if bytes.Contains(tc.cd, markC[100:]) {
			wba = 1
		}
		tc.mu.Unlock()
	}
	if natt > 1 {
		tc := conns[0]
		tc.mu.Lock()
		if bytes.Contains(tc.cd, markC[100:]) || bytes.Contains(tc.dc, markD[100:]) {
			w1 = 1
		}
		tc.mu.Unlock()
	}
	return map[string]any{
		"op": "POL", "dk": sc.Dk, "ck": sc.Ck, "enable": b2i(sc.Enable), "force": b2i(sc.Force), "forceIn": b2i(sc.ForceIn),
		"provide": sc.Provide, "ia": sc.IA, "keymode": sc.KeyMode, "selpol": sc.SelPol, "trunc": b2i(sc.Trunc), "loose": b2i(sc.Loose),
		"padA": pads[0], "padB": pads[1], "padC": pads[2], "padD": pads[3], "npads": ps.calls,
		"ra": dr.res, "ca": dr.cipher, "rb": last.res, "cb": last.cipher, "natt": natt,
		"rb1": first.res, "cb1": first.cipher, "w1": w1,
		"sab": last.gotOK, "sba": dr.gotOK, "wab": wab, "wba": wba,
	}
}

func modePol(scenFile string, seed int64, reps int, out *bufio.Writer) {
	f, err := os.Open(scenFile)
	if err != nil {
		panic(err)
	}
	defer f.Close()
	var scens []scenario
	sc := bufio.NewScanner(f)
	for sc.Scan() {
		if len(bytes.TrimSpace(sc.Bytes())) == 0 {
			continue
		}
		var s scenario
		if err := json.Unmarshal(sc.Bytes(), &s); err != nil {
			panic(err)
		}
		scens = append(scens, s)
	}
	rng := rand.New(rand.NewSource(seed))
	slow := 0
	for rep := 0; rep < reps; rep++ {
		for _, s := range scens {
			if slow >= maxHangs {
				return
			}
			m := runPol(s, rng)
			if m["ra"] == "timeout" || m["rb"] == "timeout" {
				slow++
			}
			b, _ := json.Marshal(m)
			out.Write(b)
			out.WriteByte('\n')
		}
	}
}

func main() {
	mode := flag.String("mode", "hs", "hs | pol | one")
	n := flag.Int("n", 100, "number of generated handshakes (hs)")
	seed := flag.Int64("seed", 1, "seed")
	grid := flag.Bool("grid", false, "hs: run the full grid of boundary pads first")
	shard := flag.String("shard", "0/1", "hs: i/k - run only every k-th case starting at i")
	scen := flag.String("scen", "", "pol: ndjson file with scenarios")
	reps := flag.Int("reps", 1, "pol: repetitions of the matrix (different pads)")
	outp := flag.String("out", "", "output ndjson")
	oneCase := flag.String("case", "", "one: JSON of a single handshake case")
	sched := flag.String("sched", "", "iso / ses: ndjson file with the schedules / session scenarios generated by TLC")
	fragFile := flag.String("frag", "", "hs: ndjson file with the fragmentation cases generated by TLC (run before the generated cases)")
	hto := flag.Int("hangms", 20000, "hs: a handshake that takes longer than this is recorded as hanging")
	flag.Parse()
	hsTimeout = time.Duration(*hto) * time.Millisecond
	var si, sk int
	if _, err := fmt.Sscanf(*shard, "%d/%d", &si, &sk); err != nil || sk < 1 || si < 0 || si >= sk {
		fmt.Fprintln(os.Stderr, "bad -shard")
		os.Exit(2)
	}
	f, err := os.Create(*outp)
	if err != nil {
		fmt.Fprintln(os.Stderr, err)
		os.Exit(2)
	}
	w := bufio.NewWriter(f)
	switch *mode {
	case "one": // replay of a single handshake case: -case '{"Pads":[..],"ChA":{"First":n,"Rest":"max"},...}'
		var cs hsCase
		if err := json.Unmarshal([]byte(*oneCase), &cs); err != nil {
			fmt.Fprintln(os.Stderr, err)
			os.Exit(2)
		}
		rng := rand.New(rand.NewSource(*seed))
		for i := 0; i < *n; i++ {
			b, _ := json.Marshal(runHS(cs, rand.New(rand.NewSource(rng.Int63()))))
			w.Write(b)
			w.WriteByte('\n')
		}
	case "hs":
		modeHS(*n, *seed, *grid, si, sk, readFragCases(*fragFile), w)
	case "pol":
		modePol(*scen, *seed, *reps, w)
	case "iso":
		modeIso(*sched, *seed, *reps, w)
	case "ses":
		if err := modeSes(*sched, *seed, w); err != nil {
			w.Flush()
			fmt.Fprintln(os.Stderr, "ses:", err)
			os.Exit(3)
		}
	default:
		fmt.Fprintln(os.Stderr, "bad -mode")
		os.Exit(2)
	}
	w.Flush()
	f.Close()
}
