package main

// mode ses: the OUTGOING direction of a real torrent.Session under every consistent setting of the encryption
// switches (matrix enumerated by TLC, printed by MC_MSE) against a raw scripted TCP listener that records the
// first 20 bytes of every connection attempt (plaintext BitTorrent handshake or MSE key exchange) and then behaves
// as the scripted peer kind of the scenario ("plainonly" / "mse" / "any"; key mode "unknown" = refuses every MSE
// handshake).  One "SES" line per scenario; spec/Trace_MSE.tla judges it with the btconn policy layer of MSE.tla.

import (
	"bufio"
	"bytes"
	"encoding/json"
	"fmt"
	"math/rand"
	"net"
	"os"
	"path/filepath"
	"sync"
	"time"

	"github.com/cenkalti/rain/v2/internal/mse"
	"github.com/cenkalti/rain/v2/internal/verif/vh"
	"github.com/cenkalti/rain/v2/torrent"
)

type sesScenario struct {
	Sc  scenario `json:"sc"`
	Sfi bool     `json:"sfi"` // ForceIncomingEncryption of the session (not involved in dialing; part of the matrix)
}

// headConn records the first bytes read from the connection.
type headConn struct {
	net.Conn
	mu   sync.Mutex
	head []byte
}

func (h *headConn) Read(p []byte) (int, error) {
	n, err := h.Conn.Read(p)
	h.mu.Lock()
	if len(h.head) < 20 && n > 0 {
		k := 20 - len(h.head)
		if k > n {
			k = n
		}
		h.head = append(h.head, p[:k]...)
	}
	h.mu.Unlock()
	return n, err
}

const sesWait = 30 * time.Second

func runSes(ss sesScenario, idx int, dir string, tor *vh.Torrent, hub *vh.SnapHub, rng *rand.Rand) (map[string]any, error) {
	sc := ss.Sc
	pads := [4]int{}
	for i := range pads {
		pads[i] = padVals[rng.Intn(len(padVals))]
	}
	ps := installPads(pads[:])
	defer mse.VerifSetPadSource(nil)
	sdir := filepath.Join(dir, fmt.Sprintf("s%d", idx))
	os.MkdirAll(sdir, 0o755)
	cfg, err := vh.BaseConfig(sdir, 10)
	if err != nil {
		return nil, err
	}
	cfg.DisableOutgoingEncryption = !sc.Enable
	cfg.ForceOutgoingEncryption = sc.Force
	cfg.ForceIncomingEncryption = ss.Sfi
	s, err := torrent.NewSession(cfg)
	if err != nil {
		return nil, err
	}
	defer s.Close()
	l, err := net.Listen("tcp4", "127.0.0.2:0")
	if err != nil {
		return nil, err
	}
	type att struct {
		plain int
		r     polSide
	}
	var mu sync.Mutex
	var atts []att
	active := 0
	accDone := make(chan struct{})
	go func() {
		defer close(accDone)
		for {
			conn, err := l.Accept()
			if err != nil {
				return
			}
			mu.Lock()
			active++
			mu.Unlock()
			hc := &headConn{Conn: conn}
			r := acceptOne(sc, hc, nil, nil)
			hc.mu.Lock()
			pl := -1 // nothing (or less than 20 bytes) was sent
			if len(hc.head) == 20 {
				pl = b2i(bytes.Equal(hc.head, pstr))
			}
			hc.mu.Unlock()
			conn.Close()
			mu.Lock()
			atts = append(atts, att{pl, r})
			active--
			mu.Unlock()
		}
	}()
	tr, err := s.AddTorrent(bytes.NewReader(tor.Bytes), nil)
	if err != nil {
		l.Close()
		return nil, err
	}
	if !hub.Wait(tr.ID(), sesWait, func(s *torrent.VerifSnap) bool { return s.Status == "Downloading" }) {
		l.Close()
		return nil, fmt.Errorf("session %d: torrent did not start", idx)
	}
	if err := tr.AddPeer(l.Addr().String()); err != nil {
		l.Close()
		return nil, err
	}
	// the dial (with its plaintext retry, made inside the same outgoing handshaker) is over when at least one connection
	// reached the listener, no outgoing handshaker is left and the address list is empty
	seen := func() (int, int) { mu.Lock(); defer mu.Unlock(); return len(atts), active }
	deadline := time.Now().Add(sesWait)
	for {
		n, _ := seen()
		if n > 0 {
			break
		}
		if time.Now().After(deadline) {
			l.Close()
			return nil, fmt.Errorf("session %d (%+v): no connection attempt within %v", idx, ss, sesWait)
		}
		time.Sleep(5 * time.Millisecond)
	}
	idle := func() bool {
		vh.Poke(tr) // makes the loop handle an event, i.e. publish a fresh snapshot
		sn := hub.Get(tr.ID())
		_, a := seen()
		return sn != nil && sn.OutHS == 0 && sn.AddrListLen == 0 && a == 0
	}
	for stable := 0; stable < 3; {
		if time.Now().After(deadline) {
			l.Close()
			return nil, fmt.Errorf("session %d (%+v): the dial did not finish within %v", idx, ss, sesWait)
		}
		if idle() {
			stable++
		} else {
			stable = 0
		}
		time.Sleep(20 * time.Millisecond)
	}
	established := 0
	if sn := hub.Get(tr.ID()); sn != nil {
		established = sn.Peers
	}
	l.Close()
	<-accDone
	mu.Lock()
	defer mu.Unlock()
	natt := len(atts)
	nplain, p1, p2 := 0, -1, -1
	for i, a := range atts {
		if a.plain == 1 {
			nplain++
		}
		if i == 0 {
			p1 = a.plain
		}
		if i == 1 {
			p2 = a.plain
		}
	}
	last := atts[natt-1]
	return map[string]any{
		"op": "SES", "dk": "rain", "ck": sc.Ck, "enable": b2i(sc.Enable), "force": b2i(sc.Force), "forceIn": 0, "sfi": b2i(ss.Sfi),
		"provide": sc.Provide, "ia": sc.IA, "keymode": sc.KeyMode, "selpol": sc.SelPol, "trunc": b2i(sc.Trunc), "loose": b2i(sc.Loose),
		"padA": pads[0], "padB": pads[1], "padC": pads[2], "padD": pads[3], "npads": ps.calls,
		"natt": natt, "nplain": nplain, "p1": p1, "p2": p2, "rb": last.r.res, "cb": last.r.cipher, "peers": established,
	}, nil
}

func modeSes(scenFile string, seed int64, out *bufio.Writer) error {
	f, err := os.Open(scenFile)
	if err != nil {
		return err
	}
	defer f.Close()
	var scens []sesScenario
	sc := bufio.NewScanner(f)
	for sc.Scan() {
		if len(bytes.TrimSpace(sc.Bytes())) == 0 {
			continue
		}
		var s sesScenario
		if err := json.Unmarshal(sc.Bytes(), &s); err != nil {
			return err
		}
		scens = append(scens, s)
	}
	torrent.DisableLogging()
	dir, err := os.MkdirTemp("/var/tmp", "c12ses")
	if err != nil {
		return err
	}
	defer os.RemoveAll(dir)
	T, err := vh.NewTracer(filepath.Join(dir, "trace.ndjson"))
	if err != nil {
		return err
	}
	defer T.Close()
	hub := vh.InstallSnapHub(T, false)
	tor := vh.Build(vh.StdLayouts(16384)[0], seed, nil, nil)
	infoHash = tor.InfoHash // the scripted acceptors of pol mode answer for this torrent
	rng := rand.New(rand.NewSource(seed))
	for i, s := range scens {
		m, err := runSes(s, i, dir, tor, hub, rng)
		if err != nil {
			return err
		}
		b, _ := json.Marshal(m)
		out.Write(b)
		out.WriteByte('\n')
	}
	return nil
}
