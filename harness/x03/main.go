// Command x03 drives the connection establishment / admission layer of a real torrent.Session with scripted
// remote sides (check X03, spec/Connect.tla + Trace_Connect.tla).
//
//	x03 run -scenarios s.ndjson -out raw.ndjson      (child process: prints "BEGIN <id>" / "END <id>")
//
// A scenario is a list of steps: API commands (start, stop, addpeer), scripted peers that connect to rain
// ("in": silent, half a handshake, garbage, wrong info-hash, rain's own peer id, good with a given peer id),
// scripted listeners that rain dials ("listen": good, silent, close, late, wronghash, ownid, refuse,
// blackhole), floods, completion of the download by an honest seeder, a liar that gets banned, and
// quiescent "check" points where the scripted side reports which of its sockets are still open.
// Every loop event of the torrent is recorded with the complete connection state (hook H1 + shim
// torrent.VerifX03Snapshot, both on the loop goroutine).
package main

import (
	"bufio"
	"bytes"
	"encoding/hex"
	"encoding/json"
	"flag"
	"fmt"
	"io"
	"math/rand"
	"net"
	"os"
	"runtime"
	"runtime/debug"
	"sort"
	"strings"
	"sync"
	"sync/atomic"
	"syscall"
	"time"

	"github.com/cenkalti/rain/v2/internal/verif/vh"
	"github.com/cenkalti/rain/v2/torrent"
)

type Step struct {
	Do     string `json:"do"`
	Key    int    `json:"key"`
	IP     int    `json:"ip"`
	Cls    string `json:"cls"`
	ID     int    `json:"id"`
	N      int    `json:"n"`
	Ms     int    `json:"ms"`
	Keys   []int  `json:"keys"`
	Expect bool   `json:"expect"`
	NoWait bool   `json:"nowait"`
}

type Scenario struct {
	ID        int    `json:"id"`
	Seed      int64  `json:"seed"`
	MaxAccept int    `json:"maxAccept"`
	MaxDial   int    `json:"maxDial"`
	NoEnc     bool   `json:"noEnc"`
	CtMs      int    `json:"ctMs"`
	HtMs      int    `json:"htMs"`
	Steps     []Step `json:"steps"`
}

var T *vh.Tracer

// ------------------------------------------------------------------------------------------ loop observation

type snap struct {
	S *torrent.VerifSnap
	X torrent.VerifX03
}

type hub struct {
	mu    sync.Mutex
	cond  *sync.Cond
	tr    *torrent.Torrent
	id    string
	last  *snap
	prev  []byte
	nchg  atomic.Int64 // number of emitted (= changed) snapshots
	ownID atomic.Value
}

func newHub() *hub {
	h := &hub{}
	h.cond = sync.NewCond(&h.mu)
	torrent.VerifSetTracer(h.on)
	return h
}

func (h *hub) attach(tr *torrent.Torrent) {
	h.mu.Lock()
	h.tr, h.id, h.last, h.prev = tr, tr.ID(), nil, nil
	h.mu.Unlock()
	h.nchg.Store(0)
}

func (h *hub) detach() {
	h.mu.Lock()
	h.tr, h.id = nil, ""
	h.mu.Unlock()
}

// on runs on the torrent's loop goroutine after every handled event.
func (h *hub) on(s *torrent.VerifSnap) {
	h.mu.Lock()
	if h.tr == nil || s.ID != h.id {
		h.mu.Unlock()
		return
	}
	x := torrent.VerifX03Snapshot(h.tr)
	h.last = &snap{S: s, X: x}
	h.ownID.Store(x.OwnID)
	core := map[string]any{"status": s.Status, "acc": s.Acceptor, "completed": s.Completed, "port": s.Port, "connIPs": s.ConnectedIPs,
		"banned": s.Banned, "x": x}
	js, _ := json.Marshal(core)
	changed := !bytes.Equal(js, h.prev)
	var e vh.Ev
	if changed {
		h.prev = js
		e = vh.Ev{"ev": "snap", "status": s.Status, "acc": s.Acceptor, "completed": s.Completed, "port": s.Port, "connIPs": s.ConnectedIPs,
			"banned": s.Banned, "inHS": x.InHS, "outHS": x.OutHS, "peers": x.Peers, "peerIDs": x.PeerIDs, "queue": x.Queue, "nIn": x.NIn, "nOut": x.NOut,
			"ownID": x.OwnID}
	}
	if changed {
		// emitted under the hub lock: the change counter and the trace order agree
		T.Emit(e)
		h.nchg.Add(1)
	}
	h.cond.Broadcast()
	h.mu.Unlock()
}

func (h *hub) get() *snap {
	h.mu.Lock()
	defer h.mu.Unlock()
	return h.last
}

func (h *hub) wait(timeout time.Duration, pred func(*snap) bool) bool {
	deadline := time.Now().Add(timeout)
	stop := make(chan struct{})
	defer close(stop)
	go func() {
		tk := time.NewTicker(10 * time.Millisecond)
		defer tk.Stop()
		for {
			select {
			case <-tk.C:
				h.cond.Broadcast()
			case <-stop:
				return
			}
		}
	}()
	h.mu.Lock()
	defer h.mu.Unlock()
	for {
		if h.last != nil && pred(h.last) {
			return true
		}
		if time.Now().After(deadline) {
			return false
		}
		h.cond.Wait()
	}
}

// ------------------------------------------------------------------------------------------ scripted sides

func hx(b [20]byte) string { return hex.EncodeToString(b[:]) }

func ipStr(n int) string { return fmt.Sprintf("127.0.0.%d", n) }

func pid(id int) [20]byte { return vh.PeerID(fmt.Sprintf("x03-id%d", id)) }

type inSock struct {
	key, ip int
	cls     string
	c       net.Conn
	lport   int
	open    atomic.Bool // TCP established and not known to be closed
	self    atomic.Bool // closed by the scripted side itself
}

type accSock struct {
	k    int
	c    net.Conn
	open atomic.Bool
	self atomic.Bool
}

type outAddr struct {
	key, ip, id int
	cls         string
	port        int
	l           net.Listener
	fd          int        // blackhole: raw listening socket
	fill        []net.Conn // blackhole: connections that fill the accept queue
	mu          sync.Mutex
	acc         []*accSock
}

type runner struct {
	sc      Scenario
	h       *hub
	tor     *vh.Torrent
	sess    *torrent.Session
	tr      *torrent.Torrent
	mu      sync.Mutex
	ins     map[int]*inSock
	outs    map[int]*outAddr
	seeders []*vh.Seeder
	conns   []net.Conn // every connection of the scripted side (closed at teardown)
	tokens  chan struct{}
	free    atomic.Bool
	quit    chan struct{}
	wg      sync.WaitGroup
	rng     *rand.Rand
	aborted bool
	ht, ct  time.Duration
}

func (r *runner) rainAddr() string {
	s := r.h.get()
	if s == nil {
		return "127.0.0.1:1"
	}
	return fmt.Sprintf("127.0.0.1:%d", s.S.Port)
}

func (r *runner) ownID() (id [20]byte) {
	if v, ok := r.h.ownID.Load().(string); ok {
		b, _ := hex.DecodeString(v)
		copy(id[:], b)
	}
	return
}

// scriptOf: what the remote side is able to do (ok = can finish a handshake with the right info-hash), id it sends.
func scriptOf(cls string, id int) (bool, int) {
	switch cls {
	case "good", "goodclose", "late", "seed", "liar":
		return true, id
	case "ownid":
		return true, 0
	}
	return false, -1
}

// readUntilClosed discards what rain sends; returns when the socket is closed by either side.
func readUntilClosed(c net.Conn) {
	buf := make([]byte, 4096)
	for {
		c.SetReadDeadline(time.Time{})
		if _, err := c.Read(buf); err != nil {
			return
		}
	}
}

func (r *runner) dialIn(st Step) *inSock {
	ok, sid := scriptOf(st.Cls, st.ID)
	T.Emit(vh.Ev{"ev": "script", "dir": "in", "ip": st.IP, "key": st.Key, "ok": ok, "id": sid, "cls": st.Cls, "pid": hx(pidOf(st.Cls, st.ID, r))})
	s := &inSock{key: st.Key, ip: st.IP, cls: st.Cls}
	r.mu.Lock()
	r.ins[st.Key] = s
	r.mu.Unlock()
	c, err := vh.DialFrom(ipStr(st.IP), r.rainAddr(), 2*time.Second)
	if err != nil {
		T.Emit(vh.Ev{"ev": "dialres", "key": st.Key, "ok": false, "err": errClass(err)})
		return s
	}
	s.c = c
	s.lport = c.LocalAddr().(*net.TCPAddr).Port
	s.open.Store(true)
	r.mu.Lock()
	r.conns = append(r.conns, c)
	r.mu.Unlock()
	T.Emit(vh.Ev{"ev": "conn", "dir": "in", "key": st.Key, "ip": st.IP, "lport": s.lport})
	r.wg.Add(1)
	go func() {
		defer r.wg.Done()
		hs := vh.Handshake{Reserved: vh.ReservedBits(true, true, false), InfoHash: r.tor.InfoHash, PeerID: pidOf(st.Cls, st.ID, r)}
		switch st.Cls {
		case "silent":
		case "half":
			c.Write(hs.Bytes()[:30])
		case "garbage":
			b := make([]byte, 68)
			rand.New(rand.NewSource(int64(st.Key)*77 + r.sc.Seed)).Read(b)
			b[0] = 0x42
			c.Write(b)
		case "wronghash":
			hs.InfoHash[3] ^= 0xff
			c.Write(hs.Bytes())
		default: // good, goodclose, ownid
			c.Write(hs.Bytes())
			c.SetReadDeadline(time.Now().Add(5 * time.Second))
			if rh, err := vh.ReadHandshake(c); err == nil {
				T.Emit(vh.Ev{"ev": "hsreply", "key": st.Key, "peerid": hex.EncodeToString(rh.PeerID[:]), "ihOK": rh.InfoHash == r.tor.InfoHash})
			}
			if st.Cls == "goodclose" {
				time.Sleep(time.Duration(50+st.Ms) * time.Millisecond)
				s.self.Store(true)
				s.open.Store(false)
				T.Emit(vh.Ev{"ev": "selfclose", "dir": "in", "key": st.Key})
				c.Close()
				return
			}
		}
		readUntilClosed(c)
		if !s.self.Load() {
			s.open.Store(false)
			T.Emit(vh.Ev{"ev": "closed", "dir": "in", "key": st.Key})
		}
	}()
	return s
}

func pidOf(cls string, id int, r *runner) [20]byte {
	if cls == "ownid" {
		return r.ownID()
	}
	return pid(id)
}

func errClass(err error) string {
	s := err.Error()
	switch {
	case strings.Contains(s, "refused"):
		return "refused"
	case strings.Contains(s, "timeout"):
		return "timeout"
	case strings.Contains(s, "reset"):
		return "reset"
	}
	return "other"
}

var btHeader = append([]byte{19}, "BitTorrent protocol"...)

func (r *runner) listen(st Step) {
	ok, sid := scriptOf(st.Cls, st.ID)
	a := &outAddr{key: st.Key, ip: st.IP, id: st.ID, cls: st.Cls, fd: -1}
	r.mu.Lock()
	r.outs[st.Key] = a
	r.mu.Unlock()
	defer func() {
		T.Emit(vh.Ev{"ev": "script", "dir": "out", "ip": st.IP, "key": st.Key, "ok": ok, "id": sid, "cls": st.Cls, "port": a.port,
			"pid": hx(pid(st.ID))})
	}()
	switch st.Cls {
	case "refuse": // a port nobody listens on
		l, err := net.Listen("tcp4", ipStr(st.IP)+":0")
		if err != nil {
			panic(err)
		}
		a.port = l.Addr().(*net.TCPAddr).Port
		l.Close()
		return
	case "blackhole": // a listener whose accept queue is full: SYNs are dropped, connect() hangs
		fd, err := syscall.Socket(syscall.AF_INET, syscall.SOCK_STREAM, 0)
		if err != nil {
			panic(err)
		}
		var ip4 [4]byte
		copy(ip4[:], net.ParseIP(ipStr(st.IP)).To4())
		if err := syscall.Bind(fd, &syscall.SockaddrInet4{Addr: ip4}); err != nil {
			panic(err)
		}
		if err := syscall.Listen(fd, 0); err != nil {
			panic(err)
		}
		sa, _ := syscall.Getsockname(fd)
		a.port = sa.(*syscall.SockaddrInet4).Port
		a.fd = fd
		for i := 0; i < 6; i++ {
			c, err := net.DialTimeout("tcp4", fmt.Sprintf("%s:%d", ipStr(st.IP), a.port), 150*time.Millisecond)
			if err != nil {
				break
			}
			a.fill = append(a.fill, c)
		}
		return
	}
	l, err := net.Listen("tcp4", ipStr(st.IP)+":0")
	if err != nil {
		panic(err)
	}
	a.l = l
	a.port = l.Addr().(*net.TCPAddr).Port
	r.wg.Add(1)
	go func() {
		defer r.wg.Done()
		for {
			c, err := l.Accept()
			if err != nil {
				return
			}
			a.mu.Lock()
			s := &accSock{k: len(a.acc) + 1, c: c}
			s.open.Store(true)
			a.acc = append(a.acc, s)
			a.mu.Unlock()
			r.mu.Lock()
			r.conns = append(r.conns, c)
			r.mu.Unlock()
			T.Emit(vh.Ev{"ev": "oacc", "key": a.key, "k": s.k})
			r.wg.Add(1)
			go r.serveOut(a, s)
		}
	}()
}

func (r *runner) serveOut(a *outAddr, s *accSock) {
	defer r.wg.Done()
	c := s.c
	selfClose := func(why string) {
		s.self.Store(true)
		s.open.Store(false)
		T.Emit(vh.Ev{"ev": "selfclose", "dir": "out", "key": a.key, "k": s.k, "why": why})
		c.Close()
	}
	closedByRain := func() {
		if !s.self.Load() {
			s.open.Store(false)
			T.Emit(vh.Ev{"ev": "closed", "dir": "out", "key": a.key, "k": s.k})
		}
	}
	switch a.cls {
	case "silent":
		readUntilClosed(c)
		closedByRain()
		return
	case "close":
		selfClose("class")
		return
	}
	head := make([]byte, 20)
	c.SetReadDeadline(time.Now().Add(10 * time.Second))
	if _, err := io.ReadFull(c, head); err != nil {
		closedByRain()
		return
	}
	if !bytes.Equal(head, btHeader) { // an MSE attempt: refuse it so that rain retries in plaintext
		selfClose("mse")
		return
	}
	rest := make([]byte, 48)
	if _, err := io.ReadFull(c, rest); err != nil {
		closedByRain()
		return
	}
	var rainID, ih [20]byte
	copy(ih[:], rest[8:28])
	copy(rainID[:], rest[28:48])
	T.Emit(vh.Ev{"ev": "hsseen", "key": a.key, "k": s.k, "peerid": hex.EncodeToString(rainID[:]), "ihOK": ih == r.tor.InfoHash})
	reply := vh.Handshake{Reserved: vh.ReservedBits(true, true, false), InfoHash: ih, PeerID: pid(a.id)}
	switch a.cls {
	case "late": // answers after the client's handshake time limit (closure is watched meanwhile)
		go func() {
			time.Sleep(r.ht + 900*time.Millisecond)
			c.SetWriteDeadline(time.Now().Add(time.Second))
			c.Write(reply.Bytes())
		}()
		readUntilClosed(c)
		closedByRain()
		return
	case "wronghash":
		reply.InfoHash[5] ^= 0xff
	case "ownid":
		reply.PeerID = rainID
	case "half":
		c.Write(reply.Bytes()[:40])
		readUntilClosed(c)
		closedByRain()
		return
	}
	c.SetWriteDeadline(time.Now().Add(5 * time.Second))
	c.Write(reply.Bytes())
	readUntilClosed(c)
	closedByRain()
}

// seeder: an honest (or lying) uploader connected to rain; it occupies an incoming slot like any good peer.
func (r *runner) seeder(st Step, liar bool) {
	name := fmt.Sprintf("x03-id%d", st.ID)
	cls := "seed"
	if liar {
		cls = "liar"
	}
	T.Emit(vh.Ev{"ev": "script", "dir": "in", "ip": st.IP, "key": st.Key, "ok": true, "id": st.ID, "cls": cls, "pid": hx(vh.PeerID(name))})
	pol := &vh.SeederPolicy{Gate: r.tokens}
	if liar {
		pol.Gate = nil
		pol.Reply = func(s *vh.Seeder, req vh.Msg) ([]vh.Msg, bool) {
			m := s.HonestPiece(req)
			m.Data[0] ^= 0x5a
			return []vh.Msg{m}, true
		}
	}
	s := &inSock{key: st.Key, ip: st.IP, cls: cls}
	r.mu.Lock()
	r.ins[st.Key] = s
	r.mu.Unlock()
	sd, err := vh.ConnectSeeder(T, name, ipStr(st.IP), r.rainAddr(), r.tor, pol)
	if err != nil {
		T.Emit(vh.Ev{"ev": "dialres", "key": st.Key, "ok": false, "err": errClass(err)})
		return
	}
	sd.Conn.Quiet = true
	s.c = sd.Conn.C
	s.lport = sd.Conn.C.LocalAddr().(*net.TCPAddr).Port
	s.open.Store(true)
	T.Emit(vh.Ev{"ev": "conn", "dir": "in", "key": st.Key, "ip": st.IP, "lport": s.lport})
	r.mu.Lock()
	r.seeders = append(r.seeders, sd)
	r.mu.Unlock()
	r.wg.Add(1)
	go func() {
		defer r.wg.Done()
		<-sd.Done()
		if !s.self.Load() {
			s.open.Store(false)
			T.Emit(vh.Ev{"ev": "closed", "dir": "in", "key": st.Key})
		}
	}()
}

func (r *runner) tokenLoop() {
	defer r.wg.Done()
	for {
		select {
		case <-r.quit:
			return
		default:
		}
		if r.free.Load() {
			select {
			case r.tokens <- struct{}{}:
			case <-time.After(10 * time.Millisecond):
			}
		} else {
			time.Sleep(5 * time.Millisecond)
		}
	}
}

// ------------------------------------------------------------------------------------------ steps

func (r *runner) call(op string, f func() error) bool {
	T.Emit(vh.Ev{"ev": "cmd", "op": op, "phase": "call"})
	done := make(chan error, 1)
	go func() { done <- f() }()
	select {
	case err := <-done:
		e := vh.Ev{"ev": "cmd", "op": op, "phase": "ret"}
		if err != nil {
			e["err"] = err.Error()
		}
		T.Emit(e)
		return true
	case <-time.After(8 * time.Second):
		T.Emit(vh.Ev{"ev": "proc", "what": "hang", "site": "api:" + op})
		r.aborted = true
		return false
	}
}

func running(s *snap) bool { return s.S.Status != "Stopped" && s.S.Status != "Stopping" }

// loopIdle makes one round trip through the torrent loop (Stats is answered by the loop between two events):
// when it returns the loop is not inside a handler, and everything earlier handlers did has been recorded.
func (r *runner) loopIdle(timeout time.Duration) bool {
	done := make(chan struct{})
	go func() { r.tr.Stats(); close(done) }()
	select {
	case <-done:
		return true
	case <-time.After(timeout):
		return false
	}
}

// check: at quiescence report the sockets the scripted side still sees open. Quiescence = the connection state
// did not change during the grace period AND the loop is between two events at its end (a handler that blocks,
// e.g. stop() waiting for a handshaker, would otherwise be judged half-way). nchg ties the report to the
// snapshot it was taken under (the projection drops a report whose snapshot is not the latest one).
func (r *runner) check(grace time.Duration) {
	for try := 0; try < 8; try++ {
		n1 := r.h.nchg.Load()
		time.Sleep(grace)
		if !r.loopIdle(3*time.Second) || r.h.nchg.Load() != n1 {
			continue
		}
		openIn := [][2]int{}
		openOut := [][3]int{}
		r.mu.Lock()
		for _, s := range r.ins {
			if s.open.Load() {
				openIn = append(openIn, [2]int{s.ip, s.key})
			}
		}
		for _, a := range r.outs {
			n := 0
			a.mu.Lock()
			for _, s := range a.acc {
				if s.open.Load() {
					n++
				}
			}
			a.mu.Unlock()
			if n > 0 {
				openOut = append(openOut, [3]int{a.ip, a.key, n})
			}
		}
		r.mu.Unlock()
		sort.Slice(openIn, func(i, j int) bool { return openIn[i][1] < openIn[j][1] })
		sort.Slice(openOut, func(i, j int) bool { return openOut[i][1] < openOut[j][1] })
		if r.h.nchg.Load() == n1 {
			T.Emit(vh.Ev{"ev": "check", "openIn": openIn, "openOut": openOut, "nchg": n1})
			return
		}
	}
	T.Emit(vh.Ev{"ev": "checkskip"})
}

func contains(l []string, x string) bool {
	for _, y := range l {
		if y == x {
			return true
		}
	}
	return false
}

func (r *runner) step(st Step) {
	switch st.Do {
	case "start":
		r.call("start", r.tr.Start)
		if !st.NoWait {
			r.h.wait(4*time.Second, func(s *snap) bool { return s.S.Acceptor })
		}
	case "stop":
		t0 := time.Now()
		r.call("stop", r.tr.Stop)
		if st.Expect { // the stop takes effect promptly, whatever the remote sides are doing
			ok := r.h.wait(8*time.Second, func(s *snap) bool { return !running(s) })
			dt := time.Since(t0)
			T.Emit(vh.Ev{"ev": "expect", "what": "stop.prompt", "ok": ok && dt < 1500*time.Millisecond, "key": 0, "ms": dt.Milliseconds()})
		}
		if !st.NoWait {
			r.h.wait(4*time.Second, func(s *snap) bool { return s.S.Status == "Stopped" })
		}
	case "sleep":
		time.Sleep(time.Duration(st.Ms) * time.Millisecond)
	case "in":
		exp := false
		if st.Expect && st.Cls == "good" {
			if s := r.h.get(); s != nil {
				exp = s.S.Acceptor && len(s.X.InHS)+s.X.NIn < r.sc.MaxAccept && !contains(s.S.ConnectedIPs, ipStr(st.IP)) &&
					!contains(s.S.Banned, ipStr(st.IP)) && !contains(s.X.PeerIDs, hx(pid(st.ID)))
			}
		}
		s := r.dialIn(st)
		if exp {
			addr := fmt.Sprintf("%s:%d", ipStr(st.IP), s.lport)
			ok := s.c != nil && r.h.wait(3*time.Second, func(sn *snap) bool {
				for _, p := range sn.X.Peers {
					if p.Addr == addr {
						return true
					}
				}
				return false
			})
			T.Emit(vh.Ev{"ev": "expect", "what": "admit.in", "ok": ok, "key": st.Key})
		} else if !st.NoWait {
			time.Sleep(time.Duration(15+st.Ms) * time.Millisecond)
		}
	case "flood":
		var wg sync.WaitGroup
		for i := 0; i < st.N; i++ {
			wg.Add(1)
			go func(i int) {
				defer wg.Done()
				r.dialIn(Step{Key: st.Key + i, IP: st.IP + i, Cls: st.Cls, ID: st.ID + i})
			}(i)
		}
		wg.Wait()
		time.Sleep(time.Duration(30+st.Ms) * time.Millisecond)
	case "listen":
		r.listen(st)
	case "addpeer":
		var exp *outAddr
		for _, k := range st.Keys {
			a := r.outs[k]
			if a == nil {
				continue
			}
			if st.Expect && a.cls == "good" && len(st.Keys) == 1 {
				if s := r.h.get(); s != nil && running(s) && !s.S.Completed && len(s.X.OutHS)+s.X.NOut < r.sc.MaxDial &&
					!contains(s.S.ConnectedIPs, ipStr(a.ip)) && !contains(s.S.Banned, ipStr(a.ip)) && len(s.X.Queue) == 0 &&
					!contains(s.X.PeerIDs, hx(pid(a.id))) {
					exp = a
				}
			}
			T.Emit(vh.Ev{"ev": "addpeer", "addrs": [][2]int{{a.ip, a.key}}})
			addr := fmt.Sprintf("%s:%d", ipStr(a.ip), a.port)
			r.call("addpeer", func() error { return r.tr.AddPeer(addr) })
		}
		if exp != nil {
			addr := fmt.Sprintf("%s:%d", ipStr(exp.ip), exp.port)
			ok := r.h.wait(2*r.ct+2*r.ht+2*time.Second, func(sn *snap) bool {
				for _, p := range sn.X.Peers {
					if p.Addr == addr {
						return true
					}
				}
				return false
			})
			T.Emit(vh.Ev{"ev": "expect", "what": "admit.out", "ok": ok, "key": exp.key})
		} else if !st.NoWait {
			time.Sleep(time.Duration(15+st.Ms) * time.Millisecond)
		}
	case "closesock":
		r.mu.Lock()
		s := r.ins[st.Key]
		r.mu.Unlock()
		if s != nil && s.c != nil && s.open.Load() {
			s.self.Store(true)
			s.open.Store(false)
			T.Emit(vh.Ev{"ev": "selfclose", "dir": "in", "key": st.Key})
			s.c.Close()
		}
		time.Sleep(20 * time.Millisecond)
	case "closeout":
		r.mu.Lock()
		a := r.outs[st.Key]
		r.mu.Unlock()
		if a != nil {
			a.mu.Lock()
			for _, s := range a.acc {
				if s.open.Load() {
					s.self.Store(true)
					s.open.Store(false)
					T.Emit(vh.Ev{"ev": "selfclose", "dir": "out", "key": a.key, "k": s.k, "why": "step"})
					s.c.Close()
				}
			}
			a.mu.Unlock()
		}
		time.Sleep(20 * time.Millisecond)
	case "closepeers": // the scripted side closes n of its established connections (incoming ones first)
		sn := r.h.get()
		n := st.N
		if sn != nil {
			for _, p := range sn.X.Peers {
				if n == 0 {
					break
				}
				_, ps, _ := net.SplitHostPort(p.Addr)
				r.mu.Lock()
				if p.Incoming {
					for _, s := range r.ins {
						if fmt.Sprint(s.lport) == ps && s.open.Load() && s.cls != "seed" {
							s.self.Store(true)
							s.open.Store(false)
							T.Emit(vh.Ev{"ev": "selfclose", "dir": "in", "key": s.key})
							s.c.Close()
							n--
						}
					}
				} else {
					for _, a := range r.outs {
						if fmt.Sprint(a.port) == ps {
							a.mu.Lock()
							for _, s := range a.acc {
								if s.open.Load() {
									s.self.Store(true)
									s.open.Store(false)
									T.Emit(vh.Ev{"ev": "selfclose", "dir": "out", "key": a.key, "k": s.k, "why": "step"})
									s.c.Close()
								}
							}
							a.mu.Unlock()
							n--
						}
					}
				}
				r.mu.Unlock()
			}
		}
		time.Sleep(30 * time.Millisecond)
	case "seed":
		r.seeder(st, false)
		time.Sleep(20 * time.Millisecond)
	case "liar":
		r.seeder(st, true)
		// the liar serves corrupt data at once: wait for the ban
		r.h.wait(4*time.Second, func(s *snap) bool { return contains(s.S.Banned, ipStr(st.IP)) })
	case "complete":
		r.free.Store(true)
		r.h.wait(6*time.Second, func(s *snap) bool { return s.S.Completed })
	case "check":
		r.check(250 * time.Millisecond)
	case "settle":
		// every handshaker must be gone after its time limit; wait for that (bounded), then check
		lim := 2*r.ct + 2*r.ht + 1500*time.Millisecond
		r.h.wait(lim, func(s *snap) bool { return len(s.X.InHS) == 0 && len(s.X.OutHS) == 0 })
		r.tr.Stats() // a fresh loop event: a handshaker that outlived its limit is seen by the judge
		r.check(300 * time.Millisecond)
	}
}

func run(sc Scenario, dir string, h *hub) {
	r := &runner{sc: sc, h: h, ins: map[int]*inSock{}, outs: map[int]*outAddr{}, tokens: make(chan struct{}), quit: make(chan struct{}),
		rng: rand.New(rand.NewSource(sc.Seed))}
	T.Trace = sc.ID
	r.ct, r.ht = time.Duration(sc.CtMs)*time.Millisecond, time.Duration(sc.HtMs)*time.Millisecond
	r.tor = vh.Build(vh.Layout{Name: fmt.Sprintf("x03-%d", sc.ID), Files: []vh.FileSpec{{Length: 2 * 16384}}, PieceLen: 16384}, sc.Seed, nil, nil)
	cfg, err := vh.BaseConfig(dir, 6)
	if err != nil {
		panic(err)
	}
	os.Remove(cfg.Database)
	prov := vh.NewMemProvider(T)
	prov.Truth[""] = r.tor
	prov.Quiet = true
	cfg.CustomStorage = prov
	cfg.MaxPeerAccept = sc.MaxAccept
	cfg.MaxPeerDial = sc.MaxDial
	cfg.PeerConnectTimeout = r.ct
	cfg.PeerHandshakeTimeout = r.ht
	cfg.DisableOutgoingEncryption = sc.NoEnc
	outLimit := sc.CtMs + sc.HtMs
	if !sc.NoEnc {
		outLimit = 2*sc.CtMs + 2*sc.HtMs
	}
	T.Emit(vh.Ev{"ev": "init", "maxAccept": sc.MaxAccept, "maxDial": sc.MaxDial, "blocked": []int{}, "inLimit": sc.HtMs, "outLimit": outLimit,
		"slack": 1500, "noEnc": sc.NoEnc})
	sess, err := torrent.NewSession(cfg)
	if err != nil {
		panic(err)
	}
	r.sess = sess
	tr, err := sess.AddTorrent(bytes.NewReader(r.tor.Bytes), &torrent.AddTorrentOptions{Stopped: true})
	if err != nil {
		panic(err)
	}
	r.tr = tr
	h.attach(tr)
	tr.Stats() // first snapshot
	r.wg.Add(1)
	go r.tokenLoop()
	for _, st := range sc.Steps {
		if r.aborted {
			break
		}
		r.step(st)
	}
	// teardown: close the scripted sides, then the session
	close(r.quit)
	h.detach()
	done := make(chan struct{})
	go func() { sess.Close(); close(done) }()
	select {
	case <-done:
	case <-time.After(10 * time.Second):
		T.Emit(vh.Ev{"ev": "proc", "what": "hang", "site": "session.Close"})
		T.Flush()
		os.Exit(3)
	}
	r.mu.Lock()
	for _, s := range r.ins {
		s.self.Store(true)
	}
	for _, a := range r.outs {
		if a.l != nil {
			a.l.Close()
		}
		if a.fd >= 0 {
			syscall.Close(a.fd)
		}
		for _, c := range a.fill {
			c.Close()
		}
		a.mu.Lock()
		for _, s := range a.acc {
			s.self.Store(true)
		}
		a.mu.Unlock()
	}
	for _, c := range r.conns {
		c.Close()
	}
	for _, sd := range r.seeders {
		sd.Close()
	}
	r.mu.Unlock()
	wd := make(chan struct{})
	go func() { r.wg.Wait(); close(wd) }()
	select {
	case <-wd:
	case <-time.After(10 * time.Second):
		panic("x03 driver: scripted sides do not end")
	}
	T.Emit(vh.Ev{"ev": "end"})
}

func main() {
	if len(os.Args) < 2 || os.Args[1] != "run" {
		fmt.Fprintln(os.Stderr, "usage: x03 run -scenarios f -out f")
		os.Exit(2)
	}
	fs := flag.NewFlagSet("run", flag.ExitOnError)
	sf := fs.String("scenarios", "", "")
	out := fs.String("out", "trace.ndjson", "")
	fs.Parse(os.Args[2:])
	torrent.DisableLogging()
	// A socket that the code forgets without closing it is closed by the finalizer of its file descriptor whenever
	// the garbage collector happens to run. "Closed by the code" is the obligation: the collector runs only
	// between scenarios.
	debug.SetGCPercent(-1)
	var err error
	T, err = vh.NewTracer(*out)
	if err != nil {
		panic(err)
	}
	T.AutoFlush = true
	h := newHub()
	dir, _ := os.MkdirTemp(".", "x03")
	defer os.RemoveAll(dir)
	f, err := os.Open(*sf)
	if err != nil {
		panic(err)
	}
	sc := bufio.NewScanner(f)
	sc.Buffer(make([]byte, 1<<20), 1<<24)
	for sc.Scan() {
		var s Scenario
		if json.Unmarshal(sc.Bytes(), &s) != nil {
			continue
		}
		fmt.Printf("BEGIN %d\n", s.ID)
		T.Flush()
		run(s, dir, h)
		T.Flush()
		fmt.Printf("END %d\n", s.ID)
		runtime.GC()
	}
	T.Close()
}
