#!/bin/sh
# Offline setup: check the tools and warm the Go build cache for the harness packages.
set -e
cd "$(dirname "$0")"
export GOFLAGS=-mod=mod GOPROXY=off GOSUMDB=off GOTOOLCHAIN=local
command -v go1.26 >/dev/null
command -v tlc >/dev/null
python3 lib/warm.py || true
echo setup ok
