SPECIFICATION Spec
CONSTANTS
  NP = 2
  NB = 2
  PAD <- Pad01
  NSRC = 1
  WS = TRUE
  FIX <- None
  MUT = "none"
  IGNORE <- Only_f_sess
  RXMAX = 6
  NJUNK = 1
  NWRITE = 1
  NFAIL = 1
  NCRASH = 1
  NCLOSE = 1
  NSTOP = 0
  NUP = 0
  NINV = 1
  NLATE = 1
  TMAX = 0
  PERIOD = 2
  LATE = 0
  SEEDTOL = 0
INVARIANT Inv
VIEW View
CHECK_DEADLOCK FALSE
