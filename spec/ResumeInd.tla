----------------------------- MODULE ResumeInd -----------------------------
(***************************************************************************)
(* Inductive invariant for the ordering rule of Resume.tla (property C05), *)
(* checked with Apalache (optional, never gating):                         *)
(*   apalache-mc check --init=Init    --inv=IndInv --length=0 ResumeInd.tla *)
(*   apalache-mc check --init=IndInit --inv=IndInv --length=1 ResumeInd.tla *)
(* Same actions as Resume.tla for cfg.design = "safe", cfg.sync = TRUE and *)
(* the geometry of MC_Resume.cfg (3 pieces, 2 files, piece 1 spans both);  *)
(* typed and self-contained because Apalache needs type annotations.       *)
(* IndInv implies the obligations C05.db (DbSound) and C05.ahead           *)
(* (TrustSound) - they are two of its conjuncts.                           *)
(***************************************************************************)
EXTENDS Integers, FiniteSets

NP == 3
NF == 2
Piece == 0 .. (NP - 1)
File  == 0 .. (NF - 1)

\* @type: Int => Set(Int);
FO(p) == IF p = 0 THEN {0} ELSE IF p = 1 THEN {0, 1} ELSE {1}

VARIABLES
    \* @type: Int -> Str;
    disk,
    \* @type: Int -> Bool;
    exist,
    \* @type: Str;
    phase,
    \* @type: Int;
    aidx,
    \* @type: Bool;
    almiss,
    \* @type: Bool;
    alexist,
    \* @type: Int -> Str;
    wr,
    \* @type: Bool;
    memKnown,
    \* @type: Set(Int);
    memBit,
    \* @type: Bool;
    dbKnown,
    \* @type: Set(Int);
    dbBit,
    \* @type: Bool;
    txnActive,
    \* @type: Set(Int);
    txnBits

Good(p) == disk[p] = "good"
Claimable(p) == Good(p) \/ \E f \in FO(p) : ~exist[f]

Init ==
    /\ disk = [p \in Piece |-> "nil"] /\ exist = [f \in File |-> FALSE] /\ phase = "down" /\ aidx = 0
    /\ almiss = FALSE /\ alexist = FALSE /\ wr = [p \in Piece |-> "idle"] /\ memKnown = FALSE /\ memBit = {}
    /\ dbKnown = FALSE /\ dbBit = {} /\ txnActive = FALSE /\ txnBits = {}

Restart ==
    /\ phase = "down"
    /\ phase' = "alloc" /\ aidx' = 0 /\ almiss' = FALSE /\ alexist' = FALSE
    /\ memKnown' = dbKnown /\ memBit' = dbBit
    /\ UNCHANGED <<disk, exist, wr, dbKnown, dbBit, txnActive, txnBits>>

AllocInvalidate ==
    /\ phase = "alloc" /\ aidx < NF /\ ~exist[aidx] /\ (dbKnown \/ memKnown) /\ ~txnActive
    /\ memKnown' = FALSE /\ memBit' = {} /\ dbKnown' = FALSE /\ dbBit' = {}
    /\ UNCHANGED <<disk, exist, phase, aidx, almiss, alexist, wr, txnActive, txnBits>>

AllocOpen ==
    /\ phase = "alloc" /\ aidx < NF
    /\ exist[aidx] \/ ~(dbKnown \/ memKnown)
    /\ IF exist[aidx] THEN alexist' = TRUE /\ UNCHANGED <<almiss, exist>>
       ELSE almiss' = TRUE /\ exist' = [exist EXCEPT ![aidx] = TRUE] /\ UNCHANGED alexist
    /\ aidx' = aidx + 1
    /\ UNCHANGED <<disk, phase, wr, memKnown, memBit, dbKnown, dbBit, txnActive, txnBits>>

AllocDone ==
    /\ phase = "alloc" /\ aidx = NF
    /\ IF memKnown /\ ~almiss
       THEN phase' = "run" /\ UNCHANGED <<memKnown, memBit>>
       ELSE IF ~alexist
       THEN phase' = "run" /\ memKnown' = TRUE /\ memBit' = {}
       ELSE phase' = "verify" /\ UNCHANGED <<memKnown, memBit>>
    /\ UNCHANGED <<disk, exist, aidx, almiss, alexist, wr, dbKnown, dbBit, txnActive, txnBits>>

VerifyDone ==
    /\ phase = "verify"
    /\ phase' = "run" /\ memKnown' = TRUE /\ memBit' = {p \in Piece : Good(p)}
    /\ UNCHANGED <<disk, exist, aidx, almiss, alexist, wr, dbKnown, dbBit, txnActive, txnBits>>

WriteBegin(p) ==
    /\ phase = "run" /\ memKnown /\ p \notin memBit /\ wr[p] = "idle"
    /\ wr' = [wr EXCEPT ![p] = "writing"] /\ disk' = [disk EXCEPT ![p] = "partial"]
    /\ UNCHANGED <<exist, phase, aidx, almiss, alexist, memKnown, memBit, dbKnown, dbBit, txnActive, txnBits>>

WriteEnd(p) ==
    /\ wr[p] = "writing"
    /\ wr' = [wr EXCEPT ![p] = "written"] /\ disk' = [disk EXCEPT ![p] = "good"]
    /\ UNCHANGED <<exist, phase, aidx, almiss, alexist, memKnown, memBit, dbKnown, dbBit, txnActive, txnBits>>

\* a storage write of one of the piece's file sections fails (any section: the content stays partial), the write of
\* the piece ends with that error (Resume.tla, cfg.werr = "first") and the loop stops the torrent without marking the piece
WriteFail(p) ==
    /\ wr[p] = "writing"
    /\ wr' = [wr EXCEPT ![p] = "failed"]
    /\ UNCHANGED <<disk, exist, phase, aidx, almiss, alexist, memKnown, memBit, dbKnown, dbBit, txnActive, txnBits>>

FailHandled(p) ==
    /\ phase = "run" /\ wr[p] = "failed"
    /\ wr' = [wr EXCEPT ![p] = "idle"]
    /\ UNCHANGED <<disk, exist, phase, aidx, almiss, alexist, memKnown, memBit, dbKnown, dbBit, txnActive, txnBits>>

SetBit(p) ==
    /\ phase = "run" /\ wr[p] = "written"
    /\ wr' = [wr EXCEPT ![p] = "idle"] /\ memBit' = memBit \cup {p}
    /\ UNCHANGED <<disk, exist, phase, aidx, almiss, alexist, memKnown, dbKnown, dbBit, txnActive, txnBits>>

PersistBegin ==
    /\ phase # "down" /\ memKnown /\ ~txnActive
    /\ txnActive' = TRUE /\ txnBits' = memBit
    /\ UNCHANGED <<disk, exist, phase, aidx, almiss, alexist, wr, memKnown, memBit, dbKnown, dbBit>>

PersistCommit ==
    /\ txnActive
    /\ dbKnown' = TRUE /\ dbBit' = txnBits /\ txnActive' = FALSE /\ txnBits' = {}
    /\ UNCHANGED <<disk, exist, phase, aidx, almiss, alexist, wr, memKnown, memBit>>

Crash ==
    /\ phase # "down"
    /\ phase' = "down" /\ memKnown' = FALSE /\ memBit' = {} /\ aidx' = 0 /\ almiss' = FALSE /\ alexist' = FALSE
    /\ wr' = [p \in Piece |-> "idle"] /\ txnActive' = FALSE /\ txnBits' = {}
    /\ \/ UNCHANGED <<dbKnown, dbBit>>
       \/ txnActive /\ dbKnown' = TRUE /\ dbBit' = txnBits
    /\ UNCHANGED <<disk, exist>>

DeleteFiles(F) ==
    /\ phase = "down" /\ F # {} /\ \A f \in F : exist[f]
    /\ exist' = [f \in File |-> exist[f] /\ f \notin F]
    /\ disk' = [p \in Piece |-> IF FO(p) \cap F = {} THEN disk[p]
                                ELSE IF disk[p] = "nil" \/ \A f \in FO(p) : (f \in F \/ ~exist[f]) THEN "nil" ELSE "partial"]
    /\ UNCHANGED <<phase, aidx, almiss, alexist, wr, memKnown, memBit, dbKnown, dbBit, txnActive, txnBits>>

Next ==
    \/ Restart \/ AllocInvalidate \/ AllocOpen \/ AllocDone \/ VerifyDone
    \/ \E p \in Piece : WriteBegin(p) \/ WriteEnd(p) \/ WriteFail(p) \/ FailHandled(p) \/ SetBit(p)
    \/ PersistBegin \/ PersistCommit \/ Crash
    \/ \E F \in SUBSET File : DeleteFiles(F)

\* --- the invariant ---------------------------------------------------------------
TypeOK ==
    /\ disk \in [Piece -> {"nil", "partial", "good"}] /\ exist \in [File -> BOOLEAN]
    /\ phase \in {"down", "alloc", "verify", "run"} /\ aidx \in 0 .. NF
    /\ almiss \in BOOLEAN /\ alexist \in BOOLEAN /\ wr \in [Piece -> {"idle", "writing", "written", "failed"}]
    /\ memKnown \in BOOLEAN /\ memBit \in SUBSET Piece /\ dbKnown \in BOOLEAN /\ dbBit \in SUBSET Piece
    /\ txnActive \in BOOLEAN /\ txnBits \in SUBSET Piece

\* @obligation C05.db
DbSound == dbKnown => \A p \in dbBit : Claimable(p)
\* @obligation C05.ahead
TrustSound == (phase = "run" /\ memKnown) => \A p \in memBit : Good(p)

IndInv ==
    /\ TypeOK /\ DbSound /\ TrustSound
    \* a pending transaction is as sound as the database, and only a process that knows its bitfield writes
    /\ txnActive => (memKnown /\ \A p \in txnBits : Claimable(p))
    /\ ~txnActive => txnBits = {}
    \* nothing is known, open or being written while the process is down
    /\ phase = "down" => (~memKnown /\ memBit = {} /\ ~txnActive /\ aidx = 0 /\ ~almiss /\ ~alexist)
    /\ ~memKnown => memBit = {}
    /\ ~dbKnown => dbBit = {}
    \* a running process without bitfield has no stored bitfield either (it was loaded, or dropped together)
    /\ (phase # "down" /\ ~memKnown) => ~dbKnown
    \* what is stored or about to be stored is part of what the process believes
    /\ memKnown => ((dbKnown => dbBit \subseteq memBit) /\ (txnActive => txnBits \subseteq memBit))
    \* allocation: the loaded claims are sound or detectably void; opened files exist; a file is only created
    \* after the bitfield was dropped
    /\ (phase = "alloc" /\ memKnown) => \A p \in memBit : Claimable(p)
    /\ phase = "alloc" => ((\A f \in File : f < aidx => exist[f]) /\ (almiss => ~memKnown) /\ (aidx = 0 => (~almiss /\ ~alexist))
                           /\ (alexist => \E f \in File : f < aidx /\ exist[f]))
    /\ phase \in {"verify", "run"} => \A f \in File : exist[f]
    /\ phase = "verify" => ~memKnown
    \* piece writers exist only while running; a piece being written is not claimed by anybody
    /\ \A p \in Piece : wr[p] # "idle" => (phase = "run" /\ memKnown /\ p \notin memBit)
    /\ \A p \in Piece : wr[p] = "written" => Good(p)

IndInit == IndInv
=============================================================================
