SPECIFICATION HdrSpec
CONSTANTS
  N = 4
  NPE = 2
  K = 3
  ASIS = FALSE
  ALPHA = "full"
  MAXLEN = 10
CHECK_DEADLOCK FALSE
