SPECIFICATION Spec
CONSTANTS
  MaxLen = 5
  Mod = 16
  IMax = 3
  MaxDepth = 2
  RULE = "checked"
INVARIANT Inv
PROPERTY Progress
CHECK_DEADLOCK FALSE
