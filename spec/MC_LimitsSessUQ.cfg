SPECIFICATION Spec
CONSTANTS
  CAP = 2
  N = 7
  STRICT = TRUE
INVARIANT QueueBound
INVARIANT FloodBound
INVARIANT Answered
CHECK_DEADLOCK FALSE
