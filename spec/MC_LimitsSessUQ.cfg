SPECIFICATION Spec
CONSTANTS
  CAP = 2
  N = 6
  STRICT = TRUE
  CANCELREJ = FALSE
  FAST = TRUE
INVARIANT QueueBound
INVARIANT FloodBound
INVARIANT Answered
CHECK_DEADLOCK FALSE
