\* expected-fail variant: AddTracker reads the tracker list in one transaction and writes it in another (cfg.split);
\* TLC must find the lost update (two calls read the same list while a third party holds the writer lock)
SPECIFICATION MCSpec
CONSTANTS
  IDS = {"a"}
  RANGE = {1, 2}
  K = 3
  ATOMIC = TRUE
  FULL = TRUE
  SPARSE = FALSE
  STORAGE = FALSE
  HOLD <- On
  NARROW <- On
  SPLIT <- On
INVARIANT NoLostTracker
CHECK_DEADLOCK FALSE
