----------------------------- MODULE LimitsSessPL -----------------------------
(* Design model of the request pipeline towards one peer (internal/piecedownloader + torrent_messagehandler):     *)
(* RequestBlocks(limit) after unchoke / a received block / a new piece; choke drops pending requests unless the   *)
(* peer speaks the fast extension (then they stay until rejected).                                                *)
EXTENDS LimitsSess
CONSTANTS NB, REQQ, DEFOUT, MAXOUT, FAST, STRICT     \* STRICT = FALSE: mutation >= -> > in RequestBlocks
VARIABLES pending, remaining, done, choked
vars == <<pending, remaining, done, choked>>
L == PipelineLimit(REQQ, DEFOUT, MAXOUT)
Blocks == 1 .. NB
Init == pending = {} /\ remaining = Blocks /\ done = {} /\ choked = TRUE
\* RequestBlocks: as many remaining blocks as fit under the limit
Fill(p, r) ==
    LET room == IF STRICT THEN L - Cardinality(p) ELSE L + 1 - Cardinality(p)
        k == IF room < 0 THEN 0 ELSE Min2(room, Cardinality(r))
    IN {S \in SUBSET r : Cardinality(S) = k}
Unchoke == /\ choked /\ choked' = FALSE
           /\ \E S \in Fill(pending, remaining) : pending' = pending \cup S /\ remaining' = remaining \ S
           /\ UNCHANGED done
Choke == /\ ~choked /\ choked' = TRUE
         /\ IF FAST THEN UNCHANGED <<pending, remaining>> ELSE pending' = {} /\ remaining' = remaining \cup pending
         /\ UNCHANGED done
Block(b) == /\ b \in pending /\ done' = done \cup {b}
            /\ LET p1 == pending \ {b} IN
               IF choked THEN pending' = p1 /\ UNCHANGED remaining
               ELSE \E S \in Fill(p1, remaining) : pending' = p1 \cup S /\ remaining' = remaining \ S
            /\ UNCHANGED choked
Reject(b) == /\ FAST /\ b \in pending /\ pending' = pending \ {b} /\ remaining' = remaining \cup {b}
             /\ UNCHANGED <<done, choked>>
Next == Unchoke \/ Choke \/ \E b \in Blocks : Block(b) \/ Reject(b)
Spec == Init /\ [][Next]_vars
PipelineBound == Cardinality(pending) <= L             \* @obligation C17.pipeline
Partition == pending \cap remaining = {} /\ pending \cap done = {}
=============================================================================
