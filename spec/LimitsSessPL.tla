----------------------------- MODULE LimitsSessPL -----------------------------
(* Design model of the request pipeline towards one peer (internal/piecedownloader + torrent_messagehandler):     *)
(* RequestBlocks(limit) after unchoke / a received block; choke drops pending requests unless the peer speaks the *)
(* fast extension (then they stay until the peer rejects them).                                                   *)
(*                                                                                                                 *)
(* The obligation is stated ON THE WIRE: `wire[b]` = request messages for block b that the peer has received and  *)
(* neither served nor rejected (a BAG: rain's `pending` is a set and cannot see a block that is requested twice). *)
(* `remaining` is a sequence, as in the code (a block may be queued twice).                                       *)
(*   STRICT  = FALSE : mutation  >= -> >  in RequestBlocks                                                        *)
(*   REQUEUE = TRUE  : mutation "a choke of a fast-extension peer also puts the pending blocks back": the peer     *)
(*                     rejects them as well, so each is queued twice                                              *)
(*   HOSTILE = TRUE  : the peer may send (at most two) reject messages for requests that are NOT open             *)
(*   GUARD   = TRUE  : Rejected ignores a reject for a block that is not pending (repair of the HOSTILE case);     *)
(*                     FALSE = the code as it is                                                                  *)
EXTENDS LimitsSess
CONSTANTS NB, REQQ, DEFOUT, MAXOUT, FAST, STRICT, REQUEUE, HOSTILE, GUARD
VARIABLES pending, remaining, done, choked, wire, hr
vars == <<pending, remaining, done, choked, wire, hr>>
L == PipelineLimit(REQQ, DEFOUT, MAXOUT)
Q == IF STRICT THEN L ELSE L + 1
Blocks == 1 .. NB
Zero == [b \in Blocks |-> 0]
Total(w) == LET S[i \in 0 .. NB] == IF i = 0 THEN 0 ELSE S[i - 1] + w[i] IN S[NB]
\* all orders in which a set can be walked (Go map iteration / the peer's choice)
Orders(S) == {o \in [1 .. Cardinality(S) -> S] : \A i, j \in 1 .. Cardinality(S) : i # j => o[i] # o[j]}

Init == pending = {} /\ remaining = [i \in 1 .. NB |-> i] /\ done = {} /\ choked = TRUE /\ wire = Zero /\ hr = 0

\* RequestBlocks(queueLength): walk `remaining` while fewer than queueLength blocks are pending; a block that is stored
\* already is put into `pending` WITHOUT a request message (the code as it is)
RECURSIVE RB(_, _, _, _)
RB(p, r, w, d) ==
    IF r = <<>> \/ Cardinality(p) >= Q THEN <<p, r, w>>
    ELSE LET b == Head(r) IN RB(p \cup {b}, Tail(r), IF b \in d THEN w ELSE [w EXCEPT ![b] = @ + 1], d)

Unchoke == /\ choked /\ choked' = FALSE
           /\ LET x == RB(pending, remaining, wire, done) IN pending' = x[1] /\ remaining' = x[2] /\ wire' = x[3]
           /\ UNCHANGED <<done, hr>>
Choke == /\ ~choked /\ choked' = TRUE
         /\ IF ~FAST THEN \E o \in Orders(pending) : remaining' = remaining \o o /\ pending' = {} /\ wire' = Zero   \* the peer drops its queue
            ELSE IF REQUEUE THEN \E o \in Orders(pending) : remaining' = remaining \o o /\ pending' = {} /\ UNCHANGED wire
            ELSE UNCHANGED <<pending, remaining, wire>>
         /\ UNCHANGED <<done, hr>>
\* the peer serves an open request
Block(b) == /\ wire[b] > 0
            /\ LET w1 == [wire EXCEPT ![b] = @ - 1] IN
               IF b \in done THEN wire' = w1 /\ UNCHANGED <<pending, remaining, done>>          \* duplicate block: dropped
               ELSE /\ done' = done \cup {b}
                    /\ IF choked THEN pending' = pending \ {b} /\ wire' = w1 /\ UNCHANGED remaining
                       ELSE LET x == RB(pending \ {b}, remaining, w1, done \cup {b})
                            IN pending' = x[1] /\ remaining' = x[2] /\ wire' = x[3]
            /\ UNCHANGED <<choked, hr>>
\* the peer rejects an open request (or, HOSTILE, one that is not open)
Reject(b) == /\ FAST
             /\ \/ wire[b] > 0 /\ wire' = [wire EXCEPT ![b] = @ - 1] /\ UNCHANGED hr
                \/ HOSTILE /\ wire[b] = 0 /\ hr < 2 /\ hr' = hr + 1 /\ UNCHANGED wire
             /\ IF GUARD /\ b \notin pending THEN UNCHANGED <<pending, remaining>>
                ELSE pending' = pending \ {b} /\ remaining' = Append(remaining, b)
             /\ UNCHANGED <<done, choked>>
Next == Unchoke \/ Choke \/ \E b \in Blocks : Block(b) \/ Reject(b)
Spec == Init /\ [][Next]_vars
Small == Len(remaining) <= 2 * NB + 2
PipelineBound == Cardinality(pending) <= L
WireBound == Total(wire) <= L                          \* @obligation C17.pipeline
\* honest peer, code as it is: no block is open twice
NoDoubleOpen == \A b \in Blocks : wire[b] <= 1
=============================================================================
