----------------------------- MODULE LimitsSessUQ -----------------------------
(* Design model of the upload queue of one peer (internal/peerconn/peerwriter: Run loop + messageWriter).        *)
(*   q     piece messages waiting in writeQueue (= currentQueuedRequests)                                         *)
(*   hand  the writer goroutine holds a message it took from writeC (waiting for the bucket / the socket)         *)
(* A flood of requests arrives (Req); TLC checks q <= cap always and the bound the trace spec uses:               *)
(* accepted <= cap + 1 + written, where written = pieces that left the writer while the flood was processed.      *)
EXTENDS LimitsSess
CONSTANTS CAP, N, STRICT      \* STRICT = FALSE models the mutation  >=  ->  >  in queueMessage
VARIABLES q, hand, sent, acc, rej, written
vars == <<q, hand, sent, acc, rej, written>>

Init == q = 0 /\ hand = 0 /\ sent = 0 /\ acc = 0 /\ rej = 0 /\ written = 0
Full == IF STRICT THEN q >= CAP ELSE q > CAP
Req == /\ sent < N /\ sent' = sent + 1
       /\ IF Full THEN rej' = rej + 1 /\ UNCHANGED <<q, acc>> ELSE q' = q + 1 /\ acc' = acc + 1 /\ UNCHANGED rej
       /\ UNCHANGED <<hand, written>>
Take == q > 0 /\ hand = 0 /\ q' = q - 1 /\ hand' = 1 /\ UNCHANGED <<sent, acc, rej, written>>
Write == hand = 1 /\ hand' = 0 /\ written' = written + 1 /\ UNCHANGED <<q, sent, acc, rej>>
Next == Req \/ Take \/ Write
Spec == Init /\ [][Next]_vars

QueueBound == q <= CAP                                   \* @obligation C17.uploadq
FloodBound == acc <= UploadQBound(CAP, written)          \* what the scripted leecher can check
Answered == acc + rej = sent
=============================================================================
