----------------------------- MODULE LimitsSessUQ -----------------------------
(* Design model of the upload queue of one peer (internal/peerconn/peerwriter: Run loop + messageWriter).        *)
(*   q     the counter currentQueuedRequests                                                                      *)
(*   qp    piece messages really waiting in writeQueue;  qr  reject messages waiting in writeQueue                *)
(*   hand  the writer goroutine holds a piece it took from writeC (waiting for the bucket / the socket)           *)
(* Requests arrive (Req), are cancelled (Cancel), the peer is choked (Choke: queued pieces are dropped).          *)
(* TLC checks  0 <= q = qp <= cap  always and the bound the trace spec uses:                                      *)
(*   pieces written or still to be written <= cap + 1 + written   (accepted - cancelled <= ...)                   *)
(* STRICT = FALSE models  >=  ->  >  in queueMessage;  CANCELREJ = TRUE models a cancelRequest that also matches  *)
(* a queued reject and decrements the counter for it.                                                             *)
EXTENDS LimitsSess
CONSTANTS CAP, N, STRICT, CANCELREJ, FAST
VARIABLES q, qp, qr, hand, sent, acc, rej, written, gone
vars == <<q, qp, qr, hand, sent, acc, rej, written, gone>>

Init == q = 0 /\ qp = 0 /\ qr = 0 /\ hand = 0 /\ sent = 0 /\ acc = 0 /\ rej = 0 /\ written = 0 /\ gone = 0
Full == IF STRICT THEN q >= CAP ELSE q > CAP
Req == /\ sent < N /\ sent' = sent + 1
       /\ IF Full THEN rej' = rej + 1 /\ qr' = (IF FAST THEN qr + 1 ELSE qr) /\ UNCHANGED <<q, qp, acc>>
                  ELSE q' = q + 1 /\ qp' = qp + 1 /\ acc' = acc + 1 /\ UNCHANGED <<rej, qr>>
       /\ UNCHANGED <<hand, written, gone>>
TakePiece == qp > 0 /\ hand = 0 /\ qp' = qp - 1 /\ q' = q - 1 /\ hand' = 1 /\ UNCHANGED <<qr, sent, acc, rej, written, gone>>
TakeReject == qr > 0 /\ hand = 0 /\ qr' = qr - 1 /\ UNCHANGED <<q, qp, hand, sent, acc, rej, written, gone>>
Write == hand = 1 /\ hand' = 0 /\ written' = written + 1 /\ UNCHANGED <<q, qp, qr, sent, acc, rej, gone>>
CancelPiece == qp > 0 /\ qp' = qp - 1 /\ q' = q - 1 /\ gone' = gone + 1 /\ UNCHANGED <<qr, hand, sent, acc, rej, written>>
CancelReject == CANCELREJ /\ qr > 0 /\ qr' = qr - 1 /\ q' = q - 1 /\ UNCHANGED <<qp, hand, sent, acc, rej, written, gone>>
Choke == q' = q - qp /\ gone' = gone + qp /\ qp' = 0 /\ UNCHANGED <<qr, hand, sent, acc, rej, written>>
Next == Req \/ TakePiece \/ TakeReject \/ Write \/ CancelPiece \/ CancelReject \/ Choke
Spec == Init /\ [][Next]_vars

QueueBound == 0 <= q /\ q = qp /\ qp <= CAP                   \* @obligation C17.uploadq
\* what the scripted leecher can check: pieces it will ever get (accepted and not dropped by a cancel / choke)
FloodBound == acc - gone <= UploadQBound(CAP, written)
Answered == acc + rej = sent
=============================================================================
