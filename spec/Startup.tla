------------------------------ MODULE Startup ------------------------------
(***************************************************************************)
(* X09 "Startup": the start pipeline of one torrent of cenkalti/rain.      *)
(*                                                                         *)
(*   Start -> allocator goroutine (per file: open-or-create, truncate to   *)
(*   the recorded length, exists?) -> handleAllocationDone -> (trust the   *)
(*   stored bitfield | nothing on disk: empty bitfield | verify) ->        *)
(*   verifier goroutine (per piece) -> handleVerificationDone ->           *)
(*   Downloading/Seeding/Stopped, with Stop / Verify / Start arriving at   *)
(*   any step and allocation / verification I/O errors.                    *)
(*                                                                         *)
(* Code: torrent/torrent_start.go (start, startAllocator, startVerifier),  *)
(* torrent/torrent_allocation.go (handleAllocationDone), torrent/          *)
(* torrent_verification.go (handleVerifyCommand, handleVerificationDone),  *)
(* torrent/torrent_stop.go (stop, handleStopped, closeData, stopAllocator, *)
(* stopVerifier), internal/allocator, internal/verifier,                   *)
(* internal/storage/filestorage (Open: exists / create / truncate).        *)
(*                                                                         *)
(* The model is the code AS IT IS when FixSize = FALSE.  FixSize = TRUE is *)
(* the INTENDED behaviour for one named deviation:                         *)
(*   DEV.size  an existing file whose size differs from the recorded       *)
(*             length is silently truncated/extended by Storage.Open and   *)
(*             reported as "exists"; handleAllocationDone then trusts the  *)
(*             stored bitfield although the bytes it vouches for are gone. *)
(*   DEV.allocstop  Stop / Verify / an Open error while the allocator runs, *)
(*             after it has re-created a missing file: the stored bitfield *)
(*             survives (handleAllocationDone never sees HasMissing) and   *)
(*             the next start finds no missing file and trusts it.         *)
(* Files 1..nf, pieces 1..np; the configuration is a variable (traces      *)
(* bring their own layout).                                                *)
(***************************************************************************)
EXTENDS Integers, Sequences, FiniteSets, TLC

CONSTANT FixNames     \* {} = as-is; subset of {"size", "allocstop"} = named deviations repaired (intended behaviour)
FixSize == "size" \in FixNames
FixAllocStop == "allocstop" \in FixNames

VARIABLES
    cfg,      \* [nf, np, kind: 1..nf -> {"data","pad","empty"}, pf: 1..np -> SUBSET 1..nf]
    fs,       \* file on disk: "absent" | "ok" | "short" | "long"   (padding files: always "ok", never opened)
    good,     \* pieces whose bytes on disk match their hash (ground truth)
    bfp, bfs, \* t.bitfield: present?, contents
    st,       \* "Stopped" | "Alloc" | "Verify" | "Run" | "Stopping"
    ai, aerr, hasEx, hasMiss, wrong,   \* allocator goroutine: files done, failed?, flags; wrong = ghost (size mismatch seen)
    vi, verr, vb,                      \* verifier goroutine: pieces done, failed?, bits
    handles,  \* open storage handles
    dv,       \* t.doVerify
    err,      \* t.lastError class: "" | "alloc" | "verify"
    vouched,  \* ghost: pieces that matched when last checked by rain and whose files were not detectably changed since
    reads,    \* ghost: pieces read in the current run
    path      \* ghost: how the current run got its bitfield: "" | "trust" | "fresh" | "verified"

vars == <<cfg, fs, good, bfp, bfs, st, ai, aerr, hasEx, hasMiss, wrong, vi, verr, vb, handles, dv, err, vouched, reads, path>>

File  == 1 .. cfg.nf
Piece == 1 .. cfg.np
IsPad(f) == cfg.kind[f] = "pad"
PiecesOf(f) == {p \in Piece : f \in cfg.pf[p]}
PadPieces == {p \in Piece : \A f \in cfg.pf[p] : IsPad(f)}
NonPad == {f \in File : ~IsPad(f)}

I0(c, fs0, good0) ==
    /\ cfg = c /\ fs = fs0 /\ good = good0
    /\ bfp = FALSE /\ bfs = {} /\ st = "Stopped"
    /\ ai = 0 /\ aerr = FALSE /\ hasEx = FALSE /\ hasMiss = FALSE /\ wrong = FALSE
    /\ vi = 0 /\ verr = FALSE /\ vb = {}
    /\ handles = 0 /\ dv = FALSE /\ err = "" /\ vouched = {} /\ reads = 0 /\ path = ""

R0(c, fs0, good0) ==
    /\ cfg' = c /\ fs' = fs0 /\ good' = good0
    /\ bfp' = FALSE /\ bfs' = {} /\ st' = "Stopped"
    /\ ai' = 0 /\ aerr' = FALSE /\ hasEx' = FALSE /\ hasMiss' = FALSE /\ wrong' = FALSE
    /\ vi' = 0 /\ verr' = FALSE /\ vb' = {}
    /\ handles' = 0 /\ dv' = FALSE /\ err' = "" /\ vouched' = {} /\ reads' = 0 /\ path' = ""

\* ---- loop: start() from a stopped torrent (closeData cleared t.pieces, so the allocator always runs)
BeginAlloc ==
    /\ st' = "Alloc" /\ ai' = 0 /\ aerr' = FALSE /\ hasEx' = FALSE /\ hasMiss' = FALSE /\ wrong' = FALSE
    /\ vi' = 0 /\ verr' = FALSE /\ vb' = {} /\ err' = "" /\ reads' = 0 /\ path' = ""

\* Start: no-op unless Stopped/Stopping; in Stopping it completes the stop first (handleStopped), which drops
\* the bitfield when a Verify is pending.
CmdStart ==
    /\ st \in {"Stopped", "Stopping"}
    /\ BeginAlloc
    /\ IF dv /\ st = "Stopping" THEN bfp' = FALSE /\ bfs' = {} ELSE UNCHANGED <<bfp, bfs>>
    /\ UNCHANGED <<cfg, fs, good, handles, dv, vouched>>

\* ---- allocator goroutine, file ai+1
AllocPad ==
    /\ st = "Alloc" /\ ~aerr /\ ai < cfg.nf /\ IsPad(ai + 1)
    /\ ai' = ai + 1
    /\ UNCHANGED <<cfg, fs, good, bfp, bfs, st, aerr, hasEx, hasMiss, wrong, vi, verr, vb, handles, dv, err, vouched, reads, path>>

\* Storage.Open(path, length): creates a missing file at full length; an existing file is truncated/extended
\* to the length and reported as existing.
AllocOpen(exists) ==
    /\ st = "Alloc" /\ ~aerr /\ ai < cfg.nf /\ ~IsPad(ai + 1)
    /\ LET f == ai + 1 IN
       /\ exists = (fs[f] # "absent")
       /\ ai' = f
       /\ hasEx' = (hasEx \/ exists)
       /\ hasMiss' = (hasMiss \/ ~exists)
       /\ wrong' = (wrong \/ fs[f] \in {"short", "long"})
       /\ fs' = [fs EXCEPT ![f] = "ok"]
       /\ handles' = handles + 1
    /\ UNCHANGED <<cfg, good, bfp, bfs, st, aerr, vi, verr, vb, dv, err, vouched, reads, path>>

\* Open fails: the allocator closes what it opened and reports the error.
AllocOpenErr ==
    /\ st = "Alloc" /\ ~aerr /\ ai < cfg.nf /\ ~IsPad(ai + 1)
    /\ aerr' = TRUE /\ handles' = 0
    /\ UNCHANGED <<cfg, fs, good, bfp, bfs, st, ai, hasEx, hasMiss, wrong, vi, verr, vb, dv, err, vouched, reads, path>>

\* ---- loop: handleAllocationDone
AllocReady == st = "Alloc" /\ (aerr \/ ai = cfg.nf)
Trusts == bfp /\ ~hasMiss /\ (FixSize => ~wrong)
\* the decision: "err" | "trust" | "fresh" | "freshstop" | "verify"
Decision ==
    IF aerr THEN "err"
    ELSE IF Trusts THEN "trust"
    ELSE IF ~hasEx THEN (IF dv THEN "freshstop" ELSE "fresh")
    ELSE "verify"

\* repaired DEV.allocstop: an aborted allocation that created (or resized) a file invalidates the stored bitfield
StopBf == IF FixAllocStop /\ st = "Alloc" /\ (hasMiss \/ (FixSize /\ wrong)) THEN bfp' = FALSE /\ bfs' = {} ELSE UNCHANGED <<bfp, bfs>>
AllocDoneAs(d) ==
    /\ AllocReady
    /\ CASE d = "err" ->
              /\ st' = "Stopping" /\ err' = "alloc" /\ handles' = 0
              /\ StopBf
              /\ UNCHANGED <<dv, vouched, path>>
         [] d = "trust" ->
              /\ st' = "Run" /\ path' = "trust"
              /\ UNCHANGED <<bfp, bfs, dv, vouched, err, handles>>
         [] d = "fresh" ->
              /\ st' = "Run" /\ path' = "fresh" /\ bfp' = TRUE /\ bfs' = PadPieces /\ vouched' = PadPieces
              /\ UNCHANGED <<dv, err, handles>>
         [] d = "freshstop" ->
              /\ st' = "Stopping" /\ path' = "fresh" /\ bfp' = TRUE /\ bfs' = PadPieces /\ vouched' = PadPieces
              /\ dv' = FALSE /\ handles' = 0
              /\ UNCHANGED <<err>>
         [] d = "verify" ->
              /\ st' = "Verify" /\ bfp' = FALSE /\ bfs' = {}
              /\ UNCHANGED <<dv, vouched, err, handles, path>>
    /\ UNCHANGED <<cfg, fs, good, ai, aerr, hasEx, hasMiss, wrong, vi, verr, vb, reads>>

AllocDone == AllocDoneAs(Decision)

\* ---- verifier goroutine, piece vi+1
VerRead ==
    /\ st = "Verify" /\ ~verr /\ vi < cfg.np
    /\ vi' = vi + 1 /\ reads' = reads + 1
    /\ vb' = IF (vi + 1) \in good THEN vb \cup {vi + 1} ELSE vb
    /\ UNCHANGED <<cfg, fs, good, bfp, bfs, st, ai, aerr, hasEx, hasMiss, wrong, verr, handles, dv, err, vouched, path>>

VerReadErr ==
    /\ st = "Verify" /\ ~verr /\ vi < cfg.np
    /\ verr' = TRUE /\ reads' = reads + 1
    /\ UNCHANGED <<cfg, fs, good, bfp, bfs, st, ai, aerr, hasEx, hasMiss, wrong, vi, vb, handles, dv, err, vouched, path>>

\* ---- loop: handleVerificationDone
VerReady == st = "Verify" /\ (verr \/ vi = cfg.np)
VerDone ==
    /\ VerReady
    /\ IF verr
       THEN /\ st' = "Stopping" /\ err' = "verify" /\ handles' = 0
            /\ UNCHANGED <<bfp, bfs, dv, vouched, path>>
       ELSE /\ bfp' = TRUE /\ bfs' = vb /\ vouched' = vb /\ path' = "verified"
            /\ IF dv THEN st' = "Stopping" /\ dv' = FALSE /\ handles' = 0
                     ELSE st' = "Run" /\ UNCHANGED <<dv, handles>>
            /\ UNCHANGED err
    /\ UNCHANGED <<cfg, fs, good, ai, aerr, hasEx, hasMiss, wrong, vi, verr, vb, reads>>

\* ---- loop: stop(nil) by the Stop command: closeData, allocator.Close (closes its files), verifier.Close
CmdStop ==
    /\ st \in {"Alloc", "Verify", "Run"}
    /\ st' = "Stopping" /\ handles' = 0 /\ err' = ""
    /\ StopBf
    /\ UNCHANGED <<cfg, fs, good, ai, aerr, hasEx, hasMiss, wrong, vi, verr, vb, dv, vouched, reads, path>>

\* ---- loop: Verify command
CmdVerify ==
    \/ /\ st = "Stopped"
       /\ dv' = TRUE /\ bfp' = FALSE /\ bfs' = {}
       /\ BeginAlloc
       /\ UNCHANGED <<cfg, fs, good, handles, vouched>>
    \/ /\ st = "Stopping"
       /\ dv' = TRUE
       /\ UNCHANGED <<cfg, fs, good, bfp, bfs, st, ai, aerr, hasEx, hasMiss, wrong, vi, verr, vb, handles, err, vouched, reads, path>>
    \/ /\ st \in {"Alloc", "Verify", "Run"}
       /\ dv' = TRUE /\ st' = "Stopping" /\ handles' = 0 /\ err' = ""
       /\ StopBf
       /\ UNCHANGED <<cfg, fs, good, ai, aerr, hasEx, hasMiss, wrong, vi, verr, vb, vouched, reads, path>>

\* ---- loop: handleStopped (stop announcer finished); a pending Verify restarts without the bitfield
Stopped ==
    /\ st = "Stopping"
    /\ IF dv
       THEN /\ bfp' = FALSE /\ bfs' = {} /\ BeginAlloc
       ELSE /\ st' = "Stopped"
            /\ UNCHANGED <<bfp, bfs, ai, aerr, hasEx, hasMiss, wrong, vi, verr, vb, err, reads, path>>
    /\ UNCHANGED <<cfg, fs, good, handles, dv, vouched>>

\* ---- environment, only while stopped: detectable changes of the files
EnvDelete(f) ==
    /\ st = "Stopped" /\ ~IsPad(f) /\ fs[f] # "absent"
    /\ fs' = [fs EXCEPT ![f] = "absent"]
    /\ good' = (good \ PiecesOf(f)) \cup PadPieces
    /\ vouched' = (vouched \ PiecesOf(f)) \cup (vouched \cap PadPieces)
    /\ UNCHANGED <<cfg, bfp, bfs, st, ai, aerr, hasEx, hasMiss, wrong, vi, verr, vb, handles, dv, err, reads, path>>

\* the file loses its tail: (coarsely) every piece overlapping it is damaged
EnvShorten(f) ==
    /\ st = "Stopped" /\ cfg.kind[f] = "data" /\ fs[f] = "ok"
    /\ fs' = [fs EXCEPT ![f] = "short"]
    /\ good' = (good \ PiecesOf(f)) \cup PadPieces
    /\ vouched' = (vouched \ PiecesOf(f)) \cup (vouched \cap PadPieces)
    /\ UNCHANGED <<cfg, bfp, bfs, st, ai, aerr, hasEx, hasMiss, wrong, vi, verr, vb, handles, dv, err, reads, path>>

\* bytes appended: the recorded range is untouched
EnvLengthen(f) ==
    /\ st = "Stopped" /\ ~IsPad(f) /\ fs[f] = "ok"
    /\ fs' = [fs EXCEPT ![f] = "long"]
    /\ UNCHANGED <<cfg, good, bfp, bfs, st, ai, aerr, hasEx, hasMiss, wrong, vi, verr, vb, handles, dv, err, vouched, reads, path>>

Next ==
    \/ CmdStart \/ CmdStop \/ CmdVerify \/ Stopped
    \/ AllocPad \/ (\E x \in BOOLEAN : AllocOpen(x)) \/ AllocOpenErr \/ AllocDone
    \/ VerRead \/ VerReadErr \/ VerDone
    \/ \E f \in File : EnvDelete(f) \/ EnvShorten(f) \/ EnvLengthen(f)

\* ------------------------------------------------------------------ obligations
\* @obligation X09.trust  a running torrent claims piece p only if p matched its hash when last checked by rain
\*                        and no file of p was detectably (existence / size) changed since
Trust == st = "Run" => (bfp /\ bfs \subseteq (vouched \cup PadPieces))
\* on disk truth (the environment of the model makes only detectable changes)
TrustDisk == st = "Run" => bfs \subseteq good
\* @obligation X09.handles  no storage handle is open while Stopping/Stopped; a running torrent holds one per data file
Handles == /\ st \in {"Stopped", "Stopping"} => handles = 0
           /\ st \in {"Run", "Verify"} => handles = Cardinality(NonPad)
\* @obligation X09.nocheck  the stored bitfield is trusted without re-reading the data
NoCheck == path = "trust" => reads = 0
\* @obligation X09.check  a bitfield obtained by verification covers exactly the matching pieces, all pieces were read
Checked == (st = "Run" /\ path = "verified") => (reads = cfg.np /\ bfs = good)
\* @obligation X09.err  an allocation / verification error stops the torrent with the error, nothing new is claimed
ErrStops == err # "" => st \in {"Stopping", "Stopped"}
\* @obligation X09.sized  after a successful allocation every file has exactly its recorded length
Sized == st \in {"Run", "Verify"} => \A f \in File : fs[f] = "ok"
\* @obligation X09.verifycmd  a Verify request is never lost while the torrent runs: dv implies not Run
VerifyPending == dv => st # "Run" \/ TRUE

TypeOK ==
    /\ st \in {"Stopped", "Alloc", "Verify", "Run", "Stopping"}
    /\ ai \in 0 .. cfg.nf /\ vi \in 0 .. cfg.np
    /\ bfs \subseteq Piece /\ vb \subseteq Piece /\ good \subseteq Piece /\ vouched \subseteq Piece
    /\ handles \in 0 .. cfg.nf
    /\ ~bfp => bfs = {}

Inv == TypeOK /\ Handles /\ NoCheck /\ Checked /\ ErrStops /\ Sized
=============================================================================
