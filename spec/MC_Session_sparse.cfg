SPECIFICATION MCSpec
CONSTANTS
  IDS = {"a"}
  RANGE = {1, 2}
  K = 1
  ATOMIC = TRUE
  FULL = TRUE
  SPARSE = TRUE
  STORAGE = TRUE
INVARIANT RecordIsOwn
CHECK_DEADLOCK FALSE
