SPECIFICATION GenSpec
CONSTANTS
  NADDR = 8
  K = 70
INVARIANT GenPrint
CHECK_DEADLOCK FALSE
