---------------------------- MODULE MC_PieceDlGen ----------------------------
(***************************************************************************)
(* TLC as generator (run with -simulate) of histories for the X04 driver:  *)
(* random walks of the REPAIRED algorithm model (MC_PieceDlAlg, "fixed")   *)
(* in the loop's discipline, over all piece layouts / queue lengths /      *)
(* fast / allowed-fast settings, in the environment given by REJ / UNREQ,  *)
(* plus deliveries with a wrong geometry ("Bad", kind k of block x).       *)
(* The driver replays the environment events (Block / Reject / Choke /     *)
(* Unchoke / Snub / Bad) into the real PieceDownloader, decides the end     *)
(* (cancel / disconnect / run to completion) by its seed,                  *)
(* and does the RequestBlocks calls of the discipline                      *)
(* itself; Trace_PieceDl judges what the code did.                         *)
(***************************************************************************)
EXTENDS MC_PieceDlAlg, Json
CONSTANTS K
VARIABLE h
gvars == <<avars, h>>

SecsSet == {Secs_plain3, Secs_plain4, Secs_pad, Secs_plain5,
            << [len |-> 4, pad |-> FALSE] >>,
            << [len |-> 1, pad |-> FALSE], [len |-> 2, pad |-> TRUE], [len |-> 5, pad |-> FALSE] >>,
            << [len |-> 2, pad |-> FALSE], [len |-> 3, pad |-> FALSE], [len |-> 1, pad |-> TRUE] >>}

GInit ==
    /\ \E f \in BOOLEAN, a \in BOOLEAN, s \in SecsSet, q \in QLENS, ck \in BOOLEAN :
          /\ a => f
          /\ ck => a
          /\ AInitWith([idx |-> 1, bs |-> BS, secs |-> s, fast |-> f, af |-> a], ck, q)
          /\ h = << [op |-> "Init", x |-> (IF ck THEN 1 ELSE 0), k |-> 0] >>

\* one "Bad" successor per state (block and kind vary with the position), so that it does not crowd out the rest
GBad == /\ ~due /\ open
        /\ h' = Append(h, [op |-> "Bad", x |-> (Len(h) % NB) + 1, k |-> (Len(h) % 6) + 1])
        /\ UNCHANGED avars
\* a completed download pads its history up to K (histories are printed at length K only: in simulation mode
\* TLC evaluates the invariant on every successor, not only on the one it follows)
GPad == ~open /\ h' = Append(h, [op |-> "End", x |-> 0, k |-> 0]) /\ UNCHANGED avars

GNext == \/ Len(h) < K - 1 /\ ((ANext /\ h' = Append(h, [op |-> ev'.op, x |-> ev'.x, k |-> 0])) \/ GBad \/ GPad)
         \/ Len(h) = K - 1 /\ h' = Append(h, [op |-> "End", x |-> 0, k |-> 0]) /\ UNCHANGED avars    \* one successor: one print
GSpec == GInit /\ [][GNext]_gvars

GenPrint ==
    IF Len(h) = K
    THEN PrintT("@@" \o ToJson([secs |-> cfg.secs, bs |-> cfg.bs, fast |-> cfg.fast, af |-> cfg.af, q |-> ql,
                                 bt |-> cfg.bt, ops |-> h]))
    ELSE TRUE
=============================================================================
