---------------------------- MODULE Trace_Session ----------------------------
(***************************************************************************)
(* Trace specification: judges ndjson traces recorded from a REAL          *)
(* torrent.Session (harness/c14) against Session.tla with the code's lock  *)
(* boundaries (cfg.atomic = FALSE: every behaviour the code can show is    *)
(* explained; what is judged are the obligations).                         *)
(*                                                                         *)
(* Lines:  Init | call | ret | obs | crash | Codec.                        *)
(* A call line carries the outcome of its call (r_res, r_id, r_port, r_at: *)
(* copied from the matching ret line by the driver's post-processing), so  *)
(* the steps of the call follow the REPORTED outcome instead of guessing.   *)
(* Between a call line and its ret line the steps of that call are         *)
(* internal actions; with k concurrent callers TLC searches all            *)
(* interleavings of the pending steps: a LINEARIZATION SEARCH.             *)
(*                                                                         *)
(* Verdict.  On one interleaving a step whose reported outcome contradicts *)
(* an obligation in that interleaving's state makes the state TAINTED      *)
(* (viol = tag); tainted states have no successors.  The trace is accepted *)
(* iff SOME interleaving reaches the end untainted (register 3).  If none  *)
(* does, the taint that occurred furthest into the trace is the verdict    *)
(* (register 2) - the most charitable reading of the history.  For k = 1   *)
(* there is one interleaving and this is the usual "first failed           *)
(* obligation".  Observations at quiescent points (obs lines: registry,    *)
(* ports, database as read from the real session) are judged on the        *)
(* OBSERVED values first (port conservation, registry = database), then    *)
(* compared with the state of the interleaving.                            *)
(* Obligations that are evaluated at quiescence on a state that the last   *)
(* obs line has pinned (CompactDatabase, CleanDatabase, codec cases) do    *)
(* not end the trace: they are printed at once (@@SOFT line tag).          *)
(* A line that no action matches is a driver/spec mismatch (exit 2).       *)
(***************************************************************************)
EXTENDS Session, Json

VARIABLES l, viol
tvars == <<vars, l, viol>>

Trace == TLCEval(ndJsonDeserialize("trace.ndjson"))
Ev == Trace[l]
SetOf(q) == {q[i] : i \in 1 .. Len(q)}
MaxK == 8

CfgOf(e) == [range |-> SetOf(e.range), k |-> MaxK, atomic |-> FALSE, ret |-> TRUE, env |-> TRUE, sparse |-> FALSE, split |-> FALSE,
             early |-> FALSE]

TraceInit ==
    /\ l = 2 /\ viol = ""
    /\ Trace[1].op = "Init"
    /\ InitWith(CfgOf(Trace[1]))
    /\ TLCSet(1, 1) /\ TLCSet(2, <<0, "">>) /\ TLCSet(3, FALSE)

Taint(tag) == viol' = tag /\ UNCHANGED <<vars, l>>
Soft(tag)  == IF tag = "" THEN TRUE ELSE PrintT("@@SOFT " \o ToString(l) \o " " \o tag)

\* an internal step of caller c: follow the reported outcome, or taint this interleaving
Internal(v, upd) == IF v # "" THEN Taint(v) ELSE upd /\ UNCHANGED <<l, viol>>
\* a step taken at a trace line
AtLine(v, upd)   == IF v # "" THEN Taint(v) ELSE upd /\ l' = l + 1 /\ UNCHANGED viol

SetFrame(c, op, st, id, res, a) ==
    /\ pc' = [pc EXCEPT ![c] = [op |-> op, step |-> st, id |-> id, h |-> 0, port |-> 0, res |-> res, a |-> a]]

Frozen == UNCHANGED <<cfg, torrents, byih, ports, db, invalid, orphans, reserved, crashed>>

-----------------------------------------------------------------------------
(* projections                                                              *)

Cnt0 == <<"0", "0", "0", "0">>

PayloadOf(e) ==
    [st |-> [ih |-> e.st.ih, name |-> e.st.name, ws |-> e.st.ws, sad |-> e.st.sad, sam |-> e.st.sam, sq |-> e.st.sq,
             meta |-> e.st.meta, at |-> e.r_at],
     tiers |-> e.tiers, cnt |-> Cnt0]

Rec(i, port, p) ==
    [id |-> i, port |-> port, ih |-> p.st.ih, name |-> p.st.name, tiers |-> p.tiers, ws |-> p.st.ws,
     sad |-> p.st.sad, sam |-> p.st.sam, sq |-> p.st.sq, meta |-> p.st.meta, at |-> p.st.at, cnt |-> p.cnt]
ObsRec(o) ==
    [id |-> o.id, port |-> o.port, ih |-> o.ih, name |-> o.name, tiers |-> o.tiers, ws |-> o.ws,
     sad |-> o.sad, sam |-> o.sam, sq |-> o.sq, meta |-> o.meta, at |-> o.at, cnt |-> o.cnt]
WithStarted(r, s) ==
    [id |-> r.id, port |-> r.port, ih |-> r.ih, name |-> r.name, tiers |-> r.tiers, ws |-> r.ws,
     sad |-> r.sad, sam |-> r.sam, sq |-> r.sq, meta |-> r.meta, at |-> r.at, cnt |-> r.cnt, started |-> s]

LookupViolAt(id, found) == IF found # (id \in DOMAIN torrents) THEN "C14.registry.lookup" ELSE ""

LiveRecs == {Rec(i, torrents[i].port, torrents[i].p) : i \in DOMAIN torrents}
DbRecs   == {WithStarted(Rec(i, db[i].port, db[i].p), db[i].started) : i \in DOMAIN db}

-----------------------------------------------------------------------------
(* call lines                                                               *)

IsCall(name) == Ev.op = "call" /\ Ev.name = name /\ pc[Ev.g].op = "idle"

\* outcomes after which the driver abandons the trace: the process died ("crash", a crash line follows and is the verdict)
\* or the ENVIRONMENT failed ("env": RPC time-out on a loaded machine, port taken by another process) - no verdict
Abandoned == {"crash", "env"}

TrCallAdd ==
    /\ IsCall("Add")
    /\ LET r  == Ev.r_res
           id == IF Ev.id # "" THEN Ev.id ELSE IF r = "ok" THEN Ev.r_id ELSE "?generated-" \o ToString(l)
           a  == [explicit |-> Ev.id # "", fail |-> Ev.fail, p |-> PayloadOf(Ev), stopped |-> Ev.stopped,
                  rres |-> r, rport |-> Ev.r_port]
       IN  IF Ev.kind = "bad"
           THEN AtLine(IF r = "bad" THEN "" ELSE "C14.add.malformed-input-accepted",
                       SetFrame(Ev.g, "Add", "done", id, r, a) /\ Frozen)
           ELSE IF r \in Abandoned
           THEN AtLine("", SetFrame(Ev.g, "Add", "limbo", id, r, a) /\ Frozen)
           ELSE IF r \notin {"ok", "dup", "noport", "storage", "dbwrite"}
           THEN Taint("C14.add.unexpected-error")
           ELSE IF r = "ok" /\ Ev.id # "" /\ Ev.r_id # Ev.id
           THEN Taint("C14.id.not-the-requested-id")
           \* @obligation C14.id  a generated id has never been seen in this session
           ELSE IF r = "ok" /\ Ev.id = "" /\ (Ev.r_id \in DOMAIN db \/ Ev.r_id = "")
           THEN Taint("C14.id.generated-not-fresh")
           ELSE AtLine("", BeginAdd(Ev.g, id, l, a))

TrCallRemove ==
    /\ IsCall("Remove")
    /\ IF Ev.r_res \in Abandoned THEN AtLine("", SetFrame(Ev.g, "Remove", "limbo", Ev.id, "crash", NoArgs) /\ Frozen)
       \* (whether a failed record delete is reported to the caller is not the property's business; the clean-up is)
       ELSE IF Ev.r_res # "ok" /\ ~(Ev.dbfail /\ Ev.r_res = "dbwrite") THEN Taint("C14.remove.failed")
       \* dbfail: the driver has replaced the record by a plain key just before the call (the DeleteBucket of this remove
       \* fails); the record is gone by the environment's doing, everything else of the remove must happen
       ELSE IF Ev.dbfail
       THEN AtLine("", /\ pc[Ev.g].op = "idle"
                       /\ pc' = [pc EXCEPT ![Ev.g] = [op |-> "Remove", step |-> "detach", id |-> Ev.id, h |-> 0, port |-> 0,
                                                       res |-> "", a |-> NoArgs]]
                       /\ db' = Del(db, Ev.id)
                       /\ UNCHANGED <<cfg, torrents, byih, ports, invalid, orphans, reserved, crashed>>)
       ELSE AtLine("", BeginRemove(Ev.g, Ev.id))

TrCallFlag ==
    /\ Ev.op = "call" /\ Ev.name \in {"Start", "Stop"} /\ pc[Ev.g].op = "idle"
    /\ IF Ev.r_res \in Abandoned THEN AtLine("", SetFrame(Ev.g, Ev.name, "limbo", Ev.id, "crash", NoArgs) /\ Frozen)
       ELSE IF Ev.r_res \notin {"ok", "notfound"} THEN Taint("C14.startstop.failed")
       ELSE AtLine("", Begin(Ev.g, Ev.name, "lookup", Ev.id, 0, [rres |-> Ev.r_res]))

\* @obligation C14.panic  no registry operation brings the process (or the calling goroutine) down: judged on the reported
\*                        outcome alone, hence on every interleaving alike (SOFT)
TrCallTracker ==
    /\ IsCall("AddTracker")
    /\ Soft(IF Ev.r_res = "panic" THEN "C14.panic.addtracker-without-record" ELSE "")
    /\ IF Ev.r_res \in Abandoned THEN AtLine("", SetFrame(Ev.g, "AddTracker", "limbo", Ev.id, "crash", NoArgs) /\ Frozen)
       ELSE AtLine("", Begin(Ev.g, "AddTracker", "lookup", Ev.id, 0,
                             [uri |-> Ev.uri, valid |-> Ev.valid, rres |-> Ev.r_res, rpc |-> Ev.rpc]))

\* a caller that kept its *Torrent after the torrent was removed: no lookup, the handle is not the registered one
TrCallTrackerStale ==
    /\ IsCall("AddTrackerStale")
    /\ Soft(IF Ev.r_res = "panic" THEN "C14.panic.addtracker-without-record" ELSE "")
    /\ AtLine("", /\ pc' = [pc EXCEPT ![Ev.g] = [op |-> "AddTracker", step |-> "apply", id |-> Ev.id, h |-> -1, port |-> 0, res |-> "",
                                                    a |-> [uri |-> Ev.uri, valid |-> Ev.valid, rres |-> Ev.r_res, rpc |-> Ev.rpc]]]
                  /\ Frozen)

\* the harness holds the writer lock of the database (a write transaction of its own: what another torrent's resume write
\* or a CompactDatabase does).  The call line is written AFTER the lock was taken, the ret line BEFORE it is given back:
\* between the two lines no database-writing step of any call happens (Session!DbHeld disables them), all of them queue up
\* and run after the ret line.  No obligation of its own: it narrows the interleavings that explain the history.
TrCallHold ==
    /\ IsCall("HoldDB") /\ ~DbHeld
    /\ AtLine("", Begin(Ev.g, "HoldDB", "held", "", 0, [rres |-> "ok"]))

TrRetHold ==
    /\ Ev.op = "ret" /\ At(Ev.g, "HoldDB", "held")
    /\ pc' = [pc EXCEPT ![Ev.g] = Idle]
    /\ Frozen /\ l' = l + 1 /\ UNCHANGED viol

\* --- operations at quiescence: the whole effect happens at the call line, the frame waits for the ret line

OthersIdle == \A c \in Callers : pc[c].op = "idle"

\* number of occurrences of tier x in the tier list q
Occ(q, x) == Cardinality({i \in 1 .. Len(q) : q[i] = x})

TrCallBump ==
    /\ IsCall("Bump") /\ OthersIdle
    /\ AtLine(LookupViolAt(Ev.id, Ev.r_res # "notfound"),
              BumpUpd(Ev.id, Ev.cnt) /\ SetFrame(Ev.g, "Bump", "done", Ev.id, Ev.r_res, NoArgs))

TrCallClean ==
    /\ IsCall("Clean") /\ OthersIdle
    /\ Soft(IF Ev.r_res \in Abandoned THEN "" ELSE CleanViol(Ev.r_res))
    /\ IF Ev.r_res \in Abandoned
       THEN AtLine("", Frozen /\ SetFrame(Ev.g, "Clean", "limbo", "", Ev.r_res, NoArgs))
       ELSE IF Ev.r_res = "ok"
       \* either reading of "invalid records" is accepted here; the next observation tells which one the code took
       THEN \E keepLive \in BOOLEAN : AtLine("", CleanUpd(keepLive) /\ SetFrame(Ev.g, "Clean", "done", "", Ev.r_res, NoArgs))
       ELSE AtLine("", Frozen /\ SetFrame(Ev.g, "Clean", "done", "", Ev.r_res, NoArgs))

\* @obligation C14.compact
CompactWant == {WithStarted(Rec(i, torrents[i].port, torrents[i].p), IF i \in DOMAIN db THEN db[i].started ELSE FALSE) :
                   i \in {j \in DOMAIN torrents : torrents[j].p.st.meta}}
CompactGot(e) == {WithStarted(ObsRec(o), o.started) : o \in SetOf(e.loaded)}
TrCallCompact ==
    /\ IsCall("Compact") /\ OthersIdle
    /\ Soft(IF Ev.r_res = "ok" /\ Len(Ev.linvalid) > 0 THEN "C14.compact.unloadable"
            ELSE CompactViol(Ev.r_res, CompactWant, CompactGot(Ev)))
    /\ AtLine("", Frozen /\ SetFrame(Ev.g, "Compact", "done", "", Ev.r_res, NoArgs))

TrCallReopen ==
    /\ IsCall("Reopen") /\ OthersIdle
    /\ IF Ev.r_res \in Abandoned
       THEN AtLine("", Frozen /\ SetFrame(Ev.g, "Reopen", "limbo", "", Ev.r_res, NoArgs))
       ELSE IF Ev.r_res = "ok"
       THEN AtLine("", ReopenUpd(SetOf(Ev.corrupt)) /\ SetFrame(Ev.g, "Reopen", "done", "", "ok", NoArgs))
       ELSE Taint(ReopenViol(Ev.r_res))

-----------------------------------------------------------------------------
(* internal steps: the linearization search                                 *)

Rres(c) == pc[c].a.rres

StepAddTake(c) ==
    /\ At(c, "Add", "take")
    /\ IF Rres(c) = "noport" THEN Internal(AddTakeViol(c, 0), AddTakeUpd(c, 0))
       ELSE IF Rres(c) = "ok" THEN Internal(AddTakeViol(c, pc[c].a.rport), AddTakeUpd(c, pc[c].a.rport))
       \* the call failed after taking a port that it gave back: which one is not reported
       ELSE IF ports = {} THEN Taint("C14.port.double-allocation")
       ELSE \E p \in ports : Internal("", AddTakeUpd(c, p))

StepAddCheck(c) ==
    /\ At(c, "Add", "check")
    /\ LET out == IF Rres(c) \in {"dup", "storage"} THEN Rres(c) ELSE "pass"
       IN Internal(AddCheckViol(c, out), AddCheckUpd(c, out))

TrackerOut(c) ==
    LET r == Rres(c) IN
    IF r = "ok" THEN "ok"
    \* (through the RPC server a panic of the handler is recovered by net/http and the client sees a broken
    \*  connection: the driver reports that as "panic" too)
    ELSE IF r = "panic" THEN "panic"
    ELSE "err"

StepOf(c) ==
    \/ StepAddTake(c)
    \/ StepAddCheck(c)
    \* (the database-writing steps wait for the holder of the writer lock: judged in the state they really run in)
    \/ At(c, "Add", "write") /\ ~DbHeld /\ Internal(AddWriteViol(c, Rres(c) # "dbwrite"), AddWrite(c, Rres(c) # "dbwrite"))
    \/ At(c, "Add", "insert") /\ Internal("", AddInsert(c, pc[c].a.stopped))
    \/ At(c, "Add", "started") /\ Internal("", AddStarted(c))
    \/ At(c, "Remove", "detach") /\ Internal("", RemDetach(c))
    \/ At(c, "Remove", "dbdel") /\ Internal("", RemDb(c, TRUE))
    \* (whether the loop of the removed torrent wrote its bitfield while it was closed is not reported: both are tried;
    \*  a write that lands in the record of a new owner of the id is judged at the next observation, C14.record)
    \/ At(c, "Remove", "close") /\ \E wr \in BOOLEAN : Internal("", RemClose(c, wr))
    \/ At(c, "Remove", "release") /\ Internal("", RemRelease(c))
    \/ /\ pc[c].step = "lookup"
       /\ LET found == Rres(c) # "notfound" IN Internal(LookupViol(c, found), LookupUpd(c, found))
    \/ pc[c].op \in {"Start", "Stop"} /\ pc[c].step = "apply" /\ Internal("", FlagApply(c))
    \/ At(c, "AddTracker", "apply") /\ (pc[c].a.valid => ~DbHeld) /\ Internal(TrackerViol(c, TrackerOut(c)), TrackerUpd(c, TrackerOut(c)))
    \/ At(c, "AddTracker", "live") /\ Internal("", TrackerLive(c))

TrInternal == \E c \in Callers : StepOf(c)

TrRet ==
    /\ Ev.op = "ret"
    /\ pc[Ev.g].step = "done"
    /\ pc[Ev.g].res = Ev.res \/ pc[Ev.g].op \in {"Add", "Remove", "Start", "Stop", "AddTracker"}
    /\ Return(Ev.g)
    /\ l' = l + 1 /\ UNCHANGED viol

TrRetAbandoned == Ev.op = "ret" /\ pc[Ev.g].step = "limbo" /\ l' = l + 1 /\ UNCHANGED <<vars, viol>>

-----------------------------------------------------------------------------
(* observation at a quiescent point                                         *)

AfterReopen == l > 3 /\ Trace[l - 1].op = "ret" /\ Trace[l - 2].op = "call" /\ Trace[l - 2].name = "Reopen"

\* @obligation C14.ports    live torrents have pairwise distinct ports; every port of the range is free XOR owned by one torrent
\* @obligation C14.db       the torrents of the session are exactly the loadable records of the resume database
\* @obligation C14.state    registry, ports and database are what the history of calls produces (failing adds leak nothing)
\* @obligation C14.restart  after close + reopen every torrent is back with equal id, info-hash, name, port, trackers,
\*                          web seeds, options, counters, added-at, and runs iff its started flag says so
ObsViol(e) ==
    LET live   == SetOf(e.live)
        dbo    == SetOf(e.db)
        av     == SetOf(e.avail)
        lports == {o.port : o \in live}
        tag    == IF AfterReopen THEN "C14.restart" ELSE "C14.state"
    IN  IF Cardinality({o.id : o \in live}) # Len(e.live) THEN "C14.id.shared"
        ELSE IF Cardinality(lports) # Len(e.live) THEN "C14.ports.shared"
        ELSE IF av \cap lports # {} THEN "C14.ports.free-and-owned"
        ELSE IF \E p \in cfg.range : p \notin av \cup lports THEN "C14.ports.leaked"
        ELSE IF (av \cup lports) # cfg.range THEN "C14.ports.out-of-range"
        \* @obligation C14.leak  no torrent keeps running outside the registry (event loops alive = registered torrents)
        ELSE IF e.loops # Len(e.live) THEN "C14.leak.running-torrent"
        ELSE IF e.nports # Cardinality(av) \/ e.ntorrents # Len(e.live) THEN "C14.ports.stats-disagree"
        ELSE IF ~({o.id : o \in live} \subseteq {o.id : o \in dbo}) THEN "C14.db.torrent-without-record"
        ELSE IF ~(({o.id : o \in dbo} \ {o.id : o \in live}) \subseteq SetOf(e.invalid)) THEN "C14.db.record-without-torrent"
        ELSE IF \E x \in SetOf(e.byih) : Cardinality(SetOf(x.ids)) # Len(x.ids) THEN "C14.index.duplicate-entry"
        ELSE IF UNION {SetOf(x.ids) : x \in SetOf(e.byih)} # {o.id : o \in live} THEN "C14.index.differs"
        ELSE IF \E x \in SetOf(e.byih), o \in live : o.id \in SetOf(x.ids) /\ o.ih # x.ih THEN "C14.index.wrong-hash"
        \* @obligation C14.record.tracker-lost  every tracker whose AddTracker call returned without error is in the record
        \*   (as many times as it was added), however the concurrent calls were scheduled around the writer lock
        \*   (the tiers of a record are the same multiset on every interleaving: judged before the order-sensitive comparisons)
        ELSE IF \E o \in dbo : o.id \in DOMAIN db /\ ~db[o.id].bad
                                /\ \E x \in SetOf(db[o.id].p.tiers) : Occ(o.tiers, x) < Occ(db[o.id].p.tiers, x)
             THEN "C14.record.tracker-lost"
        ELSE IF {ObsRec(o) : o \in live} # LiveRecs THEN tag \o ".live"
        \* (records damaged by the driver are compared by id only)
        ELSE IF {o.id : o \in dbo} # DOMAIN db THEN tag \o ".db"
        \* @obligation C14.record  the record of a torrent holds exactly what was written for it (nothing is handed down by a
        \*   record that failed to load and whose bucket the add re-uses): no info dictionary for a torrent added without
        \*   one, no bitfield for a torrent that has never been started
        ELSE IF \E o \in dbo : ~db[o.id].bad /\ ~db[o.id].p.st.meta /\ o.meta THEN "C14.record.inherited-info"
        \* (bf = "left": on this interleaving a torrent that was being removed wrote its bitfield into the record of the new
        \*  owner of its id while it was closed - the envelope explains the write, the obligation forbids what it leaves)
        ELSE IF \E o \in dbo : ~db[o.id].bad /\ db[o.id].bf \in {"", "left"} /\ o.bf # "" THEN "C14.record.inherited-bitfield"
        \* (... and an interleaving with such a write does not explain a record that shows no bitfield)
        ELSE IF \E o \in dbo : ~db[o.id].bad /\ db[o.id].bf = "left" /\ o.bf = "" THEN tag \o ".db"
        ELSE IF {WithStarted(ObsRec(o), o.started) : o \in {x \in dbo : ~db[x.id].bad}} # {r \in DbRecs : ~db[r.id].bad} THEN tag \o ".db"
        ELSE IF av # ports THEN tag \o ".ports"
        ELSE IF AfterReopen /\ \E o \in live : o.run # "e" /\ ((o.run = "y") # db[o.id].started) THEN "C14.restart.started"
        ELSE ""

\* the list of unloadable ids is internal bookkeeping the property says nothing about: it is taken from the observation
TrObs ==
    /\ Ev.op = "obs"
    /\ OthersIdle
    /\ AtLine(ObsViol(Ev), invalid' = SetOf(Ev.invalid)
                            /\ UNCHANGED <<cfg, torrents, byih, ports, db, orphans, reserved, pc, crashed>>)

TrCrash == Ev.op = "crash" /\ Taint("C14.panic.process")

\* @obligation C14.codec  every value stored in resume data reads back equal to what was written
CodecViol(e) ==
    IF e.err # "" THEN "C14.codec.error"
    ELSE IF Len(e.neq) > 0 THEN "C14.codec.roundtrip." \o e.neq[1]
    \* ... also when the bucket existed before (C14.record: nothing of the previous record shows through)
    ELSE IF Len(e.oneq) > 0 THEN "C14.codec.overwrite." \o e.oneq[1]
    ELSE IF Len(e.pneq) > 0 THEN "C14.codec.partial." \o e.pneq[1]
    ELSE IF Len(e.jneq) > 0 THEN "C14.codec.json." \o e.jneq[1]
    ELSE ""
TrCodec == Ev.op = "Codec" /\ Soft(CodecViol(Ev)) /\ l' = l + 1 /\ UNCHANGED <<vars, viol>>

TrReset == Ev.op = "Init" /\ ResetWith(CfgOf(Ev)) /\ l' = l + 1 /\ viol' = ""

TraceNext ==
    /\ viol = ""
    /\ \/ TrInternal
       \/ /\ l <= Len(Trace)
          /\ \/ TrReset \/ TrCallAdd \/ TrCallRemove \/ TrCallFlag \/ TrCallTracker \/ TrCallTrackerStale
             \/ TrCallHold \/ TrRetHold \/ TrCallBump \/ TrCallClean \/ TrCallCompact \/ TrCallReopen \/ TrRet \/ TrRetAbandoned \/ TrObs \/ TrCrash \/ TrCodec

TraceSpec == TraceInit /\ [][TraceNext]_tvars

Generic(t) == t \in {"", "C14.state.live", "C14.state.db", "C14.state.ports", "C14.restart.live", "C14.restart.db", "C14.restart.ports"}

HighWater ==
    /\ TLCSet(1, IF l > TLCGet(1) THEN l ELSE TLCGet(1))
    \* (equally far into the trace, the tag of an obligation is kept rather than a "this interleaving does not match the
    \*  observation" tag of another interleaving: the verdict does not depend on the order of the search)
    /\ IF viol # "" /\ (l > TLCGet(2)[1] \/ (l = TLCGet(2)[1] /\ (Generic(TLCGet(2)[2]) \/ ~Generic(viol))))
       THEN TLCSet(2, <<l, viol>>) ELSE TRUE
    \* the first untainted state that has consumed the whole file: the file is ACCEPTED and TLC stops (with the
    \* depth-first state queue an accepted file costs about one state per line; only a file without an accepting
    \* interleaving is searched exhaustively, and then TraceAccepted gives the verdict)
    /\ IF viol = "" /\ l = Len(Trace) + 1 THEN TLCSet(3, TRUE) /\ PrintT("@@ACCEPT") /\ TLCSet("exit", TRUE) ELSE TRUE

TraceAccepted ==
    /\ IF TLCGet(3) THEN TRUE
       ELSE IF TLCGet(2)[1] > 0
       THEN /\ PrintT("@@VIOL " \o ToString(TLCGet(2)[1]) \o " " \o TLCGet(2)[2])
            /\ PrintT("@@REJECT " \o ToString(TLCGet(2)[1]) \o " " \o ToString(Len(Trace)))
            /\ FALSE
       ELSE /\ PrintT("@@REJECT " \o ToString(TLCGet(1) - 1) \o " " \o ToString(Len(Trace)))
            /\ FALSE
=============================================================================
