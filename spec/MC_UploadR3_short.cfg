SPECIFICATION MCSpec
CONSTANTS
  NP = 1
  PLEN <- PLEN_4
  MAXBLK = 3
  MAXQ = 2
  CB = 2
  NCONN = 1
  HAVE0 = {0}
  REQS <- REQS_T
  AFP = {0}
  PAF = {}
  NSEND = 2
  NFLIP = 0
  NOPEN = 1
  NTRUNC = 1
  AFCHECK = "sent"
  SHORTREAD = "error"
  TWOPHASE = FALSE
  BUFS = "fresh"
INVARIANT NoBad
INVARIANT QueueBound
INVARIANT QueuedValid
INVARIANT CacheTruth
INVARIANT ViewSound
CHECK_DEADLOCK FALSE
