-------------------------- MODULE MC_Metadata_gen --------------------------
(* TLC as generator (E-gen) for property C13: every initial state is one case, printed as JSON.     *)
(*   k = "mag"  magnet parameter tuples (rendered by the driver's own encoder, parsed by the real   *)
(*              code; and the String() -> New() round trip)                                          *)
(*   k = "idl"  block-delivery histories for the real InfoDownloader (abstract letters)             *)
(*   k = "e2e"  peer-policy vectors + schedule class for the end-to-end scenarios                   *)
(* TIER = "q" (quick) or "t" (thorough) selects the size of the families.                           *)
EXTENDS Integers, Sequences, FiniteSets, TLC, Json
CONSTANTS TIER
VARIABLE c

Q == TIER = "q"
SeqsUpTo(S, n) == UNION {[1 .. m -> S] : m \in 0 .. n}

-----------------------------------------------------------------------------
(* magnet tuples                                                            *)
\* hf   : how the info-hash is written: "hex" | "HEX" | "Hex" (mixed case) | "B32" | "b32" (lower-case base32: a client may
\*        refuse it) | "short" (39 hex digits) | "nothex" (40 characters, not hexadecimal)
\* xt   : "one" | "dupsame" | "dupdiff" (two different btih topics) | "v1v2" | "v2v1" (hybrid) | "v2only" | "none" | "other" (urn:sha1:)
\* name : index into the driver's table of names (0 = no dn parameter)
\* enc  : the driver's encoder: "full" (everything but unreserved is %XX) | "min" (only what a query value must escape) | "plus" (space as +)
\* tiers: sequence of tier sizes; trform: "tr" (singleton tiers as tr=, others tr.N=) | "trn" (every tier tr.N=) | "gap" (tr.N with gaps)
\* peers: sequence of x.pe kinds; extra: 1 = unknown parameters (ws=, xl=, kt=, foo=) mixed in
HashForms == {"hex", "HEX", "Hex", "B32", "b32", "short", "nothex"}
Xts       == {"one", "dupsame", "dupdiff", "v1v2", "v2v1", "v2only", "none", "other"}
Encs      == {"full", "min", "plus"}
NNames    == 14
PeerKinds == {"v4", "host", "v6", "zone", "badport", "noport"}

Mag(hf, xt, nm, en, ts, tf, ps, ex) ==
    [k |-> "mag", hf |-> hf, xt |-> xt, name |-> nm, enc |-> en, tiers |-> ts, trform |-> tf, peers |-> ps, extra |-> ex]

MagHash  == {Mag(hf, xt, nm, en, ts, "tr", <<>>, ex) :
                hf \in HashForms, xt \in Xts, nm \in {0, 1}, en \in Encs, ts \in {<<>>, <<1>>}, ex \in {0, 1}}
MagName  == {Mag(hf, "one", nm, en, <<1>>, "tr", ps, ex) :
                hf \in {"hex", "B32"}, nm \in 0 .. NNames, en \in Encs, ps \in {<<>>, <<"v4">>}, ex \in {0, 1}}
MagTiers == {Mag("hex", "one", nm, en, ts, tf, ps, 0) :
                nm \in {1, 4}, en \in Encs,
                ts \in (IF Q THEN SeqsUpTo(1 .. 2, 2) \cup {<<3, 1, 2>>} ELSE SeqsUpTo(1 .. 3, 3)),
                tf \in {"tr", "trn", "gap"},
                ps \in (IF Q THEN SeqsUpTo({"v4", "v6", "zone"}, 1) \cup {<<"host", "badport">>} ELSE SeqsUpTo(PeerKinds, 2))}
MagCases == MagHash \cup MagName \cup MagTiers

-----------------------------------------------------------------------------
(* InfoDownloader histories: h = sequence of deliveries                     *)
\* letter = [i: block index (nb = out of range), lc: "ok" | "okbad" (right length, garbage) | "short" | "long" | "empty"]
Lcs == IF Q THEN {"ok", "okbad", "short", "long"} ELSE {"ok", "okbad", "short", "long", "empty"}
IdlFor(nb, fu, q, n) ==
    {[k |-> "idl", nb |-> nb, full |-> fu, q |-> q, h |-> h] : h \in UNION {[1 .. m -> [i : 0 .. nb, lc : Lcs]] : m \in 1 .. n}}
IdlCases ==
    UNION {IdlFor(nb, fu, q, 3) : nb \in (IF Q THEN {1, 2} ELSE {1, 2, 3}), fu \in {0, 1}, q \in (IF Q THEN {1, 2} ELSE {1, 2, 3})}

-----------------------------------------------------------------------------
(* end-to-end scenarios                                                     *)
\* pols : policy vector (connect order); nb: metadata blocks; par: ParallelMetadataDownloads;
\* late : 1 = the liars connect first and act only after every peer has completed its extension handshake;
\* priv : 1 = the info dictionary is private
\* ord  : 1 = the honest peers answer the pipelined requests in REVERSE order (0 = in the order of the requests);
\* lay  : layout of the info dictionary: 0 = many files (blocks full of path names), 1 = one file with very many pieces
\*        (every block but the first lies inside the "pieces" string: blocks can trade places and the result still parses)
\* "swap" : liar that sends the genuine payloads in the genuine order, all sizes right, every index requested - but the
\*          last two full-size blocks carry each other's index (needs nb >= 3; honest-like below that)
EPol  == {"honest", "total", "sizeplus", "sizeminus", "badlen", "dup", "unreq", "garbage", "reject", "stall", "over", "capmax",
          "drop", "junk", "proto", "nometa", "forge", "huge", "neg", "swap"}
Liars == EPol \ {"honest"}
E2EX(pv, nb, pa, la, pr, od, ly) ==
    [k |-> "e2e", pols |-> pv, nb |-> nb, par |-> pa, late |-> la, priv |-> pr, ord |-> od, lay |-> ly]
E2E(pv, nb, pa, la, pr) == E2EX(pv, nb, pa, la, pr, 0, 0)
E2ECases ==
    {E2E(<<a>>, nb, 1, 0, pr) : a \in EPol, nb \in {1, 2, 3}, pr \in {0, 1}}
    \cup {E2E(<<a, "honest">>, nb, pa, la, 0) : a \in Liars, nb \in {1, 2}, pa \in {1, 2}, la \in {0, 1}}
    \cup {E2E(<<"honest", a>>, nb, 1, 0, 0) : a \in Liars, nb \in {2}}
    \cup {E2E(<<a, b, "honest">>, 2, pa, la, 0) : a \in Liars, b \in Liars, pa \in {1, 2}, la \in {0, 1}}
    \cup {E2E(<<a, b>>, 2, 2, 0, 0) : a \in Liars, b \in Liars}
    \* arrival order and index labels (the classes "order" of props/c13.py)
    \cup {E2EX(<<"honest">>, nb, 1, 0, 0, 1, ly) : nb \in {2, 3, 4}, ly \in {0, 1}}
    \cup {E2EX(<<"swap">>, nb, 1, 0, 0, 0, ly) : nb \in {3, 4}, ly \in {0, 1}}
    \cup {E2EX(<<"swap", "honest">>, nb, pa, la, 0, od, 1) : nb \in {3, 4}, pa \in {1, 2}, la \in {0, 1}, od \in {0, 1}}
    \cup {E2EX(<<"honest", "swap">>, 4, 1, 0, 0, od, 1) : od \in {0, 1}}
    \cup {E2EX(<<a, "honest">>, 3, pa, la, 0, 1, ly) : a \in Liars, pa \in {1, 2}, la \in {0, 1}, ly \in {0, 1}}

Cases == MagCases \cup IdlCases \cup E2ECases

Init == c \in Cases /\ PrintT("@@" \o ToJson(c))
Next == UNCHANGED c
Spec == Init /\ [][Next]_c
=============================================================================
