SPECIFICATION Spec
CONSTANTS
  T = 4
  M = 3
  MaxBody = 5
  MaxHops = 2
  WholeExchange = FALSE
INVARIANT Inv
CHECK_DEADLOCK TRUE
