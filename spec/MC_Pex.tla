------------------------------- MODULE MC_Pex -------------------------------
(***************************************************************************)
(* Exhaustive configurations of Pex.tla (time abstracted: a message may be *)
(* sent at any flush opportunity; the 60 s rules are trace-level).         *)
(*  MCSpec : the envelope.  The per-message obligations imply, for every   *)
(*           interleaving of connects, disconnects (incl. the add+drop of  *)
(*           a duplicate peer id) and messages: the receiver's picture of  *)
(*           our peer set differs from the truth only by what is pending   *)
(*           (RemoteViewCoherent, Settled), its own address is never in    *)
(*           it, and a message satisfying all obligations always exists    *)
(*           (MsgPossible).  LiveSpec: once the torrent stops changing,    *)
(*           the picture becomes exact (WF of the flush).                  *)
(*  ASpec  : the algorithm of pexlist.PEXList / newPEX against the         *)
(*           envelope; "asis" is expected to fail X02.d only (own address  *)
(*           in the first message's dropped list), "fixed" passes.         *)
(***************************************************************************)
EXTENDS Pex
CONSTANTS ADDRS, SELF, LL, BUDGET, VARIANT, IGNORE
VARIABLES budget, alg, av

mvars == <<vars, budget, alg, av>>
All == ADDRS \cup {SELF}

\* a set as a sequence without duplicates (the obligations depend on the set and the length only)
RECURSIVE SeqOf(_)
SeqOf(S) == IF S = {} THEN <<>> ELSE LET x == CHOOSE y \in S : TRUE IN <<x>> \o SeqOf(S \ {x})

MCInit == InitWith([self |-> SELF, L |-> LL, R |-> 0]) /\ budget = BUDGET /\ alg = [la |-> {}, ld |-> {}, fl |-> FALSE] /\ av = {}

Env ==
    /\ budget > 0 /\ budget' = budget - 1
    /\ \/ \E a \in ADDRS : Add(a) \/ Drop(a)
       \/ Close

MCStart == \E ini \in SUBSET All, rec \in SUBSET All : Start(ini, rec)

MCMsg == \E A \in SUBSET ADDRS, D \in SUBSET All : Msg(SeqOf(A), SeqOf(D))

MCNext ==
    \/ (MCStart \/ MCMsg) /\ UNCHANGED <<budget, alg, av>>
    \/ Env /\ UNCHANGED <<alg, av>>
MCSpec == MCInit /\ [][MCNext]_mvars

MsgPossible == (on /\ ~NothingPending) => \E A \in SUBSET ADDRS, D \in SUBSET All : MsgOK(SeqOf(A), SeqOf(D)) /\ (A # {} \/ D # {})
Inv == TypeOK /\ RemoteViewCoherent /\ Settled /\ MsgPossible

LiveSpec == MCSpec /\ WF_mvars(MCMsg /\ UNCHANGED <<budget, alg, av>>)
EventuallyExact == <>[](~on \/ rv = connected)

(* ------------------------------------------------------------------ algorithm *)
AStart == \E ini \in SUBSET All, rec \in SUBSET All :
            /\ Start(ini, rec) /\ alg' = AlgStart(VARIANT, ini, rec) /\ av' = {} /\ UNCHANGED budget
AEnv ==
    /\ budget > 0 /\ budget' = budget - 1 /\ av' = {}
    /\ \/ \E a \in ADDRS : Add(a) /\ alg' = AlgAdd(alg, a)
       \/ \E a \in ADDRS : Drop(a) /\ alg' = AlgDrop(alg, a)
       \/ Close /\ UNCHANGED alg
\* pexFlushPeers: nothing is sent when both parts are empty
AFlush ==
    /\ on
    /\ \E A \in AlgTake(alg.la, alg.fl), D \in AlgTake(alg.ld, alg.fl) :
         /\ alg' = [la |-> alg.la \ A, ld |-> alg.ld \ D, fl |-> TRUE]
         /\ IF A = {} /\ D = {}
            THEN UNCHANGED vars /\ av' = {}
            ELSE av' = MsgViols(SeqOf(A), SeqOf(D)) \ IGNORE /\ MsgUpdate(SeqOf(A), SeqOf(D))
    /\ UNCHANGED budget
ANext == AStart \/ AEnv \/ AFlush
ASpec == MCInit /\ [][ANext]_mvars
Conforms == av = {}
\* the maps of the code and the pending sets of the specification
AlgCoherent == on => (alg.la = pendA /\ mustD \subseteq alg.ld /\ (alg.ld \ {SELF}) \subseteq mayD)
AInv == Conforms /\ RemoteViewCoherent /\ Settled /\ AlgCoherent
=============================================================================
