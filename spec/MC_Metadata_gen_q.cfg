SPECIFICATION Spec
CONSTANTS
  TIER = "q"
CHECK_DEADLOCK FALSE
