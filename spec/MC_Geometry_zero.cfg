SPECIFICATION MCSpecZero
CONSTANTS
  MaxFiles = 2
  MaxLen = 3
  MaxPL = 3
  BSS = {2, 3}
INVARIANT ReadBackInv
INVARIANT DiskInv
INVARIANT AllWrittenIsFinal
INVARIANT VerifyInv
INVARIANT ThmRLEz
CHECK_DEADLOCK FALSE
