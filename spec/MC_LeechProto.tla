--------------------------- MODULE MC_LeechProto ---------------------------
(***************************************************************************)
(* Exhaustive configurations of the ENVELOPE of LeechProto.tla: every      *)
(* interleaving of connect / disconnect, the peer's messages (announce,    *)
(* choke, unchoke, allowed-fast, reject, piece), verification of a piece   *)
(* (through this connection or elsewhere) and rain's messages guarded by   *)
(* their obligations.  The per-message obligations imply the global forms  *)
(* (InvOutAnnounced, InvOutChoke, InvAnncTruth, InvFirst) and are jointly  *)
(* satisfiable; LiveSpec: under weak fairness of the messages rain OWES    *)
(* (first message, the truthful interest declaration, the have of a        *)
(* verified piece, the cancel of a request for a piece it holds) every     *)
(* connection is infinitely often closed or quiet (QuietViols = {}).       *)
(***************************************************************************)
EXTENDS LeechProto
CONSTANTS NP, PLEN, BSZ, CONNS, FASTS, DEV, MINE0

Plen_21 == <<2, 1>>
Plen_1 == <<1>>
Plen_11 == <<1, 1>>
Plen_22 == <<2, 2>>

MCInit == \E m \in MINE0 : InitWith(I0(NP, PLEN, BSZ, CONNS, DEV), m)
MCNext ==
    \/ \E c \in CONNS : \/ \E f \in FASTS : Connect(c, f)
                        \/ Disconnect(c) \/ PeerNext(c) \/ RainNext(c)
    \/ \E i \in Pieces : Verify(i)
MCSpec == MCInit /\ [][MCNext]_vars

Wanted(c) == cs[c].pHave \ mine # {}
RainDue(c) ==
    \/ ~cs[c].any /\ RFirst(c)
    \/ RInt(c, Wanted(c))
    \/ \E i \in mine \ (cs[c].annc \cup (IF "skiphave" \in cfg.dev THEN cs[c].pHave ELSE {})) : RHave(c, i)
    \/ \E r \in cs[c].out : r.i \in mine /\ RCancel(c, r)
\* liveness is stated for a rain that declares its interest truthfully (the envelope alone lets it flap for ever)
Truthful == \A c \in CONNS : cs'[c].amInt # cs[c].amInt => cs'[c].amInt = (cs[c].pHave \ mine # {})
LiveSpec == MCInit /\ [][MCNext /\ Truthful]_vars /\ \A c \in CONNS : WF_vars(RainDue(c))
Quiet(c) == ~cs[c].open \/ QuietViols(cs[c], mine, mine) = {}
EventuallyQuiet == \A c \in CONNS : []<>Quiet(c)
\* every non-quiet state has an owed message enabled (no obligation can become unsatisfiable)
InvDueEnabled == \A c \in CONNS : ~Quiet(c) => ENABLED RainDue(c)
=============================================================================
