----------------------------- MODULE MC_MSEIso -----------------------------
(* Exhaustive interleavings of the handshakes and payload reads of NCS connections with payload lengths from *)
(* LENS (units).  The history `sched` makes every interleaving a distinct behaviour; every complete schedule *)
(* is printed as one JSON object ("@@..."): harness/c12 -mode iso replays it with real mse.Stream endpoints. *)
EXTENDS MSEIso, Json
CONSTANTS NCS, LENS, WHOLE3

VARIABLES sched, fin
mvars == <<ivars, sched, fin>>

Op(kind, k, n) == [k |-> kind, c |-> k, n |-> n]

MCInit ==
    /\ \E n \in NCS : \E ls \in [1 .. MaxConns -> LENS] :
          /\ \A k \in (n + 1) .. MaxConns : ls[k] = 1           \* unused connections: canonical value
          /\ IsoInitWith(n, ls)
    /\ sched = <<>> /\ fin = FALSE

\* with 3 connections only whole reads and halves (first unit / rest) are enumerated when WHOLE3
ReadSizes(k) ==
    LET rest == len[k] - pos[k] IN
    IF nc >= 3 /\ WHOLE3 THEN {rest} ELSE 1 .. rest

MCNext ==
    \/ \E k \in Conns : Handshake(k) /\ sched' = Append(sched, Op("hs", k, 0)) /\ UNCHANGED fin
    \/ \E k \in Conns : \E n \in ReadSizes(k) : Read(k, n) /\ sched' = Append(sched, Op("rd", k, n)) /\ UNCHANGED fin
    \/ /\ AllRead /\ ~fin
       /\ PrintT("@@" \o ToJson([nc |-> nc, lens |-> [k \in 1 .. nc |-> len[k]], ops |-> sched]))
       /\ fin' = TRUE /\ UNCHANGED <<ivars, sched>>
    \/ fin /\ UNCHANGED mvars

MCSpec == MCInit /\ [][MCNext]_mvars
Inv == IsoTypeOK /\ Isolation
=============================================================================
