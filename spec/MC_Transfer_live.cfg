SPECIFICATION MCFairSpec
CONSTANTS
  NP = 2
  NB = 1
  Peers = {"h", "l"}
  Liars = {"l"}
  Sources = {}
  LyingSources = {}
  EndgameLimit = 2
  MaxStops = 1
  MaxFaults = 1
INVARIANT Inv
PROPERTY Live
CHECK_DEADLOCK FALSE
