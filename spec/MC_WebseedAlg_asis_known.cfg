SPECIFICATION ASpec
CONSTANTS
  PL = 2
  FILES <- G_pad
  RB = 0
  RE = 3
  MAXCH = 2
  VARIANT = "asis"
  IGNORE = {"X06.a.owner", "X06.a.double", "X06.a.leak", "X06.f.unneeded", "X06.b.afterfinal", "X06.b.order", "X06.f.status", "X06.f.afterfail"}
  MODES = {"206", "500", "terr", "200"}
  NSTOP = 1
  NCLOSE = 1
  NERR = 1
INVARIANT Conforms
CHECK_DEADLOCK FALSE
