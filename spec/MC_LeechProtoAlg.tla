-------------------------- MODULE MC_LeechProtoAlg --------------------------
(***************************************************************************)
(* The ALGORITHM of the torrent loop's handlers as it is (one connection;  *)
(* other connections / webseeds appear as "a piece is verified elsewhere") *)
(* against the obligations of LeechProto.tla.  Every handler is atomic     *)
(* (the loop is one goroutine); the messages it sends are judged one by    *)
(* one against the peer's view (cs[1]) and collected in av.                *)
(*   sendFirstMessage (torrent_peer.go), updateInterestedState,            *)
(*   have / bitfield / have-all, allowed-fast, choke, unchoke, piece,      *)
(*   reject handlers (torrent_messagehandler.go), startSinglePieceDown-    *)
(*   loader + PickFor (allowed-fast first, otherwise only while unchoked), *)
(*   handlePieceWriteDone (torrent_write.go: close + CancelPending + new   *)
(*   download for the peers that were downloading the piece, THEN interest *)
(*   update and have - skipped for a peer that has the piece).             *)
(* AInvConf: no message violates an obligation.  AInvQuiet: every state    *)
(* between two handlers is quiet (QuietViols = {}).                        *)
(* MC_LeechProtoAlg.cfg (deviation "skiphave" accepted) passes;            *)
(* MC_LeechProtoAlg_strict.cfg (no deviation) is EXPECTED to fail          *)
(* X08.have.all: the counterexample is the directed scenario "peer has     *)
(* announced piece i, rain verifies i, no have(i) on that connection".     *)
(***************************************************************************)
EXTENDS LeechProto
CONSTANTS NP, PLEN, BSZ, FASTS, MINE0, DEV
VARIABLES pd,       \* piece of the running download, -1 = none
          pdaf,     \* ... started as an allowed-fast download
          stored,   \* blocks of pd that have arrived
          writing,  \* pieces being written / hashed
          av        \* violated obligations so far
avars == <<vars, pd, pdaf, stored, writing, av>>

Plen_21 == <<2, 1>>
Plen_11 == <<1, 1>>
Plen_1 == <<1>>
C1 == cs[1]

RECURSIVE SeqOf(_)
SeqOf(S) == IF S = {} THEN <<>> ELSE LET x == CHOOSE y \in S : TRUE IN <<x>> \o SeqOf(S \ {x})

ViolsOf(c, m, mn) ==
    (IF m.k = "first" THEN FirstViols(c, m.kind, m.set, mn, mn) ELSE OtherViols(c, mn))
    \cup (CASE m.k = "int" -> IntViols(c, m.want)
            [] m.k = "req" -> ReqViols(c, m.r, mn)
            [] m.k = "cancel" -> CancelViols(c, m.r)
            [] m.k = "have" -> HaveViols(c, m.i, mn)
            [] OTHER -> {})
UpdOf(c, m) ==
    CASE m.k = "first" -> UpdFirst(c, m.set)
      [] m.k = "int" -> UpdInt(c, m.want)
      [] m.k = "req" -> UpdReq(c, m.r)
      [] m.k = "cancel" -> UpdCancel(c, m.r)
      [] m.k = "have" -> UpdHave(c, m.i)

RECURSIVE Deliver(_, _, _, _)
Deliver(c, a, ms, mn) ==
    IF ms = <<>> THEN [c |-> c, a |-> a]
    ELSE Deliver(UpdOf(c, Head(ms)), a \cup ViolsOf(c, Head(ms), mn), Tail(ms), mn)

\* updateInterestedState
IntMsgs(c, mn) ==
    LET want == (mn # Pieces) /\ (c.pHave \ mn # {})
    IN  IF want # c.amInt THEN << [k |-> "int", want |-> want] >> ELSE <<>>
\* RequestBlocks (queue length is X04's subject: everything that is neither stored nor pending)
ReqMsgs(i, c, st) == SeqOf({[k |-> "req", r |-> r] : r \in Blocks(i) \ (st \cup c.out)})
CancelMsgs(c) == SeqOf({[k |-> "cancel", r |-> r] : r \in c.out})
\* PickFor: allowed-fast pieces first, anything else only while unchoked
Pick(c, mn, wr) ==
    LET afc == {i \in c.af \cap c.pHave : i \notin mn \cup wr}
    IN  IF afc # {} THEN {<<i, TRUE>> : i \in afc}
        ELSE IF c.chokd THEN {} ELSE {<<i, FALSE>> : i \in c.pHave \ (mn \cup wr)}

Keep(c, a) == cs' = [cs EXCEPT ![1] = c] /\ av' = a /\ UNCHANGED cfg
\* startPieceDownloaderFor with the download state (p, f, st) left by the handler so far
StartPD(c, a, mn, wr, p, f, st) ==
    IF p # -1 \/ mn = Pieces \/ Pick(c, mn, wr) = {}
    THEN Keep(c, a) /\ pd' = p /\ pdaf' = f /\ stored' = st
    ELSE \E x \in Pick(c, mn, wr) :
            LET d == Deliver(c, a, ReqMsgs(x[1], c, {}), mn)
            IN  Keep(d.c, d.a) /\ pd' = x[1] /\ pdaf' = x[2] /\ stored' = {}

AInit ==
    /\ \E m \in MINE0 : InitWith(I0(NP, PLEN, BSZ, {1}, DEV), m)
    /\ pd = -1 /\ pdaf = FALSE /\ stored = {} /\ writing = {} /\ av = {}

AConnect(f) ==
    /\ ~C1.open
    /\ LET kind == IF f /\ mine = Pieces THEN "haveall" ELSE IF f /\ mine = {} THEN "havenone" ELSE "bitfield"
           d == Deliver(NewConn(f), av, << [k |-> "first", kind |-> kind, set |-> mine] >>, mine)
       IN  Keep(d.c, d.a)
    /\ UNCHANGED <<mine, pd, pdaf, stored, writing>>
ADisconnect ==
    /\ C1.open /\ Keep(NoConn, av) /\ pd' = -1 /\ pdaf' = FALSE /\ stored' = {}
    /\ UNCHANGED <<mine, writing>>

APeerAnnounce(S) ==
    /\ C1.open /\ S # {} /\ ~(S \subseteq C1.pHave)
    /\ LET c1 == UpdAnnounce(C1, S)
           d == Deliver(c1, av, IntMsgs(c1, mine), mine)
       IN  StartPD(d.c, d.a, mine, writing, pd, pdaf, stored)
    /\ UNCHANGED <<mine, writing>>
APeerAF(i) ==
    /\ C1.open /\ C1.fast /\ i \notin C1.af /\ Keep(UpdAF(C1, i), av)
    /\ UNCHANGED <<mine, pd, pdaf, stored, writing>>
APeerUnchoke ==
    /\ C1.open /\ C1.chokd
    /\ LET c1 == UpdUnchoke(C1) IN
       IF pd = -1 THEN StartPD(c1, av, mine, writing, -1, FALSE, {})
       ELSE LET d == Deliver(c1, av, ReqMsgs(pd, c1, stored), mine)
            IN  Keep(d.c, d.a) /\ UNCHANGED <<pd, pdaf, stored>>
    /\ UNCHANGED <<mine, writing>>
APeerChoke ==
    /\ C1.open /\ ~C1.chokd /\ Keep(UpdChoke(C1), av)
    /\ UNCHANGED <<mine, pd, pdaf, stored, writing>>
APeerReject(r) ==
    /\ C1.open /\ C1.fast /\ r \in C1.out /\ Keep(UpdAnswer(C1, r), av)
    /\ UNCHANGED <<mine, pd, pdaf, stored, writing>>
APeerPiece(r) ==
    /\ C1.open /\ r \in C1.out /\ pd = r.i
    /\ LET c1 == UpdAnswer(C1, r)
           st == stored \cup {r}
       IN  IF st # Blocks(pd)
           THEN /\ IF pdaf \/ ~c1.chokd
                   THEN LET d == Deliver(c1, av, ReqMsgs(pd, c1, st), mine) IN Keep(d.c, d.a)
                   ELSE Keep(c1, av)
                /\ stored' = st /\ UNCHANGED <<pd, pdaf, writing>>
           ELSE /\ writing' = writing \cup {pd}
                /\ StartPD(c1, av, mine, writing \cup {pd}, -1, FALSE, {})
    /\ UNCHANGED mine

\* "Tell everyone that we have this piece": interest first, then have unless the peer has the piece
Tell(c, i, mn) == IntMsgs(c, mn) \o (IF i \in c.pHave THEN <<>> ELSE << [k |-> "have", i |-> i] >>)

AWriteDone(i) ==
    /\ i \in writing /\ writing' = writing \ {i} /\ mine' = mine \cup {i}
    /\ IF C1.open
       THEN LET d == Deliver(C1, av, Tell(C1, i, mine \cup {i}), mine \cup {i}) IN Keep(d.c, d.a)
       ELSE Keep(C1, av)
    /\ UNCHANGED <<pd, pdaf, stored>>

\* the piece is verified through another connection or a webseed
AElsewhere(i) ==
    /\ i \notin mine \cup writing /\ mine' = mine \cup {i}
    /\ LET mn == mine \cup {i} IN
       IF ~C1.open THEN Keep(C1, av) /\ UNCHANGED <<pd, pdaf, stored>>
       ELSE IF pd = i
            THEN LET d1 == Deliver(C1, av, CancelMsgs(C1), mn) IN
                 \E x \in (IF mn = Pieces \/ Pick(d1.c, mn, writing) = {} THEN {<<-1, FALSE>>} ELSE Pick(d1.c, mn, writing)) :
                    LET d2 == IF x[1] = -1 THEN d1 ELSE Deliver(d1.c, d1.a, ReqMsgs(x[1], d1.c, {}), mn)
                        d3 == Deliver(d2.c, d2.a, Tell(d2.c, i, mn), mn)
                    IN  Keep(d3.c, d3.a) /\ pd' = x[1] /\ pdaf' = x[2] /\ stored' = {}
            ELSE LET d == Deliver(C1, av, Tell(C1, i, mn), mn) IN Keep(d.c, d.a) /\ UNCHANGED <<pd, pdaf, stored>>
    /\ UNCHANGED writing

ANext ==
    \/ \E f \in FASTS : AConnect(f)
    \/ ADisconnect
    \/ \E S \in SUBSET Pieces : APeerAnnounce(S)
    \/ \E i \in Pieces : APeerAF(i) \/ AWriteDone(i) \/ AElsewhere(i)
    \/ APeerUnchoke \/ APeerChoke
    \/ \E r \in AllReqs : APeerReject(r) \/ APeerPiece(r)
ASpec == AInit /\ [][ANext]_avars

AInvConf == av = {}
AInvQuiet == C1.open => QuietViols(C1, mine, mine) = {}
AInvGlobal == InvOutAnnounced /\ InvOutChoke /\ InvAnncTruth /\ InvFirst
=============================================================================
