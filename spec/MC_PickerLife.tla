--------------------------- MODULE MC_PickerLife ---------------------------
(***************************************************************************)
(* Life-cycle configurations of Picker (round 3).                          *)
(*                                                                         *)
(* MC_Picker explores every interleaving of the single calls over 3 pieces *)
(* and 2 peers; in those configurations two obligations of C09 hardly      *)
(* bind: with 2 peers and limit 2 the end-game limit (C09.d) can never be  *)
(* exceeded, and with one piece between the file edges "lowest eligible    *)
(* index" (C09.g) has no alternative to choose from.  Here the calls are   *)
(* grouped the way the torrent loop issues them during two phases of a     *)
(* download, which keeps the state space small enough for more peers than  *)
(* the limit and for several pieces between the file edges:                *)
(*                                                                         *)
(*  stream  : peers join with a (nearly) full bitfield, deliver pieces,    *)
(*            are asked for the next piece while the delivered one is      *)
(*            hashed and written, writes FAIL (piece re-opened, peer       *)
(*            dropped), replacement peers join;                            *)
(*  endgame : every peer announces the SAME allowed-fast set AFS (peers    *)
(*            derive it from our address), some peers keep choking, more   *)
(*            peers than the end-game limit.                               *)
(*                                                                         *)
(* Two history variables name the situations:                              *)
(*   failed = pieces whose write failed at least once,                     *)
(*   eg     = a state has been seen in which every missing piece was       *)
(*            requested (the end-game condition).                          *)
(* The Wit* predicates describe the states in which C09.g / C09.d bind in  *)
(* these situations; the *_wit configs assert their negation and MUST be   *)
(* violated (props/c09.py requires it) -- otherwise the configuration      *)
(* would be vacuous for the class.                                         *)
(***************************************************************************)
EXTENDS MC_Picker
CONSTANTS AFS,     \* the allowed-fast set every peer announces
          HAVES    \* bitfields a joining peer may announce (set of sets of pieces)

VARIABLES failed, eg
lvars == <<vars, failed, eg>>

MissingP == {p \in Piece : ~done[p]}
\* every missing piece is being written or requested from somebody: nothing is left for rarest-first / in-order picking
EndGameCond == MissingP # {} /\ \A p \in MissingP : writing[p] \/ requested[p] # {}

LifeInit == MCInit /\ failed = {} /\ eg = FALSE

\* handshake + bitfield + allowed-fast messages of one peer, in one step
Join(pe, H) ==
    /\ ~conn[pe]
    /\ conn' = [conn EXCEPT ![pe] = TRUE]
    /\ choking' = [choking EXCEPT ![pe] = TRUE]
    /\ af' = [af EXCEPT ![pe] = AFS]
    /\ having' = [p \in Piece |-> IF p \in H THEN having[p] \cup {pe} ELSE having[p]]
    /\ UNCHANGED <<cfg, done, writing, requested, ws, dl, dlaf, src, wr>>

LifeStep ==
    \/ \E pe \in Peer, H \in HAVES : Join(pe, H)
    \/ \E pe \in Peer : Choke(pe) \/ Unchoke(pe) \/ CancelDownload(pe) \/ Disconnect(pe) \/ PieceComplete(pe)
    \/ \E pe \in Peer, r \in Piece \cup {None}, a \in BOOLEAN : Pick(pe, r, a)
    \/ WriteOK \/ WriteBad

LifeNext ==
    /\ LifeStep
    /\ failed' = IF wr # NoWrite /\ wr' = NoWrite /\ ~done'[wr.p] THEN failed \cup {wr.p} ELSE failed
    /\ eg' = (eg \/ EndGameCond')

LifeSpec == LifeInit /\ [][LifeNext]_lvars

LifeView == <<MCView, failed, eg>>

-----------------------------------------------------------------------------
\* C09.g binds on a re-opened piece: an idle unchoking peer could be given the re-opened piece p or a later piece q
WitReopen ==
    \E pe \in Peer, p \in failed, q \in Piece :
        /\ cfg.seq /\ p < q /\ conn[pe] /\ ~choking[pe] /\ dl[pe] = None
        /\ {p, q} \subseteq Eligible(pe)
        /\ Eligible(pe) \cap cfg.edge = {} /\ Eligible(pe) \cap af[pe] = {}
        /\ \A x \in 0 .. (p - 1) : done[x]
        /\ \E y \in Piece : y > q /\ requested[y] # {}           \* the download has moved on beyond p
NoWitReopen == ~WitReopen

\* C09.d binds on an allowed-fast candidate in the end game: the piece is at the limit and one more idle peer holds it as allowed-fast
WitEndgameAF ==
    \E pe \in Peer, p \in Piece :
        /\ eg /\ ~done[p] /\ ~writing[p]
        /\ Cardinality(requested[p]) = Lim /\ pe \notin requested[p]
        /\ conn[pe] /\ dl[pe] = None /\ pe \in having[p] /\ p \in af[pe]
NoWitEndgameAF == ~WitEndgameAF
=============================================================================
