SPECIFICATION Spec
CONSTANTS
  NB = 5
  REQQ = 4
  DEFOUT = 1
  MAXOUT = 50
  FAST = FALSE
  STRICT = TRUE
  REQUEUE = FALSE
  HOSTILE = FALSE
  GUARD = FALSE
INVARIANT PipelineBound
INVARIANT WireBound
INVARIANT NoDoubleOpen
CONSTRAINT Small
CHECK_DEADLOCK FALSE
