SPECIFICATION Spec
CONSTANTS
  NB = 5
  REQQ = 4
  DEFOUT = 1
  MAXOUT = 50
  FAST = FALSE
  STRICT = TRUE
INVARIANT PipelineBound
INVARIANT Partition
CHECK_DEADLOCK FALSE
