SPECIFICATION GSSpec
CONSTANTS
  BITS = 4
  CAP = 2
  ASIS = FALSE
  K = 8
  ALPHA = "narrow"
INVARIANT GSPrint
CHECK_DEADLOCK FALSE
