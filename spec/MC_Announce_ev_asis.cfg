SPECIFICATION MCSpec
CONSTANTS
  NT = 1
  NM = 1
  UDP = FALSE
  CMIN = 2
  BO = 3
  IVALS <- IvFull
  ASIS = {"gap"}
  CIDS = {0}
  ENV = {"need", "complete", "flip", "expire", "stop"}
INVARIANT Inv
PROPERTY Live
CHECK_DEADLOCK FALSE
