SPECIFICATION MCSpec
CONSTANTS
  NT = 2
  NM = 1
  UDP = TRUE
  CMIN = 2
  BO = 3
  IVALS <- IvOne
  ASIS = {"connkeep"}
  CIDS = {0}
  ENV = {"stop", "dupconn"}
INVARIANT Inv
PROPERTY Live
CHECK_DEADLOCK FALSE
