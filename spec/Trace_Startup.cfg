SPECIFICATION TraceSpec
CONSTANT FixNames = {}
CONSTRAINT HighWater
INVARIANT NoViolation
POSTCONDITION TraceAccepted
CHECK_DEADLOCK FALSE
