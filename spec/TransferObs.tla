----------------------------- MODULE TransferObs -----------------------------
(***************************************************************************)
(* Observable state of a downloading torrent and the obligations of        *)
(* property C01 (and the completion clause of C10 / C04.L2) phrased on it. *)
(* Extended by Transfer.tla (design: adds the internal download/write      *)
(* machinery and lets TLC prove the obligations for every interleaving)    *)
(* and by Trace_Transfer.tla (judges traces recorded from the real code).  *)
(***************************************************************************)
EXTENDS Integers, FiniteSets, Sequences, TLC

VARIABLES np,        \* number of pieces
          good,      \* SUBSET Piece: pieces whose complete, correct content is in storage (ground truth)
          have,      \* SUBSET Piece: pieces the client counts as downloaded (bitfield / Done flags)
          reported,  \* SUBSET Piece: pieces announced to any peer (have / bitfield / have-all) or in stats / resume data
          banned,    \* set of peer addresses banned for corrupt data
          conn       \* set of peer addresses connected or handshaking

obsvars == <<np, good, have, reported, banned, conn>>

Piece == 0 .. (np - 1)

\* @obligation C01.b  a piece is counted as downloaded only when its verified content is in storage
HaveVerified == have \subseteq good
\* @obligation C01.c  only such pieces are reported (peers, stats, resume data)
ReportedVerified == reported \subseteq good
\* @obligation C01.e  a peer that supplied a piece failing the hash check is not connected (again)
BannedNotConnected == banned \cap conn = {}

ObsInv == HaveVerified /\ ReportedVerified /\ BannedNotConnected
=============================================================================
