----------------------------- MODULE Trace_Paths -----------------------------
(***************************************************************************)
(* Trace specification for C07: judges what harness/c07 recorded from the  *)
(* REAL code against the JUDGE layer of Paths.tla.                         *)
(*                                                                         *)
(*   Init   one run of one concretised torrent (or tar stream):            *)
(*          run = rec  (metainfo.NewInfo -> allocator -> recording storage)*)
(*                fs   (same with the real filestorage in a sandbox)       *)
(*                sess (Session.AddTorrent + Start + RemoveTorrent)        *)
(*                tar  (readData on a generated archive)                   *)
(*          withid = 1: own directory = data directory / torrent id        *)
(*   Open   a name passed to Storage.Open, split at the OS separator;      *)
(*          every component re-symbolised (s) and given the identity (id)  *)
(*          of its concrete string; out = the driver's own verdict from    *)
(*          filepath.Rel on the cleaned absolute path                      *)
(*   Fs     a file that appeared (created), a sentinel that disappeared    *)
(*          (gone) or whose content changed (modified: truncated / written *)
(*          through a link) in the sandbox tree, as a path relative to the *)
(*          data directory; the tree is walked WITHOUT following links, so *)
(*          the paths are physical locations (archives with link entries) *)
(* A failed obligation does not block the step; its tag is stored in viol  *)
(* and printed ("@@V <line> <tag>") so that one TLC run reports all        *)
(* violating lines.  Tag "M.*" = driver and spec disagree on a resolution  *)
(* (machinery error, never a verdict).                                     *)
(***************************************************************************)
EXTENDS Paths, Json

VARIABLES l, viol, own, opened
tvars == <<l, viol, own, opened>>

Trace == ndJsonDeserialize("trace.ndjson")
Ev == Trace[l]
UT == <<-1, -2, -3>>

TraceInit == l = 1 /\ viol = "" /\ own = RootOf(UT) /\ opened = {} /\ TLCSet(1, 1)

Report(v) == v # "" => PrintT("@@V " \o ToString(l) \o " " \o v)

TrInit ==
    /\ Ev.op = "Init"
    /\ Ev.withid \in {0, 1}
    /\ own' = OwnOf(UT, Ev.withid)
    /\ opened' = {}
    /\ viol' = ""
    /\ l' = l + 1

\* @obligation C07.confined  @obligation C07.distinct
TrOpen ==
    /\ Ev.op = "Open"
    /\ LET r == Res(own, Ev.path)
           conf == Confined(own, Ev.path)
           v == IF Ev.out # (IF conf THEN 0 ELSE 1) THEN "M.resolve-mismatch"
                ELSE IF ~conf THEN "C07.confined"
                ELSE IF \E o \in opened : o.file # Ev.file /\ o.r = r THEN "C07.distinct"
                ELSE ""
       IN /\ viol' = v /\ Report(v)
          /\ opened' = opened \cup {[file |-> Ev.file, r |-> r]}
    /\ l' = l + 1 /\ UNCHANGED own

\* @obligation C07.created  @obligation C07.remove  @obligation C07.modified
TrFs ==
    /\ Ev.op = "Fs"
    /\ Ev.kind \in {"created", "gone", "modified"}
    /\ LET r == Res(RootOf(UT), Ev.path)
           inside == IsPrefix(own, r) /\ Len(r) > Len(own)
           v == IF Ev.out # (IF inside THEN 0 ELSE 1) THEN "M.resolve-mismatch"
                ELSE IF Ev.kind = "created" /\ ~inside THEN "C07.created"
                ELSE IF Ev.kind = "gone" /\ Outside(own, r) THEN "C07.remove"
                ELSE IF Ev.kind = "modified" /\ Outside(own, r) THEN "C07.modified"
                ELSE ""
       IN viol' = v /\ Report(v)
    /\ l' = l + 1 /\ UNCHANGED <<own, opened>>

TrPanic == Ev.op = "Panic" /\ viol' = "C07.panic" /\ Report("C07.panic") /\ l' = l + 1 /\ UNCHANGED <<own, opened>>

TraceNext == l <= Len(Trace) /\ (TrInit \/ TrOpen \/ TrFs \/ TrPanic)
TraceSpec == TraceInit /\ [][TraceNext]_tvars

HighWater == TLCSet(1, IF l > TLCGet(1) THEN l ELSE TLCGet(1))
NoViolation == viol = ""
TraceAccepted ==
    LET hw == TLCGet(1) IN
    IF hw = Len(Trace) + 1 THEN TRUE
    ELSE /\ PrintT("@@REJECT " \o ToString(hw - 1) \o " " \o ToString(Len(Trace)))
         /\ FALSE
=============================================================================
