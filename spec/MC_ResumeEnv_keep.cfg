SPECIFICATION MCSpec
CONSTANTS
  NP = 2
  NF = 2
  FO <- Geo2x2
  DESIGN = "safe"
  ONFOREIGN = "refuse"
  READD = "keep"
INVARIANT Inv
CHECK_DEADLOCK FALSE
