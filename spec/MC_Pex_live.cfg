SPECIFICATION LiveSpec
CONSTANTS
  ADDRS = {1, 2, 3}
  SELF = 9
  LL = 1
  BUDGET = 4
  VARIANT = "fixed"
  IGNORE = {}
INVARIANT TypeOK
CHECK_DEADLOCK FALSE
PROPERTY EventuallyExact
