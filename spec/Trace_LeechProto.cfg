SPECIFICATION TraceSpec
CONSTRAINT HighWater
POSTCONDITION TraceAccepted
CHECK_DEADLOCK FALSE
