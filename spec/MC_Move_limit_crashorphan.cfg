SPECIFICATION MCSpec
CONSTANTS
  U = 2
  RANGE = {1, 2}
  FIX = {"restart", "flush", "cleanup", "reserve", "self", "walk"}
  MAXF = 1
  FAULTS = {"crash"}
  BINITS = {"empty"}
  RUNS = {TRUE, FALSE}
  DIRTYS = {TRUE, FALSE}
  DSTS = {"B"}
  FINAL = TRUE
INVARIANT TypeOK
INVARIANT NoOrphanDataEvenAfterCrash
CHECK_DEADLOCK FALSE
