SPECIFICATION Spec
CONSTANTS
  TorrentSeq <- T2
  NClients = 1
  Choices <- ChoicesAll
  BgSeq <- BgAll
  Fixed = {"StartAll", "StopAll", "resolveAndAddPeer", "moveTorrent", "reserveID", "cleanLive", "compactLocks", "dhtDropOnStop"}
  Budget = 1
  Allowed <- AnyPick
INVARIANT TypeOK
INVARIANT NoLockup
CHECK_DEADLOCK FALSE
