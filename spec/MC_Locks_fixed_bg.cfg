SPECIFICATION Spec
CONSTANTS
  TorrentSeq <- T1
  NClients = 1
  Choices <- ChoicesAll1
  BgSeq <- BgAll
  Fixed = {"StartAll", "StopAll", "resolveAndAddPeer", "moveTorrent", "reserveID", "cleanLive", "cleanReset", "compactLocks", "dhtDropOnStop"}
  Budget = 1
  Unbuffered = {}
  SrcOver <- NoOver
  Allowed <- AnyPick
INVARIANT TypeOK
INVARIANT NoLockup
CHECK_DEADLOCK FALSE
