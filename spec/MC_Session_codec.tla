-------------------------- MODULE MC_Session_codec --------------------------
(***************************************************************************)
(* Generator for the resumer field codec (C14.codec): TLC enumerates the   *)
(* tuples of value CLASSES of a resume record in which at most two fields  *)
(* leave their default class; harness/c14 (sub-command codec) materialises *)
(* each class (nil / empty / nested / unicode / invalid UTF-8 slices, zero *)
(* and maximal counters, times with sub-second parts and zone offsets,     *)
(* bitfields of 0 / 1 / 9 bits, versions 0..3, boundary ports) and checks  *)
(* Write -> Read, every partial writer, and the JSON form.                 *)
(* Trace_Session judges the reported differences.                          *)
(***************************************************************************)
EXTENDS Integers, FiniteSets, Sequences, TLC, Json

\* number of classes per field (must match the tables in harness/c14/codec.go)
Card == [trk |-> 7, url |-> 5, fp |-> 5, name |-> 4, info |-> 3, bf |-> 4, at |-> 5, dl |-> 4, ul |-> 4, wa |-> 4,
         sf |-> 5, ver |-> 4, port |-> 4, st |-> 2, sad |-> 2, sam |-> 2, ccr |-> 2, sq |-> 2]
Fields == DOMAIN Card
Bools  == {"st", "sad", "sam", "ccr", "sq"}
Base   == [f \in Fields |-> 0]

Pairs == {[[Base EXCEPT ![f1] = v1] EXCEPT ![f2] = v2] :
             <<f1, v1, f2, v2>> \in {q \in Fields \X (0 .. 6) \X Fields \X (0 .. 6) : q[2] < Card[q[1]] /\ q[4] < Card[q[3]]}}

ToCase(c) == [f \in Fields |-> IF f \in Bools THEN c[f] = 1 ELSE c[f]]

VARIABLE c
Init == c \in Pairs /\ PrintT("@@" \o ToJson(ToCase(c)))
Next == UNCHANGED c
Spec == Init /\ [][Next]_c
=============================================================================
