SPECIFICATION LifeSpec
CONSTANTS
  NP = 4
  NPEERS = 2
  NSRC = 0
  LIMIT = 1
  SEQ = TRUE
  EDGE = {0, 3}
  AFP = {}
  AFS = {}
  HAVES = {{0, 1, 2, 3}}
INVARIANT NoWitReopen
VIEW LifeView
CHECK_DEADLOCK FALSE
