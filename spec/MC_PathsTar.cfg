SPECIFICATION MCSpec
CONSTANTS
  VARIANT = "flat"
  BIG = FALSE
INVARIANT TarComplete
CHECK_DEADLOCK FALSE
