---------------------------- MODULE Trace_Picker ----------------------------
(***************************************************************************)
(* Trace specification: judges ndjson traces recorded from the REAL        *)
(* piecepicker (harness/c09) against Picker.tla.                           *)
(*                                                                         *)
(* One trace-spec action per recorded call.  The shadow state is evolved   *)
(* by the Picker actions from the call's arguments and result only; the    *)
(* picker's exported view (Available, RequestedPeers, RequestedWebseed-    *)
(* Source, downloader ranges) logged after every call is compared with it. *)
(* A failed obligation does not block the step: its tag is stored in       *)
(* `viol` and the invariant NoViolation reports it together with the       *)
(* position l in the trace (so the rest of the file can still be judged    *)
(* after removing that trace).                                             *)
(* Several traces are concatenated; an "Init" line resets the state.       *)
(***************************************************************************)
EXTENDS Picker, Json

VARIABLES l, viol
tvars == <<vars, l, viol>>

Trace == ndJsonDeserialize("trace.ndjson")
Ev == Trace[l]
SetOf(q) == {q[i] : i \in 1 .. Len(q)}

CfgOf(e) == [np |-> e.np, npeers |-> e.npeers, nsrc |-> e.nsrc, limit |-> e.limit, seq |-> e.seq, edge |-> SetOf(e.edge), have0 |-> SetOf(e.have0)]

TraceInit ==
    /\ l = 2 /\ viol = ""
    /\ Trace[1].op = "Init"
    /\ InitWith(CfgOf(Trace[1]))
    /\ TLCSet(1, 1)

\* @obligation C09.f  Available() = number of pieces held by at least one connected peer
\* @obligation C09.view  RequestedPeers / RequestedWebseedSource / ranges agree with the history
ViewViol(e, hv, rq, w, sr) ==
    IF e.avail # Cardinality({p \in Piece : hv[p] # {}}) THEN "C09.f"
    ELSE IF \E p \in Piece : SetOf(e.req[p + 1]) # rq[p] THEN "C09.view.requested"
    ELSE IF \E p \in Piece : e.wsown[p + 1] # w[p] THEN "C09.e.owner"
    ELSE IF \E s \in Src : e.srcs[s] # sr[s] THEN "C09.e.range"
    ELSE ""

Step(v) ==
    /\ l' = l + 1
    /\ viol' = IF v # "" THEN v ELSE ViewViol(Ev, having', requested', ws', src')

TrReset   == Ev.op = "Init" /\ ResetWith(CfgOf(Ev)) /\ l' = l + 1 /\ viol' = ""
TrConnect == Ev.op = "Connect" /\ Connect(Ev.pe) /\ Step("")
TrHave    == Ev.op = "Have" /\ Have(Ev.pe, Ev.p) /\ Step("")
TrAF      == Ev.op = "AllowedFast" /\ AllowedFast(Ev.pe, Ev.p) /\ Step("")
TrChoke   == Ev.op = "Choke" /\ Choke(Ev.pe) /\ Step("")
TrUnchoke == Ev.op = "Unchoke" /\ Unchoke(Ev.pe) /\ Step("")
TrSnub    == Ev.op = "Snub" /\ Snub(Ev.pe) /\ Step("")
TrCancel  == Ev.op = "CancelDownload" /\ CancelDownload(Ev.pe) /\ Step("")
TrDisc    == Ev.op = "Disconnect" /\ Disconnect(Ev.pe) /\ Step("")
TrComplete == Ev.op = "PieceComplete" /\ PieceComplete(Ev.pe) /\ Step("")
TrWriteOK == Ev.op = "WriteOK" /\ WriteOK /\ Step("")
TrWriteBad == Ev.op = "WriteBad" /\ WriteBad /\ Step("")
TrWsPiece == Ev.op = "WebseedPiece" /\ WebseedPiece(Ev.s) /\ Step("")
TrWsClose == Ev.op = "CloseWebseed" /\ CloseWebseed(Ev.s) /\ Step("")

TrPick ==
    /\ Ev.op = "Pick"
    /\ conn[Ev.pe]
    /\ LET v == PickViol(Ev.pe, Ev.r, Ev.afr)
           r == IF Ev.r \in Piece THEN Ev.r ELSE None
           \* the code cut a web seed's range at r iff the owner mark of r disappeared
           steal == r # None /\ ws[r] # 0 /\ Ev.wsown[r + 1] = 0
       IN /\ PickUpdate(Ev.pe, r, Ev.afr, steal)
          /\ Step(v)

TrStartWs ==
    /\ Ev.op = "StartWebseed"
    /\ ~src[Ev.s].active
    /\ LET v == StartWebseedViol(Ev.s, Ev.b, Ev.e)
       IN /\ IF v = "" THEN StartWebseedUpdate(Ev.s, Ev.b, Ev.e) ELSE UNCHANGED vars
          /\ Step(v)

TrPanic == Ev.op = "Panic" /\ UNCHANGED vars /\ l' = l + 1 /\ viol' = "C09.panic"

TraceNext ==
    /\ l <= Len(Trace)
    /\ \/ TrReset \/ TrConnect \/ TrHave \/ TrAF \/ TrChoke \/ TrUnchoke \/ TrSnub \/ TrCancel \/ TrDisc
       \/ TrComplete \/ TrWriteOK \/ TrWriteBad \/ TrWsPiece \/ TrWsClose \/ TrPick \/ TrStartWs \/ TrPanic

TraceSpec == TraceInit /\ [][TraceNext]_tvars

HighWater == TLCSet(1, IF l > TLCGet(1) THEN l ELSE TLCGet(1))
NoViolation == viol = ""
TraceAccepted ==
    LET hw == TLCGet(1) IN
    IF hw = Len(Trace) + 1 THEN TRUE
    ELSE /\ PrintT("@@REJECT " \o ToString(hw - 1) \o " " \o ToString(Len(Trace)))
         /\ FALSE
=============================================================================
