SPECIFICATION MCSpec
CONSTANTS
  NPEERS = 4
  NN = 2
  MM = 1
  RMAX = 1
  VICTIM = 0
INVARIANT Inv
CHECK_DEADLOCK FALSE
