--------------------------- MODULE Trace_PeerInput ---------------------------
(***************************************************************************)
(* Trace specification: judges ndjson traces recorded by harness/c08 from  *)
(* the REAL code against PeerInput.tla.                                    *)
(*                                                                         *)
(* Session level (real torrent.Session in a child process):                *)
(*   Init   scenario start: torrent state, pieces, attackers               *)
(*   Msg    attacker pe wrote one message of class cls to its socket       *)
(*   Stop   Torrent.Stop() was called (all peers are closed by design)     *)
(*   Timer  request-timeout timer of attacker pe:  what = "fire" (the      *)
(*          driver made sure the timer has been armed: rain has sent a     *)
(*          request), "snub" (the timer event was handed to the loop, ok =  *)
(*          1 taken, 0 peer already gone), "wait" / "at" (real time: the   *)
(*          attacker stayed silent until RequestTimeout -+ delta)          *)
(*   Disc   attacker pe closed its socket                                  *)
(*   Obs    observation of attacker pe: alive (socket not closed by rain), *)
(*          listed (rain still lists the address), pong (answer to the     *)
(*          barrier ping: 1 yes, 0 closed, -1 silent, -2 no ping sent)     *)
(*   Advance the gates were released and the torrent reached Downloading   *)
(*          (queued messages have been replayed)                           *)
(*   Loop   Stats() answered within the watchdog; zombie = piece downloads *)
(*          owned by peers rain has already closed; running                *)
(*   Honest the honest peer's transfer completed with the right bytes      *)
(*   Mem    bytes allocated by the client process during the scenario      *)
(*   Reconn after Stop + Start: the address that was in its handshake at   *)
(*          Stop can connect again                                         *)
(*   Proc   the child process crashed / its torrent loop hung              *)
(* Reader level (real peerreader over net.Pipe):                           *)
(*   RInit / RFeed (class written) / RGot (message delivered) / REnd       *)
(*   RAlloc  TotalAlloc delta around ONE frame                             *)
(*                                                                         *)
(* The shadow state follows the design actions; results the property does  *)
(* not fix (drop or handle of a malformed message) are taken from the      *)
(* observation.  A failed obligation does not block the step: its tag is   *)
(* put into `viol` for that step and collected (register 2) so that one    *)
(* TLC run judges every scenario of the file; lib side reads the @@VIOL    *)
(* lines.  Non-enabledness = driver/spec mismatch (never a verdict).       *)
(***************************************************************************)
EXTENDS PeerInput, Json

VARIABLES l, viol,
          exp,     \* reader level: deliveries still owed for the well-formed frames fed so far
          rmode    \* reader level: "sync" | "dropped" | "any"
tvars == <<vars, l, viol, exp, rmode>>

Trace == ndJsonDeserialize("trace.ndjson")
Ev == Trace[l]

CfgOf(e) == [n |-> e.n, npe |-> e.npe, maxmsg |-> e.maxmsg, asis |-> FALSE, guard |-> TRUE, afpark |-> FALSE]
RCfgOf(e) == [n |-> e.n, npe |-> 1, maxmsg |-> e.maxmsg, asis |-> FALSE, guard |-> TRUE, afpark |-> FALSE]

Nxt(v) == l' = l + 1 /\ viol' = v
KeepR == UNCHANGED <<exp, rmode>>

TraceInit ==
    /\ l = 1 /\ viol = "" /\ exp = << >> /\ rmode = "sync"
    /\ InitWith([n |-> 1, npe |-> 1, maxmsg |-> 65536, asis |-> FALSE, guard |-> TRUE, afpark |-> FALSE], "down")
    /\ TLCSet(1, 1) /\ TLCSet(2, << >>)

-----------------------------------------------------------------------------
(* session level                                                            *)

TrInit ==
    /\ Ev.op = "Init"
    /\ ResetWith(CfgOf(Ev), Ev.st)
    /\ exp' = << >> /\ rmode' = "sync"
    /\ Nxt("")

\* the attacker wrote the message; whether rain handled it or dropped the peer is seen at the next Obs
TrMsg ==
    /\ Ev.op = "Msg" /\ Ev.pe \in Peers
    /\ LET p == Ev.pe  c == Ev.cls  pr == peer[p]
           r == IF NoInfo(ts) /\ c \in Queueable /\ RV(c) = "deliver" THEN "queued" ELSE "handled"
       IN peer' = [peer EXCEPT ![p] =
                     IF pr.st # "open" \/ ts \in {"stopping", "stopped"} THEN pr
                     ELSE IF ~pr.sync THEN [pr EXCEPT !.clean = FALSE]
                     ELSE After(pr, ts, c, r)]
    /\ UNCHANGED <<cfg, ts, loop, zomb>> /\ Step("recv", Ev.pe, Ev.cls, "none", 0, FALSE)
    /\ KeepR /\ Nxt("")

\* environment events around the request-timeout timer; no obligation of its own - the crash / hang / honest /
\* drop-or-handle obligations judge what follows
TrTimer ==
    /\ Ev.op = "Timer" /\ Ev.pe \in Peers
    /\ peer' = [peer EXCEPT ![Ev.pe].tm = CASE Ev.what = "fire" -> "fired" [] OTHER -> "off"]
    /\ UNCHANGED <<cfg, ts, loop, zomb>> /\ Step(Ev.what, Ev.pe, "", "none", 0, FALSE)
    /\ KeepR /\ Nxt("")

\* the attacker went away: rain must forget it (seen at the next Obs: alive = listed = 0)
TrDisc ==
    /\ Ev.op = "Disc" /\ Ev.pe \in Peers
    /\ peer' = [peer EXCEPT ![Ev.pe] = Gone]
    /\ UNCHANGED <<cfg, ts, loop, zomb>> /\ Step("disconnect", Ev.pe, "", "none", 0, FALSE)
    /\ KeepR /\ Nxt("")

TrStop ==
    /\ Ev.op = "Stop"
    /\ Stop
    /\ KeepR /\ Nxt("")

\* @obligation C08.dropOrHandle
\*   zombie        rain closed the socket but still lists the peer, or forgot the peer and kept the socket
\*   benign        a peer that sent only well-formed, in-range, legal messages was dropped
\*   unresponsive  such a peer is connected but the loop no longer answers it
\*   stop          a peer survived Torrent.Stop
ObsViol(pr, e) ==
    IF e.alive # e.listed THEN "C08.dropOrHandle/zombie-peer"
    ELSE IF pr.st = "closed" /\ e.alive = 1 THEN "C08.dropOrHandle/alive-after-close"
    ELSE IF pr.st = "open" /\ pr.clean /\ pr.sync /\ e.alive = 0 THEN "C08.dropOrHandle/benign-dropped"
    ELSE IF pr.st = "open" /\ pr.clean /\ pr.sync /\ e.pong = -1 THEN "C08.dropOrHandle/unresponsive"
    ELSE ""

TrObs ==
    /\ Ev.op = "Obs" /\ Ev.pe \in Peers
    /\ LET p == Ev.pe IN
       /\ peer' = [peer EXCEPT ![p] = IF Ev.alive = 0 THEN Gone ELSE @]
       /\ Nxt(ObsViol(peer[p], Ev))
    /\ UNCHANGED <<cfg, ts, loop, zomb>> /\ Step("obs", Ev.pe, "", "none", 0, FALSE)
    /\ KeepR

\* gates released: pieces and bitfield are ready, the queues have been replayed (or: restarted after a stop)
TrAdvance ==
    /\ Ev.op = "Advance"
    /\ ts' = Ev.to
    /\ peer' = [p \in Peers |-> [peer[p] EXCEPT !.q = << >>]]
    /\ UNCHANGED <<cfg, loop, zomb>> /\ Step("ready", 0, Ev.to, "none", 0, FALSE)
    /\ KeepR /\ Nxt("")

\* @obligation C08.hang    the loop answers
\* @obligation C08.dropOrHandle/zombie-download  no piece download is owned by a peer that is gone
\* @obligation C08.honest/torrent-stopped  peer input never stops the torrent
TrLoop ==
    /\ Ev.op = "Loop"
    /\ UNCHANGED vars /\ KeepR
    /\ Nxt(IF Ev.ok = 0 THEN "C08.hang"
           ELSE IF Ev.zombie > 0 THEN "C08.dropOrHandle/zombie-download"
           ELSE IF Ev.running = 0 /\ ts \notin {"stopping", "stopped"} THEN "C08.honest/torrent-stopped"
           ELSE "")

\* @obligation C08.honest  the honest peer's transfer, started before the attack, completes
TrHonest ==
    /\ Ev.op = "Honest"
    /\ UNCHANGED vars /\ KeepR
    /\ Nxt(IF Ev.ok = 1 THEN "" ELSE "C08.honest/transfer")

\* @obligation C08.dropOrHandle/ip-blocked-after-stop  an address whose connection was still in its handshake when the
\* torrent was stopped is dropped for good: after the restart it can connect again
TrReconn ==
    /\ Ev.op = "Reconn"
    /\ UNCHANGED vars /\ KeepR
    /\ Nxt(IF Ev.ok = 1 THEN "" ELSE "C08.dropOrHandle/ip-blocked-after-stop")

\* @obligation C08.alloc/session  bytes allocated by the whole client during one scenario (<= 10 messages, torrent of
\* ~380 KiB, max message size 64 KiB) stay far below anything a length / size field of a message could ask for
SessionAllocBound == 33554432
TrMem ==
    /\ Ev.op = "Mem"
    /\ UNCHANGED vars /\ KeepR
    /\ Nxt(IF Ev.delta > SessionAllocBound THEN "C08.alloc/session" ELSE "")

\* @obligation C08.crash / C08.hang  (child process died / its loop is blocked for ever)
TrProc ==
    /\ Ev.op = "Proc"
    /\ UNCHANGED vars /\ KeepR
    /\ Nxt(IF Ev.what = "crash" THEN "C08.crash" ELSE "C08.hang")

-----------------------------------------------------------------------------
(* reader level                                                             *)

TrRInit ==
    /\ Ev.op = "RInit"
    /\ ResetWith(RCfgOf(Ev), "down")
    /\ exp' = << >> /\ rmode' = "sync"
    /\ Nxt("")

TrRFeed ==
    /\ Ev.op = "RFeed"
    /\ LET c == Ev.cls IN
       IF rmode # "sync" THEN UNCHANGED <<exp, rmode>>
       ELSE CASE RV(c) = "deliver" -> exp' = exp \o Exp(c) /\ UNCHANGED rmode
              [] RV(c) = "skip" -> UNCHANGED <<exp, rmode>>
              [] RV(c) = "drop" -> rmode' = "dropped" /\ UNCHANGED exp
              [] OTHER -> rmode' = "any" /\ UNCHANGED exp
    /\ UNCHANGED vars /\ Nxt("")

\* @obligation C08.reader  well-formed frames are delivered exactly, in order; nothing else is delivered
\*                         while the framing is intact; nothing after an oversized frame
TrRGot ==
    /\ Ev.op = "RGot"
    /\ IF exp # << >>
       THEN /\ exp' = Tail(exp)
            /\ Nxt(IF Match(Head(exp), Ev) THEN "" ELSE "C08.dropOrHandle/reader-misdelivery")
       ELSE /\ UNCHANGED exp
            /\ Nxt(IF rmode = "any" THEN "" ELSE "C08.dropOrHandle/reader-spurious")
    /\ UNCHANGED <<vars, rmode>>

TrREnd ==
    /\ Ev.op = "REnd"
    /\ UNCHANGED <<vars, exp, rmode>>
    /\ Nxt(IF Ev.panic = 1 THEN "C08.crash"
           ELSE IF exp # << >> THEN "C08.dropOrHandle/reader-lost"
           ELSE IF rmode = "sync" /\ (Ev.st # "open" \/ Ev.sentinel # 1) THEN "C08.dropOrHandle/reader-benign-dropped"
           ELSE "")

\* @obligation C08.alloc  one frame never makes the reader allocate more than max message size + slack
TrRAlloc ==
    /\ Ev.op = "RAlloc"
    /\ UNCHANGED <<vars, exp, rmode>>
    /\ Nxt(IF Ev.panic = 1 THEN "C08.crash"
           ELSE IF Ev.delta > Ev.maxmsg + Slack THEN "C08.alloc"
           ELSE "")

TraceNext ==
    /\ l <= Len(Trace)
    /\ \/ TrInit \/ TrMsg \/ TrTimer \/ TrDisc \/ TrStop \/ TrObs \/ TrAdvance \/ TrLoop \/ TrHonest \/ TrProc \/ TrMem \/ TrReconn
       \/ TrRInit \/ TrRFeed \/ TrRGot \/ TrREnd \/ TrRAlloc

TraceSpec == TraceInit /\ [][TraceNext]_tvars

\* register 1: high-water mark of consumed lines; register 2: <<line, tag>> of every failed obligation
HighWater ==
    /\ TLCSet(1, IF l > TLCGet(1) THEN l ELSE TLCGet(1))
    /\ IF viol # "" THEN TLCSet(2, Append(TLCGet(2), <<l - 1, viol>>)) ELSE TRUE

NoViolation == viol = ""      \* (kept for single-trace debugging; not used by the check)

TraceAccepted ==
    LET hw == TLCGet(1)  vs == TLCGet(2) IN
    /\ \A i \in 1 .. Len(vs) : PrintT("@@VIOL " \o ToString(vs[i][1]) \o " " \o vs[i][2])
    /\ IF hw = Len(Trace) + 1 THEN TRUE
       ELSE /\ PrintT("@@REJECT " \o ToString(hw - 1) \o " " \o ToString(Len(Trace)))
            /\ FALSE
=============================================================================
