SPECIFICATION PSpec
CONSTANTS
  Reqs <- MCReqs4
  LIMIT = 2
  FIXED = FALSE
  PRECANCEL = TRUE
  ANYCANCEL = FALSE
  ANYCLOSE = FALSE
  RECHECK = FALSE
INVARIANT AInv
INVARIANT ToldIsHeld
INVARIANT NoOrphan
INVARIANT NoStuckManager
INVARIANT CandOK
PROPERTY Refines
CHECK_DEADLOCK TRUE
