SPECIFICATION GenSpec
CONSTANTS
  NPEERS = 4
  K = 40
  RMAX = 2
INVARIANT GenPrint
CHECK_DEADLOCK FALSE
