---------------------------- MODULE MC_Metadata ----------------------------
(* Exhaustive configurations of Metadata: every interleaving of the handlers for a family of       *)
(* configurations (one initial state per configuration; cfg is a variable that never changes).      *)
EXTENDS Metadata
CONSTANTS NP,        \* number of peers
          POLS,      \* set of policy vectors (sequences of length NP)
          BS,        \* block size
          TSIZES,    \* true metadata sizes
          MAXSZ,     \* MaxMetadataSize
          PARS,      \* ParallelMetadataDownloads values
          QS,        \* request queue lengths
          ADVS,      \* sizes an "any" liar may advertise
          LENS,      \* data lengths a liar may send
          MODES,     \* "asis" (the code as it is: no startInfoDownloaders after a connection loss; liars may drop),
                     \* "asis_nodrop" (the code as it is, connections are never lost), "fixed" (repaired design, liars may drop)
          DUPOKS,    \* duplicates of a requested block accepted (TRUE = the code as it is)
          PRIVATES

\* policy-vector families (chosen in the .cfg with  POLS <- PolsXxx)
PolsAny    == {<<"honest", "any", "any">>, <<"any", "any", "any">>}
PolsAny1   == {<<"honest", "any", "any">>}
PolsAny2   == {<<"honest", "any">>, <<"any", "any">>}
PolsLive   == {<<"honest", "any", "any">>, <<"any", "honest", "any">>}
PolsLive2  == {<<"honest", "any">>}
PolsQuick  == {<<"honest", "any">>, <<"any", "any">>, <<"drop", "honest">>}
PolsNamed  == {<<"honest", a, b>> : a \in Policies \ {"any"}, b \in Policies \ {"any"}}
PolsStall  == {<<"drop", "drop", "honest">>}
\* arrival order / index labels (MC_Metadata_order.cfg: 3 blocks, two of them of equal size, queue lengths 1..3)
PolsOrder  == {<<"swap", "honest">>, <<"honest", "swap">>, <<"swap", "swap">>, <<"honest", "honest">>}

CfgSet ==
    { [np |-> NP, bs |-> BS, tsize |-> ts, max |-> MAXSZ, par |-> pa, q |-> q, pol |-> pv, advs |-> ADVS, lens |-> LENS,
       restart |-> (mo = "fixed"), dupok |-> du, drops |-> (mo # "asis_nodrop"), private |-> pr] :
         ts \in TSIZES, pa \in PARS, q \in QS, pv \in POLS, du \in DUPOKS, pr \in PRIVATES, mo \in MODES }

MCInit == \E c \in CfgSet : InitWith(c)

\* fairness: the client's own loop runs; timers fire; honest peers connect and answer
Fair ==
    /\ WF_vars(StartOne) /\ WF_vars(EndKick)
    /\ \A p \in 1 .. NP : /\ WF_vars(Snub(p))
                          /\ WF_vars(cfg.pol[p] = "honest" /\ Connect(p))
                          /\ WF_vars(HonestHandshake(p))
                          /\ WF_vars(HonestData(p))

MCSpec == MCInit /\ [][Next]_vars /\ Fair

\* @obligation C13.live  with at least one honest peer (whose metadata fits the cap) the fetch eventually succeeds
HasHonest == \E p \in 1 .. NP : cfg.pol[p] = "honest"
\* LiveAll is what the property demands; Live excludes the configurations of the code as it is with connection losses,
\* for which TLC finds the stall (MC_Metadata_asis.cfg checks LiveAll and is expected to fail)
LiveAll == (HasHonest /\ cfg.tsize <= cfg.max) => <>Fetched
Live    == (HasHonest /\ cfg.tsize <= cfg.max /\ (cfg.restart \/ ~cfg.drops)) => <>Fetched

\* `asked` is a ghost, cfg never changes
MCView == <<cfg, pst, adv, idl, snub, inflight, asked, adopted, kick>>
=============================================================================
