------------------------------ MODULE Lifecycle ------------------------------
(***************************************************************************)
(* Lifecycle of one torrent as property C04 demands it (the design that    *)
(* the command handlers of torrent_start.go / torrent_stop.go /            *)
(* torrent_verification.go / torrent_allocation.go / torrent_pieces.go are *)
(* meant to implement).  One action per command and per completion event   *)
(* of the event loop; external file mutations happen only while Stopped.   *)
(*                                                                         *)
(* Observable variables (also produced by hook H1 / the harness):          *)
(*   status, have, peers, downloads, files (open data files)               *)
(* Ground truth: good = pieces whose correct content is in storage.        *)
(* stale = the files were changed behind the client's back in a way it     *)
(* cannot notice without verification (corrupt / truncate).                *)
(***************************************************************************)
EXTENDS Integers, FiniteSets, Sequences, TLC

CONSTANTS NP, MaxCmds

VARIABLES status,     \* "Stopped","Stopping","Allocating","Verifying","Downloading","Seeding"
          have,       \* SUBSET Piece : pieces counted as downloaded
          bfKnown,    \* bitfield present (FALSE: must verify or start empty)
          good,       \* storage truth
          stale,
          filesExist, \* "all","some","none"
          peers, downloads, files,
          doVerify,
          wantRun,    \* a start command is pending to take effect after the stop completes
          addr,       \* AddPeer handed over the address of a reachable seed while the torrent runs; not dialled yet
          parked,     \* the connected peer arrived before the bitfield was known (Allocating/Verifying): what it announced
                      \* (bitfield / have-all) is parked and has to be replayed when allocation / verification completes
          ncmd

vars == <<status, have, bfKnown, good, stale, filesExist, peers, downloads, files, doVerify, wantRun, addr, parked, ncmd>>
Piece == 0 .. (NP - 1)
Running == status \notin {"Stopped", "Stopping"}

Init ==
    /\ status = "Stopped" /\ have = {} /\ bfKnown = FALSE /\ good = {} /\ stale = FALSE /\ filesExist = "none"
    /\ peers = 0 /\ downloads = 0 /\ files = 0 /\ doVerify = FALSE /\ wantRun = FALSE /\ addr = FALSE /\ parked = FALSE /\ ncmd = 0

Cmd == ncmd < MaxCmds /\ ncmd' = ncmd + 1

\* --- commands -------------------------------------------------------------
CmdStart ==
    /\ Cmd
    /\ CASE status = "Stopped"  -> /\ status' = "Allocating" /\ UNCHANGED wantRun
         [] status = "Stopping" -> /\ wantRun' = TRUE /\ UNCHANGED status      \* takes effect when the stop completes
         [] OTHER               -> UNCHANGED <<status, wantRun>>
    /\ UNCHANGED <<have, bfKnown, good, stale, filesExist, peers, downloads, files, doVerify, addr, parked>>

DoStop ==   \* stop(): peers, downloads, data files closed, undialled addresses dropped; stop announce in flight
    /\ status' = "Stopping" /\ peers' = 0 /\ downloads' = 0 /\ files' = 0 /\ addr' = FALSE /\ parked' = FALSE
NoStop == UNCHANGED <<status, peers, downloads, files, addr, parked>>

\* @obligation C04.L5.addpeer  an address added while the torrent runs (also while Allocating / Verifying) is dialled; the command
\* is refused only while Stopped / Stopping.  It must not be lost: see PeerConnect / InvParked / Converges.
CmdAddPeer ==
    /\ Cmd /\ addr' = (addr \/ Running)
    /\ UNCHANGED <<status, have, bfKnown, good, stale, filesExist, peers, downloads, files, doVerify, wantRun, parked>>

CmdStop ==
    /\ Cmd
    /\ IF Running THEN DoStop ELSE NoStop
    /\ wantRun' = FALSE
    /\ UNCHANGED <<have, bfKnown, good, stale, filesExist, doVerify>>

CmdVerify ==
    /\ Cmd /\ doVerify' = TRUE /\ wantRun' = FALSE
    /\ IF status = "Stopped"
       THEN /\ status' = "Allocating" /\ bfKnown' = FALSE /\ have' = {} /\ UNCHANGED <<peers, downloads, files, addr, parked>>
       ELSE /\ IF Running THEN DoStop ELSE NoStop
            /\ UNCHANGED <<bfKnown, have>>
    /\ UNCHANGED <<good, stale, filesExist>>

\* --- completions ----------------------------------------------------------
StopAnnounced ==
    /\ status = "Stopping"
    /\ IF doVerify
       THEN /\ status' = "Allocating" /\ bfKnown' = FALSE /\ have' = {} /\ UNCHANGED wantRun
       ELSE IF wantRun
            THEN /\ status' = "Allocating" /\ wantRun' = FALSE /\ UNCHANGED <<bfKnown, have>>
            ELSE /\ status' = "Stopped" /\ UNCHANGED <<bfKnown, have, wantRun>>
    /\ UNCHANGED <<good, stale, filesExist, peers, downloads, files, doVerify, addr, parked, ncmd>>

AllocDone ==  \* files opened / created; decide: trust resume bits, start empty, or verify
    /\ status = "Allocating"
    /\ filesExist' = "all"
    /\ IF doVerify
       THEN IF filesExist = "none"
            THEN /\ status' = "Stopping" /\ have' = {} /\ bfKnown' = TRUE /\ doVerify' = FALSE   \* nothing to verify: done, stop
                 /\ files' = 0 /\ peers' = 0 /\ addr' = FALSE /\ parked' = FALSE
            ELSE /\ status' = "Verifying" /\ files' = 1 /\ UNCHANGED <<have, bfKnown, doVerify, peers, addr, parked>>
       ELSE /\ UNCHANGED <<doVerify, peers, addr>> /\ files' = 1
            /\ IF bfKnown /\ filesExist = "all"
               THEN /\ status' = (IF have = Piece THEN "Seeding" ELSE "Downloading") /\ UNCHANGED <<have, bfKnown>>
                    /\ parked' = FALSE                                                  \* bitfield known: parked announcements replayed
               ELSE IF filesExist = "none"
                    THEN /\ status' = "Downloading" /\ have' = {} /\ bfKnown' = TRUE /\ parked' = FALSE
                    ELSE /\ status' = "Verifying" /\ have' = {} /\ bfKnown' = FALSE   \* files were missing: the resume bitfield is dropped before the re-check (7d677fc)
                         /\ UNCHANGED parked
    /\ good' = (IF filesExist = "none" THEN {} ELSE good)
    /\ UNCHANGED <<stale, downloads, wantRun, ncmd>>

VerifyDone ==
    /\ status = "Verifying"
    /\ have' = good /\ bfKnown' = TRUE /\ stale' = FALSE
    /\ IF doVerify
       THEN /\ doVerify' = FALSE /\ status' = "Stopping" /\ files' = 0 /\ peers' = 0 /\ downloads' = 0 /\ addr' = FALSE /\ parked' = FALSE
       ELSE /\ status' = (IF good = Piece THEN "Seeding" ELSE "Downloading") /\ UNCHANGED <<doVerify, files, peers, downloads, addr>>
            /\ parked' = FALSE                                                         \* parked announcements replayed
    /\ UNCHANGED <<good, filesExist, wantRun, ncmd>>

\* the environment's honest seed reaches a running torrent (incoming connection) once the bitfield is known; an address handed
\* over by AddPeer is dialled at once, in Allocating / Verifying too: that peer's announcements are parked
PeerConnect ==
    /\ peers = 0 /\ peers' = 1
    /\ \/ status \in {"Downloading", "Seeding"} /\ parked' = FALSE /\ addr' = FALSE
       \/ status \in {"Allocating", "Verifying"} /\ addr /\ parked' = TRUE /\ addr' = FALSE
    /\ UNCHANGED <<status, have, bfKnown, good, stale, filesExist, downloads, files, doVerify, wantRun, ncmd>>

Progress(p) ==  \* an honest seed delivers piece p; it is verified and written (needs the peer's announcements: not while parked)
    /\ status = "Downloading" /\ peers = 1 /\ ~parked /\ p \notin have
    /\ have' = have \cup {p} /\ good' = good \cup {p}
    /\ status' = (IF have' = Piece THEN "Seeding" ELSE "Downloading")
    /\ UNCHANGED <<bfKnown, stale, filesExist, peers, downloads, files, doVerify, wantRun, addr, parked, ncmd>>

\* --- environment: files changed while stopped -------------------------------
Mutate(kind) ==
    /\ status = "Stopped" /\ files = 0 /\ filesExist # "none" /\ Cmd
    /\ CASE kind = "corrupt"    -> /\ good # {} /\ good' = good \ {CHOOSE p \in good : TRUE} /\ stale' = TRUE /\ UNCHANGED filesExist
         [] kind = "deletesome" -> /\ good' = {} /\ filesExist' = "some" /\ UNCHANGED stale
         [] kind = "deleteall"  -> /\ good' = {} /\ filesExist' = "none" /\ UNCHANGED stale
    /\ UNCHANGED <<status, have, bfKnown, peers, downloads, files, doVerify, wantRun, addr, parked>>

Next ==
    \/ CmdStart \/ CmdStop \/ CmdVerify \/ CmdAddPeer \/ StopAnnounced \/ AllocDone \/ VerifyDone \/ PeerConnect
    \/ \E p \in Piece : Progress(p)
    \/ \E k \in {"corrupt", "deletesome", "deleteall"} : Mutate(k)

Fairness == WF_vars(StopAnnounced) /\ WF_vars(AllocDone) /\ WF_vars(VerifyDone) /\ WF_vars(PeerConnect)
            /\ \A p \in Piece : WF_vars(Progress(p))
Spec == Init /\ [][Next]_vars /\ Fairness

\* --- obligations (shared with Trace_Lifecycle) ---------------------------------
\* @obligation C04.L2  Seeding only with every piece; pieces counted are verified content (unless changed behind our back)
L2a(P, st, hv) == st = "Seeding" => hv = P
L2b(st, hv, gd, stl) == (st \in {"Downloading", "Seeding"} /\ ~stl) => hv \subseteq gd
\* @obligation C04.L3  Stopped means no peers, no downloads, no open data files
L3(st, pe, dl, fl) == st = "Stopped" => (pe = 0 /\ dl = 0 /\ fl = 0)

\* @obligation C04.L5.addpeer  what an early peer announced does not stay parked once the bitfield is known (the AddPeer is not lost)
InvParked == (parked => (peers = 1 /\ status \in {"Allocating", "Verifying"})) /\ (addr => Running)

Inv == L2a(Piece, status, have) /\ L2b(status, have, good, stale) /\ L3(status, peers, downloads, files) /\ InvParked

\* @obligation C04.L5  a stop is followed by Stopped; a verification request ends with the torrent stopped
StopLeadsToStopped == [](status = "Stopping" /\ ~doVerify /\ ~wantRun /\ ncmd = MaxCmds => <>(status = "Stopped"))
VerifyEnds == [](doVerify /\ ~wantRun /\ ncmd = MaxCmds => <>(status = "Stopped" /\ ~doVerify /\ have = good))
\* @obligation C04.L6  starting again with a reachable seed converges to complete, correct files
\* (with an early peer connected, peers = 1 keeps the environment's seed away: convergence then depends on the replay)
Converges == [](Running /\ ~doVerify /\ ~stale /\ ncmd = MaxCmds => <>(status = "Seeding" /\ good = Piece))
=============================================================================
