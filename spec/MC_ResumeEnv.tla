---------------------------- MODULE MC_ResumeEnv ----------------------------
(* Exhaustive configurations of Resume WITH the environment / life-cycle axes (cfg.env): the record of the      *)
(* torrent becomes unloadable while the client is down and the torrent is added again under the same ID         *)
(* (Damage / ReAdd), data files owned by another user are found at a start (PlantForeign / AllocRefuse).        *)
(*   MC_ResumeEnv.cfg          safe order, re-add writes a fresh record, foreign files refused     -> Inv holds  *)
(*   MC_ResumeEnv_sync.cfg     ... foreign files opened without O_NOATIME but with O_SYNC          -> Inv holds  *)
(*   MC_ResumeEnv_keep.cfg     re-add keeps the keys it has no value for (old bitfield survives)   -> must FAIL  *)
(*   MC_ResumeEnv_nosyncfb.cfg fallback open of a foreign file drops O_SYNC                        -> must FAIL  *)
EXTENDS Resume
CONSTANTS NP, NF, FO, DESIGN, ONFOREIGN, READD

Geo2x2 == <<{0}, {0, 1}>>
Geo3x2 == <<{0}, {0, 1}, {1}>>

MCInit == InitWith([np |-> NP, nf |-> NF, fo |-> [p \in 0 .. (NP - 1) |-> FO[p + 1]], sync |-> TRUE, design |-> DESIGN, werr |-> "first",
                    env |-> TRUE, onforeign |-> ONFOREIGN, readd |-> READD])
MCSpec == MCInit /\ [][Next]_vars
=============================================================================
