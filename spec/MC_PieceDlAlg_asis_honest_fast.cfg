SPECIFICATION ASpec
CONSTANTS
  SECS <- Secs_plain4
  BS = 2
  QLENS = {1, 2, 3}
  FAST = TRUE
  AF = FALSE
  REJ = "out"
  UNREQ = FALSE
  ENDS = TRUE
  VARIANT = "asis"
  IGNORE = {}
INVARIANT AInv
VIEW AView
CHECK_DEADLOCK FALSE
CONSTRAINT Alive
