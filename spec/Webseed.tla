------------------------------- MODULE Webseed -------------------------------
(***************************************************************************)
(* X06 - web-seed source lifecycle and piece-buffer ownership.             *)
(*                                                                         *)
(* Code: internal/urldownloader (URLDownloader.Run, job.go),               *)
(* internal/bufferpool, internal/webseedsource, torrent/torrent_webseed.go,*)
(* torrent_start.go (startPieceDownloaderForWebseed), torrent_write.go     *)
(* (handlePieceWriteDone), torrent_stop.go (stopWebseedDownloads),         *)
(* torrent_run.go (webseedRetryC).                                         *)
(*                                                                         *)
(* The module EXTENDS Picker: the range bookkeeping of the piece picker    *)
(* (src[s] = [active, b, e, cur], the owner marks ws, StartWebseed /       *)
(* StopAtF / CloseF / WebseedPiece / WriteOK / WriteBad) is reused, not    *)
(* repeated.  Two layers are added.                                        *)
(*                                                                         *)
(* PART 1 - one run of a downloader (URLDownloader.Run), observable level. *)
(*   The run is an ENVELOPE: every observable step of the goroutine        *)
(*   (buffer taken from the pool, HTTP request, bytes read, result         *)
(*   delivered, buffer released, goroutine ended) is judged against the    *)
(*   obligations below on (shadow state, step); what the code does inside  *)
(*   is left to the code.  The inputs of the environment are the server's  *)
(*   answers, the chunks, WebseedStopAt(i) (UpdateEnd, Close when nothing  *)
(*   is left), Close, and the consumer taking / releasing results.         *)
(*   Buffer token: pool -> dl -> (chan) -> loop -> writer -> pool.         *)
(*                                                                         *)
(* PART 2 - the sources of one torrent in the event loop: idle ->          *)
(*   downloading(b, e, cur) -> finished | error -> disabled(retry timer)   *)
(*   -> enabled again | corrupt -> disabled | stopped | truncated (StopAt).*)
(*   The downloader is abstracted by its envelope (it delivers its         *)
(*   current piece or an error), the loop handlers are the code's.         *)
(*                                                                         *)
(* @obligation X06.a  every buffer taken from the pool is released exactly *)
(*      once, by its owner: .owner (released / delivered by somebody who   *)
(*      does not own it), .double (released although it is in the pool),   *)
(*      .leak (still held by the downloader when its goroutine ends)       *)
(* @obligation X06.b  results: .range (index outside [begin, end0)),       *)
(*      .order (not ascending / a piece twice), .data (buffer differs from *)
(*      the bytes the server holds for the piece, padding zero, length),   *)
(*      .done (Done flag is not "last piece of the range"), .afterfinal    *)
(*      (a result after Done / Error), .current (ReadCurrent is not the    *)
(*      piece being downloaded)                                            *)
(* @obligation X06.c  .stopat (a piece >= i delivered after StopAt(i); one *)
(*      piece of overshoot is tolerated when the Done flag of piece i-1    *)
(*      had been computed before: the result was blocked in the send),     *)
(*      .nofinal (goroutine ended by itself without Done / Error result),  *)
(*      .hang (Close does not return), .goroutine (goroutines left)        *)
(* @obligation X06.d  a source that returned an error or corrupt data is   *)
(*      disabled (.silent: HTTP failure without Error result; .spurious:   *)
(*      Error result without failure), not used while disabled (DisabledIdle),*)
(*      enabled again after the retry interval (RetryNotForgotten, liveness)*)
(* @obligation X06.e  webseedActiveDownloads = number of sources with a    *)
(*      downloader, <= WebseedMaxDownloads, at every loop step (ActiveExact;*)
(*      the predicate of LimitsSessWS / C17)                               *)
(* @obligation X06.f  requests: .file (wrong / padding / unknown file),    *)
(*      .range (a byte requested twice, a gap, beyond the file part of the *)
(*      range), .unneeded (nothing of the request is needed any more),     *)
(*      .afterfail (request, read or data after an HTTP failure), .status  *)
(*      (data taken from an answer that does not carry the requested bytes:*)
(*      200 for an offset > 0, 206 with another Content-Range)             *)
(***************************************************************************)
EXTENDS Picker

VARIABLES dn,      \* shadow state of the observed run (PART 1)
          own,     \* sequence: owner of buffer k ("pool", "dl", "chan", "loop", "writer")
          sst,     \* [Src -> [dis, tmr, err]]  Disabled flag, ticks until the retry fires (-1 none), LastError set
          active,  \* webseedActiveDownloads
          run,     \* torrent is in Downloading state
          bout,    \* buffers taken from the pool and not yet given back (PART 2 ledger)
          late     \* piece writes of a stopped run that are still in flight (their result is consumed late)

wvars   == <<dn, own>>
svars   == <<sst, active, run, bout, late>>
allvars == <<vars, dn, own, sst, active, run, bout, late>>

Min2(a, b) == IF a < b THEN a ELSE b
Max2(a, b) == IF a > b THEN a ELSE b
Tag(c, t)  == IF c THEN {t} ELSE {}
S1 == 1                                   \* the source under observation in PART 1

-----------------------------------------------------------------------------
(* geometry: cfg.pl piece length, cfg.total, cfg.files = <<[start, len, pad]>> *)

NF          == Len(cfg.files)
FStart(f)   == cfg.files[f].start
FEnd(f)     == cfg.files[f].start + cfg.files[f].len
FPad(f)     == cfg.files[f].pad
RangeEnd(e) == Min2(e * cfg.pl, cfg.total)          \* absolute end of the piece range [.., e)
PEnd(p)     == RangeEnd(p + 1)
PLen(p)     == PEnd(p) - p * cfg.pl
RealFiles   == {f \in 1 .. NF : ~FPad(f) /\ cfg.files[f].len > 0}
FileAt(x)   == CHOOSE f \in 1 .. NF : FStart(f) <= x /\ x < FEnd(f)
\* first byte at or after x that has to come from the server (cfg.total if none)
NextReal(x) == LET c == {Max2(FStart(f), x) : f \in {g \in RealFiles : FEnd(g) > x}}
               IN IF c = {} THEN cfg.total ELSE Min(c)
PiecesOf(lo, hi) == {p \in Piece : p * cfg.pl < hi /\ PEnd(p) > lo}     \* pieces meeting [lo, hi)
\* the jobs of urldownloader.createJobs for [b, e): one per file part, zero-length files skipped (C02.jobs.*)
JobsOf(b, e) ==
    LET lo == b * cfg.pl  hi == RangeEnd(e)
        fs == SelectSeq([i \in 1 .. NF |-> i], LAMBDA f : Min2(FEnd(f), hi) > Max2(FStart(f), lo))
    IN [k \in 1 .. Len(fs) |->
          [f |-> fs[k], lo |-> Max2(FStart(fs[k]), lo) - FStart(fs[k]),
           len |-> Min2(FEnd(fs[k]), hi) - Max2(FStart(fs[k]), lo), pad |-> FPad(fs[k])]]

-----------------------------------------------------------------------------
(* PART 1: envelope of one run                                              *)

NoReq == [f |-> 0, lo |-> 0, hi |-> -1]
DN0 == [st |-> "idle", e0 |-> 0, closed |-> FALSE, over |-> -1, lastd |-> -1, fin |-> "",
        rpos |-> 0, rq |-> NoReq, open |-> FALSE, good |-> TRUE, fpos |-> 0, failed |-> FALSE, mayfail |-> FALSE, taint |-> {}]
S0(c) == [s \in 1 .. c.nsrc |-> [dis |-> FALSE, tmr |-> -1, err |-> FALSE]]

WInitWith(c) == InitWith(c) /\ dn = DN0 /\ own = <<>> /\ sst = S0(c) /\ active = 0 /\ run = TRUE /\ bout = 0 /\ late = 0
WResetWith(c) == ResetWith(c) /\ dn' = DN0 /\ own' = <<>> /\ sst' = S0(c) /\ active' = 0 /\ run' = TRUE /\ bout' = 0 /\ late' = 0

PRest == <<cfg, done, writing, having, requested, conn, choking, af, dl, dlaf, wr>>
E1 == src[S1].e
B1 == src[S1].b
\* bytes below this absolute position may still be wanted (one piece of tolerated overshoot)
NeedEnd == RangeEnd(IF dn.over >= 0 THEN dn.over + 1 ELSE E1)

\* ---- Run starts for [b, e)
WStartUpd(b, e) ==
    /\ StartWebseedUpdate(S1, b, e)
    /\ dn' = [DN0 EXCEPT !.st = "run", !.e0 = e, !.lastd = b - 1, !.rpos = b * cfg.pl]
    /\ UNCHANGED <<own, svars>>

\* ---- pool.Get: buffer number k = Len(own) + 1
WGetViols == Tag(dn.st # "run", "X06.a.owner")
WGetUpd == own' = Append(own, "dl") /\ UNCHANGED <<vars, dn, svars>>

\* ---- Buffer.Release by the downloader
WRelViols(k) == Tag(own[k] = "pool", "X06.a.double") \cup Tag(own[k] \in {"loop", "writer"}, "X06.a.owner")
WRelUpd(k) == own' = [own EXCEPT ![k] = "pool"] /\ UNCHANGED <<vars, dn, svars>>

\* ---- the result is handed to the channel (blocked send) / the send is given up (Close): design level only
WSendUpd(k)  == own' = [own EXCEPT ![k] = "chan"] /\ UNCHANGED <<vars, dn, svars>>
WAbortUpd(k) == own' = [own EXCEPT ![k] = "dl"] /\ UNCHANGED <<vars, dn, svars>>

\* ---- the consumer: torrent loop -> piece writer -> pool
CWriteViols(k) == Tag(own[k] # "loop", "X06.a.owner")
CWriteUpd(k) == own' = [own EXCEPT ![k] = "writer"] /\ UNCHANGED <<vars, dn, svars>>
CRelViols(k) == Tag(own[k] = "pool", "X06.a.double") \cup Tag(own[k] \in {"dl", "chan"}, "X06.a.owner")
CRelUpd(k) == own' = [own EXCEPT ![k] = "pool"] /\ UNCHANGED <<vars, dn, svars>>

\* ---- HTTP request for bytes lo..hi (inclusive) of file f (0 = not a file of the torrent)
ReqHis(x) == {Min2(FEnd(FileAt(x)), RangeEnd(E)) - 1 - FStart(FileAt(x)) : E \in E1 .. dn.e0}
WReqViols(f, lo, hi) ==
    LET x == NextReal(dn.rpos) IN
    Tag(dn.failed, "X06.f.afterfail")
    \cup (IF dn.fin # "" \/ ~src[S1].active \/ x >= NeedEnd THEN {"X06.f.unneeded"}
          ELSE IF f = 0 \/ f # FileAt(x) THEN {"X06.f.file"}
          ELSE Tag(lo # x - FStart(f) \/ hi \notin ReqHis(x), "X06.f.range"))
WReqUpd(f, lo, hi) ==
    /\ dn' = [dn EXCEPT !.rq = [f |-> f, lo |-> lo, hi |-> hi], !.open = FALSE,
                        !.rpos = IF f \in 1 .. NF /\ hi >= lo THEN Max2(dn.rpos, FStart(f) + hi + 1) ELSE dn.rpos]
    /\ UNCHANGED <<vars, own, svars>>

\* ---- the answer (input): status, off = file offset of the first body byte, terr = transport error
RespGood(status, off) == status \in {200, 206} /\ off = dn.rq.lo
WRespUpd(status, off, terr) ==
    /\ dn' = [dn EXCEPT !.open = (terr = 0 /\ status \in {200, 206}), !.good = RespGood(status, off),
                        !.fpos = IF dn.rq.f \in 1 .. NF THEN FStart(dn.rq.f) + dn.rq.lo ELSE 0,
                        !.failed = dn.failed \/ terr # 0 \/ status \notin {200, 206},
                        !.mayfail = dn.mayfail \/ ~RespGood(status, off)]
    /\ UNCHANGED <<vars, own, svars>>

\* ---- a Read of the body returned n bytes (err # 0: end of body / reset / cancelled after them)
WReadViols(n, err) == Tag(dn.failed, "X06.f.afterfail")
WReadUpd(n, err) ==
    /\ dn' = [dn EXCEPT !.fpos = dn.fpos + n, !.failed = dn.failed \/ err # 0,
                        !.taint = IF dn.good THEN dn.taint ELSE dn.taint \cup PiecesOf(dn.fpos, dn.fpos + n)]
    /\ UNCHANGED <<vars, own, svars>>

\* ---- a result is received: data (idx, buffer k, Done flag, eq = content and length are right) or Error
WDataViols(idx, k, dflag, eq) ==
    LET last == idx >= E1 - 1
        stale == ~dflag /\ idx = E1 - 1 /\ dn.over = E1          \* flag computed before the StopAt
    IN Tag(own[k] \notin {"dl", "chan"}, "X06.a.owner")
       \cup Tag(dn.fin # "", "X06.b.afterfinal")
       \cup (IF ~src[S1].active THEN {"X06.c.afterclose"}
             ELSE IF idx < B1 \/ idx >= dn.e0 THEN {"X06.b.range"}
             ELSE Tag(idx >= E1 /\ idx # dn.over, "X06.c.stopat"))
       \cup Tag(idx <= dn.lastd, "X06.b.order")
       \cup Tag(~eq, IF idx \in dn.taint THEN "X06.f.status" ELSE "X06.b.data")
       \cup Tag(dn.failed, "X06.f.afterfail")
       \cup Tag(dflag # last /\ ~stale, "X06.b.done")
WDataUpd(idx, k, dflag) ==
    /\ own' = [own EXCEPT ![k] = "loop"]
    /\ dn' = [dn EXCEPT !.lastd = Max2(dn.lastd, idx), !.fin = IF dflag THEN "done" ELSE dn.fin]
    /\ src' = IF src[S1].active THEN [src EXCEPT ![S1].cur = IF dflag THEN idx ELSE idx + 1] ELSE src
    /\ UNCHANGED <<PRest, ws, svars>>
WErrViols == Tag(dn.fin # "", "X06.b.afterfinal") \cup Tag(~dn.failed /\ ~dn.mayfail, "X06.d.spurious")
WErrUpd == dn' = [dn EXCEPT !.fin = "err"] /\ UNCHANGED <<vars, own, svars>>

\* ---- piecepicker.WebseedStopAt(src, i) (input): cur = ReadCurrent() seen by the call, insend = the run is blocked
\*      in the send of its current piece
WStopAtViols(i, cur) == Tag(src[S1].active /\ cur # src[S1].cur, "X06.b.current")
WStopAtUpd(i, insend) ==
    /\ ws' = StopAtF(S1, i)[1] /\ src' = StopAtF(S1, i)[2]
    /\ dn' = [dn EXCEPT !.closed = dn.closed \/ src[S1].cur >= i,
                        !.over = IF src[S1].cur < i /\ i < E1 /\ insend /\ src[S1].cur = i - 1 THEN i ELSE -1]
    /\ UNCHANGED <<PRest, own, svars>>

\* ---- URLDownloader.Close (input: torrent stop, error handling, ...)
WCloseUpd ==
    /\ ws' = CloseF(ws, src, S1)[1] /\ src' = CloseF(ws, src, S1)[2]
    /\ dn' = [dn EXCEPT !.closed = TRUE]
    /\ UNCHANGED <<PRest, own, svars>>

\* ---- the goroutine of Run has ended
WEndedViols ==
    Tag(\E k \in 1 .. Len(own) : own[k] \in {"dl", "chan"}, "X06.a.leak")
    \cup Tag(~dn.closed /\ dn.fin = "", "X06.c.nofinal")
    \cup Tag(~dn.closed /\ dn.failed /\ dn.fin # "err", "X06.d.silent")
WEndedUpd == dn' = [dn EXCEPT !.st = "ended"] /\ UNCHANGED <<vars, own, svars>>

\* global form of X06.a for one run: nothing is held by a goroutine that has ended
EndedClean == dn.st = "ended" => \A k \in 1 .. Len(own) : own[k] \notin {"dl", "chan"}

-----------------------------------------------------------------------------
(* PART 2: the sources of a torrent in the event loop                       *)
(*   VARIANT "asis"  : the retry handler starts the source if that is       *)
(*                     possible at that instant and does nothing otherwise  *)
(*                     (the source stays Disabled for ever)                 *)
(*   VARIANT "fixed" : the retry handler clears Disabled first              *)
(*   RI = ticks of Config.WebseedRetryInterval, CAPD = WebseedMaxDownloads  *)

Running == {s \in Src : src[s].active}
Gone(sr2) == {s \in Running : ~sr2[s].active}          \* downloaders closed by this step
WsWrite == IF wr.kind = "ws" THEN 1 ELSE 0                  \* a web-seed piece is with the piece writer

\* startPieceDownloaderForWebseed(s) with the range chosen by PickWebseed (envelope of C09)
CanStart(s, b, e) == run /\ ~src[s].active /\ active < cfg.capd /\ b < e /\ StartWebseedViol(s, b, e) = ""
DoStart(s, b, e) ==
    /\ StartWebseedUpdate(s, b, e)
    /\ active' = active + 1 /\ bout' = bout + 1
    /\ sst' = [sst EXCEPT ![s] = [dis |-> FALSE, tmr |-> @.tmr, err |-> FALSE]]
    /\ UNCHANGED <<run, late, wvars>>

\* startPieceDownloaders / the restart after a finished or truncated range
LStart(s, b, e) == ~sst[s].dis /\ CanStart(s, b, e) /\ DoStart(s, b, e)

\* handleWebseedPieceResult, data: Picker!WebseedPiece (stale result discarded, last piece closes the download)
LPiece(s) ==
    /\ run /\ WebseedPiece(s)
    /\ active' = active - Cardinality(Gone(src'))
    \* the downloader takes a new buffer unless this was its last piece; a discarded result is released at once
    /\ bout' = bout + (IF src'[s].active THEN 1 ELSE 0) - (IF done[src[s].cur] THEN 1 ELSE 0)
    /\ UNCHANGED <<sst, run, late, wvars>>

\* handleWebseedPieceResult, error: disableSource(retry) ; slot freed ; retry timer armed
LError(s) ==
    /\ run /\ CloseWebseed(s)
    /\ sst' = [sst EXCEPT ![s] = [dis |-> TRUE, tmr |-> cfg.ri, err |-> TRUE]]
    /\ active' = active - 1 /\ bout' = bout - 1
    /\ UNCHANGED <<run, late, wvars>>

\* handlePieceWriteDone, hash and write fine (a peer's piece truncates / closes the web-seed range that holds it)
LWriteOK ==
    /\ run /\ WriteOK
    /\ active' = active - Cardinality(Gone(src'))
    /\ bout' = bout - WsWrite - Cardinality(Gone(src'))
    /\ UNCHANGED <<sst, run, late, wvars>>

\* handlePieceWriteDone, hash mismatch: a web seed is disabled without retry; a slot is freed only if a download
\* of that source is running (fix 4888e81)
LWriteBad ==
    /\ run /\ WriteBad
    /\ active' = active - Cardinality(Gone(src'))
    /\ bout' = bout - WsWrite - Cardinality(Gone(src'))
    /\ sst' = IF wr.kind = "ws" THEN [sst EXCEPT ![wr.who] = [dis |-> TRUE, tmr |-> @.tmr, err |-> TRUE]] ELSE sst
    /\ UNCHANGED <<run, late, wvars>>

\* stop(): every downloader is closed, the counter is reset, the picker is dropped; a write in flight is consumed
\* late (its buffer is released by handlePieceWriteDone of the stopped / restarted torrent)
LStop ==
    /\ run /\ run' = FALSE
    /\ LET i == I0([cfg EXCEPT !.have0 = {p \in Piece : done[p]}]) IN
       /\ done' = i.done /\ writing' = i.writing /\ having' = i.having /\ requested' = i.requested /\ ws' = i.ws
       /\ conn' = i.conn /\ choking' = i.choking /\ af' = i.af /\ dl' = i.dl /\ dlaf' = i.dlaf /\ src' = i.src
    /\ wr' = NoWrite
    /\ active' = 0
    /\ bout' = bout - Cardinality(Running)
    /\ late' = late + WsWrite
    /\ UNCHANGED <<cfg, sst, wvars>>
LRestart == ~run /\ run' = TRUE /\ UNCHANGED <<vars, sst, active, bout, late, wvars>>
\* handlePieceWriteDone for a piece of a previous run: the buffer is released, nothing else happens
LLateWrite == late > 0 /\ late' = late - 1 /\ bout' = bout - 1 /\ UNCHANGED <<vars, sst, active, run, wvars>>

\* time: one tick of every armed retry timer (a due timer fires first)
LTick ==
    /\ \E s \in Src : sst[s].tmr > 0
    /\ \A s \in Src : sst[s].tmr # 0
    /\ sst' = [s \in Src |-> IF sst[s].tmr > 0 THEN [sst[s] EXCEPT !.tmr = @ - 1] ELSE sst[s]]
    /\ UNCHANGED <<vars, active, run, bout, late, wvars>>

\* case src := <-t.webseedRetryC
LRetry(variant, s) ==
    /\ sst[s].tmr = 0
    /\ IF variant = "fixed"
       THEN /\ sst' = [sst EXCEPT ![s] = [dis |-> FALSE, tmr |-> -1, err |-> @.err]]
            /\ UNCHANGED <<vars, active, run, bout, late, wvars>>
       ELSE \/ \E b \in 0 .. cfg.np, e \in 0 .. cfg.np :
                 /\ CanStart(s, b, e)
                 /\ StartWebseedUpdate(s, b, e)
                 /\ active' = active + 1 /\ bout' = bout + 1
                 /\ sst' = [sst EXCEPT ![s] = [dis |-> FALSE, tmr |-> -1, err |-> FALSE]]
                 /\ UNCHANGED <<run, late, wvars>>
            \/ /\ ~\E b \in 0 .. cfg.np, e \in 0 .. cfg.np : CanStart(s, b, e)
               /\ sst' = [sst EXCEPT ![s].tmr = -1]
               /\ UNCHANGED <<vars, active, run, bout, late, wvars>>

\* @obligation X06.e  (LimitsSessWS!ActiveExact)
ActiveExact == active = Cardinality(Running) /\ active <= Max2(cfg.capd, 0)
\* @obligation X06.d  a disabled source has no downloader (in particular not before its retry timer fires)
DisabledIdle == \A s \in Src : sst[s].dis => ~src[s].active
\* @obligation X06.a  loop level: web-seed buffers outside the pool = running downloaders + the write in flight
\* (the buffers of peer downloads are not counted)
BufLedger == bout = Cardinality(Running) + WsWrite + late
\* @obligation X06.d  liveness: a source disabled by an error is enabled again
RetryNotForgotten == \A s \in Src : (sst[s].dis /\ sst[s].tmr >= 0) ~> ~sst[s].dis
=============================================================================
