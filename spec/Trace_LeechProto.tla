-------------------------- MODULE Trace_LeechProto --------------------------
(***************************************************************************)
(* Trace specification of X08: the wire history of ALL connections of one  *)
(* downloading torrent.Session, recorded by the scripted peers of          *)
(* harness/x08 (one driver goroutine; after every stimulus a barrier echo  *)
(* on every connection, so the history is in rain's own processing order). *)
(* Every message of rain (rx) carries the bounds of rain's verified set    *)
(* for that step: lo = loop snapshot at the previous barrier (held for     *)
(* sure), hi = snapshot at this barrier (possibly held).                   *)
(*   rx request        X08.req.announced / block / held / choked / interest*)
(*   rx interested / notinterested   X08.int.alt                           *)
(*   rx bitfield / haveall / havenone   X08.first.order / fastonly /content*)
(*   rx anything else as first message  X08.first.missing                  *)
(*   rx have           X08.have.dup / truth                                *)
(*   rx cancel         X08.cancel.out                                      *)
(*   bar (quiescent)   X08.int.missing / int.stale / have.all /            *)
(*                     cancel.elsewhere / first.missing                    *)
(*   end               X08.live.complete (after an honest finishing phase  *)
(*                     rain holds every piece an honest open peer offers)  *)
(* Crossing messages: verification of a piece is asynchronous to the       *)
(* barriers, so a cancel / request that it triggers may cross a reject /   *)
(* piece / choke the peer has just sent.  recent[c] = requests answered or *)
(* voided since the last quiescent point of c (a cancel may name them),    *)
(* jchok = connections choked since their last quiescent point (a request  *)
(* there is not judged by X08.req.choked and, without fast extension, is   *)
(* void).                                                                  *)
(* A failed obligation does not block: it is printed (@@VIOL tag line) and *)
(* the scenario is judged out (dead) up to the next Init line.             *)
(***************************************************************************)
EXTENDS LeechProto, Json

VARIABLES l, dead, recent, jchok
tvars == <<vars, l, dead, recent, jchok>>
xv == <<recent, jchok>>

Trace == ndJsonDeserialize("trace.ndjson")
Ev == Trace[l]
SetOf(s) == {s[k] : k \in DOMAIN s}
Note(S) == \A t \in S : PrintT("@@VIOL " \o t \o " " \o ToString(l))
ConnIds == 1 .. 64
CfgOf(e) == I0(e.np, e.plen, e.bs, ConnIds, {"skiphave"})

TraceInit ==
    /\ l = 2 /\ dead = FALSE
    /\ Trace[1].op = "Init"
    /\ InitWith(CfgOf(Trace[1]), SetOf(Trace[1].mine))
    /\ recent = [c \in ConnIds |-> {}] /\ jchok = {}
    /\ TLCSet(1, 1)

Judge(S) == Note(S) /\ dead' = (dead \/ S # {}) /\ l' = l + 1
C == cs[Ev.c]
SetC(rec) == cs' = [cs EXCEPT ![Ev.c] = rec] /\ UNCHANGED <<cfg, mine>>
R == Req(Ev.i, Ev.b, Ev.n)
Lo == SetOf(Ev.lo)
Hi == SetOf(Ev.hi)

NoX == recent' = [c \in ConnIds |-> {}] /\ jchok' = {}
TrReset == Ev.op = "Init" /\ ResetWith(CfgOf(Ev), SetOf(Ev.mine)) /\ l' = l + 1 /\ dead' = FALSE /\ NoX
TrSkip == dead /\ Ev.op # "Init" /\ l' = l + 1 /\ UNCHANGED <<vars, dead, xv>>

TrConn == ~dead /\ Ev.op = "conn" /\ Judge({}) /\ SetC(NewConn(Ev.fast)) /\ UNCHANGED xv
TrClosed == ~dead /\ Ev.op = "closed" /\ Judge({}) /\ SetC(NoConn) /\ UNCHANGED xv
TrStop == ~dead /\ Ev.op = "stop" /\ Judge({}) /\ cs' = [c \in ConnIds |-> NoConn] /\ UNCHANGED <<cfg, mine>> /\ NoX
TrStart == ~dead /\ Ev.op = "start" /\ Judge({}) /\ mine' = SetOf(Ev.mine) /\ UNCHANGED <<cfg, cs, xv>>

TrTx ==
    /\ ~dead /\ Ev.op = "tx" /\ Judge({})
    /\ SetC(CASE Ev.k \in {"bitfield", "haveall"} -> UpdAnnounce(C, SetOf(Ev.set))
              [] Ev.k = "have" -> UpdAnnounce(C, {Ev.i})
              [] Ev.k = "choke" -> UpdChoke(C)
              [] Ev.k = "unchoke" -> UpdUnchoke(C)
              [] Ev.k = "af" -> UpdAF(C, Ev.i)
              [] Ev.k \in {"piece", "reject"} -> UpdAnswer(C, R)
              [] OTHER -> C)
    /\ recent' = [recent EXCEPT ![Ev.c] = @ \cup (IF Ev.k \in {"piece", "reject"} THEN {R}
                                                   ELSE IF Ev.k = "choke" /\ ~C.fast THEN C.out ELSE {})]
    /\ jchok' = IF Ev.k = "choke" THEN jchok \cup {Ev.c} ELSE jchok

IsFirstKind == Ev.k \in {"bitfield", "haveall", "havenone"}
TrRx ==
    /\ ~dead /\ Ev.op = "rx"
    /\ Judge(Tag(~C.open, "X08.machinery.closed")
             \cup (IF IsFirstKind THEN FirstViols(C, Ev.k, SetOf(Ev.set), Lo, Hi) ELSE OtherViols(C, Lo))
             \cup (CASE Ev.k = "have" -> HaveViols(C, Ev.i, Hi)
                     [] Ev.k = "interested" -> IntViols(C, TRUE)
                     [] Ev.k = "notinterested" -> IntViols(C, FALSE)
                     [] Ev.k = "request" -> ReqViols(C, R, Lo) \ (IF Ev.c \in jchok THEN {"X08.req.choked"} ELSE {})
                     [] Ev.k = "cancel" -> IF R \in recent[Ev.c] THEN {} ELSE CancelViols(C, R)
                     [] OTHER -> {}))
    /\ SetC(CASE IsFirstKind -> UpdFirst(C, SetOf(Ev.set))
              [] Ev.k = "have" -> UpdHave(C, Ev.i)
              [] Ev.k = "interested" -> UpdInt(C, TRUE)
              [] Ev.k = "notinterested" -> UpdInt(C, FALSE)
              [] Ev.k = "request" -> IF Ev.c \in jchok /\ ~C.fast THEN Said(C) ELSE UpdReq(C, R)
              [] Ev.k = "cancel" -> UpdCancel(C, R)
              [] OTHER -> Said(C))
    /\ UNCHANGED xv

TrBar ==
    /\ ~dead /\ Ev.op = "bar"
    /\ Judge(Tag(~C.open, "X08.machinery.closed") \cup OtherViols(C, Lo) \cup QuietViols(C, Lo, Hi))
    /\ recent' = [recent EXCEPT ![Ev.c] = {}] /\ jchok' = jchok \ {Ev.c}
    /\ UNCHANGED vars

\* @obligation X08.live.complete  after an honest finishing phase rain holds every piece that an honest open peer offers
TrEnd == ~dead /\ Ev.op = "end" /\ Judge(Tag(~Ev.complete, "X08.live.complete")) /\ UNCHANGED <<vars, xv>>

TraceNext ==
    /\ l <= Len(Trace)
    /\ \/ TrReset \/ TrSkip \/ TrConn \/ TrClosed \/ TrStop \/ TrStart \/ TrTx \/ TrRx \/ TrBar \/ TrEnd

TraceSpec == TraceInit /\ [][TraceNext]_tvars

HighWater == TLCSet(1, IF l > TLCGet(1) THEN l ELSE TLCGet(1))
TraceAccepted ==
    LET hw == TLCGet(1) IN
    IF hw = Len(Trace) + 1 THEN TRUE
    ELSE /\ PrintT("@@REJECT " \o ToString(hw - 1) \o " " \o ToString(Len(Trace)))
         /\ FALSE
=============================================================================
