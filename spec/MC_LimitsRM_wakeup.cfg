SPECIFICATION PSpec
CONSTANTS
  Reqs <- MCReqs4
  LIMIT = 2
  FIXED = TRUE
  PRECANCEL = FALSE
  ANYCANCEL = FALSE
  ANYCLOSE = FALSE
  RECHECK = FALSE
INVARIANT NoLostWakeup
CHECK_DEADLOCK TRUE
