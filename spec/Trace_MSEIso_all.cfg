SPECIFICATION TraceSpec
CONSTANTS
  POOLED = FALSE
CONSTRAINT HighWater
INVARIANT Inv
POSTCONDITION TraceAccepted
CHECK_DEADLOCK FALSE
