SPECIFICATION MCSpec
CONSTANTS
  IDS = {"a", "b"}
  RANGE = {1, 2, 3}
  K = 2
  ATOMIC = FALSE
  FULL = FALSE
  STORAGE = FALSE
INVARIANT Inv
CHECK_DEADLOCK FALSE
