----------------------------- MODULE Trace_Wire -----------------------------
(***************************************************************************)
(* Trace specification for C11: judges ndjson traces recorded by           *)
(* harness/c11 from the REAL btconn handshake, peerwriter and peerreader.  *)
(*                                                                         *)
(*  Conn   a new connection (resets the writer state wr)                   *)
(*  Send   message m handed to the real writer + the frame f it put on the *)
(*         wire (frames are cut out of the captured stream by the length   *)
(*         prefix only).  f.head = frame[1 .. n-plen], the rest is         *)
(*         described by (sha, first 8, last 8) -- see WireCodec.           *)
(*         Obligation: f.head \in Heads(m) and the payload descriptors     *)
(*         agree.  A piece for an already served request may be answered   *)
(*         by a reject frame (Wire!Emitted).                               *)
(*  Cut    FAULT (Wire!SendCut): the connection broke while the real       *)
(*         writer handed the frame of message m to the transport: the      *)
(*         frame had f.n bytes, the transport took the first f.k < f.n of  *)
(*         them (conn.Write returned f.k and an error); f.part = the       *)
(*         header bytes among those.  Obligation: the frame is one of m    *)
(*         (or the reject of a duplicate request) as far as it went; the   *)
(*         expected upload total grows by the f.k - 13 block bytes taken.  *)
(*  End    number of frames cut, bytes left over, upload total reported by *)
(*         BlockUploaded -- compared with wr.upl.                          *)
(*  Read   bytes Encode(m1) .. Encode(mk) (heads printed by TLC from       *)
(*         WireGen, payloads materialised by the driver) were fed to the   *)
(*         real reader in some chunking; got = what it delivered.          *)
(*         Obligation: got = the visible messages of m1..mk.               *)
(* A failed obligation sets viol and does not block the step.              *)
(***************************************************************************)
EXTENDS Wire, Json

VARIABLES l, viol
tvars == <<vars, l, viol>>

Trace == ndJsonDeserialize("trace.ndjson")
Ev == Trace[l]

TraceInit ==
    /\ l = 1 /\ viol = ""
    /\ InitWith(<<>>)
    /\ TLCSet(1, 1)

PayloadViol(m, f) ==
    IF PLen(m) > 0 /\ (f.wsha # m.psha \/ f.wfirst # m.pfirst \/ f.wlast # m.plast) THEN "C11.payload" ELSE ""

\* first violated obligation of "frame f is an encoding of message m", "" if none
FrameViol(m, f) ==
    IF ~f.present THEN "C11.frame"
    ELSE IF f.n = Len(f.head) + PLen(m) /\ f.head \in Heads(m) THEN PayloadViol(m, f)
    ELSE IF m.k = "handshake" THEN "C11.handshake"
    ELSE IF m.k = "keepalive" THEN "C11.keepalive"
    \* frames are cut by their own length prefix, so a wrong prefix shows as a frame of the wrong size
    ELSE IF f.n \notin {Len(h) + PLen(m) : h \in Heads(m)} \/ Len(f.head) < 5 \/ SubSeq(f.head, 1, 4) # U32I(f.n - 4) THEN "C11.frame"
    ELSE IF f.head[5] # Id(m.k) THEN "C11.id"
    ELSE IF m.k \in ExtKinds THEN "C11.ext"
    ELSE "C11.fields"

\* a reject frame has no payload: the driver logs small frames completely in f.all
RejectViol(m, f) ==
    IF f.present /\ f.n = 17 /\ f.all \in Heads(RejectOf(m)) THEN "" ELSE "C11.fields"

TrConn ==
    /\ Ev.op = "Conn"
    /\ wr' = WrInit
    /\ UNCHANGED <<script, ns, net, rd, tm>>
    /\ l' = l + 1 /\ viol' = ""

TrSend ==
    /\ Ev.op = "Send"
    /\ LET m   == CanonJ(Ev.m)
           f   == Ev.w
           v   == FrameViol(m, f)
           dup == IsDup(wr, m)
           asReject == dup /\ v # "" /\ RejectViol(m, f) = ""
           isPiece  == m.k = "piece" /\ ~asReject /\ f.present
       IN /\ wr' = [upl |-> wr.upl + (IF isPiece THEN PLen(m) ELSE 0),
                    served |-> IF isPiece THEN wr.served \cup {ReqOf(m)} ELSE wr.served,
                    log |-> <<>>, cut |-> wr.cut]
          /\ viol' = IF asReject THEN "" ELSE v
    /\ UNCHANGED <<script, ns, net, rd, tm>>
    /\ l' = l + 1

\* the first f.k bytes of a frame of f.n bytes of message x, as far as its header is concerned
\* (bs = the header bytes the driver cut out: f.part by the payload length of the input message, f.all for small frames)
CutOk(x, f, bs) == \E h \in Heads(x) : /\ f.n = Len(h) + PLen(x) /\ f.k < f.n
                                        /\ bs = SubSeq(h, 1, IF f.k < Len(h) THEN f.k ELSE Len(h))

TrCut ==
    /\ Ev.op = "Cut"
    /\ ~Broken(wr)
    /\ LET m   == CanonJ(Ev.m)
           f   == Ev.w
           asReject == IsDup(wr, m) /\ ~CutOk(m, f, f.part) /\ CutOk(RejectOf(m), f, f.all)
           x   == IF asReject THEN RejectOf(m) ELSE m
       IN /\ wr' = [upl |-> wr.upl + PayloadTaken(x, f.k),
                    served |-> IF x.k = "piece" THEN wr.served \cup {ReqOf(x)} ELSE wr.served,
                    log |-> <<>>, cut |-> f.k]
          /\ viol' = IF asReject \/ CutOk(m, f, f.part) THEN "" ELSE "C11.frame"
    /\ UNCHANGED <<script, ns, net, rd, tm>>
    /\ l' = l + 1

TrEnd ==
    /\ Ev.op = "End"
    /\ viol' = IF Ev.leftover # (IF Broken(wr) THEN wr.cut ELSE 0) \/ Ev.frames # Ev.sent THEN "C11.frame"
               ELSE IF Ev.upl # wr.upl \/ Ev.wirepl # Ev.upl THEN "C11.upcount"
               ELSE ""
    /\ UNCHANGED vars
    /\ l' = l + 1

\* Time (Read.touts): the transport stayed silent until the reader's deadline expired, at stream position t.pos, inside
\* message t.mi (0: between messages); t.body = 1: behind the complete head of a block; t.since = body bytes of that block
\* handed over since the previous expiry / since the body began.  Wire!Tolerated is the reader's rule: a tolerated expiry
\* changes nothing, the first other one ends the connection - exactly the messages that were complete by then are expected.
TolT(t) == Tolerated(t.body = 1 /\ t.mi \in 1 .. Len(Ev.exp) /\ Ev.exp[t.mi].k = "piece", t.since > 0)
RECURSIVE FirstClose(_, _)
FirstClose(ts, i) == IF i > Len(ts) THEN -1 ELSE IF ~TolT(ts[i]) THEN ts[i].pos ELSE FirstClose(ts, i + 1)
KeptN == LET cp == FirstClose(Ev.touts, 1) IN
         IF cp < 0 THEN Len(Ev.exp) ELSE Cardinality({i \in 1 .. Len(Ev.exp) : Ev.ends[i] <= cp})

TrRead ==
    /\ Ev.op = "Read"
    /\ LET exp == SelectSeq([i \in 1 .. KeptN |-> CanonJ(Ev.exp[i])], Visible)
           got == [i \in 1 .. Len(Ev.got) |-> CanonJ(Ev.got[i])]
       IN viol' = IF Len(got) # Len(exp) THEN "C11.roundtrip"
                  ELSE IF \E i \in 1 .. Len(exp) : NoExtId(got[i]) # NoExtId(exp[i]) THEN "C11.roundtrip"
                  ELSE ""
    /\ UNCHANGED vars
    /\ l' = l + 1

TraceNext ==
    /\ l <= Len(Trace)
    /\ (TrConn \/ TrSend \/ TrCut \/ TrEnd \/ TrRead)

TraceSpec == TraceInit /\ [][TraceNext]_tvars

HighWater == TLCSet(1, IF l > TLCGet(1) THEN l ELSE TLCGet(1))
NoViolation == viol = ""
TraceAccepted ==
    LET hw == TLCGet(1) IN
    IF hw = Len(Trace) + 1 THEN TRUE
    ELSE /\ PrintT("@@REJECT " \o ToString(hw - 1) \o " " \o ToString(Len(Trace)))
         /\ FALSE
=============================================================================
