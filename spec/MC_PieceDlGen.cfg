SPECIFICATION GSpec
CONSTANTS
  SECS <- Secs_plain4
  BS = 2
  QLENS = {1, 2, 3, 4}
  FAST = FALSE
  AF = FALSE
  REJ = "any"
  UNREQ = TRUE
  ENDS = FALSE
  VARIANT = "fixed"
  IGNORE = {}
  K = 40
INVARIANT GenPrint
CHECK_DEADLOCK FALSE
