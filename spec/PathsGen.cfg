SPECIFICATION Spec
CONSTANTS
  TIER = "quick"
CHECK_DEADLOCK FALSE
