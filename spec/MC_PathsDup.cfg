SPECIFICATION MCSpec
CONSTANTS
  THREE = FALSE
INVARIANT Inv
CHECK_DEADLOCK FALSE
