--------------------------- MODULE MetainfoFetch ---------------------------
(***************************************************************************)
(* Property C06, HTTP source: Session.AddURI with an http(s) URL           *)
(* (torrent/session_add.go addURL).  The .torrent is downloaded from a     *)
(* server the client does not trust; the server decides WHEN and HOW MUCH  *)
(* it sends.  The environment's actions are the alphabet from which the    *)
(* scripted servers of harness/c06 (MetainfoGen!HttpCases) are built:      *)
(*                                                                         *)
(*   SrvRedirect   a 3xx answer (redirect loop / chain)                    *)
(*   SrvHead(cl)   the response head, Content-Length cl (-1 = absent,      *)
(*                 may be a lie in both directions)                        *)
(*   SrvBytes(k)   k more body bytes (fast, slow drip, endless body)       *)
(*   SrvClose      the connection is closed (before the head, mid-body)    *)
(*   Tick          one unit of time passes in silence (stall before the    *)
(*                 head, inside the head, at the start / middle of body)   *)
(*                                                                         *)
(* Client (the design that the obligation asks for):                       *)
(*   - ONE deadline T = Config.TorrentAddHTTPTimeout for the WHOLE         *)
(*     exchange: redirects, head and body (http.Client.Timeout);           *)
(*   - a declared Content-Length above M = Config.MaxTorrentSize is        *)
(*     refused; never more than M body bytes are read (io.LimitReader);    *)
(*   - what was read is parsed (Metainfo.tla judges what is accepted).     *)
(*                                                                         *)
(* @obligation C06.hang (site url)  the call has returned by time T        *)
(*             whatever the server does  (Bounded)                         *)
(* @obligation C06.alloc (site url) at most M body bytes are taken (ReadCap)*)
(*                                                                         *)
(* WholeExchange = FALSE is the defective design in which the deadline     *)
(* only covers the wait for the head: MC_MetainfoFetch_hdronly.cfg must    *)
(* FAIL Bounded (head in time, then silence) - the vacuity guard of this   *)
(* model, and the reason for the stall-mid / stall-start / drip scripts.   *)
(***************************************************************************)
EXTENDS Integers, TLC
CONSTANTS T, M, MaxBody, MaxHops, WholeExchange

VARIABLES now,     \* time since the call started
          phase,   \* "head" (waiting for a response head) | "body" | "parse" | "done"
          hops,    \* redirects followed so far
          cl,      \* declared Content-Length (-1 = none)
          sent,    \* body bytes the server has produced
          got,     \* body bytes the client has taken
          res      \* "" | "ok" | "err"
vars == <<now, phase, hops, cl, sent, got, res>>

Init == now = 0 /\ phase = "head" /\ hops = 0 /\ cl = -1 /\ sent = 0 /\ got = 0 /\ res = ""

Finish(r) == phase' = "done" /\ res' = r

SrvRedirect ==
    /\ phase = "head"
    /\ IF hops < MaxHops THEN hops' = hops + 1 /\ UNCHANGED <<phase, res>>
       ELSE hops' = hops /\ Finish("err")                       \* "stopped after N redirects"
    /\ UNCHANGED <<now, cl, sent, got>>

SrvHead(c) ==
    /\ phase = "head"
    /\ cl' = c
    /\ IF c > M THEN Finish("err")                              \* "torrent too large"
       ELSE IF c = 0 THEN phase' = "parse" /\ res' = res
       ELSE phase' = "body" /\ res' = res
    /\ UNCHANGED <<now, hops, sent, got>>

SrvBytes(k) ==
    /\ phase = "body" /\ sent + k <= MaxBody
    /\ sent' = sent + k
    /\ LET room == IF cl >= 0 /\ cl < M THEN cl ELSE M           \* LimitReader(M) over a body of declared length cl
           g    == IF got + k > room THEN room ELSE got + k
       IN /\ got' = g
          /\ phase' = IF g = room THEN "parse" ELSE "body"
    /\ UNCHANGED <<now, hops, cl, res>>

SrvClose ==
    /\ phase \in {"head", "body"}
    /\ IF phase = "head" THEN Finish("err") ELSE phase' = "parse" /\ res' = res
    /\ UNCHANGED <<now, hops, cl, sent, got>>

\* parsing what was read: bounded work, no waiting (the verdict itself is Metainfo.tla's business)
Parse == phase = "parse" /\ (Finish("ok") \/ Finish("err")) /\ UNCHANGED <<now, hops, cl, sent, got>>

Tick ==
    /\ phase \in {"head", "body"}
    /\ now < T + 2                                               \* model bound only
    /\ now' = now + 1
    /\ IF (WholeExchange \/ phase = "head") /\ now + 1 >= T THEN Finish("err") ELSE UNCHANGED <<phase, res>>
    /\ UNCHANGED <<hops, cl, sent, got>>

Next == \/ SrvRedirect \/ SrvClose \/ Parse \/ Tick
        \/ \E c \in -1 .. MaxBody + 1 : SrvHead(c)
        \/ \E k \in 1 .. MaxBody : SrvBytes(k)
        \/ (phase = "done" /\ UNCHANGED vars)
Spec == Init /\ [][Next]_vars

TypeOK == /\ now \in 0 .. T + 2 /\ phase \in {"head", "body", "parse", "done"} /\ hops \in 0 .. MaxHops
          /\ cl \in -1 .. MaxBody + 1 /\ sent \in 0 .. MaxBody /\ got \in 0 .. MaxBody /\ res \in {"", "ok", "err"}
Bounded == phase \in {"head", "body"} => now < T
ReadCap == got <= M /\ got <= sent
Verdict == (phase = "done") <=> (res # "")
Inv == TypeOK /\ Bounded /\ ReadCap /\ Verdict
=============================================================================
