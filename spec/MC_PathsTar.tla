---------------------------- MODULE MC_PathsTar ----------------------------
(* Archives as SEQUENCES of typed entries (regular, directory, symbolic     *)
(* link, hard link), extracted one entry per step (action Extract).         *)
(*   TarComplete : with the extraction as found ("flat": a link entry is    *)
(*        written as a regular file, no link is ever created) everything    *)
(*        an accepted prefix of ANY archive creates or writes lies inside   *)
(*        the destination - the name check is complete BECAUSE later        *)
(*        entries cannot be redirected by earlier ones;                     *)
(*   vacuity guard (VARIANT = "links", TarComplete must be VIOLATED):       *)
(*        recreating link entries while checking only the entry name lets   *)
(*        a later entry be written through a link to the outside.           *)
EXTENDS Paths
CONSTANTS VARIANT, BIG

l == <<"L">>
m == <<"L", "L">>
dd == <<"D", "D">>
NamesT == {<<l>>, <<l, l>>, <<l, m>>, <<m>>, <<dd, l>>} \cup (IF BIG THEN {<<l, l, l>>, <<l, dd, m>>, <<m, l>>, <<l, <<"D">>, l>>} ELSE {})
Typs == IF BIG THEN {"reg", "dir", "sym", "hard"} ELSE {"reg", "sym"}
\* places: a sibling directory of the data directory, a file in it, another torrent's file, directories inside the destination
PlacesT == {[up |-> 2, down |-> << <<"#sib">> >>], [up |-> 2, down |-> << <<"#sib">>, <<"#keep">> >>],
            [up |-> 1, down |-> << <<"#zz">>, <<"#keep">> >>], [up |-> 0, down |-> <<m>>]}
           \cup (IF BIG THEN {[up |-> 2, down |-> <<>>], [up |-> 1, down |-> <<>>], [up |-> 0, down |-> <<>>], [up |-> 0, down |-> <<l, l>>]} ELSE {})
NoPlace == [up |-> 0, down |-> <<>>]
Entries == {[name |-> n, typ |-> t, up |-> p.up, down |-> p.down] : n \in NamesT, t \in Typs \ {"sym", "hard"}, p \in {NoPlace}}
           \cup {[name |-> n, typ |-> t, up |-> p.up, down |-> p.down] : n \in NamesT, t \in Typs \cap {"sym", "hard"}, p \in PlacesT}
MAXN == 3
DestM == UM

VARIABLES st, n
MCInit == st = TarS0 /\ n = 0
\* one entry of the archive is extracted
Extract(e) == n < MAXN /\ st.ok /\ st' = TarStep(VARIANT, DestM, st, e) /\ n' = n + 1
MCNext == \E e \in Entries : Extract(e)
MCSpec == MCInit /\ [][MCNext]_<<st, n>>
TarComplete == TarConfined(DestM, st)
=============================================================================
