SPECIFICATION MCSpec
CONSTANTS
  U = 2
  RANGE = {1, 2}
  FIX = {}
  MAXF = 0
  FAULTS = {}
  BINITS = {"empty"}
  RUNS = {TRUE}
  DIRTYS = {FALSE}
  DSTS = {"A"}
  FINAL = FALSE
INVARIANT TypeOK
INVARIANT AtLeastOne
CHECK_DEADLOCK FALSE
