SPECIFICATION Spec
CONSTANTS
  NP = 2
  NB = 2
  PAD <- Pad01
  NSRC = 1
  WS = TRUE
  FIX <- DiffFix
  MUT = "none"
  IGNORE <- NotRepaired
  RXMAX = 5
  NJUNK = 0
  NWRITE = 0
  NFAIL = 1
  NCRASH = 0
  NCLOSE = 1
  NSTOP = 0
  NUP = 0
  NINV = 1
  NLATE = 0
  TMAX = 0
  PERIOD = 2
  LATE = 0
  SEEDTOL = 0
INVARIANT Inv
VIEW View
CHECK_DEADLOCK FALSE
