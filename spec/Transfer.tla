------------------------------- MODULE Transfer -------------------------------
(***************************************************************************)
(* Design model of the download path of one torrent:                       *)
(*   torrent_messagehandler.go  handlePieceMessage                         *)
(*   internal/piecedownloader   GotBlock / Done                            *)
(*   internal/piecewriter       Run: hash first, write only if the hash    *)
(*                              matches                                    *)
(*   torrent_write.go           handlePieceWriteDone (bit, have, ban)      *)
(*   torrent_webseed.go         handleWebseedPieceResult                   *)
(*   torrent_stop.go/start.go   stop / start while a write is in flight    *)
(*   storage write errors       a write of a hash-OK piece may fail (I/O   *)
(*                              error): the piece is not counted and the   *)
(*                              torrent stops with the error; Start again  *)
(* Blocks carry a class: "G" (equal to ground truth) or "B".  SHA-1 is     *)
(* collision free by assumption: HashOK(buf) iff every block is "G".       *)
(* TLC checks the C01 obligations (TransferObs) for every interleaving of  *)
(* peer messages, write completions and stop/start, with a lying peer,     *)
(* and the C10 liveness clause under fairness.                             *)
(***************************************************************************)
EXTENDS TransferObs

CONSTANTS NP,        \* pieces
          NB,        \* blocks per piece
          Peers,     \* peer addresses
          Liars,     \* subset of Peers that may send bad blocks
          Sources,   \* web seeds (addresses), subset may lie
          LyingSources,
          EndgameLimit,
          MaxStops,  \* bound on stop/start cycles
          MaxFaults  \* bound on storage-write errors (I/O error on a piece whose hash matched)

VARIABLES pd,        \* [Peers -> [piece, got]]  got : [Block -> {"E","G","B"}], piece = -1 if idle
          wsq,       \* web-seed results waiting in the (suspendable) result channel: set of [src, piece, cls]
          writing,   \* piece writer: [piece, cls, src, phase]  phase \in {"hash","write","done"}; or Nil
          disk,      \* [Piece -> {"Nil","Good","Bad"}]
          running,   \* torrent started
          epoch,     \* incremented by every start (identifies the run a write belongs to)
          stops,
          faults     \* storage-write errors injected so far

ivars == <<pd, wsq, writing, disk, running, epoch, stops, faults>>
vars  == <<obsvars, ivars>>

Block == 1 .. NB
NoDl  == [piece |-> -1, got |-> [b \in Block |-> "E"]]
Nil   == [piece |-> -1, cls |-> "G", src |-> "none", phase |-> "done", epoch |-> 0, ok |-> FALSE, failed |-> FALSE]

Init ==
    /\ np = NP /\ good = {} /\ have = {} /\ reported = {} /\ banned = {} /\ conn = {}
    /\ pd = [pe \in Peers |-> NoDl]
    /\ wsq = {} /\ writing = Nil
    /\ disk = [p \in 0 .. (NP - 1) |-> "Nil"]
    /\ running = TRUE /\ epoch = 1 /\ stops = 0 /\ faults = 0

Suspended == writing # Nil          \* pieceMessagesC / webseedPieceResultC are suspended while a write is in flight
Downloaders(p) == {pe \in Peers : pd[pe].piece = p}

Connect(pe) ==                                    \* handshake done: startPeer (bans and duplicates refused)
    /\ running /\ pe \notin conn /\ pe \notin banned
    /\ conn' = conn \cup {pe}
    /\ reported' = reported \cup have               \* sendFirstMessage: bitfield of what we have
    /\ UNCHANGED <<np, good, have, banned, ivars>>

Disconnect(pe) ==                                 \* closePeer
    /\ pe \in conn
    /\ conn' = conn \ {pe}
    /\ pd' = [pd EXCEPT ![pe] = NoDl]
    /\ UNCHANGED <<np, good, have, reported, banned, wsq, writing, disk, running, epoch, stops, faults>>

StartDownload(pe, p) ==                           \* picker envelope (Picker.tla obligations)
    /\ running /\ pe \in conn /\ pd[pe].piece = -1
    /\ p \notin have /\ (writing = Nil \/ writing.piece # p)
    /\ Cardinality(Downloaders(p)) < (IF EndgameLimit > 1 THEN EndgameLimit ELSE 1)
    /\ pd' = [pd EXCEPT ![pe] = [piece |-> p, got |-> [b \in Block |-> "E"]]]
    /\ UNCHANGED <<obsvars, wsq, writing, disk, running, epoch, stops, faults>>

\* handlePieceMessage for a block of the piece this peer is downloading; duplicates of a received block are dropped
Deliver(pe, b, cls) ==
    /\ running /\ ~Suspended /\ pe \in conn /\ pd[pe].piece # -1
    /\ cls = "B" => pe \in Liars
    /\ pd[pe].got[b] = "E"
    /\ LET p == pd[pe].piece
           got2 == [pd[pe].got EXCEPT ![b] = cls]
       IN IF \E x \in Block : got2[x] = "E"
          THEN /\ pd' = [pd EXCEPT ![pe].got = got2]
               /\ UNCHANGED writing
          ELSE /\ pd' = [pd EXCEPT ![pe] = NoDl]                 \* closePieceDownloader
               /\ writing' = [piece |-> p, cls |-> IF \A x \in Block : got2[x] = "G" THEN "G" ELSE "B",
                              src |-> pe, phase |-> "hash", epoch |-> epoch, ok |-> FALSE, failed |-> FALSE]
    /\ UNCHANGED <<obsvars, wsq, disk, running, epoch, stops, faults>>

DeliverIgnored(pe) ==                             \* duplicate / unrequested piece / other piece / wrong length: dropped or peer closed
    /\ pe \in conn /\ pe \in Liars
    /\ \/ UNCHANGED vars
       \/ Disconnect(pe)

WebseedResult(s, p, cls) ==                       \* urldownloader completes a piece and queues the result
    /\ running /\ p \notin have
    /\ cls = "B" => s \in LyingSources
    /\ ~\E r \in wsq : r.src = s
    /\ wsq' = wsq \cup {[src |-> s, piece |-> p, cls |-> cls]}
    /\ UNCHANGED <<obsvars, pd, writing, disk, running, epoch, stops, faults>>

HandleWebseedResult(r) ==                         \* handleWebseedPieceResult: stale results (piece already done) are discarded
    /\ running /\ ~Suspended /\ r \in wsq
    /\ wsq' = wsq \ {r}
    /\ IF r.piece \in have
       THEN UNCHANGED writing
       ELSE writing' = [piece |-> r.piece, cls |-> r.cls, src |-> r.src, phase |-> "hash", epoch |-> epoch, ok |-> FALSE, failed |-> FALSE]
    /\ UNCHANGED <<obsvars, pd, disk, running, epoch, stops, faults>>

WriterHash ==                                     \* piecewriter.Run: VerifyHash
    /\ writing # Nil /\ writing.phase = "hash"
    /\ writing' = [writing EXCEPT !.phase = IF writing.cls = "G" THEN "write" ELSE "done", !.ok = (writing.cls = "G")]
    /\ UNCHANGED <<obsvars, pd, wsq, disk, running, epoch, stops, faults>>

WriterWrite ==                                    \* Piece.Data.Write: only reached when the hash matched
    /\ writing # Nil /\ writing.phase = "write"
    /\ \/ /\ disk' = [disk EXCEPT ![writing.piece] = IF writing.cls = "G" THEN "Good" ELSE "Bad"]
          /\ good' = IF writing.cls = "G" THEN good \cup {writing.piece} ELSE good \ {writing.piece}
          /\ writing' = [writing EXCEPT !.phase = "done"]
          /\ UNCHANGED faults
       \/ /\ writing.epoch # epoch                                \* files were closed by stop(): the write fails
          /\ writing' = [writing EXCEPT !.phase = "done", !.failed = TRUE]
          /\ UNCHANGED <<disk, good, faults>>
       \/ /\ faults < MaxFaults                                   \* I/O error (disk full, ...): nothing (complete) reaches the file
          /\ faults' = faults + 1
          /\ writing' = [writing EXCEPT !.phase = "done", !.failed = TRUE]
          /\ UNCHANGED <<disk, good>>
    /\ UNCHANGED <<np, have, reported, banned, conn, pd, wsq, running, epoch, stops>>

\* handlePieceWriteDone
WriteDone ==
    /\ writing # Nil /\ writing.phase = "done"
    /\ writing' = Nil
    /\ IF writing.epoch # epoch
       THEN \* result of a previous run (stop + start while the piece was being written): dropped; a corrupt source is still banned
            /\ IF ~writing.ok /\ writing.src \in Peers
               THEN /\ banned' = banned \cup {writing.src} /\ conn' = conn \ {writing.src}
                    /\ pd' = [pd EXCEPT ![writing.src] = NoDl]
               ELSE UNCHANGED <<banned, conn, pd>>
            /\ UNCHANGED <<have, reported, wsq, running>>
       ELSE IF ~writing.ok
       THEN /\ IF writing.src \in Peers                           \* corrupt piece: close and ban the peer
               THEN /\ banned' = banned \cup {writing.src}
                    /\ conn' = conn \ {writing.src}
                    /\ pd' = [pd EXCEPT ![writing.src] = NoDl]
               ELSE UNCHANGED <<banned, conn, pd>>
            /\ UNCHANGED <<have, reported, wsq, running>>
       ELSE IF writing.failed
            THEN \* write error on a verified piece: the piece is NOT counted; the torrent stops with the error (stop(pw.Error))
                 /\ running' = FALSE
                 /\ conn' = {} /\ pd' = [pe \in Peers |-> NoDl] /\ wsq' = {}
                 /\ UNCHANGED <<have, reported, banned>>
            ELSE /\ have' = have \cup {writing.piece}
                 /\ reported' = IF running THEN reported \cup {writing.piece} ELSE reported
                 /\ pd' = [pe \in Peers |-> IF pd[pe].piece = writing.piece THEN NoDl ELSE pd[pe]]
                 /\ UNCHANGED <<banned, conn, wsq, running>>
    /\ UNCHANGED <<np, good, disk, epoch, stops, faults>>

Stop ==                                           \* stop(): peers, downloaders, web seeds closed; a write may stay in flight
    /\ running /\ stops < MaxStops
    /\ running' = FALSE /\ stops' = stops + 1
    /\ conn' = {} /\ pd' = [pe \in Peers |-> NoDl] /\ wsq' = {}
    /\ UNCHANGED <<np, good, have, reported, banned, writing, disk, epoch, faults>>

Start ==
    /\ ~running
    /\ running' = TRUE /\ epoch' = epoch + 1
    /\ UNCHANGED <<obsvars, pd, wsq, writing, disk, stops, faults>>

Next ==
    \/ \E pe \in Peers : Connect(pe) \/ Disconnect(pe) \/ DeliverIgnored(pe)
    \/ \E pe \in Peers, p \in Piece : StartDownload(pe, p)
    \/ \E pe \in Peers, b \in Block, c \in {"G", "B"} : Deliver(pe, b, c)
    \/ \E s \in Sources, p \in Piece, c \in {"G", "B"} : WebseedResult(s, p, c)
    \/ \E r \in wsq : HandleWebseedResult(r)
    \/ WriterHash \/ WriterWrite \/ WriteDone \/ Stop \/ Start

Honest == Peers \ Liars
Fairness ==
    /\ WF_vars(WriterHash) /\ WF_vars(WriterWrite) /\ WF_vars(WriteDone) /\ WF_vars(Start)
    /\ \A pe \in Honest : WF_vars(Connect(pe))
    /\ \A pe \in Honest, p \in 0 .. (NP - 1) : SF_vars(StartDownload(pe, p))
    /\ \A pe \in Honest, b \in Block : SF_vars(Deliver(pe, b, "G"))

Spec == Init /\ [][Next]_vars
FairSpec == Spec /\ Fairness

\* @obligation C01.a  nothing but verified content reaches storage
DiskOnlyVerified == \A p \in Piece : disk[p] # "Bad"
GoodIsDisk == good = {p \in Piece : disk[p] = "Good"}
OneWriter == TRUE
Inv == ObsInv /\ DiskOnlyVerified /\ GoodIsDisk

\* @obligation C10.live  with an honest full source that stays reachable the download completes
\* (honest peers never disconnect on their own in this model; stops are bounded)
Complete == have = Piece
Live == <>[](Complete)
=============================================================================
