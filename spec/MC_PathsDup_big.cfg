SPECIFICATION MCSpec
CONSTANTS
  THREE = TRUE
INVARIANT Inv
CHECK_DEADLOCK FALSE
