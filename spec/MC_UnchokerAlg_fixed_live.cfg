SPECIFICATION ALiveSpec
CONSTANTS
  NPEERS = 3
  NN = 1
  MM = 1
  RMAX = 1
  VARIANT = "fixed"
  IGNORE = {}
  VICTIM = 3
INVARIANT TypeOK
CHECK_DEADLOCK FALSE
PROPERTY EventuallyUnchoked
