----------------------------- MODULE MC_PieceDl -----------------------------
(***************************************************************************)
(* Exhaustive configurations of the ENVELOPE of PieceDl.tla in the calling *)
(* discipline of the torrent loop (`due` = the loop owes a RequestBlocks   *)
(* call: at the start, after a block unless the download is complete or    *)
(* the peer chokes a non-allowed-fast download, after an unchoke of a      *)
(* non-allowed-fast download; nothing else happens in between).            *)
(* For every interleaving of request calls, block arrivals (outstanding,   *)
(* late after a choke, never requested, duplicate), rejects, choke,        *)
(* unchoke, snub timeout, cancel and disconnect:                           *)
(*  - the per-call obligations imply the global forms (QueueBound = X04.a, *)
(*    NoDupOutstanding = X04.c, StoredNotOutstanding = X04.b.have,         *)
(*    ChokeVoids = X04.f) and are jointly satisfiable (RequestPossible);   *)
(*  - NoStuck (X04.g): no state with blocks missing, nothing outstanding   *)
(*    and the peer ready to serve - provided the peer rejects only while   *)
(*    it chokes (REJ = "choked") or not at all.  With REJ = "out" (the     *)
(*    peer rejects outstanding requests while unchoked) or an allowed-fast *)
(*    download whose requests are rejected the loop never asks again       *)
(*    (reject does not trigger RequestBlocks, an unchoke is ignored for an *)
(*    allowed-fast download): MC_PieceDl_rejstall*.cfg are EXPECTED to     *)
(*    fail NoStuck - a property of the loop's discipline, see props/x04.py *)
(*  - liveness (LiveSpec / Completes): under weak fairness of the owed     *)
(*    request call and of the unchoke, and strong fairness of "the peer    *)
(*    answers an outstanding request with its block", the piece completes. *)
(***************************************************************************)
EXTENDS PieceDl
CONSTANTS SECS,      \* sections of the piece
          BS,        \* block size
          QLENS,     \* queue lengths
          FAST, AF,
          REJ,       \* "none" | "choked" (outstanding, while choking) | "out" (outstanding, any time) | "any"
          UNREQ,     \* the peer may deliver blocks that are not outstanding (late / never requested / duplicates)
          ENDS       \* cancel and disconnect happen
VARIABLES due, ql
mvars == <<vars, due, ql>>

Secs_plain4 == << [len |-> 7, pad |-> FALSE] >>                                              \* 2 2 2 1
Secs_plain3 == << [len |-> 5, pad |-> FALSE] >>                                              \* 2 2 1
Secs_pad    == << [len |-> 3, pad |-> FALSE], [len |-> 1, pad |-> TRUE], [len |-> 3, pad |-> FALSE] >>   \* 0+2 2+1 | 4+2 6+1
Secs_plain5 == << [len |-> 10, pad |-> FALSE] >>

RECURSIVE SortedSeq(_)
SortedSeq(S) == IF S = {} THEN <<>> ELSE LET x == CHOOSE x \in S : \A y \in S : x <= y IN <<x>> \o SortedSeq(S \ {x})

MCInit ==
    /\ \E ck \in (IF AF THEN BOOLEAN ELSE {FALSE}) :
          InitWith([idx |-> 1, bs |-> BS, secs |-> SECS, fast |-> FAST, af |-> AF], ck)
    /\ due = TRUE /\ ql \in QLENS

MCReq == due /\ \E S \in SUBSET Block : Request(ql, MsgsOf(SortedSeq(S))) /\ due' = FALSE /\ UNCHANGED ql

Deliver(x) ==
    /\ ~due /\ open
    /\ BlockDelivered(cfg.bt[x].b, cfg.bt[x].n, 1, BlockExpect(x))
    /\ due' = (open' /\ (cfg.af \/ ~chokd)) /\ UNCHANGED ql
MCDeliverOut == \E x \in Block : out[x] > 0 /\ Deliver(x)
MCDeliverOther == UNREQ /\ \E x \in Block : out[x] = 0 /\ Deliver(x)

MCReject ==
    /\ ~due /\ cfg.fast /\ REJ # "none"
    /\ \E x \in Block :
          /\ REJ = "any" \/ out[x] > 0
          /\ REJ # "choked" \/ chokd
          /\ Rejected(cfg.bt[x].b, cfg.bt[x].n, TRUE)
    /\ due' = FALSE /\ UNCHANGED ql

MCChoke == ~due /\ ~chokd /\ Choke /\ due' = FALSE /\ UNCHANGED ql
MCUnchoke == ~due /\ chokd /\ Unchoke /\ due' = ~cfg.af /\ UNCHANGED ql
MCSnub == ~due /\ ~snub /\ Snub /\ UNCHANGED <<due, ql>>
MCEnd ==
    /\ ENDS /\ ~due
    /\ \/ Cancel(MsgsOf(SortedSeq({x \in Block : out[x] > 0})))
       \/ Disconnect
    /\ due' = FALSE /\ UNCHANGED ql

MCNext == MCReq \/ MCDeliverOut \/ MCDeliverOther \/ MCReject \/ MCChoke \/ MCUnchoke \/ MCSnub \/ MCEnd
MCSpec == MCInit /\ [][MCNext]_mvars

QueueBound == Total(out) <= ql
RequestPossible == (due /\ open) => \E S \in SUBSET Block : RequestViols(ql, MsgsOf(SortedSeq(S))) = {}
DoneIffAll == (~open /\ ~ENDS) => AllStored(have)
NoStuck == (open /\ ~due /\ Missing # {} /\ (~chokd \/ cfg.af) /\ ql > 0) => Total(out) > 0
GeometryOK == \A x \in Block :                       \* the block table tiles the non-padding bytes
    /\ cfg.bt[x].n >= 1 /\ cfg.bt[x].n <= cfg.bs
    /\ x < NB => cfg.bt[x].b + cfg.bt[x].n <= cfg.bt[x + 1].b

Inv == TypeOK /\ QueueBound /\ NoDupOutstanding /\ StoredNotOutstanding /\ ChokeVoids /\ ClosedQuiet
       /\ RequestPossible /\ DoneIffAll /\ GeometryOK
InvNoStuck == Inv /\ NoStuck

LiveSpec == MCSpec /\ WF_mvars(MCReq) /\ WF_mvars(MCUnchoke) /\ SF_mvars(MCDeliverOut)
Completes == <>(~open)
=============================================================================
