SPECIFICATION ALiveSpec
CONSTANTS
  NPEERS = 3
  NN = 1
  MM = 1
  RMAX = 1
  VARIANT = "asis"
  IGNORE = {"X01.f", "X01.a.reg", "X01.a.opt"}
  VICTIM = 3
INVARIANT TypeOK
CHECK_DEADLOCK FALSE
PROPERTY EventuallyUnchoked
