---------------------------- MODULE MC_WebseedAlg ----------------------------
(***************************************************************************)
(* The algorithm of urldownloader.URLDownloader.Run, statement by          *)
(* statement, run against the envelope of Webseed.tla (PART 1) in every    *)
(* interleaving with the environment: the server's answers (206, 500,      *)
(* transport error, 200 for the whole file), chunks of 1..MAXCH bytes,     *)
(* short bodies, the consumer receiving / writing / releasing, one         *)
(* WebseedStopAt(i), one Close.  `av` = tags violated by the last step.    *)
(*   VARIANT "asis"  the unchanged tree: completePiece / processJob return *)
(*       "true" both for "range finished" and for "go on", the buffer is   *)
(*       released only on the error path.  Expected to FAIL: PREDICTED.    *)
(*   VARIANT "fixed" fixes/X06-*.diff: the buffer is released by a         *)
(*       deferred call iff the goroutine still owns it, the job loop ends  *)
(*       after the last result, a 200 answer for an offset > 0 is an error *)
(* The StopAt input is not taken in the few instructions between the       *)
(* completed send and the increment of `current` (it behaves there like a  *)
(* StopAt during the blocked send: the same one piece of overshoot).       *)
(***************************************************************************)
EXTENDS Webseed
CONSTANTS PL, FILES, RB, RE, MAXCH, VARIANT, IGNORE, MODES, NSTOP, NCLOSE, NERR
VARIABLES al, av, bud

avars == <<allvars, al, av, bud>>

\* FILES = <<[len, pad]>>; geometries for the configurations (FILES <- G_x)
G_pad   == <<[len |-> 3, pad |-> FALSE], [len |-> 1, pad |-> TRUE], [len |-> 4, pad |-> FALSE]>>   \* A, padding, B
G_two   == <<[len |-> 4, pad |-> FALSE], [len |-> 4, pad |-> FALSE]>>                              \* boundary on a piece edge
G_mid   == <<[len |-> 3, pad |-> FALSE], [len |-> 0, pad |-> FALSE], [len |-> 3, pad |-> FALSE]>>  \* boundary inside piece 1, empty file
G_one   == <<[len |-> 5, pad |-> FALSE]>>                                                          \* single file, short last piece
RECURSIVE SumTo(_)
SumTo(k) == IF k = 0 THEN 0 ELSE SumTo(k - 1) + FILES[k].len
Total == SumTo(Len(FILES))
NPieces == (Total + PL - 1) \div PL
CFG == [np |-> NPieces, npeers |-> 0, nsrc |-> 1, limit |-> 1, seq |-> FALSE, edge |-> {}, have0 |-> {},
        pl |-> PL, total |-> Total, capd |-> 1, ri |-> 1,
        files |-> [k \in 1 .. Len(FILES) |-> [start |-> SumTo(k - 1), len |-> FILES[k].len, pad |-> FILES[k].pad]]]

AL0 == [pc |-> "init", b |-> RB, end |-> RE, cur |-> RB, jobs |-> <<>>, ji |-> 1, n |-> 0, m |-> 0, want |-> 0,
        buf |-> 0, owned |-> FALSE, pend |-> [idx |-> 0, buf |-> 0, done |-> FALSE], sent |-> FALSE, closed |-> FALSE]

AInit == WInitWith(CFG) /\ al = AL0 /\ av = {} /\ bud = [stop |-> 0, close |-> 0, err |-> 0]

Ev(viols, upd) == av' = viols \ IGNORE /\ upd
Silent == av' = {} /\ UNCHANGED allvars
Go(a2) == al' = a2 /\ UNCHANGED bud

Job == al.jobs[al.ji]
CurLen == PLen(al.cur)
Fixed == VARIANT = "fixed"

-----------------------------------------------------------------------------
(* the goroutine                                                            *)

\* go ud.Run(...)
DStartRun == al.pc = "init" /\ Ev({}, WStartUpd(RB, RE)) /\ Go([al EXCEPT !.pc = "get0"])

\* jobs := createJobs(pieces, d.Begin, d.readEnd()); buf := pool.Get(...)
DGet0 ==
    /\ al.pc = "get0"
    /\ Ev(WGetViols, WGetUpd)
    /\ Go([al EXCEPT !.pc = "job", !.jobs = IF al.b < al.end THEN JobsOf(al.b, al.end) ELSE <<>>,
                     !.buf = Len(own) + 1, !.owned = TRUE, !.n = 0, !.ji = 1])

\* for _, job := range jobs
DJob ==
    /\ al.pc = "job"
    /\ IF al.ji > Len(al.jobs) THEN Silent /\ Go([al EXCEPT !.pc = "exit"])
       ELSE IF Job.pad THEN Silent /\ Go([al EXCEPT !.pc = "pad", !.m = 0])
       ELSE IF al.closed THEN Silent /\ Go([al EXCEPT !.pc = "senderr"])        \* client.Do fails at once
       ELSE /\ Ev(WReqViols(Job.f, Job.lo, Job.lo + Job.len - 1), WReqUpd(Job.f, Job.lo, Job.lo + Job.len - 1))
            /\ Go([al EXCEPT !.pc = "do"])

DDoClosed == al.pc = "do" /\ al.closed /\ Silent /\ Go([al EXCEPT !.pc = "senderr"])

\* for m < job.Length { readSize := calcReadSize(...); readFull(...) }
DBody ==
    /\ al.pc = "body"
    /\ Silent
    /\ IF al.m >= Job.len THEN Go([al EXCEPT !.pc = "job", !.ji = @ + 1])
       ELSE LET rs == Min2(CurLen - al.n, Job.len - al.m) IN
            IF rs = 0 THEN Go([al EXCEPT !.pc = IF al.n = CurLen THEN "complete" ELSE "body"])
            ELSE Go([al EXCEPT !.pc = "read", !.want = rs])

DReadClosed ==
    /\ al.pc = "read" /\ al.closed
    /\ Ev(WReadViols(0, 2), WReadUpd(0, 2)) /\ Go([al EXCEPT !.pc = "senderr"])

\* processPadding
DPad ==
    /\ al.pc = "pad"
    /\ Silent
    /\ IF al.m >= Job.len THEN Go([al EXCEPT !.pc = "job", !.ji = @ + 1])
       ELSE LET sk == Min2(CurLen - al.n, Job.len - al.m) IN
            Go([al EXCEPT !.n = @ + sk, !.m = @ + sk, !.pc = IF al.n + sk = CurLen THEN "complete" ELSE "pad"])

\* completePiece: index := d.current; done = d.current >= d.readEnd()-1 (uint32); sendResult
DComplete ==
    /\ al.pc = "complete"
    /\ LET dflag == al.end > 0 /\ al.cur >= al.end - 1
           pd == [idx |-> al.cur, buf |-> al.buf, done |-> dflag]
       IN IF al.closed THEN Silent /\ Go([al EXCEPT !.pc = "aftersend", !.pend = pd, !.sent = FALSE])
          ELSE Ev({}, WSendUpd(al.buf)) /\ Go([al EXCEPT !.pc = "send", !.pend = pd])

DSendClosed ==
    /\ al.pc = "send" /\ al.closed
    /\ Ev({}, WAbortUpd(al.pend.buf)) /\ Go([al EXCEPT !.pc = "aftersend", !.sent = FALSE])

Back == IF Job.pad THEN "pad" ELSE "body"
DAfterSend ==
    /\ al.pc = "aftersend"
    /\ IF Fixed /\ ~al.sent THEN Silent /\ Go([al EXCEPT !.pc = "exit"])                     \* closed: deferred release
       ELSE IF al.pend.done
            THEN Silent /\ (IF Fixed THEN Go([al EXCEPT !.pc = "exit", !.owned = FALSE])
                            ELSE Go([al EXCEPT !.pc = "job", !.ji = @ + 1]))                \* `return true`: next job
            ELSE /\ Ev(WGetViols, WGetUpd)                                                  \* incrCurrent; pool.Get
                 /\ Go([al EXCEPT !.cur = @ + 1, !.n = 0, !.buf = Len(own) + 1, !.owned = TRUE, !.pc = Back])

\* d.sendResult(resultC, &PieceResult{Error: err}); return false
DSendErr == al.pc = "senderr" /\ Silent /\ Go([al EXCEPT !.pc = IF al.closed THEN "release" ELSE "sendE"])
DSendEClosed == al.pc = "sendE" /\ al.closed /\ Silent /\ Go([al EXCEPT !.pc = "release"])
\* if !ok { buf.Release(); break }
DRelease ==
    /\ al.pc = "release"
    /\ IF Fixed THEN Silent /\ Go([al EXCEPT !.pc = "exit"])
       ELSE Ev(WRelViols(al.buf), WRelUpd(al.buf)) /\ Go([al EXCEPT !.pc = "exit"])
\* deferred: if owned { buf.Release() } ; close(d.doneC)
DExit ==
    /\ al.pc = "exit"
    /\ IF Fixed /\ al.owned THEN Ev(WRelViols(al.buf), WRelUpd(al.buf)) /\ Go([al EXCEPT !.owned = FALSE])
       ELSE Ev(WEndedViols, WEndedUpd) /\ Go([al EXCEPT !.pc = "ended"])

DStep == DStartRun \/ DGet0 \/ DJob \/ DDoClosed \/ DBody \/ DReadClosed \/ DPad \/ DComplete \/ DSendClosed
         \/ DAfterSend \/ DSendErr \/ DSendEClosed \/ DRelease \/ DExit

-----------------------------------------------------------------------------
(* the environment                                                          *)

Spend(f) == bud' = [bud EXCEPT ![f] = @ + 1]

\* the server answers
EResp(mode) ==
    /\ al.pc = "do" /\ ~al.closed /\ mode \in MODES
    /\ CASE mode = "206" -> /\ Ev({}, WRespUpd(206, Job.lo, 0)) /\ al' = [al EXCEPT !.pc = "body", !.m = 0] /\ UNCHANGED bud
         [] mode = "500" -> /\ bud.err < NERR /\ Spend("err")
                            /\ Ev({}, WRespUpd(500, 0, 0)) /\ al' = [al EXCEPT !.pc = "senderr"]
         [] mode = "terr" -> /\ bud.err < NERR /\ Spend("err")
                             /\ Ev({}, WRespUpd(0, 0, 1)) /\ al' = [al EXCEPT !.pc = "senderr"]
         [] mode = "200" -> /\ bud.err < NERR /\ Spend("err")                     \* the whole file from offset 0
                            /\ Ev({}, WRespUpd(200, 0, 0))
                            /\ al' = [al EXCEPT !.pc = IF Fixed /\ Job.lo # 0 THEN "senderr" ELSE "body", !.m = 0]

\* k bytes arrive; short = the body ends after them although more were announced
EChunk(k, short) ==
    /\ al.pc = "read" /\ ~al.closed /\ k \in 0 .. Min2(al.want, MAXCH)
    /\ IF short
       THEN /\ k < al.want /\ bud.err < NERR /\ Spend("err")
            /\ Ev(WReadViols(k, 1), WReadUpd(k, 1)) /\ al' = [al EXCEPT !.pc = "senderr"]
       ELSE /\ k > 0 /\ UNCHANGED bud
            /\ Ev(WReadViols(k, 0), WReadUpd(k, 0))
            /\ al' = [al EXCEPT !.n = @ + k, !.m = @ + k, !.want = @ - k,
                                !.pc = IF al.want > k THEN "read" ELSE IF al.n + k = CurLen THEN "complete" ELSE "body"]

\* the torrent loop receives
ERecv ==
    /\ al.pc = "send" /\ ~al.closed /\ UNCHANGED bud
    /\ Ev(WDataViols(al.pend.idx, al.pend.buf, al.pend.done, al.pend.idx \notin dn.taint),
          WDataUpd(al.pend.idx, al.pend.buf, al.pend.done))
    /\ al' = [al EXCEPT !.pc = "aftersend", !.sent = TRUE]
ERecvErr ==
    /\ al.pc = "sendE" /\ ~al.closed /\ UNCHANGED bud
    /\ Ev(WErrViols, WErrUpd) /\ al' = [al EXCEPT !.pc = "release"]

\* piecepicker.WebseedStopAt(src, i): UpdateEnd(i); Close when ReadCurrent() >= i
EStopAt(i) ==
    /\ src[S1].active /\ ~al.closed /\ al.pc \notin {"init", "aftersend", "ended"}
    /\ bud.stop < NSTOP /\ Spend("stop")
    /\ i \in al.cur .. (E1 - 1)
    /\ Ev(WStopAtViols(i, al.cur), WStopAtUpd(i, al.pc = "send"))
    /\ al' = [al EXCEPT !.end = i, !.closed = al.cur >= i]

EClose ==
    /\ src[S1].active /\ ~al.closed /\ al.pc \notin {"init", "ended"}
    /\ bud.close < NCLOSE /\ Spend("close")
    /\ Ev({}, WCloseUpd) /\ al' = [al EXCEPT !.closed = TRUE]

\* the consumer: handleWebseedPieceResult discards (release) or starts the piece writer; handlePieceWriteDone releases
ECons ==
    \E k \in 1 .. Len(own) :
       /\ UNCHANGED <<al, bud>>
       /\ \/ own[k] = "loop" /\ Ev(CWriteViols(k), CWriteUpd(k))
          \/ own[k] \in {"loop", "writer"} /\ Ev(CRelViols(k), CRelUpd(k))

EStep == (\E mode \in MODES : EResp(mode)) \/ (\E k \in 0 .. MAXCH, sh \in BOOLEAN : EChunk(k, sh)) \/ ERecv \/ ERecvErr
         \/ (\E i \in 0 .. NPieces : EStopAt(i)) \/ EClose \/ ECons

ANext == DStep \/ EStep
ASpec == AInit /\ [][ANext]_avars
ALiveSpec == ASpec /\ WF_avars(DStep)

Conforms == av = {}
AInv == Conforms /\ EndedClean
\* @obligation X06.c  after Close the goroutine ends
CloseEnds == [](al.closed => <>(al.pc = "ended"))
\* vacuity: these must be violated (reachability of the interesting situations)
NeverFull == ~(al.pc = "ended" /\ dn.fin = "done" /\ dn.lastd = RE - 1)
NeverOver == dn.over < 0 \/ dn.lastd < dn.over
=============================================================================
