SPECIFICATION BlSpec
CONSTANTS
  BITS = 4
  CAP = 0
  ASIS = FALSE
INVARIANT BlInv
CHECK_DEADLOCK FALSE
