SPECIFICATION BlSpec
CONSTANTS
  BITS = 4
  CAP = 0
  ASIS = FALSE
INVARIANT RangeIsPrefix
INVARIANT StreeExact
INVARIANT OnlyLoaded
CHECK_DEADLOCK FALSE
