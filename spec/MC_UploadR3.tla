---------------------------- MODULE MC_UploadR3 ----------------------------
(* Round-3 axes of Upload (exhaustive, both halves composed):                        *)
(*  - the peer sends its own allowed-fast messages (LSend "peeraf"): they must not    *)
(*    widen what a choked peer is served (AFCHECK = "sent" holds, "received" must     *)
(*    violate C03.choked);                                                            *)
(*  - environment fault Truncate: the storage under a verified piece is cut while     *)
(*    the session seeds, with a cold and with a warm read cache (SHORTREAD = "error"  *)
(*    holds, "eof" - the writer as found - must violate C03.length);                  *)
(*  - two-phase reads (TWOPHASE): fetch from the cache and copy to the socket are     *)
(*    separate steps, evictions and loads of other writers in between (BUFS = "fresh" *)
(*    holds, "reuse" of evicted buffers must violate C03.content, two connections).   *)
EXTENDS Upload
CONSTANTS NP, PLEN, MAXBLK, MAXQ, CB, NCONN, HAVE0, REQS, AFP, PAF, NSEND, NFLIP, NOPEN, NTRUNC,
          AFCHECK, SHORTREAD, TWOPHASE, BUFS

VARIABLES nsend, nflip, nopen, ntrunc
mcvars == <<vars, nsend, nflip, nopen, ntrunc>>

MCInit ==
    /\ InitWith([np |-> NP, plen |-> PLEN, maxblk |-> MAXBLK, maxq |-> MAXQ, cb |-> CB, nconn |-> NCONN, impl |-> "loop", afsend |-> "all",
                 afcheck |-> AFCHECK, shortread |-> SHORTREAD, twophase |-> TWOPHASE, bufs |-> BUFS], HAVE0)
    /\ nsend = 0 /\ nflip = 0 /\ nopen = 0 /\ ntrunc = 0

Msgs == {M("req", r[1], r[2], r[3], <<>>) : r \in REQS} \cup {M("peeraf", p, 0, 0, <<>>) : p \in PAF}
        \cup {M("interested", 0, 0, 0, <<>>)}

MCNext ==
    \/ /\ nopen < NOPEN
       /\ \E c \in Conn, f \in BOOLEAN, S \in SUBSET AFP : Open(c, f, S)
       /\ nopen' = nopen + 1 /\ UNCHANGED <<nsend, nflip, ntrunc>>
    \/ /\ nsend < NSEND
       /\ \E c \in Conn, m \in Msgs : LSend(c, m)
       /\ nsend' = nsend + 1 /\ UNCHANGED <<nflip, nopen, ntrunc>>
    \/ /\ nflip < NFLIP
       /\ \E c \in Conn : RChoke(c) \/ RUnchoke(c)
       /\ nflip' = nflip + 1 /\ UNCHANGED <<nsend, nopen, ntrunc>>
    \/ /\ \E c \in Conn : RHandle(c) \/ RWrite(c) \/ RWriteEnd(c) \/ LRecv(c) \/ LClose(c)
       /\ UNCHANGED <<nsend, nflip, nopen, ntrunc>>
    \/ /\ \E key \in DOMAIN cache : Evict(key)
       /\ UNCHANGED <<nsend, nflip, nopen, ntrunc>>
    \/ /\ ntrunc < NTRUNC
       /\ \E p \in Piece : \E k \in 0 .. (PLen(p) - 1) : Truncate(p, k)
       /\ ntrunc' = ntrunc + 1 /\ UNCHANGED <<nsend, nflip, nopen>>

MCSpec == MCInit /\ [][MCNext]_mcvars

PLEN_43 == <<4, 3>>
PLEN_4  == <<4>>
PLEN_6  == <<6>>
NONE == {}
\* a granted piece (0) and one that is held but not granted (1)
REQS_AF == {<<0,1,2>>, <<1,0,2>>}
\* reads inside one cache block, across two, at the tail (CB = 2, piece of 4)
REQS_T == {<<0,0,2>>, <<0,1,3>>, <<0,2,2>>}
\* two different cache blocks of one piece (CB = 2, piece of 6), cache pressure comes from Evict
REQS_H == {<<0,0,2>>, <<0,2,2>>, <<0,4,2>>}
=============================================================================
