------------------------------ MODULE MC_PexGen ------------------------------
(***************************************************************************)
(* TLC as generator (E-gen, run with -simulate) of torrent-level histories *)
(* for the X02 driver: connects, extension handshakes that start PEX,      *)
(* disconnects, duplicate-peer-id connects (add then drop) and waits of    *)
(* less / more than a flush period.  One random successor per step.        *)
(***************************************************************************)
EXTENDS Integers, Sequences, FiniteSets, TLC, Json
CONSTANTS NADDR, K
VARIABLES gc, gp, h

gvars == <<gc, gp, h>>
A == 1 .. NADDR

GenInit == gc = {} /\ gp = {} /\ h = <<>>

Dice(k) == RandomElement(1 .. (k + 0 * Len(h)))
Op(o, a, d) == [op |-> o, a |-> a, d |-> d]

\* (a random draw is bound through a singleton set: a LET definition would be re-evaluated at every use)
GenNext ==
    /\ Len(h) < K
    /\ \E a \in {Dice(NADDR)}, d \in {Dice(100)}, w \in {Dice(50)}, w2 \in {54 + Dice(140)} :
         IF d <= 30 THEN
            /\ h' = Append(h, Op("Wait", 0, IF d <= 20 THEN w ELSE w2)) /\ UNCHANGED <<gc, gp>>
         ELSE IF a \notin gc THEN
            IF d <= 40 THEN /\ h' = Append(h, Op("Dup", a, 0)) /\ UNCHANGED <<gc, gp>>
            ELSE /\ h' = Append(h, Op("Connect", a, 0)) /\ gc' = gc \cup {a} /\ UNCHANGED gp
         ELSE IF a \notin gp /\ d <= 75 THEN
            /\ h' = Append(h, Op("ExtHs", a, 0)) /\ gp' = gp \cup {a} /\ UNCHANGED gc
         ELSE IF d > 75 THEN
            /\ h' = Append(h, Op("Disconnect", a, 0)) /\ gc' = gc \ {a} /\ gp' = gp \ {a}
         ELSE /\ h' = Append(h, Op("Wait", 0, w)) /\ UNCHANGED <<gc, gp>>
GenSpec == GenInit /\ [][GenNext]_gvars

GenPrint == IF Len(h) = K THEN PrintT("@@" \o ToJson([ops |-> h])) ELSE TRUE
=============================================================================
