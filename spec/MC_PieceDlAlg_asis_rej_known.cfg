SPECIFICATION ASpec
CONSTANTS
  SECS <- Secs_plain3
  BS = 2
  QLENS = {1, 2, 3}
  FAST = TRUE
  AF = FALSE
  REJ = "any"
  UNREQ = TRUE
  ENDS = TRUE
  VARIANT = "asis"
  IGNORE = {"X04.g.fill", "X04.g.stuck", "X04.c.cancel", "X04.c", "X04.a"}
INVARIANT AInvKnown
VIEW AView
CHECK_DEADLOCK FALSE
CONSTRAINT RemBound
CONSTRAINT Alive
