SPECIFICATION Spec
CONSTANTS
  CAP = 2
  N = 7
  STRICT = FALSE
INVARIANT FloodBound
CHECK_DEADLOCK FALSE
