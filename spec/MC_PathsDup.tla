---------------------------- MODULE MC_PathsDup ----------------------------
(* Duplicate detection x cleaning x padding, exhaustive over small torrents *)
(* of 2..3 files whose path components come from an alphabet in which       *)
(* DIFFERENT raw components clean to the SAME component (S/X, U/V/F, R/Q),  *)
(* "." and empty components vanish in the join, every file may carry attr  *)
(* "p" or a BitComet padding name (K), parsed with the pad flag on and off. *)
(*   DupComplete : the duplicate check on the joined CLEANED paths among    *)
(*        the files that are REAL in the parsing mode makes every accepted  *)
(*        torrent open pairwise distinct paths (both layouts);              *)
(*   vacuity guards (must be VIOLATED):                                     *)
(*     NoRawHole     - checking the raw components instead is not enough,   *)
(*     NoPadSkipHole - exempting every marked file whatever the mode is not *)
(*                     enough (pad off: marked files are real files).       *)
EXTENDS Paths
CONSTANTS THREE

l == <<"L">>
COMPS == {l, <<"L", "L">>, <<"L", "S", "L">>, <<"L", "X", "L">>, <<"U">>, <<"V">>, <<"F">>, <<"R">>, <<"Q">>, <<"K">>, <<"K", "L">>, <<"D">>}
PathsD == {<<c>> : c \in COMPS} \cup {<<l, c>> : c \in COMPS} \cup {<<c, l>> : c \in COMPS}
          \cup {<<l, <<"D">>, c>> : c \in (IF THREE THEN COMPS ELSE {l})} \cup {<<l, <<>>, c>> : c \in (IF THREE THEN COMPS ELSE {l})}

\* the space is generated as a tree (first file, then the rest in one step) so that TLC's workers share the work:
\* the leaves are exactly the torrents <<p, q>> (and <<p, lll, q>> when THREE) x attr x pad flag
VARIABLES t, attr, pm
MCInit == /\ t \in [name : {l}, files : {<<p>> : p \in PathsD}]
          /\ attr = <<0>>
          /\ pm = FALSE
MCNext == /\ Len(t.files) = 1
          /\ \E q \in PathsD : \E three \in (IF THREE THEN BOOLEAN ELSE {FALSE}) :
                t' = [t EXCEPT !.files = IF three THEN <<t.files[1], <<l, l, l>>, q>> ELSE <<t.files[1], q>>]
          /\ attr' \in [1 .. Len(t'.files) -> {0, 1}]
          /\ pm' \in BOOLEAN
MCSpec == MCInit /\ [][MCNext]_<<t, attr, pm>>

DupComplete == \A w \in {0, 1} : \A v \in {"cur", "fix"} : AcceptsP(t, attr, pm, v) => ModelDistinctP(t, attr, pm, w)
\* hidden files are never opened, so their paths do not matter: a torrent whose only collisions involve a hidden file is accepted
HiddenFree == (\A i, j \in Real(t, attr, pm) : i # j => Joined(t)[i] # Joined(t)[j]) /\ (\A i \in 1 .. Len(t.files) :
                  \A j \in 1 .. Len(t.files[i]) : Trim(t.files[i][j]) # <<"D", "D">>) => AcceptsP(t, attr, pm, "fix")
Inv == DupComplete /\ HiddenFree
NoRawHole == \A w \in {0, 1} : AcceptsP(t, attr, pm, "rawdup") => ModelDistinctP(t, attr, pm, w)
NoPadSkipHole == \A w \in {0, 1} : AcceptsP(t, attr, pm, "padskip") => ModelDistinctP(t, attr, pm, w)
=============================================================================
