SPECIFICATION MCSpec
CONSTANT FixNames = {"size"}
CONSTANT Variant = "span"
INVARIANT Inv
INVARIANT Trust
INVARIANT TrustDisk
CHECK_DEADLOCK FALSE
