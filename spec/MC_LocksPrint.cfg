SPECIFICATION Spec
CONSTANTS
  TorrentSeq <- T1
  NClients = 0
  Choices <- C0
  BgSeq <- C0
  Fixed = {}
  Budget = 0
  Unbuffered = {}
  SrcOver <- NoOver
  Allowed <- PAny
CHECK_DEADLOCK FALSE
