------------------------------ MODULE Unchoker ------------------------------
(***************************************************************************)
(* Shadow model of internal/unchoker (choking algorithm of rain) in the    *)
(* calling discipline of the torrent event loop:                           *)
(*   torrent_run.go             10 s ticker   -> TickUnchoke(peers, done)  *)
(*   torrent_messagehandler.go  Interested    -> PeerInterested = true;    *)
(*                                               FastUnchoke(pe)           *)
(*                              NotInterested -> PeerInterested = false    *)
(*   torrent_close.go closePeer               -> HandleDisconnect(pe)      *)
(*                                                                         *)
(* Tick and Interested are ENVELOPES: the new choke / optimistic flags may *)
(* be ANY assignment that satisfies the obligations below; which peers are *)
(* chosen (ties of the rate order, the random optimistic draw) is left to  *)
(* the code.  The second half of the module (Alg...) is the algorithm of   *)
(* unchoker.go itself, as it is ("asis") and with the two repairs          *)
(* ("fixed"); MC_UnchokerAlg checks it against the envelope.               *)
(*                                                                         *)
(* A "slot" is held by a connected peer that is INTERESTED and unchoked    *)
(* (a "downloader" in the words of BEP 3): regular slot = not flagged      *)
(* optimistic, optimistic slot = flagged optimistic.                       *)
(*                                                                         *)
(* @obligation X01.a  at most N regular and M optimistic slots are held    *)
(*                    after every Tick and every Interested (the other     *)
(*                    events cannot raise the numbers), for every N, M >= 0*)
(* @obligation X01.b  an unchoke is granted only to an interested peer     *)
(* @obligation X01.c  a peer is never choked and flagged optimistic        *)
(* @obligation X01.d  choke / unchoke messages exactly on state changes:   *)
(*                    one message per changed peer and call, none otherwise*)
(*                    (trace level, Trace_Unchoker)                        *)
(* @obligation X01.e  FastUnchoke uses a free slot: a choked peer that     *)
(*                    turns interested is unchoked at once when fewer than *)
(*                    N (M) connected peers are unchoked (optimistically); *)
(*                    a disconnected peer does not count (disconnect frees *)
(*                    the slot)                                            *)
(* @obligation X01.f  rotation period: an optimistic slot is kept through  *)
(*                    the non-optimistic rounds (it changes hands every    *)
(*                    third tick only) while its holder stays interested   *)
(* @obligation X01.g  regular slots go by rate: no choked interested peer  *)
(*                    is faster than a holder of a regular slot            *)
(* @obligation X01.h  slots are not wasted: a Tick leaves an interested    *)
(*                    peer choked only if all N regular slots (and, in an  *)
(*                    optimistic round, all M optimistic slots) are held   *)
(* @obligation X01.l  fairness of the optimistic slot (liveness, M >= 1):  *)
(*                    a peer that stays connected, interested and choked   *)
(*                    is eventually unchoked (MC_Unchoker_live under strong*)
(*                    fairness of the draw; statistically on the code)     *)
(***************************************************************************)
EXTENDS Integers, FiniteSets, Sequences, TLC

VARIABLES cfg,      \* [npeers, N, M]: N = UnchokedPeers, M = OptimisticUnchokedPeers
          conn,     \* [Peer -> BOOLEAN] connected (member of t.peers)
          intr,     \* [Peer -> BOOLEAN] remote peer is interested
          chk,      \* [Peer -> BOOLEAN] we choke the peer (ClientChoking)
          opt,      \* [Peer -> BOOLEAN] OptimisticUnchoked flag
          round     \* 0..2, ticks modulo 3; the tick taken at round 0 is the optimistic one

vars == <<cfg, conn, intr, chk, opt, round>>

Peer == 1 .. cfg.npeers
C == {p \in Peer : conn[p]}
I == {p \in C : intr[p]}
RegOf(c, o) == {p \in C : ~c[p] /\ ~o[p]}
OptOf(c, o) == {p \in C : ~c[p] /\ o[p]}
OptRound == round = 0

I0(c) == [conn |-> [p \in 1 .. c.npeers |-> FALSE], intr |-> [p \in 1 .. c.npeers |-> FALSE],
          chk |-> [p \in 1 .. c.npeers |-> TRUE], opt |-> [p \in 1 .. c.npeers |-> FALSE]]

InitWith(c) ==
    /\ cfg = c /\ conn = I0(c).conn /\ intr = I0(c).intr /\ chk = I0(c).chk /\ opt = I0(c).opt /\ round = 0
ResetWith(c) ==
    /\ cfg' = c /\ conn' = I0(c).conn /\ intr' = I0(c).intr /\ chk' = I0(c).chk /\ opt' = I0(c).opt /\ round' = 0

-----------------------------------------------------------------------------
(* environment: connections and interest                                    *)

Connect(p) ==
    /\ ~conn[p]
    /\ conn' = [conn EXCEPT ![p] = TRUE] /\ intr' = [intr EXCEPT ![p] = FALSE]
    /\ chk' = [chk EXCEPT ![p] = TRUE] /\ opt' = [opt EXCEPT ![p] = FALSE]
    /\ UNCHANGED <<cfg, round>>

Disconnect(p) ==                               \* closePeer -> HandleDisconnect; the peer leaves t.peers
    /\ conn[p]
    /\ conn' = [conn EXCEPT ![p] = FALSE] /\ intr' = [intr EXCEPT ![p] = FALSE]
    /\ chk' = [chk EXCEPT ![p] = TRUE] /\ opt' = [opt EXCEPT ![p] = FALSE]
    /\ UNCHANGED <<cfg, round>>

NotInterested(p) ==
    /\ conn[p]
    /\ intr' = [intr EXCEPT ![p] = FALSE]
    /\ UNCHANGED <<cfg, conn, chk, opt, round>>

-----------------------------------------------------------------------------
(* obligations of a call, as the set of violated tags ({} = call is fine)   *)

Tag(b, t) == IF b THEN {t} ELSE {}

\* flags of peers that are not connected stay at their defaults
Ghost(c2, o2) == \E p \in Peer \ C : ~c2[p] \/ o2[p]

\* Interested(p) = PeerInterested := TRUE ; FastUnchoke(p).  Only p may be unchoked by it.
FkC(c2, o2)      == \E q \in Peer : c2[q] /\ o2[q]
FkScope(p, c2, o2) == \E q \in C \ {p} : (chk[q] /\ ~c2[q]) \/ (c2[q] = chk[q] /\ o2[q] # opt[q])
\* the call raises the number of held slots above the limit (a violation that is already there is reported once)
FkAReg(p, c2, o2) == LET a == Cardinality(RegOf(c2, o2) \cap (I \cup {p})) IN
                     a > cfg.N /\ a > Cardinality(RegOf(chk, opt) \cap I)
FkAOpt(p, c2, o2) == LET a == Cardinality(OptOf(c2, o2) \cap (I \cup {p})) IN
                     a > cfg.M /\ a > Cardinality(OptOf(chk, opt) \cap I)
FkE(p, c2, o2)   == chk[p] /\ c2[p] /\ (Cardinality(RegOf(chk, opt)) < cfg.N \/ Cardinality(OptOf(chk, opt)) < cfg.M)

FastViols(p, c2, o2) ==
    Tag(FkC(c2, o2), "X01.c") \cup Tag(Ghost(c2, o2), "X01.d.ghost") \cup Tag(FkScope(p, c2, o2), "X01.b.scope")
    \cup Tag(FkAReg(p, c2, o2), "X01.a.reg") \cup Tag(FkAOpt(p, c2, o2), "X01.a.opt") \cup Tag(FkE(p, c2, o2), "X01.e")
FastOK(p, c2, o2) ==
    /\ ~FkC(c2, o2) /\ ~Ghost(c2, o2) /\ ~FkScope(p, c2, o2) /\ ~FkAReg(p, c2, o2) /\ ~FkAOpt(p, c2, o2) /\ ~FkE(p, c2, o2)

\* TickUnchoke(peers, completed): rate[p] = upload speed if the torrent is complete, download speed otherwise
Reg2(c2, o2) == RegOf(c2, o2) \cap I
Opt2(c2, o2) == OptOf(c2, o2) \cap I
Left(c2)     == \E q \in I : c2[q]               \* an interested peer is left choked
TkB(c2)        == \E q \in C \ I : chk[q] /\ ~c2[q]
TkAReg(c2, o2) == Cardinality(Reg2(c2, o2)) > cfg.N
TkAOpt(c2, o2) == Cardinality(Opt2(c2, o2)) > cfg.M
TkF(c2)        == ~OptRound /\ \E q \in I : ~chk[q] /\ opt[q] /\ c2[q]
TkG(rate, c2, o2) == \E p \in Reg2(c2, o2), q \in I : c2[q] /\ rate[q] > rate[p]
TkHReg(c2, o2) == Left(c2) /\ Cardinality(Reg2(c2, o2)) < cfg.N
TkHOpt(c2, o2) == OptRound /\ Left(c2) /\ Cardinality(Opt2(c2, o2)) < cfg.M

TickViols(rate, c2, o2) ==
    Tag(FkC(c2, o2), "X01.c") \cup Tag(Ghost(c2, o2), "X01.d.ghost") \cup Tag(TkB(c2), "X01.b")
    \cup Tag(TkAReg(c2, o2), "X01.a.reg") \cup Tag(TkAOpt(c2, o2), "X01.a.opt") \cup Tag(TkF(c2), "X01.f")
    \cup Tag(TkG(rate, c2, o2), "X01.g") \cup Tag(TkHReg(c2, o2), "X01.h.reg") \cup Tag(TkHOpt(c2, o2), "X01.h.opt")
TickOK(rate, c2, o2) ==
    /\ ~FkC(c2, o2) /\ ~Ghost(c2, o2) /\ ~TkB(c2) /\ ~TkAReg(c2, o2) /\ ~TkAOpt(c2, o2) /\ ~TkF(c2)
    /\ ~TkG(rate, c2, o2) /\ ~TkHReg(c2, o2) /\ ~TkHOpt(c2, o2)

InterestedUpdate(p, c2, o2) ==
    /\ intr' = [intr EXCEPT ![p] = TRUE]
    /\ chk' = c2 /\ opt' = o2
    /\ UNCHANGED <<cfg, conn, round>>

TickUpdate(c2, o2) ==
    /\ chk' = c2 /\ opt' = o2
    /\ round' = (round + 1) % 3
    /\ UNCHANGED <<cfg, conn, intr>>

Flags == [Peer -> BOOLEAN]

Interested(p, c2, o2) == conn[p] /\ FastOK(p, c2, o2) /\ InterestedUpdate(p, c2, o2)
Tick(rate, c2, o2)    == TickOK(rate, c2, o2) /\ TickUpdate(c2, o2)

\* results as one value per peer: 0 = choked, 1 = unchoked regular, 2 = unchoked optimistic (not connected: 0)
Results == {st \in [Peer -> 0 .. 2] : \A p \in Peer \ C : st[p] = 0}
ChkOf(st) == [p \in Peer |-> st[p] = 0]
OptFlagOf(st) == [p \in Peer |-> st[p] = 2]

-----------------------------------------------------------------------------
(* invariants of the envelope                                               *)

TypeOK ==
    /\ conn \in Flags /\ intr \in Flags /\ chk \in Flags /\ opt \in Flags /\ round \in 0 .. 2
    /\ \A p \in Peer : ~conn[p] => (chk[p] /\ ~opt[p] /\ ~intr[p])
SlotBound ==                        \* X01.a, global form
    /\ Cardinality(RegOf(chk, opt) \cap I) <= cfg.N
    /\ Cardinality(OptOf(chk, opt) \cap I) <= cfg.M
NoChokedOptimistic == \A p \in Peer : ~(chk[p] /\ opt[p])       \* X01.c

-----------------------------------------------------------------------------
(* the algorithm of unchoker.go                                             *)
(*   variant "asis"  : the code of the unchanged tree                       *)
(*   variant "fixed" : + a Tick chokes unchoked peers that lost interest    *)
(*                     + the final choke loop of a non-optimistic round     *)
(*                       skips the holders of the optimistic slot           *)

\* the candidates in the order slices.SortFunc may produce: rate non-increasing, ties in any order
Orders(S, rate) ==
    {s \in [1 .. Cardinality(S) -> S] :
        /\ \A i, j \in 1 .. Cardinality(S) : i # j => s[i] # s[j]
        /\ \A i \in 1 .. (Cardinality(S) - 1) : rate[s[i]] >= rate[s[i + 1]]}

\* result <<c2, o2>> of TickUnchoke for candidate order ord and optimistic draw OS (a subset of the rest)
AlgTickResult(variant, ord, OS) ==
    LET n      == Len(ord)
        \* fixed: unchoked peers that are not interested give their slot back first
        lost   == IF variant = "fixed" THEN {p \in C \ I : ~chk[p]} ELSE {}
        counts(j) == OptRound \/ ~opt[ord[j]]                    \* ord[j] takes a regular slot when reached
        cnt[k \in 0 .. n] == IF k = 0 THEN 0 ELSE cnt[k - 1] + (IF counts(k) THEN 1 ELSE 0)
        \* `for ; i < len(peers) && unchoked < numUnchoked; i++`
        cut    == IF \E k \in 0 .. n : cnt[k] >= cfg.N
                  THEN CHOOSE k \in 0 .. n : cnt[k] >= cfg.N /\ \A k2 \in 0 .. n : cnt[k2] >= cfg.N => k <= k2
                  ELSE n
        RS     == {ord[j] : j \in {x \in 1 .. cut : counts(x)}}
        rest   == {ord[j] : j \in (cut + 1) .. n}
        keep   == IF variant = "fixed" /\ ~OptRound THEN {p \in rest : ~chk[p] /\ opt[p]} ELSE {}
        CH     == ((rest \ OS) \ keep) \cup lost
    IN  << [p \in Peer |-> IF p \in RS \cup OS THEN FALSE ELSE IF p \in CH THEN TRUE ELSE chk[p]],
           [p \in Peer |-> IF p \in OS THEN TRUE ELSE IF p \in RS \cup CH THEN FALSE ELSE opt[p]],
           rest >>

\* the draws the code can make: min(M, |rest|) distinct members of the rest in an optimistic round
Draws(rest) ==
    IF OptRound
    THEN {S \in SUBSET rest : Cardinality(S) = (IF cfg.M < Cardinality(rest) THEN cfg.M ELSE Cardinality(rest))}
    ELSE {{}}

\* FastUnchoke: the maps peersUnchoked / peersUnchokedOptimistic hold exactly the connected peers that are
\* unchoked regularly / optimistically (interested or not)
AlgFastResult(p) ==
    IF chk[p] /\ Cardinality(RegOf(chk, opt)) < cfg.N
    THEN << [chk EXCEPT ![p] = FALSE], [opt EXCEPT ![p] = FALSE] >>
    ELSE IF chk[p] /\ Cardinality(OptOf(chk, opt)) < cfg.M
    THEN << [chk EXCEPT ![p] = FALSE], [opt EXCEPT ![p] = TRUE] >>
    ELSE << chk, opt >>
=============================================================================
