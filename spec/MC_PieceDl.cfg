SPECIFICATION MCSpec
CONSTANTS
  SECS <- Secs_plain4
  BS = 2
  QLENS = {1, 2, 3}
  FAST = FALSE
  AF = FALSE
  REJ = "none"
  UNREQ = TRUE
  ENDS = TRUE
INVARIANT InvNoStuck
CHECK_DEADLOCK FALSE
