SPECIFICATION Spec
CONSTANTS
  IPs = {1, 2}
  Ports = {1, 2}
  SLOTS = 1
  BANFIRST = TRUE
  STOPCLEARS = TRUE
INVARIANT NeverDialBanned
CHECK_DEADLOCK FALSE
