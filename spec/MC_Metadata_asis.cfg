SPECIFICATION MCSpec
CONSTANTS
  NP = 3
  POLS <- PolsStall
  BS = 2
  TSIZES = {3}
  MAXSZ = 4
  PARS = {2}
  QS = {2}
  ADVS = {0, 2, 3, 4, 5}
  LENS = {0, 1, 2, 3}
  MODES = {"asis"}
  DUPOKS = {TRUE}
  PRIVATES = {FALSE}
INVARIANT Inv
PROPERTY LiveAll
CHECK_DEADLOCK FALSE
