SPECIFICATION GenSpec
CONSTANTS
  K = 9
  LIVES = 3
INVARIANT GenPrint
CHECK_DEADLOCK FALSE
