SPECIFICATION TraceSpec
CONSTANTS
  NP = 1
  MaxCmds = 0
CONSTRAINT HighWater
POSTCONDITION TraceAccepted
CHECK_DEADLOCK FALSE
