-------------------------------- MODULE MSE --------------------------------
(***************************************************************************)
(* Message Stream Encryption handshake (internal/mse/mse.go) and the       *)
(* encryption policy layer around it (internal/btconn/dial.go, accept.go)  *)
(* as two step machines - the dialer/initiator `d` ("A" of the MSE         *)
(* description) and the acceptor/receiver `c` ("B") - over two byte pipes. *)
(*                                                                         *)
(* Level of abstraction: message LAYOUT and LENGTHS.                       *)
(*   - a pipe is [w, r, closed]: bytes written so far, bytes consumed so   *)
(*     far by the reader, connection closed.  The content of a byte is     *)
(*     determined by its offset in the writer's layout:                    *)
(*       A->B:  Ya(96) PadA | req1(20) req2^req3(20) E(VC 8, provide 4,    *)
(*              len(PadC) 2, PadC, len(IA) 2) E(IA) | payload ...          *)
(*       B->A:  Yb(96) PadB | E(VC 8, select 4, len(PadD) 2, PadD) | ...   *)
(*   - crypto is opaque: DH public keys are 96 bytes, the shared secret S  *)
(*     always agrees, hashes / RC4 key streams match iff the SKEYs match   *)
(*     (sc.keymode), pad bytes never imitate a synchronisation marker.     *)
(*   - chunking of the transport: every read of the code except the first  *)
(*     one asks for an exact number of bytes (io.ReadFull / io.CopyN), so  *)
(*     fragmentation can only influence io.ReadAtLeast(raw, buf[608], 96): *)
(*     the actions A2(fr) / B1(fr) take ANY fr in 96 .. min(608, avail).   *)
(*   - RC4 key-stream positions are counted (enc/dec) so that "every byte  *)
(*     written afterwards is read unchanged" becomes: same mode, same      *)
(*     position, nothing left unread in the pipes.                         *)
(*                                                                         *)
(* The scenario `sc` is a variable that never changes after Init (the MC   *)
(* configurations choose it from sets, the trace specification loads it    *)
(* from each recorded line).  Pads and first-read sizes are parameters of  *)
(* the actions.                                                            *)
(***************************************************************************)
EXTENDS Integers, FiniteSets, Sequences, TLC

VARIABLES sc,    \* scenario (see ScOK)
          att,   \* 1 = first connection, 2 = plaintext redial of btconn.Dial
          d,     \* dialer / MSE initiator
          c,     \* acceptor / MSE receiver
          ab,    \* pipe d -> c
          ba     \* pipe c -> d
vars == <<sc, att, d, c, ab, ba>>

PLAIN == 1
RC4   == 2
Has(m, bit) == (m \div bit) % 2 = 1
IsPow2(m)   == m \in {1, 2}                 \* crypto methods are 0..3 here
BT       == 68                              \* BitTorrent handshake
MaxIA    == 65535                           \* len(IA) is a uint16
FirstBuf == 96 + 512                        \* mse.go:134, 244
ScanA    == 616                             \* mse.go:176  readSync(vcEnc, 616-firstRead)
ScanB    == 628                             \* mse.go:272  readSync(req1, 628-firstRead)
Min2(x, y) == IF x < y THEN x ELSE y

DKinds == {"raw", "rain", "plain"}
CKinds == {"raw", "rain", "plainonly", "mse", "any"}   \* "mse" refuses plaintext, "any" takes both
KeyModes == {"same", "unknown", "wrong"}    \* getSKey: right key / nil / some other key
SelPols == {"preferRC4", "preferPlain", "onlyPlain", "onlyRC4", "both", "none"}

\* well-formed scenarios
ScOK(s) ==
    /\ s.dk \in DKinds /\ s.ck \in CKinds /\ s.keymode \in KeyModes /\ s.selpol \in SelPols
    /\ s.enable \in BOOLEAN /\ s.force \in BOOLEAN /\ s.forceIn \in BOOLEAN /\ s.trunc \in BOOLEAN /\ s.loose \in BOOLEAN
    /\ s.provide \in 0 .. 3 /\ s.ia \in Nat
    /\ (s.ck = "raw" => s.dk = "raw")                  \* bare mse.Stream endpoints, no BitTorrent handshake
    /\ ((s.ck # "raw" /\ s.dk = "raw") => s.ia = BT)   \* against btconn a scripted initiator sends the BT handshake as IA
    /\ (s.dk = "rain" => ~(~s.enable /\ s.force))      \* "disable" and "force" are not both set
    /\ (s.trunc => s.ck \in {"mse", "any"})
    /\ (s.loose => s.ck \in {"raw", "mse", "any"})     \* a hostile scripted receiver: sends crypto_select unvalidated

HasBT   == sc.ck # "raw"                            \* a BitTorrent handshake follows the negotiation
UseMSE  == sc.dk = "raw" \/ (sc.dk = "rain" /\ sc.enable)
Provide == IF sc.dk = "rain" THEN (IF sc.force THEN RC4 ELSE RC4 + PLAIN) ELSE sc.provide   \* dial.go:70-73
IA      == IF sc.dk = "rain" THEN BT ELSE sc.ia

\* cryptoSelect of the receiver.  "rain" = accept.go:200-209
Select(provided) ==
    IF sc.ck = "rain"
    THEN IF Has(provided, RC4) THEN RC4 ELSE IF Has(provided, PLAIN) /\ ~sc.forceIn THEN PLAIN ELSE 0
    ELSE CASE sc.selpol = "preferRC4"   -> IF Has(provided, RC4) THEN RC4 ELSE IF Has(provided, PLAIN) THEN PLAIN ELSE 0
           [] sc.selpol = "preferPlain" -> IF Has(provided, PLAIN) THEN PLAIN ELSE IF Has(provided, RC4) THEN RC4 ELSE 0
           [] sc.selpol = "onlyPlain"   -> PLAIN
           [] sc.selpol = "onlyRC4"     -> RC4
           [] sc.selpol = "both"        -> 3
           [] OTHER                     -> 0

P0 == [w |-> 0, r |-> 0, closed |-> FALSE]
D0 == [pc |-> "start", fr |-> 0, padA |-> -1, padC |-> -1, sel |-> 0, enc |-> 0, dec |-> 0,
       wm |-> "raw", rm |-> "raw", res |-> "", cipher |-> 0, plainhs |-> FALSE]
C0 == [pc |-> "start", fr |-> 0, padB |-> -1, padD |-> -1, sel |-> 0, enc |-> 0, dec |-> 0,
       wm |-> "raw", rm |-> "raw", res |-> "", cipher |-> 0, iabuf |-> -1]

Avail(p)   == p.w - p.r
Closed(p)  == [p EXCEPT !.closed = TRUE]
Put(p, n)  == [p EXCEPT !.w = @ + n]
Take(p, n) == [p EXCEPT !.r = @ + n]
Mode(sel)  == IF sel = PLAIN THEN "plain" ELSE "rc4"      \* mse.go:391-398 updateCipher

InitWith(s) == sc = s /\ att = 1 /\ d = D0 /\ c = C0 /\ ab = P0 /\ ba = P0
ResetWith(s) == sc' = s /\ att' = 1 /\ d' = D0 /\ c' = C0 /\ ab' = P0 /\ ba' = P0

(***************************************************************************)
(* The synchronisation scan  mse.go:400-421  readSync(key, max)            *)
(*   start  = offset of the first unread byte, marker = offset of the key, *)
(*   wlen = len(key), max as passed by the caller.                         *)
(* The code reads wlen bytes, then slides the window one byte at a time;   *)
(* slide j+1 is allowed iff (max - wlen) - j > 0.  The marker is found     *)
(* after k = marker - start slides iff k <= max - wlen.                    *)
(***************************************************************************)
ScanBudget(max, wlen)          == max - wlen
ScanSlides(start, marker)      == marker - start
ScanFinds(start, marker, wlen, max) == ScanSlides(start, marker) <= ScanBudget(max, wlen)
ScanNeeds(start, marker, wlen, max) ==           \* bytes consumed until the verdict
    wlen + (IF ScanFinds(start, marker, wlen, max) THEN ScanSlides(start, marker) ELSE ScanBudget(max, wlen))

(***************************************************************************)
(* Failure of an endpoint closes the connection (btconn closes the socket  *)
(* on every error path; the harness does the same for bare streams).       *)
(***************************************************************************)
DFail(dd, cls, nab, nba) ==
    /\ d' = [dd EXCEPT !.pc = "end", !.res = cls]
    /\ ab' = Closed(nab) /\ ba' = Closed(nba)
    /\ UNCHANGED <<sc, att, c>>

\* dial.go:78-118: a failed encryption handshake is retried in plaintext on a NEW connection
\* unless outgoing encryption is forced.     @obligation C12.forced.out (no retry when forced)
\* Design intent: the retried connection is reported with cipher 0 (d is reset).
MseFailD(dd, cls, nab, nba) ==
    IF sc.dk = "rain" /\ ~sc.force
    THEN /\ att' = 2 /\ d' = D0 /\ c' = C0 /\ ab' = P0 /\ ba' = P0 /\ UNCHANGED sc
    ELSE DFail(dd, IF sc.dk = "rain" THEN "notenc" ELSE cls, nab, nba)

CFail(cc, cls, nab, nba) ==
    /\ c' = [cc EXCEPT !.pc = "end", !.res = cls]
    /\ ab' = Closed(nab) /\ ba' = Closed(nba)
    /\ UNCHANGED <<sc, att, d>>

----------------------------------------------------------------------------
(* Dialer / initiator:  mse.go:102-215 HandshakeOutgoing, dial.go *)

\* plaintext BitTorrent handshake (encryption disabled, scripted plaintext peer, or the redial)
DPlainStart ==
    /\ d.pc = "start" /\ (~UseMSE \/ att = 2)
    /\ ab' = Put(ab, BT)
    /\ d' = [d EXCEPT !.pc = "p_read", !.plainhs = TRUE]
    /\ UNCHANGED <<sc, att, c, ba>>

DPlainRead ==
    /\ d.pc = "p_read"
    /\ \/ /\ Avail(ba) >= BT
          /\ ba' = Take(ba, BT)
          /\ d' = [d EXCEPT !.pc = "end", !.res = "ok", !.cipher = 0]
          /\ UNCHANGED <<sc, att, c, ab>>
       \/ /\ Avail(ba) < BT /\ ba.closed
          /\ DFail(d, "eof", ab, ba)

\* Step 1   mse.go:103-130
A1(pad) ==
    /\ d.pc = "start" /\ UseMSE /\ att = 1
    /\ IF Provide = 0 THEN DFail(d, "noprovide", ab, ba)
       ELSE IF IA > MaxIA THEN DFail(d, "toobig", ab, ba)        \* @obligation C12.payload
       ELSE /\ ab' = Put(ab, 96 + pad)
            /\ d' = [d EXCEPT !.pc = "a2", !.padA = pad]
            /\ UNCHANGED <<sc, att, c, ba>>

(***************************************************************************)
(* Fragmentation axis of the first read (round 3).  The peer's first       *)
(* message is Y(96) Pad(pad) and nothing follows until we answer, so a     *)
(* first read returns 96 .. 96+pad bytes.  Classes against that message:   *)
(*   "key"   fr = 96          the transport delivered the key only: the    *)
(*                            whole pad is left to the synchronisation scan*)
(*   "inpad" 96 < fr < 96+pad the read ends inside the pad                 *)
(*   "whole" fr = 96+pad      key and pad in one read (what io.Pipe and    *)
(*                            loopback TCP do)                             *)
(* FragFr(pad) = the boundary-dense first-read sizes of every class; the   *)
(* model-checking configurations explore them and MC_MSE prints the        *)
(* (PadA, PadB, frA, frB) cases that harness/c12 replays (fam "frag").     *)
(* ScanEdgePads = pad lengths at which the remaining scan budget of a      *)
(* "key"/"inpad" read crosses the length of the marker (8 resp. 20).       *)
(***************************************************************************)
FragClass(pad, fr) == IF fr = 96 + pad THEN "whole" ELSE IF fr = 96 THEN "key" ELSE IF fr < 96 + pad THEN "inpad" ELSE "beyond"
FragFr(pad) == {96, 96 + (pad \div 2), 96 + pad - 1, 96 + pad} \cap (96 .. 96 + pad)
ScanEdgePads == {512 - 20, 512 - 20 + 1, 512 - 8, 512 - 8 + 1}

\* first read   mse.go:134-141 : io.ReadAtLeast(raw, b[608], 96)
A2(fr) ==
    /\ d.pc = "a2"
    /\ \/ /\ Avail(ba) >= 96
          /\ fr \in 96 .. Min2(FirstBuf, Avail(ba))
          /\ ba' = Take(ba, fr)
          /\ d' = [d EXCEPT !.pc = "a3", !.fr = fr]
          /\ UNCHANGED <<sc, att, c, ab>>
       \/ /\ Avail(ba) < 96 /\ ba.closed
          /\ MseFailD(d, "eof", ab, ba)

\* Step 3   mse.go:150-171 ; the decrypting key stream is advanced by 8 for vcEnc (mse.go:174-175)
A3(pad) ==
    /\ d.pc = "a3"
    /\ IF ab.closed THEN MseFailD(d, "eof", ab, ba)
       ELSE /\ ab' = Put(ab, 40 + 14 + pad + 2 + IA)
            /\ d' = [d EXCEPT !.pc = "a4", !.padC = pad, !.enc = 14 + pad + 2 + IA, !.dec = 8,
                              !.wm = "rc4", !.rm = "rc4"]
            /\ UNCHANGED <<sc, att, c, ba>>

\* Step 4 synchronisation   mse.go:176        @obligation C12.sync
A4 ==
    /\ d.pc = "a4"
    /\ LET marker == 96 + c.padB
           need   == ScanNeeds(ba.r, marker, 8, ScanA - d.fr)
           found  == ScanFinds(ba.r, marker, 8, ScanA - d.fr)
       IN \/ /\ Avail(ba) >= need /\ found
             /\ ba' = Take(ba, need)
             /\ d' = [d EXCEPT !.pc = "a5", !.fr = 0]        \* the first-read size is irrelevant from here on
             /\ UNCHANGED <<sc, att, c, ab>>
          \/ /\ Avail(ba) >= need /\ ~found
             /\ MseFailD(d, "sync", ab, Take(ba, need))
          \/ /\ Avail(ba) < need /\ ba.closed
             /\ MseFailD(d, "eof", ab, ba)

\* crypto_select   mse.go:181-198             @obligation C12.cipher
A5 ==
    /\ d.pc = "a5"
    /\ \/ /\ Avail(ba) >= 4
          /\ LET s  == c.sel
                 dd == [d EXCEPT !.sel = s, !.dec = @ + 4]
                 nb == Take(ba, 4)
             IN IF s = 0 THEN MseFailD(dd, "noselect", ab, nb)
                ELSE IF ~IsPow2(s) \/ ~Has(Provide, s) THEN MseFailD(dd, "badselect", ab, nb)
                ELSE /\ d' = [dd EXCEPT !.pc = "a6"]
                     /\ ba' = nb
                     /\ UNCHANGED <<sc, att, c, ab>>
       \/ /\ Avail(ba) < 4 /\ ba.closed
          /\ MseFailD(d, "eof", ab, ba)

\* len(PadD), PadD, switch of the cipher   mse.go:199-210
A6 ==
    /\ d.pc = "a6"
    /\ LET need == 2 + c.padD IN
       \/ /\ Avail(ba) >= need
          /\ ba' = Take(ba, need)
          /\ d' = [d EXCEPT !.dec = @ + need, !.wm = Mode(d.sel), !.rm = Mode(d.sel), !.cipher = d.sel,
                            !.pc = IF HasBT THEN "bt_read" ELSE "end",
                            !.res = IF HasBT THEN "" ELSE "ok"]
          /\ UNCHANGED <<sc, att, c, ab>>
       \/ /\ Avail(ba) < need /\ ba.closed
          /\ MseFailD(d, "eof", ab, ba)

\* dial.go:131-149: the peer's BitTorrent handshake through the negotiated stream (no retry after this point)
DBtRead ==
    /\ d.pc = "bt_read"
    /\ \/ /\ Avail(ba) >= BT
          /\ ba' = Take(ba, BT)
          /\ d' = [d EXCEPT !.dec = @ + BT, !.pc = "end", !.res = "ok"]
          /\ UNCHANGED <<sc, att, c, ab>>
       \/ /\ Avail(ba) < BT /\ ba.closed
          /\ DFail(d, "eof", ab, ba)

----------------------------------------------------------------------------
(* Acceptor / receiver:  mse.go:233-371 HandshakeIncoming, accept.go *)

\* accept.go:186-216: try the plaintext handshake first; if the first 20 bytes are not the protocol string
\* replay them into the MSE handshake.  Scripted peers: "plainonly" refuses MSE, "mse" refuses plaintext,
\* "any" takes both.
\* @obligation C12.forced.in  (plaintext refused when incoming encryption is forced)
CPeek ==
    /\ c.pc = "start" /\ sc.ck # "raw"
    /\ \/ /\ Avail(ab) >= 20 /\ d.plainhs
          /\ IF sc.ck = "mse" THEN CFail(c, "proto", ab, ba)
             ELSE IF sc.ck = "rain" /\ sc.forceIn THEN CFail(c, "notenc", Take(ab, 48), ba)
             ELSE /\ Avail(ab) >= BT
                  /\ ab' = Take(ab, BT) /\ ba' = Put(ba, BT)
                  /\ c' = [c EXCEPT !.pc = "end", !.res = "ok", !.cipher = 0]
                  /\ UNCHANGED <<sc, att, d>>
       \/ /\ Avail(ab) >= 20 /\ ~d.plainhs
          /\ IF sc.ck = "plainonly" THEN CFail(c, "proto", ab, ba)
             ELSE /\ c' = [c EXCEPT !.pc = "b1"]          \* nothing consumed: the peeked bytes are replayed
                  /\ UNCHANGED <<sc, att, d, ab, ba>>
       \/ /\ Avail(ab) < 20 /\ ab.closed
          /\ CFail(c, "eof", ab, ba)

\* first read   mse.go:244-251
B1(fr) ==
    /\ c.pc = "b1" \/ (c.pc = "start" /\ sc.ck = "raw")
    /\ \/ /\ Avail(ab) >= 96
          /\ fr \in 96 .. Min2(FirstBuf, Avail(ab))
          /\ ab' = Take(ab, fr)
          /\ c' = [c EXCEPT !.pc = "b2", !.fr = fr]
          /\ UNCHANGED <<sc, att, d, ba>>
       \/ /\ Avail(ab) < 96 /\ ab.closed
          /\ CFail(c, "eof", ab, ba)

\* Step 2   mse.go:256-267
B2(pad) ==
    /\ c.pc = "b2"
    /\ IF ba.closed THEN CFail(c, "eof", ab, ba)
       ELSE /\ ba' = Put(ba, 96 + pad)
            /\ c' = [c EXCEPT !.pc = "b3", !.padB = pad]
            /\ UNCHANGED <<sc, att, d, ab>>

\* Step 3 synchronisation   mse.go:271-275     @obligation C12.sync
B3 ==
    /\ c.pc = "b3"
    /\ LET marker == 96 + d.padA
           need   == ScanNeeds(ab.r, marker, 20, ScanB - c.fr)
           found  == ScanFinds(ab.r, marker, 20, ScanB - c.fr)
       IN \/ /\ Avail(ab) >= need /\ found
             /\ ab' = Take(ab, need)
             /\ c' = [c EXCEPT !.pc = "b4", !.fr = 0]
             /\ UNCHANGED <<sc, att, d, ba>>
          \/ /\ Avail(ab) >= need /\ ~found
             /\ CFail(c, "sync", Take(ab, need), ba)
          \/ /\ Avail(ab) < need /\ ab.closed
             /\ CFail(c, "eof", ab, ba)

\* SKEY lookup, VC, crypto_provide / select, PadC, IA   mse.go:276-345
\* @obligation C12.wrongkey  @obligation C12.cipher  @obligation C12.payload
B4 ==
    /\ c.pc = "b4"
    /\ LET full == 20 + 14 + d.padC + 2 + IA
           s    == Select(Provide)
       IN \/ /\ Avail(ab) >= full
             /\ IF sc.keymode = "unknown" THEN CFail(c, "skey", Take(ab, 20), ba)
                ELSE IF sc.keymode = "wrong" THEN CFail(c, "vc", Take(ab, 28), ba)
                ELSE IF ~sc.loose /\ s = 0 THEN CFail([c EXCEPT !.cipher = s], "noselect", Take(ab, 32), ba)
                ELSE IF ~sc.loose /\ (~IsPow2(s) \/ ~Has(Provide, s)) THEN CFail([c EXCEPT !.cipher = s], "badselect", Take(ab, 32), ba)
                ELSE /\ ab' = Take(ab, full)
                     /\ c' = [c EXCEPT !.pc = "b5", !.sel = s, !.cipher = s, !.dec = 14 + d.padC + 2 + IA,
                                       !.wm = "rc4", !.rm = "rc4", !.iabuf = IA]
                     /\ UNCHANGED <<sc, att, d, ba>>
          \/ /\ Avail(ab) < full /\ ab.closed
             /\ CFail(c, "eof", ab, ba)

\* Step 4   mse.go:347-366, then (with btconn) the BitTorrent handshake read from IA and answered
\* through the negotiated stream   accept.go:213-243.   A truncating scripted peer sends VC and
\* crypto_select and dies.
B5(pad) ==
    /\ c.pc = "b5"
    /\ IF ba.closed THEN CFail(c, "eof", ab, ba)
       ELSE IF sc.trunc THEN CFail([c EXCEPT !.padD = 0], "trunc", ab, Put(ba, 12))
       ELSE IF sc.ck = "rain" /\ sc.forceIn /\ c.sel # RC4            \* accept.go:221-224
            THEN CFail([c EXCEPT !.padD = pad], "notenc", ab, Put(ba, 14 + pad))
       ELSE LET n == IF HasBT THEN BT ELSE 0 IN
            /\ ba' = Put(ba, 14 + pad + n)
            /\ c' = [c EXCEPT !.pc = "end", !.res = "ok", !.padD = pad, !.enc = 14 + pad + n,
                              !.wm = Mode(c.sel), !.rm = Mode(c.sel)]
            /\ UNCHANGED <<sc, att, d, ab>>

Done == d.res # "" /\ c.res # ""
Terminated == Done /\ UNCHANGED vars

----------------------------------------------------------------------------
(* Invariants = design-level form of the C12 obligations *)

BothOK   == d.res = "ok" /\ c.res = "ok"
Wire(m)  == IF m = "rc4" THEN "rc4" ELSE "clear"
InRange(p) == p \in -1 .. 511          \* pads of the code: rand.Int(512) = 0..511

\* @obligation C12.sync   for pads within 0..511 the marker is always found within the bound
SyncFound == (InRange(d.padA) /\ InRange(c.padB)) => (d.res # "sync" /\ c.res # "sync")

\* @obligation C12.agree  both fail, or both complete with the same cipher.  (A hostile receiver may "complete"
\*                        alone; the code under test - the initiator - never does.)
Agree == Done => /\ (d.res = "ok" => (c.res = "ok" /\ d.cipher = c.cipher))
                 /\ (~sc.loose => (c.res = "ok" => d.res = "ok"))

\* @obligation C12.cipher  the agreed cipher is a single offered method and it is the one in use
CipherOK ==
    /\ (d.res = "ok" /\ d.cipher # 0) => (IsPow2(d.cipher) /\ Has(Provide, d.cipher) /\ d.wm = Mode(d.cipher) /\ d.rm = d.wm)
    /\ (c.res = "ok" /\ c.cipher # 0 /\ ~sc.loose) => (IsPow2(c.cipher) /\ Has(Provide, c.cipher) /\ c.wm = Mode(c.cipher) /\ c.rm = c.wm)
    /\ (d.res = "ok" /\ d.cipher = 0) => (d.wm = "raw" /\ d.rm = "raw")
    /\ (c.res = "ok" /\ c.cipher = 0 /\ ~sc.loose) => (c.wm = "raw" /\ c.rm = "raw")

\* @obligation C12.stream  same mode and key-stream position in both directions, nothing left unread:
\*                         the next byte either side reads is the first byte the other writes next
StreamOK == (Done /\ BothOK) =>
    /\ Wire(d.wm) = Wire(c.rm) /\ Wire(c.wm) = Wire(d.rm)
    /\ (d.wm = "rc4" => d.enc = c.dec) /\ (c.wm = "rc4" => c.enc = d.dec)
    /\ Avail(ab) = 0 /\ Avail(ba) = 0

\* @obligation C12.payload  the initial payload is delivered completely; more than 65535 bytes are refused
PayloadOK ==
    /\ (UseMSE /\ att = 1 /\ IA > MaxIA) => d.res # "ok"
    /\ (c.res = "ok" /\ c.sel # 0) => c.iabuf = IA

\* @obligation C12.wrongkey  without the right SKEY no MSE handshake completes on either side
WrongKey == (sc.keymode # "same") => /\ (d.res = "ok" => d.cipher = 0)
                                     /\ (c.res = "ok" => c.cipher = 0)

\* @obligation C12.forced.out  forced outgoing encryption: every returned connection (there is no retry) is RC4
ForcedOut == (sc.dk = "rain" /\ sc.force /\ d.res = "ok") =>
                 (att = 1 /\ d.cipher = RC4 /\ d.wm = "rc4" /\ d.rm = "rc4")
\* @obligation C12.forced.in   forced incoming encryption: every accepted connection is RC4
ForcedIn == (sc.ck = "rain" /\ sc.forceIn /\ c.res = "ok") =>
                 (c.cipher = RC4 /\ c.wm = "rc4" /\ c.rm = "rc4")
\* disabled outgoing encryption never starts MSE; the redial is never encrypted
Disabled == ((sc.dk = "rain" /\ ~sc.enable) \/ att = 2) => (d.pc \in {"start", "p_read", "end"} /\ d.wm = "raw")

TypeOK ==
    /\ att \in 1 .. 2
    /\ ab.r <= ab.w /\ ba.r <= ba.w /\ ab.r >= 0 /\ ba.r >= 0
    /\ d.res \in {"", "ok", "eof", "sync", "noprovide", "toobig", "noselect", "badselect", "notenc"}
    /\ c.res \in {"", "ok", "eof", "sync", "skey", "vc", "noselect", "badselect", "notenc", "proto", "trunc"}

Inv == TypeOK /\ SyncFound /\ Agree /\ CipherOK /\ StreamOK /\ PayloadOK /\ WrongKey /\ ForcedOut /\ ForcedIn /\ Disabled
=============================================================================
