SPECIFICATION MCSpec
CONSTANTS
  POOLED = FALSE
  NCS = {2, 3}
  LENS = {1, 2}
  WHOLE3 = TRUE
INVARIANT Inv
CHECK_DEADLOCK TRUE
