------------------------------ MODULE LimitsRM ------------------------------
(***************************************************************************)
(* C17 sub-model RM, part A: internal/resourcemanager seen as ONE          *)
(* linearizable counting object (the "write cache" budget of the session). *)
(*                                                                         *)
(*   avail    resources not reserved                                       *)
(*   holders  live reservations  [id, key, n]  (granted, not yet released) *)
(*   waiters  queued requests    [id, key, n]  (Request returned false)    *)
(*   canc     request ids whose cancel channel has been closed             *)
(*                                                                         *)
(* One action per way the real manager changes its counters:               *)
(*   AReq     handleRequest answers doneC   (resourcemanager.go:165-177)   *)
(*   ARefuse  Request returns false without being queued (n<0 / closed /   *)
(*            cancelled)                                                   *)
(*   ANotify  run(): case req.notifyC <- req.data     (:116-122)           *)
(*   ADrop    run(): case <-req.cancelC               (:123-124)           *)
(*   ARelease run(): case n := <-m.releaseC           (:110-115)           *)
(* The obligations of property C17 for this object:                        *)
(*   @obligation C17.rm.limit    a grant never takes more than is available*)
(*                               (0 <= avail <= limit at all times)        *)
(*   @obligation C17.rm.balance  limit - avail = sum of n over live        *)
(*                               holders; AllocatedObjects = #holders      *)
(*   @obligation C17.rm.pending  PendingKeys = number of keys with waiters *)
(*   @obligation C17.rm.grant_vs_cancel  a notification that was DELIVERED *)
(*                               is a reservation (ANotify), whether or    *)
(*                               not the cancel channel of the request has *)
(*                               been closed by then; a cancelled waiter   *)
(*                               is EITHER notified and charged OR dropped *)
(*                               (ADrop) and never notified.  The receiver *)
(*                               releases what it was told it holds, so    *)
(*                               anything else breaks C17.rm.balance /     *)
(*                               C17.rm.limit a few steps later (part B:   *)
(*                               ToldIsHeld, GrantCancelRace; driver mode  *)
(*                               "race")                                   *)
(*   @obligation C17.rm.handshake every Request/Release call returns       *)
(*                               (part B, LimitsRMProto: deadlock freedom  *)
(*                               of the caller/manager rendezvous)         *)
(* Part B (LimitsRMProto.tla) models the goroutines and channels and is    *)
(* checked by TLC to refine this module.  The trace specification          *)
(* (Trace_LimitsRM.tla) judges call/ret histories of the real manager      *)
(* against this module with the linearization point between call and ret.  *)
(***************************************************************************)
EXTENDS Integers, FiniteSets, Sequences, TLC

VARIABLES rcfg,      \* [limit |-> Nat]
          avail, holders, waiters, canc

avars == <<rcfg, avail, holders, waiters, canc>>

RECURSIVE SumN(_)
SumN(S) == IF S = {} THEN 0 ELSE LET x == CHOOSE y \in S : TRUE IN x.n + SumN(S \ {x})

Keys(S) == {x.key : x \in S}
Ids(S)  == {x.id : x \in S}

AInitWith(c) ==
    /\ rcfg = c /\ avail = c.limit /\ holders = {} /\ waiters = {} /\ canc = {}
AResetWith(c) ==
    /\ rcfg' = c /\ avail' = c.limit /\ holders' = {} /\ waiters' = {} /\ canc' = {}

-----------------------------------------------------------------------------
\* @obligation C17.rm.limit
GrantOK(r) == r.n >= 0 /\ r.n <= avail

AReq(r, acq) ==
    /\ r.id \notin Ids(holders) \cup Ids(waiters)
    /\ IF acq
       THEN /\ avail' = avail - r.n
            /\ holders' = holders \cup {r}
            /\ UNCHANGED waiters
       ELSE /\ waiters' = waiters \cup {r}
            /\ UNCHANGED <<avail, holders>>
    /\ UNCHANGED <<rcfg, canc>>

ARefuse == UNCHANGED avars

\* @obligation C17.rm.grant_vs_cancel : no guard on canc - when the send on notifyC and the closed cancel channel are
\* ready together the select may take the send, and then the reservation is charged like any other
ANotify(r) ==
    /\ r \in waiters
    /\ waiters' = waiters \ {r}
    /\ holders' = holders \cup {r}
    /\ avail' = avail - r.n
    /\ UNCHANGED <<rcfg, canc>>

ADrop(r) ==
    /\ r \in waiters /\ r.id \in canc
    /\ waiters' = waiters \ {r}
    /\ UNCHANGED <<rcfg, avail, holders, canc>>

ARelease(r) ==
    /\ r \in holders
    /\ holders' = holders \ {r}
    /\ avail' = avail + r.n
    /\ UNCHANGED <<rcfg, waiters, canc>>

ACancel(id) ==
    /\ canc' = canc \cup {id}
    /\ UNCHANGED <<rcfg, avail, holders, waiters>>

\* what Stats() must report at its linearization point
\* @obligation C17.rm.balance  @obligation C17.rm.pending
StatsViol(size, objects, pending) ==
    IF size # rcfg.limit - avail \/ size # SumN(holders) THEN "C17.rm.balance.size"
    ELSE IF objects # Cardinality(holders) THEN "C17.rm.balance.objects"
    ELSE IF pending # Cardinality(Keys(waiters)) THEN "C17.rm.pending"
    ELSE ""

-----------------------------------------------------------------------------
(* The strict next-state relation: what a correct manager may do.          *)
AStrictStep(R) ==
    \/ \E r \in R, acq \in BOOLEAN : (acq => GrantOK(r)) /\ AReq(r, acq)
    \/ \E r \in waiters : GrantOK(r) /\ ANotify(r)
    \/ \E r \in waiters : ADrop(r)
    \/ \E r \in holders : ARelease(r)
    \/ \E r \in R : ACancel(r.id)

\* the counting invariants (global form of C17.rm.limit / C17.rm.balance)
AInv ==
    /\ 0 <= avail /\ avail <= rcfg.limit
    /\ avail = rcfg.limit - SumN(holders)
    /\ Ids(holders) \cap Ids(waiters) = {}
=============================================================================
