--------------------------- MODULE Trace_Metainfo ---------------------------
(***************************************************************************)
(* Trace specification for C06: judges the ndjson lines recorded by        *)
(* harness/c06 from the REAL parser (metainfo.New / NewInfo), the real     *)
(* piece construction (piece.NewPieces) and the real session               *)
(* (Session.AddTorrent, Start) against Metainfo.tla.                       *)
(*                                                                         *)
(* Every line is one call on one input:                                    *)
(*   site  new | ni1 | ni2 | add | np | start  (default session)           *)
(*         addl | url | res | mag   the file, URL-body, resume-record and  *)
(*         magnet (info from a peer) paths on a session with lowered       *)
(*         limits: the same WellFormed + limits judgement for every path   *)
(*   acc   1 iff the call accepted the input                               *)
(*   pl, n, lens, pad   projection of the accepted description (limbs,     *)
(*                      base 10000, little endian; sign of a length apart) *)
(*   lim, maxn, maxsz, size   session limits and consumed size (lim = 1)   *)
(*   st, steps          measured number of file sections built (site np)   *)
(*   ev, where          hang | crash | oom observed by the watchdog        *)
(*   akb, ikb           bytes allocated by the call / size of its input    *)
(*   ret, ms, tmo       site url: did AddURI return, after how many ms,    *)
(*                      under which Config.TorrentAddHTTPTimeout (ms)      *)
(*                                                                         *)
(* The lines are independent, the only state is the position l.  A failed  *)
(* obligation does not block the step: its tag is stored in viol AND       *)
(* printed ("@@V <l> <tag>") so that ALL violating lines of a file are     *)
(* reported by one TLC run (props/c06.py collects them); a line that no    *)
(* disjunct explains stops the run (driver/spec mismatch, exit 2).         *)
(***************************************************************************)
EXTENDS Metainfo, Json

VARIABLES l, viol
tvars == <<mvars, l, viol>>

Trace == ndJsonDeserialize("trace.ndjson")
Ev == Trace[l]

P64 == [b |-> 10000, imax |-> <<5807, 7547, 3685, 3720, 922>>]   \* 2^63-1 = 922 3372 0368 5477 5807

Limbs(s) == \A i \in 1 .. Len(s) : s[i] \in 0 .. 9999
Sane(e) ==
    /\ e.site \in {"new", "ni1", "ni2", "add", "np", "start", "addl", "url", "res", "mag"}
    /\ e.ret \in {0, 1} /\ e.ms \in Nat /\ e.tmo \in Nat
    /\ e.site \in {"addl", "url", "res", "mag"} => e.lim = 1
    /\ e.acc \in {0, 1} /\ e.lim \in {0, 1} /\ e.st \in {0, 1}
    /\ e.ev \in {"", "hang", "crash", "oom"}
    /\ Limbs(e.pl) /\ Limbs(e.n) /\ Limbs(e.size) /\ Limbs(e.maxn) /\ Limbs(e.maxsz) /\ Limbs(e.steps)
    /\ Len(e.pl) <= 3 /\ Len(e.n) <= 3
    /\ \A i \in 1 .. Len(e.lens) : e.lens[i].neg \in {0, 1} /\ Limbs(e.lens[i].m) /\ Len(e.lens[i].m) <= 5
    /\ e.st = 1 => e.site = "np"

\* @obligation C06.crash  no input crashes the process
\* @obligation C06.hang   every call returns (watchdog deadline far above the linear bound)
\* @obligation C06.oom    no runaway allocation (heap cap far above the linear bound)
\* @obligation C06.alloc  memory allocated by a call is bounded linearly by the size of its input
AllocBound(e) == 16384 + 256 * e.ikb          \* KiB: 16 MiB + 256 x input
\* @obligation C06.hang (site url)  AddURI over http returns - ok or error - within the configured time-out + slack,
\*   whatever the server does (silence before / inside the head, silence or a slow drip inside the body, endless body,
\*   redirect loop): the design is MetainfoFetch.tla (the time-out covers the whole exchange, the read is capped).
UrlSlackMs == 5000
CaseViol(e) ==
    IF e.ev = "crash" THEN "C06.crash"
    ELSE IF e.ev = "hang" THEN "C06.hang"
    ELSE IF e.site = "url" /\ (e.ret = 0 \/ e.ms > e.tmo + UrlSlackMs) THEN "C06.hang"
    ELSE IF e.ev = "oom" THEN "C06.oom"
    ELSE IF e.akb > AllocBound(e) THEN "C06.alloc"
    ELSE IF e.acc = 1 \/ e.st = 1 THEN
        LET w == WFViol(P64, e) IN
        IF w # "" THEN w
        ELSE IF e.st = 1 THEN WorkViol(P64, e, e.steps)
        ELSE ""
    ELSE ""

TraceInit ==
    /\ l = 1 /\ viol = ""
    /\ info = [pl |-> 0, n |-> 0, lens |-> <<>>] /\ st = Skip
    /\ TLCSet(1, 1)

TrCase ==
    /\ Ev.op = "Case"
    /\ Sane(Ev)
    /\ LET v == CaseViol(Ev) IN
       /\ viol' = v
       /\ v # "" => PrintT("@@V " \o ToString(l) \o " " \o v)
    /\ l' = l + 1
    /\ UNCHANGED mvars

TraceNext == l <= Len(Trace) /\ TrCase
TraceSpec == TraceInit /\ [][TraceNext]_tvars

HighWater == TLCSet(1, IF l > TLCGet(1) THEN l ELSE TLCGet(1))
NoViolation == viol = ""
TraceAccepted ==
    LET hw == TLCGet(1) IN
    IF hw = Len(Trace) + 1 THEN TRUE
    ELSE /\ PrintT("@@REJECT " \o ToString(hw - 1) \o " " \o ToString(Len(Trace)))
         /\ FALSE
=============================================================================
