--------------------------- MODULE MC_UnchokerGen ---------------------------
(***************************************************************************)
(* TLC as generator (E-gen, run with -simulate) of call histories for the  *)
(* X01 driver: connects / disconnects, interest changes (with frequent     *)
(* lose-interest / regain-interest flapping of unchoked peers) and ticks   *)
(* with small rate vectors (many ties).  One random successor per step.    *)
(* The driver replays a history against the real Unchoker; Trace_Unchoker  *)
(* judges what the code did.                                               *)
(***************************************************************************)
EXTENDS Integers, Sequences, FiniteSets, TLC, Json
CONSTANTS NPEERS, K, RMAX
VARIABLES gcfg, gc, gi, h

gvars == <<gcfg, gc, gi, h>>
P == 1 .. NPEERS

GenInit ==
    /\ gcfg \in {[N |-> n, M |-> m] : n \in 0 .. 2, m \in 0 .. 2}
    /\ gc = {} /\ gi = {} /\ h = <<>>

\* the dummy dependence on the state keeps TLC from evaluating a draw once as a constant
Dice(k) == RandomElement(1 .. (k + 0 * Len(h)))
Pick(S) == RandomElement({x \in S : Len(h) >= 0})

\* (a random draw is bound through a singleton set: a LET definition would be re-evaluated at every use)
TickStep ==
    \E r \in {[p \in P |-> Dice(RMAX + 1) - 1]}, u \in {[p \in P |-> Dice(RMAX + 1) - 1]}, c \in {Dice(4) = 1} :
       /\ h' = Append(h, [op |-> "Tick", pe |-> 0, dl |-> r, ul |-> u, completed |-> c])
       /\ UNCHANGED <<gcfg, gc, gi>>

EnvStep ==
    \E p \in {Pick(P)}, d \in {Dice(10)} :
    IF p \notin gc
    THEN /\ gc' = gc \cup {p} /\ UNCHANGED <<gcfg, gi>>
         /\ h' = Append(h, [op |-> "Connect", pe |-> p, dl |-> <<>>, ul |-> <<>>, completed |-> FALSE])
    ELSE IF d = 1
         THEN /\ gc' = gc \ {p} /\ gi' = gi \ {p} /\ UNCHANGED gcfg
              /\ h' = Append(h, [op |-> "Disconnect", pe |-> p, dl |-> <<>>, ul |-> <<>>, completed |-> FALSE])
         ELSE IF p \in gi /\ d <= 5
         THEN /\ gi' = gi \ {p} /\ UNCHANGED <<gcfg, gc>>
              /\ h' = Append(h, [op |-> "NotInterested", pe |-> p, dl |-> <<>>, ul |-> <<>>, completed |-> FALSE])
         ELSE /\ gi' = gi \cup {p} /\ UNCHANGED <<gcfg, gc>>
              /\ h' = Append(h, [op |-> "Interested", pe |-> p, dl |-> <<>>, ul |-> <<>>, completed |-> FALSE])

GenNext == Len(h) < K /\ \E d \in {Dice(10)} : IF d <= 3 THEN TickStep ELSE EnvStep
GenSpec == GenInit /\ [][GenNext]_gvars

GenPrint == IF Len(h) = K
            THEN PrintT("@@" \o ToJson([npeers |-> NPEERS, N |-> gcfg.N, M |-> gcfg.M, ops |-> h]))
            ELSE TRUE
=============================================================================
