SPECIFICATION MCSpec
CONSTANT FixNames = {"size", "allocstop"}
CONSTANT Variant = "padwhole"
INVARIANT Inv
INVARIANT Trust
INVARIANT TrustDisk
CHECK_DEADLOCK FALSE
