SPECIFICATION QSpec
CONSTANTS
  BITS = 4
  CAP = 2
  ASIS = FALSE
INVARIANT QInv
CHECK_DEADLOCK FALSE
