SPECIFICATION QSpec
CONSTANTS
  BITS = 4
  CAP = 2
  ASIS = FALSE
INVARIANT QBound
INVARIANT QNoDup
INVARIANT QStatic
INVARIANT PopSafe
CHECK_DEADLOCK FALSE
