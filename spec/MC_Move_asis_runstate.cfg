SPECIFICATION MCSpec
CONSTANTS
  U = 2
  RANGE = {1, 2}
  FIX = {}
  MAXF = 1
  FAULTS = {"refuse", "cut"}
  BINITS = {"empty"}
  RUNS = {TRUE}
  DIRTYS = {FALSE}
  DSTS = {"B"}
  FINAL = FALSE
INVARIANT TypeOK
INVARIANT SourceRunState
CHECK_DEADLOCK FALSE
