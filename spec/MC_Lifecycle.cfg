SPECIFICATION Spec
CONSTANTS
  NP = 2
  MaxCmds = 5
INVARIANT Inv
PROPERTY StopLeadsToStopped
PROPERTY VerifyEnds
PROPERTY Converges
CHECK_DEADLOCK FALSE
