SPECIFICATION QSpec
CONSTANTS
  Readers = {1, 2, 3}
  KeySet = {1, 2}
  Sizes = {2, 3}
  MAX = 2
  PAR = 2
  NCALLS = 1
  FIXED = TRUE
  ERRS = {FALSE}
  TTL = TRUE
  CLEAR = TRUE
INVARIANT QInv
INVARIANT PNoCrash
PROPERTY Refines
CHECK_DEADLOCK FALSE
