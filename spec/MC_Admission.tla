---------------------------- MODULE MC_Admission ----------------------------
(***************************************************************************)
(* Exhaustive design-level configurations of Admission.                    *)
(*                                                                         *)
(* BlSpec (MC_Admission_bl*.cfg): a scaled IPv4 universe of 2^BITS         *)
(* addresses 10.20.30.64 + k; model prefix /p is the real prefix           *)
(* /(32-BITS+p).  Every list of <= 2 CIDRs (ordered), every sorted list    *)
(* of 3 CIDRs (nested, adjacent, overlapping, duplicate), 0.0.0.0/0,       *)
(* host-bit variants, comment and malformed lines; reloads on top of       *)
(* every loaded single-line list.  Checked: the range definition agrees    *)
(* with the                                                                *)
(* prefix-bit definition, and the segment-tree design (closed elementary   *)
(* intervals) agrees with the naive definition, for every probe address    *)
(* (universe, both outside neighbours, 0.0.0.0, 255.255.255.255).          *)
(*                                                                         *)
(* QSpec (MC_Admission_q.cfg): the candidate queue over a pool with        *)
(* equal-priority, twin (same ip:port), port-0, self, loopback-self,       *)
(* client-ip and blocked addresses, capacity CAP, Push batches of 1 and 2  *)
(* addresses (Batches), every acceptable outcome, Pop, Reset and reloads of *)
(* the blocklist.  Checked: QInv.  With ASIS = TRUE Pop is the code's      *)
(* (no look at the rules at pop time): PopSafe is then violated by         *)
(* Push ; Reload ; Pop  (MC_Admission_q_asis.cfg, expected to fail).       *)
(***************************************************************************)
EXTENDS Admission
CONSTANTS BITS, CAP, ASIS

BaseHi == 2580                  \* 10.20
BaseLo == 7744                  \* 30.64
UIp(k) == <<BaseHi, BaseLo + k>>
USize  == 2 ^ BITS
Universe == {UIp(k) : k \in 0 .. (USize - 1)}
Probes == Universe \cup {UIp(-1), UIp(USize), <<0, 0>>, <<65535, 65535>>}

Cidr(ip, p) == [k |-> "cidr", ip |-> ip, p |-> p]
BadLine  == [k |-> "bad", ip |-> <<0, 0>>, p |-> 0]
SkipLine == [k |-> "skip", ip |-> <<0, 0>>, p |-> 0]

RECURSIVE Lg(_)
Lg(n) == IF n <= 1 THEN 0 ELSE 1 + Lg(n \div 2)
\* heap numbering of the CIDRs of the universe: n = 2^p + j  <->  j-th network of model prefix p
NC == 2 * USize                 \* n = NC is 0.0.0.0/0
CidrOf(n) == IF n = NC THEN Cidr(<<0, 0>>, 0)
             ELSE LET p == Lg(n) j == n - 2 ^ p IN Cidr(UIp(j * 2 ^ (BITS - p)), 32 - BITS + p)
\* the same network written with all host bits set
HostOf(n) == LET c == CidrOf(n) IN Cidr(CidrLast(c.ip, c.p), c.p)

Lists ==
    {<<>>, <<BadLine>>, <<SkipLine>>, <<SkipLine, BadLine>>}
    \cup {<<CidrOf(a)>> : a \in 1 .. NC} \cup {<<HostOf(a)>> : a \in 1 .. NC}
    \cup {<<BadLine, CidrOf(a), SkipLine>> : a \in 1 .. NC}
    \cup {<<CidrOf(a), CidrOf(b)>> : a \in 1 .. NC, b \in 1 .. NC}
    \cup {<<CidrOf(t[1]), CidrOf(t[2]), CidrOf(t[3])>> :
             t \in {u \in (1 .. NC) \X (1 .. NC) \X (1 .. NC) : u[1] <= u[2] /\ u[2] <= u[3]}}
SmallLists ==
    {<<>>, <<BadLine>>, <<SkipLine, BadLine>>} \cup {<<CidrOf(a)>> : a \in 1 .. NC}

NoQ == [cap |-> 0, port |-> 0, cip |-> NoIp, bl |-> TRUE, pool |-> <<>>, moved |-> FALSE]

BlInit == rules = {} /\ lines = <<>> /\ qc = NoQ /\ q = {} /\ out = NoOut
\* Every list of Lists is loaded: the special and single-line lists directly on the empty blocklist,
\* the 2- and 3-line lists as a reload that extends the loaded list by one line (this spreads the
\* work over the TLC workers; the set of reachable states is the same).  Every small list is loaded
\* on top of every loaded single-line list (old rules must vanish; a refused stream leaves them).
IsCanon(ln) == \E n \in 1 .. NC : CidrOf(n) = ln
IdxOf(ln)   == CHOOSE n \in 1 .. NC : CidrOf(n) = ln
Level1 == {ls \in Lists : Len(ls) <= 1 \/ ls[1].k # "cidr"}
BlNext ==
    \/ rules = {} /\ lines = <<>> /\ \E ls \in Level1, err \in BOOLEAN : Reload(ls, err)
    \/ /\ Len(lines) \in {1, 2} /\ \A i \in 1 .. Len(lines) : IsCanon(lines[i])
       /\ \E c \in 1 .. NC :
             /\ Len(lines) = 2 => (IdxOf(lines[1]) <= IdxOf(lines[2]) /\ IdxOf(lines[2]) <= c)
             /\ Reload(Append(lines, CidrOf(c)), FALSE)
    \/ Len(lines) = 1 /\ \E ls \in SmallLists, err \in BOOLEAN : Reload(ls, err)
BlSpec == BlInit /\ [][BlNext]_vars

RangeIsPrefix ==
    \A v \in Probes : Blocked(v, rules) <=> \E i \in CidrIdx(lines) : PrefixEq(v, lines[i].ip, lines[i].p)
StreeExact ==
    StreeHits(Probes, rules) = {v \in Probes : Blocked(v, rules)}
OnlyLoaded == rules = RulesOf(lines)
BlInv == RangeIsPrefix /\ StreeExact /\ OnlyLoaded

-----------------------------------------------------------------------------
PA(hi, lo, port, pr, ext) == [ip |-> <<hi, lo>>, port |-> port, prio |-> <<0, pr>>, ext |-> ext]
QPool == <<
    PA(2561, 1, 1000, 5, FALSE),        \* 1  10.1.0.1:1000
    PA(2561, 1, 2000, 5, FALSE),        \* 2  10.1.0.1:2000   same priority as 1
    PA(2563, 4, 1000, 7, FALSE),        \* 3  10.3.0.4:1000
    PA(2561, 258, 1000, 9, FALSE),      \* 4  10.1.1.2:1000   inside 10.1.1.0/30, highest priority
    PA(2562, 9, 0, 8, FALSE),           \* 5  10.2.0.9:0      port 0
    PA(2569, 2055, 6881, 6, FALSE),     \* 6  10.9.8.7:6881   own listening address
    PA(32512, 1, 6881, 4, FALSE),       \* 7  127.0.0.1:6881  loopback, listening port
    PA(2569, 2055, 7000, 3, FALSE),     \* 8  10.9.8.7:7000   client IP, other port (may be dropped)
    PA(2561, 1, 1000, 5, FALSE) >>      \* 9  twin of 1 (same ip:port, another object)
QCfg == [cap |-> CAP, port |-> 6881, cip |-> <<2569, 2055>>, bl |-> TRUE, pool |-> QPool, moved |-> FALSE]
QLists == {<<>>, <<Cidr(<<2561, 256>>, 30)>>}
QSrc == {0, 1}
Batches == {<<a>> : a \in 1 .. Len(QPool)}
           \cup {<<1, 2>>, <<2, 1>>, <<1, 9>>, <<3, 4>>, <<4, 3>>, <<3, 1>>, <<2, 3>>, <<5, 6>>, <<8, 7>>, <<4, 4>>, <<3, 8>>}

QInit == rules = {} /\ lines = <<>> /\ qc = QCfg /\ q = {} /\ out = NoOut
QNext ==
    \/ \E b \in Batches, s \in QSrc :
          \E new \in SUBSET (q \cup {Elem(x, s) : x \in SeqSet(b)}) : Push(b, s, new)
    \/ IF ASIS THEN \E e \in q : PopAsIs(e.a, e.s)
               ELSE \E r \in Addr \cup {0}, s \in QSrc, new \in SUBSET q : Pop(r, s, new)
    \/ Reset
    \/ \E ls \in QLists : Reload(ls, FALSE)
QSpec == QInit /\ [][QNext]_vars
=============================================================================
