SPECIFICATION MCSpec
CONSTANTS
  U = 2
  RANGE = {1, 2}
  FIX = {}
  MAXF = 1
  FAULTS = {"srm"}
  BINITS = {"empty"}
  RUNS = {FALSE}
  DIRTYS = {FALSE}
  DSTS = {"B"}
  FINAL = FALSE
INVARIANT TypeOK
INVARIANT ClaimsOnlyIntact
CHECK_DEADLOCK FALSE
