------------------------------ MODULE MC_Move ------------------------------
(***************************************************************************)
(* Exhaustive configurations of Move (X05): ONE move of torrent m from     *)
(* session A to session B (or to A itself), every interleaving of the      *)
(* source steps, the target steps and the loop's flush, with at most MAXF  *)
(* faults out of FAULTS at every possible position (network cut, crash of  *)
(* either process at each step, disk / database fault at the target,       *)
(* refused connection, concurrent remove / close at the source, concurrent *)
(* add of the same id at the target), from every initial situation of the  *)
(* target (BINITS), for a running / stopped / "dirty" source torrent, and  *)
(* followed by a crash- or close-restart of both sessions.                 *)
(*                                                                         *)
(* FIX = all repairs : every obligation must hold (MC_Move_fixed*.cfg).    *)
(* FIX = {}          : the code as it is - TLC is EXPECTED to violate the  *)
(* invariant named in each MC_Move_asis_*.cfg (props/x05.py requires it:   *)
(* the leads that the driver then demonstrates on the real sessions).      *)
(*                                                                         *)
(* As generator (MC_Move_gen_asis.cfg; props/x05.py replaces FIX by the set *)
(* of repairs it finds in the tree under test): INVARIANT GenPrint prints, *)
(* for every distinct observation point reached, the situation (run,       *)
(* dirty, binit), the faults taken and the abstract state - the            *)
(* predictions that the driver replays on the real sessions and Trace_Move *)
(* compares.                                                               *)
(***************************************************************************)
EXTENDS Move, Json
CONSTANTS U, RANGE, FIX, MAXF, FAULTS, BINITS, RUNS, DIRTYS, DSTS, FINAL

AllFixes == {"restart", "flush", "cleanup", "reserve", "self", "walk"}

MCInit == InitWith([U |-> U, range |-> RANGE, fix |-> FIX, maxf |-> MAXF, faults |-> FAULTS, binits |-> BINITS,
                    runs |-> RUNS, dirtys |-> DIRTYS, dsts |-> DSTS, final |-> FINAL])
MCSpec == MCInit /\ [][Next]_vars
LiveSpec == MCSpec /\ Fairness

\* the faults of FAULTS that the driver cannot force are kept out of the generated plans by the config (no "loadfail")
GenPrint ==
    IF gh.phase \in {"settled", "final:crash", "final:close"}
    THEN PrintT("@@" \o ToJson([run |-> gh.run0, dirty |-> gh.dirty, binit |-> gh.binit, faults |-> gh.faults,
                                phase |-> gh.phase, abs |-> Abs, fixed |-> (FIX # {})]))
    ELSE TRUE
=============================================================================
