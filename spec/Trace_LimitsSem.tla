--------------------------- MODULE Trace_LimitsSem ---------------------------
(* Trace specification: Wait/Signal histories of the REAL internal/semaphore (harness/c17, sub-driver sem).     *)
(* "inside" is counted from the log order: ret of Wait ... call of Signal (if the log shows more than cap       *)
(* callers inside, more than cap really were).  Obs lines carry Len()/Waiting() read by an observer goroutine;  *)
(* a Stress line carries the extreme values seen by tight-loop samplers during an unlogged stress run.          *)
EXTENDS LimitsSem, LimitsTrace

tvars == <<svars, l, viol, vl>>

TraceInit ==
    /\ TraceInit0
    /\ SemInitWith([cap |-> Trace[1].cap])
TrReset == Ev.op = "Init" /\ Boundary /\ SemResetWith([cap |-> Ev.cap])
TrOther == Ev.op \in {"call", "ret"} /\ ~(Ev.op = "ret" /\ Ev.f = "Wait") /\ ~(Ev.op = "call" /\ Ev.f = "Signal")
           /\ UNCHANGED <<svars, viol, vl>> /\ l' = l + 1
TrEnter == Ev.op = "ret" /\ Ev.f = "Wait" /\ AEnter /\ SetViol(IF EnterOK THEN "" ELSE "C17.sem.limit") /\ l' = l + 1
TrLeave == Ev.op = "call" /\ Ev.f = "Signal" /\ inside > 0 /\ ALeave /\ KeepViol /\ l' = l + 1
TrObs == Ev.op = "Obs" /\ SetViol(LenViol(Ev.len, Ev.waiting, Ev.final)) /\ UNCHANGED svars /\ l' = l + 1
TrStress ==
    /\ Ev.op = "Stress"
    /\ SetViol(IF Ev.maxinside > scfg.cap THEN "C17.sem.limit"
               ELSE IF Ev.maxlen > scfg.cap \/ Ev.minlen < 0 THEN "C17.sem.len.stress"   \* terminal: the history ends here
               ELSE IF Ev.finallen # 0 \/ Ev.finalwaiting # 0 THEN "C17.sem.len.final"
               ELSE "")
    /\ UNCHANGED svars /\ l' = l + 1
TrCrash == Ev.op = "Crash" /\ SetViol("C17.sem.crash") /\ UNCHANGED svars /\ l' = l + 1

TrEnd == Ev.op = "End" /\ Boundary /\ UNCHANGED svars

TraceNext == l <= Len(Trace) /\ (TrReset \/ TrEnd \/ TrOther \/ TrEnter \/ TrLeave \/ TrObs \/ TrStress \/ TrCrash)
TraceSpec == TraceInit /\ [][TraceNext]_tvars

=============================================================================
