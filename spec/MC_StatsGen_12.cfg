SPECIFICATION GenSpec
CONSTANTS
  K = 12
  LIVES = 3
INVARIANT GenPrint
CHECK_DEADLOCK FALSE
