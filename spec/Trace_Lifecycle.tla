--------------------------- MODULE Trace_Lifecycle ---------------------------
(***************************************************************************)
(* Judges lifecycle histories recorded from a real torrent.Session         *)
(* (harness/life) against the obligations of Lifecycle.tla (property C04). *)
(* The observable variables of Lifecycle (status, have, peers, downloads,  *)
(* files, doVerify, good, stale) are bound to the recorded loop snapshots, *)
(* storage events and mutation events; response obligations (L5) are       *)
(* bounded-time: a deadline is armed when the command returns and checked  *)
(* on every later event (all events carry the driver's monotonic time t).  *)
(* Failed obligations are printed (@@VIOL tag line) and do not block.      *)
(***************************************************************************)
EXTENDS Lifecycle, Json

VARIABLES l, plen, stopTimeout,
          stopDue, startDue, verifyDue,   \* deadlines in ms, -1 = none
          finalActive,
          vphase                          \* window of a Verify command opened at its call: none/called/seen/done
tvars == <<vars, l, plen, stopTimeout, stopDue, startDue, verifyDue, finalActive, vphase>>

Trace == ndJsonDeserialize("trace.ndjson")
Ev == Trace[l]
SetOf(q) == {q[i] : i \in 1 .. Len(q)}
Note(v) == IF v = "" THEN TRUE ELSE PrintT("@@VIOL " \o v \o " " \o ToString(l))

StartSlack == 2500
StopSlack == 2500
VerifySlack == 8000

\* NP is a constant of Lifecycle; traces bring their own piece count: Piece is re-derived from plen
TPiece == 0 .. (Len(plen) - 1)

InitFrom(e) ==
    /\ plen = e.plen /\ stopTimeout = e.stopTimeoutMs
    /\ status = "Stopped" /\ have = {} /\ bfKnown = FALSE /\ good = {} /\ stale = FALSE /\ filesExist = "none"
    /\ peers = 0 /\ downloads = 0 /\ files = 0 /\ doVerify = FALSE /\ wantRun = FALSE /\ addr = FALSE /\ parked = FALSE /\ ncmd = 0
    /\ stopDue = -1 /\ startDue = -1 /\ verifyDue = -1 /\ finalActive = FALSE /\ vphase = "none"

TraceInit == l = 2 /\ Trace[1].ev = "init" /\ InitFrom(Trace[1]) /\ TLCSet(1, 1)

TrReset ==
    /\ Ev.ev = "init"
    /\ plen' = Ev.plen /\ stopTimeout' = Ev.stopTimeoutMs
    /\ status' = "Stopped" /\ have' = {} /\ bfKnown' = FALSE /\ good' = {} /\ stale' = FALSE /\ filesExist' = "none"
    /\ peers' = 0 /\ downloads' = 0 /\ files' = 0 /\ doVerify' = FALSE /\ wantRun' = FALSE /\ addr' = FALSE /\ parked' = FALSE /\ ncmd' = 0
    /\ stopDue' = -1 /\ startDue' = -1 /\ verifyDue' = -1 /\ finalActive' = FALSE /\ vphase' = "none"
    /\ l' = l + 1

KeepCfg == UNCHANGED <<plen, stopTimeout, bfKnown, filesExist, wantRun, ncmd>>

\* deadlines that have expired at time t
Expired(t) ==
    IF stopDue # -1 /\ t > stopDue THEN "C04.L5.stop"
    ELSE IF startDue # -1 /\ t > startDue THEN "C04.L5.start"
    ELSE IF verifyDue # -1 /\ t > verifyDue THEN "C04.L5.verify.end"
    ELSE ""
ClearExpired(t) ==
    /\ stopDue' = IF stopDue # -1 /\ t > stopDue THEN -1 ELSE stopDue
    /\ startDue' = IF startDue # -1 /\ t > startDue THEN -1 ELSE startDue
    /\ verifyDue' = IF verifyDue # -1 /\ t > verifyDue THEN -1 ELSE verifyDue

\* The "ret" line of a command is written by the calling goroutine and may appear in the trace AFTER loop snapshots that already
\* show the command's effect (seen under load: a whole verification finished between Verify()'s return and the "ret" line). For
\* Verify the window therefore opens at the call: vphase = "called" -> "seen" (a snapshot with doVerify) -> "done" (Stopped again).
TrCall ==
    /\ Ev.ev = "call" /\ l' = l + 1
    /\ vphase' = IF Ev.op = "verify" THEN "called" ELSE IF Ev.op \in {"start", "stop"} THEN "none" ELSE vphase
    /\ UNCHANGED <<vars, plen, stopTimeout, stopDue, startDue, verifyDue, finalActive>>

\* @obligation C04.L5  every command returns and takes effect
TrRet ==
    /\ Ev.ev = "ret"
    /\ CASE Ev.op = "stop"   -> /\ stopDue' = Ev.t + stopTimeout + StopSlack /\ startDue' = -1 /\ verifyDue' = -1
         \* a Start issued while a verification request is open supersedes it: whatever the code makes of the pair (finish the
         \* verification first, or abort it and run) is accepted, so neither deadline is armed and the verify window is closed
         \* (seen in the thorough tier: Verify; Start while Verifying -> Stopping -> Allocating -> Downloading without a Stopped snapshot)
         [] Ev.op = "start"  -> /\ startDue' = (IF verifyDue = -1 THEN Ev.t + StartSlack ELSE -1) /\ stopDue' = -1 /\ verifyDue' = -1
         [] Ev.op = "verify" -> /\ verifyDue' = (IF vphase = "done" THEN -1 ELSE Ev.t + VerifySlack) /\ stopDue' = -1 /\ startDue' = -1
         [] OTHER            -> UNCHANGED <<stopDue, startDue, verifyDue>>
    /\ vphase' = IF Ev.op = "verify" THEN "none" ELSE vphase
    \* @obligation C04.L5.addpeer  "addseed" = AddPeer with the address of a reachable honest seed (CmdAddPeer): demanded to take
    \* effect when the torrent runs (status of the last loop snapshot; the driver issues no other command meanwhile)
    /\ addr' = IF Ev.op = "addseed" THEN (addr \/ Running) ELSE addr
    /\ l' = l + 1 /\ UNCHANGED <<status, have, bfKnown, good, stale, filesExist, peers, downloads, files, doVerify, wantRun, parked, ncmd>>
    /\ UNCHANGED <<plen, stopTimeout, finalActive>>

\* @obligation C04.L2 / C04.L3 / C04.L5 on every loop snapshot
TrSnap ==
    /\ Ev.ev = "snap"
    /\ status' = Ev.status /\ have' = SetOf(Ev.have) /\ peers' = Ev.peers /\ downloads' = Ev.downloads
    /\ files' = Ev.files /\ doVerify' = Ev.doVerify
    /\ LET run == Ev.status \notin {"Stopped", "Stopping"}
           vopen == verifyDue # -1 \/ vphase = "seen"
           vfin == vopen /\ Ev.status = "Stopped" /\ ~Ev.doVerify                  \* verification request completed
           vbad == vopen /\ (Ev.status \in {"Downloading", "Seeding"} \/ Ev.peers > 0 \/ Ev.downloads > 0)
           errStop == Ev.lastErr # ""
       IN /\ Note(IF ~L2a(TPiece, Ev.status, SetOf(Ev.have)) THEN "C04.L2.seeding"
                  ELSE IF ~L2b(Ev.status, SetOf(Ev.have), good, stale) THEN "C04.L2.have"
                  ELSE IF ~L3(Ev.status, Ev.peers, Ev.downloads, Ev.files) THEN "C04.L3"
                  ELSE IF vbad THEN "C04.L5.verify.download"
                  ELSE IF vfin /\ SetOf(Ev.have) # good THEN "C04.L5.verify.result"
                  ELSE IF stopDue # -1 /\ Ev.status # "Stopped" /\ Ev.t > stopDue THEN "C04.L5.stop"
                  ELSE IF startDue # -1 /\ ~run /\ ~errStop /\ Ev.t > startDue THEN "C04.L5.start"
                  ELSE IF verifyDue # -1 /\ ~vfin /\ ~vbad /\ Ev.t > verifyDue THEN "C04.L5.verify.end"
                  ELSE "")
          /\ stopDue' = IF Ev.status = "Stopped" \/ (stopDue # -1 /\ Ev.t > stopDue) THEN -1 ELSE stopDue
          /\ startDue' = IF run \/ errStop \/ (startDue # -1 /\ Ev.t > startDue) THEN -1 ELSE startDue
          /\ verifyDue' = IF vfin \/ vbad \/ (verifyDue # -1 /\ Ev.t > verifyDue) THEN -1 ELSE verifyDue
          /\ stale' = IF vfin THEN FALSE ELSE stale
          /\ vphase' = IF vphase \in {"called", "seen"} /\ (vfin \/ vbad) THEN "done"
                        ELSE IF vphase = "called" /\ Ev.doVerify THEN "seen" ELSE vphase
          \* PeerConnect before the bitfield is known: `parked` = the torrent has had a peer since Allocating / Verifying (its
          \* announcements were parked); it lasts while the torrent runs with a peer. The address is consumed by the dial.
          /\ parked' = (run /\ Ev.peers > 0 /\ (parked \/ Ev.status \in {"Allocating", "Verifying"}))
          /\ addr' = (addr /\ run /\ Ev.peers = 0)
    /\ l' = l + 1 /\ KeepCfg /\ UNCHANGED <<good, finalActive>>

TrWrite ==                                        \* storage truth after a piece write
    /\ Ev.ev = "w"
    /\ good' = IF Ev.p \in TPiece THEN (IF Ev.pgood THEN good \cup {Ev.p} ELSE good \ {Ev.p}) ELSE good
    /\ l' = l + 1 /\ KeepCfg
    /\ UNCHANGED <<status, have, stale, peers, downloads, files, doVerify, addr, parked, stopDue, startDue, verifyDue, finalActive, vphase>>

TrMut ==                                          \* files changed by the harness while Stopped
    /\ Ev.ev = "mut"
    /\ good' = SetOf(Ev.good)
    /\ stale' = (stale \/ Ev.kind \in {"corrupt", "truncate"})
    /\ l' = l + 1 /\ KeepCfg
    /\ UNCHANGED <<status, have, peers, downloads, files, doVerify, addr, parked, stopDue, startDue, verifyDue, finalActive, vphase>>

\* @obligation C04.L3  Stopped: no open data files (handles counted by the storage provider)
TrStoppedObs ==
    /\ Ev.ev = "stoppedobs"
    /\ Note(IF Ev.handles # 0 THEN "C04.L3.handles" ELSE "")
    /\ good' = SetOf(Ev.good)
    /\ l' = l + 1 /\ KeepCfg
    /\ UNCHANGED <<status, have, stale, peers, downloads, files, doVerify, addr, parked, stopDue, startDue, verifyDue, finalActive, vphase>>

\* @obligation C04.L4  completed bytes consistent with the pieces held
TrStats ==
    /\ Ev.ev = "stats"
    /\ LET pl == plen[1]
           last == plen[Len(plen)]
       IN Note(IF Ev.completed + Ev.incomplete # Ev.btotal THEN "C04.L4.bytes"
               ELSE IF Ev.completed \notin {Ev.have * pl, (Ev.have - 1) * pl + last} /\ ~(Ev.have = 0 /\ Ev.completed = 0) THEN "C04.L4.completed"
               ELSE "")
    /\ l' = l + 1 /\ UNCHANGED <<vars, plen, stopTimeout, stopDue, startDue, verifyDue, finalActive, vphase>>

\* @obligation C04.L6  starting again with a reachable seed converges to complete, correct files
TrFinal ==
    /\ Ev.ev = "final"
    /\ IF Ev.phase = "begin"
       THEN /\ finalActive' = ~stale /\ Note(Expired(Ev.t)) /\ ClearExpired(Ev.t) /\ UNCHANGED good
       \* a torrent that does not converge while the peer it has had since Allocating / Verifying is still connected has lost
       \* what that peer announced: the AddPeer issued before the bitfield was known did not take effect (InvParked)
       ELSE /\ Note(IF finalActive /\ ~(Ev.ok /\ Ev.filesOK) THEN (IF parked THEN "C04.L5.addpeer" ELSE "C04.L6") ELSE "")
            \* `good` is NOT re-read here: the torrent is running, so the harness' classification of the store is not atomic with
            \* this line's position in the trace (a piece written between the classification and the emit would be lost); the
            \* writes themselves (TrWrite) keep `good` exact while the torrent runs
            /\ finalActive' = FALSE /\ UNCHANGED <<good, stopDue, startDue, verifyDue>>
    /\ l' = l + 1 /\ KeepCfg
    /\ UNCHANGED <<status, have, stale, peers, downloads, files, doVerify, addr, parked, vphase>>

\* @obligation C04.L1  no crash, no hang
TrProc ==
    /\ Ev.ev = "proc"
    /\ Note(IF Ev.what = "crash" THEN "C04.L1.crash" ELSE IF Ev.what = "hang" THEN "C04.L1.hang" ELSE "")
    /\ l' = l + 1 /\ UNCHANGED <<vars, plen, stopTimeout, stopDue, startDue, verifyDue, finalActive, vphase>>

TraceNext ==
    /\ l <= Len(Trace)
    /\ \/ TrReset \/ TrCall \/ TrRet \/ TrSnap \/ TrWrite \/ TrMut \/ TrStoppedObs \/ TrStats \/ TrFinal \/ TrProc

TraceSpec == TraceInit /\ [][TraceNext]_tvars

HighWater == TLCSet(1, IF l > TLCGet(1) THEN l ELSE TLCGet(1))
TraceAccepted ==
    LET hw == TLCGet(1) IN
    IF hw = Len(Trace) + 1 THEN TRUE
    ELSE /\ PrintT("@@REJECT " \o ToString(hw - 1) \o " " \o ToString(Len(Trace)))
         /\ FALSE
=============================================================================
