SPECIFICATION MCSpecF
CONSTANTS
  LEVEL = 1
INVARIANT Inv
CHECK_DEADLOCK FALSE
PROPERTY SlowPeerKept
