------------------------------- MODULE Session -------------------------------
(***************************************************************************)
(* Property C14: the session registry (torrent/session.go, session_add.go, *)
(* session_load.go, session_torrent.go, session_stats.go) and the resume   *)
(* database (internal/resumer/boltdbresumer).                              *)
(*                                                                         *)
(* The multi-step operations are cut at the code's REAL lock boundaries,   *)
(* one action per critical section, with a program counter per caller:     *)
(*                                                                         *)
(*   add (session_add.go)                                                  *)
(*     take    getPort()                      under mPorts                 *)
(*     check   duplicate id + GetStorage      under mTorrents.RLock        *)
(*             (failure releases the port)                                 *)
(*     write   newTorrent + resumer.Write     one bbolt transaction        *)
(*     insert  insertTorrent                  under mTorrents.Lock         *)
(*     started Torrent.Start -> WriteStarted  one bbolt transaction        *)
(*   remove (session.go removeTorrentFromClient, stopAndRemoveData)        *)
(*     detach  delete from both maps          under mTorrents.Lock         *)
(*     dbdel   DeleteBucket                   one bbolt transaction        *)
(*     close   torrent.Close: the torrent's own loop stops and, if it was  *)
(*             running, WRITES ITS BITFIELD BY ID (torrent_stop.go) - one  *)
(*             bbolt transaction of the loop, a no-op without a record     *)
(*     release releasePort + unreserveID      under mPorts / mTorrents     *)
(*   Start / Stop / AddTracker on the handle found by GetTorrent           *)
(*     lookup  GetTorrent                     under mTorrents.RLock        *)
(*     apply   WriteStarted / trackers r-m-w  one bbolt transaction        *)
(*             (cfg.split: read in `apply`, write in `put` - two of them)  *)
(*     live    AddTrackers (torrent loop)                                  *)
(*   Close + NewSession (updateStats, loadExistingTorrents), CleanDatabase,*)
(*   CompactDatabase: taken at quiescence, one action each.                *)
(*                                                                         *)
(* cfg.atomic = FALSE is the code AS IT IS: the id is checked in `check`   *)
(* and inserted in `insert`, nothing in between reserves it; `detach`      *)
(* frees the id before `dbdel` has removed its record.                     *)
(* cfg.atomic = TRUE is the intended design (and the shape of the proposed *)
(* repair): `check` reserves the id until `insert`, `detach` keeps it      *)
(* reserved until `release` (the removed torrent is closed: nothing writes *)
(* under that id any more); a tracker added to a torrent whose record is   *)
(* gone is an error, not a nil dereference.                                *)
(* cfg.early = TRUE (expected-fail variant, the code before the repair of  *)
(* round 4): the reservation of a remove ends at `dbdel`, while the        *)
(* removed torrent still runs - an add of the same id between `dbdel` and  *)
(* `close` gets the removed torrent's bitfield written into its record.    *)
(*                                                                         *)
(* Every step is split into  <Step>Viol(..)  - the tag of the obligation   *)
(* that the outcome reported by the code contradicts in the current state  *)
(* ("" if none) - and  <Step>Upd(..)  - the state change that follows the  *)
(* reported outcome.  Design-level actions are  Viol = "" /\ Upd ; the     *)
(* trace specification evaluates Viol on every interleaving it tries.      *)
(*                                                                         *)
(* A torrent's payload p = [st, tiers, cnt]: st = immutable identity       *)
(* (info-hash, name, web seeds, options, has-metadata, added-at), tiers =  *)
(* tracker tiers, cnt = transfer counters; opaque values for this module.  *)
(***************************************************************************)
EXTENDS Integers, FiniteSets, Sequences, TLC

VARIABLES cfg,       \* [range : set of ports, k : number of callers, atomic, ret, env, sparse, split, early : BOOLEAN]  constant after Init
                     \*   ret = TRUE: a finished call waits in step "done" for its return event (trace validation);
                     \*   ret = FALSE: it becomes idle at once (exhaustive configs: returning touches nothing shared)
                     \*   env = TRUE (trace validation): ENVELOPE of both designs - reservations are tracked, an add may be
                     \*   refused as duplicate because the id is reserved, but need not be
                     \*   sparse = TRUE (expected-fail variant): resumer.Write stores only the non-empty values of a record, so a
                     \*   record written over a LEFTOVER bucket (a record that failed to load keeps its bucket) inherits the
                     \*   bitfield / info dictionary of the previous owner of the id
                     \*   split = TRUE (expected-fail variant): Torrent.AddTracker reads the stored tracker list in one transaction
                     \*   and writes the extended list in ANOTHER one (no writer lock in between): two overlapping calls read the
                     \*   same list and the later write drops the tracker of the earlier one (lost update)
                     \*   early = TRUE (expected-fail variant): RemoveTorrent gives the id back when the record is deleted, before
                     \*   the removed torrent is closed (its loop still writes resume data under that id)
          torrents,  \* s.torrents : id -> [h, port, p]          (h = handle identity)
          byih,      \* s.torrentsByInfoHash, as the set of [h, id] entries of all lists
          ports,     \* s.availablePorts
          db,        \* resume database : id -> [port, p, started, bad, bf]   (bad = record cannot be loaded;
                     \*   bf = content of the bitfield key: "" nothing (what an add writes), "own" written by this torrent's own
                     \*   verification / completion / final stats write, "left" left over from a previous owner of the bucket)
          invalid,   \* s.invalidTorrentIDs
          orphans,   \* handles that are alive (port taken, loop running) but unreachable: set of [h, id, port]
          reserved,  \* ids reserved by an add / remove in flight (always {} when ~cfg.atomic)
          pc,        \* caller -> frame
          crashed    \* "" or the site of a process-level panic

vars == <<cfg, torrents, byih, ports, db, invalid, orphans, reserved, pc, crashed>>

NoArgs == [x |-> 0]
Idle   == [op |-> "idle", step |-> "idle", id |-> "", h |-> 0, port |-> 0, res |-> "", a |-> NoArgs]
Callers == 1 .. cfg.k

Put(f, k, v) == [x \in (DOMAIN f) \cup {k} |-> IF x = k THEN v ELSE f[x]]
Del(f, k)    == [x \in (DOMAIN f) \ {k} |-> f[x]]
EmptyFn      == [x \in {} |-> 0]

I0(c) == [torrents |-> EmptyFn, byih |-> {}, ports |-> c.range, db |-> EmptyFn, invalid |-> {}, orphans |-> {},
          reserved |-> {}, pc |-> [g \in 1 .. c.k |-> Idle], crashed |-> ""]

InitWith(c) ==
    LET i == I0(c) IN
    /\ cfg = c /\ torrents = i.torrents /\ byih = i.byih /\ ports = i.ports /\ db = i.db /\ invalid = i.invalid
    /\ orphans = i.orphans /\ reserved = i.reserved /\ pc = i.pc /\ crashed = i.crashed

ResetWith(c) ==
    LET i == I0(c) IN
    /\ cfg' = c /\ torrents' = i.torrents /\ byih' = i.byih /\ ports' = i.ports /\ db' = i.db /\ invalid' = i.invalid
    /\ orphans' = i.orphans /\ reserved' = i.reserved /\ pc' = i.pc /\ crashed' = i.crashed

Tracking  == cfg.atomic \/ cfg.env
Quiescent == \A c \in Callers : pc[c].op = "idle"
At(c, op, st) == pc[c].op = op /\ pc[c].step = st
Fin(f, res)   == IF cfg.ret THEN [f EXCEPT !.step = "done", !.res = res, !.port = 0] ELSE Idle
Done(c, res)  == pc' = [pc EXCEPT ![c] = Fin(pc[c], res)]
Goto(c, st)   == pc' = [pc EXCEPT ![c].step = st]

Begin(c, op, st, id, h, a) ==
    /\ pc[c].op = "idle"
    /\ pc' = [pc EXCEPT ![c] = [op |-> op, step |-> st, id |-> id, h |-> h, port |-> 0, res |-> "", a |-> a]]
    /\ UNCHANGED <<cfg, torrents, byih, ports, db, invalid, orphans, reserved, crashed>>

Return(c) ==
    /\ pc[c].step = "done"
    /\ pc' = [pc EXCEPT ![c] = Idle]
    /\ UNCHANGED <<cfg, torrents, byih, ports, db, invalid, orphans, reserved, crashed>>

-----------------------------------------------------------------------------
(* the writer lock of the resume database (environment)                     *)

\* bbolt admits ONE write transaction at a time; read transactions are never blocked.  Somebody else's long write
\* transaction (another torrent's periodic resume write, a CompactDatabase, the harness's scheduler gate) is a caller frame
\* "HoldDB": while it is held no database-WRITING step of any call happens, every call that needs one queues up behind it,
\* and all of them run back to back after the release - the schedule in which a read-modify-write that is not ONE
\* transaction loses updates.
DbHeld == \E c \in Callers : pc[c].op = "HoldDB" /\ pc[c].step = "held"
BeginHold(c) == ~DbHeld /\ Begin(c, "HoldDB", "held", "", 0, NoArgs)
EndHold(c) ==
    /\ At(c, "HoldDB", "held")
    /\ Done(c, "ok")
    /\ UNCHANGED <<cfg, torrents, byih, ports, db, invalid, orphans, reserved, crashed>>

-----------------------------------------------------------------------------
(* add                                                                      *)

\* a = [explicit, fail, p]  (fail = "none" | "storage" | "write" | "any": the injected fault - GetStorage fails / the
\* resume-record transaction fails);
\* h = 0: the handle is named after its port (exhaustive configs)
BeginAdd(c, id, h, a) == Begin(c, "Add", "take", id, h, a)

\* @obligation C14.port  a port handed out is in the range and was free; "no free port" only when none is free
\* out = 0: getPort failed
AddTakeViol(c, out) ==
    IF out = 0 THEN (IF ports # {} THEN "C14.port.refused-though-free" ELSE "")
    ELSE IF out \notin cfg.range THEN "C14.port.out-of-range"
    ELSE IF out \notin ports THEN "C14.port.double-allocation"
    ELSE ""
AddTakeUpd(c, out) ==
    /\ At(c, "Add", "take")
    /\ IF out = 0
       THEN /\ Done(c, "noport") /\ UNCHANGED ports
       ELSE /\ ports' = ports \ {out}
            /\ pc' = [pc EXCEPT ![c].step = "check", ![c].port = out, ![c].h = IF pc[c].h = 0 THEN out ELSE pc[c].h]
    /\ UNCHANGED <<cfg, torrents, byih, db, invalid, orphans, reserved, crashed>>

\* @obligation C14.id  ids are unique: an explicit id that is present (or reserved) is refused, any other id is accepted;
\*                     a generated id is fresh
\* out \in {"dup", "storage", "pass"}
AddCheckViol(c, out) ==
    LET f == pc[c]
        \* reserved is {} unless cfg.atomic or cfg.env; under cfg.env a reservation MAY refuse, only registration MUST
        mayRefuse  == f.id \in DOMAIN torrents \/ f.id \in reserved
        present    == f.id \in DOMAIN torrents \/ (cfg.atomic /\ f.id \in reserved)
    IN  IF out = "dup" THEN (IF f.a.explicit /\ mayRefuse THEN "" ELSE "C14.id.spurious-duplicate")
        ELSE IF present THEN (IF f.a.explicit THEN "C14.id.duplicate-accepted" ELSE "C14.id.generated-not-fresh")
        ELSE IF out = "storage" /\ f.a.fail \in {"none", "write"} THEN "C14.add.spurious-failure"
        ELSE IF out = "pass" /\ f.a.fail = "storage" THEN "C14.add.failure-ignored"
        ELSE ""
\* @obligation C14.leak  a failing add gives its port back
AddCheckUpd(c, out) ==
    /\ At(c, "Add", "check")
    /\ IF out = "pass"
       THEN /\ Goto(c, "write")
            /\ reserved' = IF Tracking THEN reserved \cup {pc[c].id} ELSE reserved
            /\ UNCHANGED ports
       ELSE /\ ports' = ports \cup {pc[c].port}
            /\ Done(c, out)
            /\ UNCHANGED reserved
    /\ UNCHANGED <<cfg, torrents, byih, db, invalid, orphans, crashed>>

\* @obligation C14.leak  EVERY failure point of add gives back what was taken before it: take (nothing taken), check
\*   (duplicate / GetStorage: port), write (newTorrent / resume-record transaction: port, reservation, the half-built
\*   torrent is closed).  insert and started cannot fail.  (newTorrent fails only for an info-hash that is not 20 bytes,
\*   which add / addMagnet cannot produce; at load it makes the record invalid before any port is taken.)
AddWriteViol(c, ok) ==
    IF ok /\ pc[c].a.fail = "write" THEN "C14.add.failure-ignored"
    ELSE IF ~ok /\ pc[c].a.fail \in {"none", "storage"} THEN "C14.add.spurious-failure"
    ELSE ""
\* resumer.Write creates or OVERWRITES the record of that id (ok = FALSE: the transaction failed)
AddWrite(c, ok) ==
    /\ At(c, "Add", "write") /\ ~DbHeld
    /\ LET f == pc[c] IN
       IF ok
       THEN \* @obligation C14.record  the record of a torrent holds exactly what was written for it: a bucket that is already
            \*   there (a record that failed to load) hands nothing down to the new owner of the id
            /\ db' = Put(db, f.id, [port |-> f.port, p |-> f.a.p, started |-> FALSE, bad |-> FALSE,
                                    bf |-> IF cfg.sparse /\ f.id \in DOMAIN db THEN db[f.id].bf ELSE ""])
            \* a record that could not be loaded is made whole by the rewrite; as the code is, its id stays on the
            \* invalid list and a later CleanDatabase deletes the record of the LIVE torrent
            /\ invalid' = IF cfg.atomic THEN invalid \ {f.id} ELSE invalid
            /\ Goto(c, "insert")
            /\ UNCHANGED <<ports, reserved>>
       ELSE /\ ports' = ports \cup {f.port}
            /\ reserved' = reserved \ {f.id}
            /\ Done(c, "dbwrite")
            /\ UNCHANGED <<db, invalid>>
    /\ UNCHANGED <<cfg, torrents, byih, orphans, crashed>>

\* insertTorrent: s.torrents[id] = t (whatever was there is dropped from the map, NOT closed), list of its info-hash grows
AddInsert(c, stopped) ==
    /\ At(c, "Add", "insert")
    /\ LET f == pc[c] IN
       /\ torrents' = Put(torrents, f.id, [h |-> f.h, port |-> f.port, p |-> f.a.p])
       /\ byih' = byih \cup {[h |-> f.h, id |-> f.id]}
       /\ orphans' = IF f.id \in DOMAIN torrents
                     THEN orphans \cup {[h |-> torrents[f.id].h, id |-> f.id, port |-> torrents[f.id].port]}
                     ELSE orphans
       /\ reserved' = reserved \ {f.id}
       /\ IF stopped THEN Done(c, "ok") ELSE pc' = [pc EXCEPT ![c].step = "started", ![c].port = 0]
    /\ UNCHANGED <<cfg, ports, db, invalid, crashed>>

\* resumer.WriteStarted: does nothing if the record is gone
\* (a torrent that has been started verifies its files and writes its bitfield: the key is its own from then on)
SetStarted(d, id, v) == IF id \in DOMAIN d THEN [d EXCEPT ![id].started = v, ![id].bf = IF v THEN "own" ELSE @] ELSE d

AddStarted(c) ==
    /\ At(c, "Add", "started") /\ ~DbHeld
    /\ db' = SetStarted(db, pc[c].id, TRUE)
    /\ Done(c, "ok")
    /\ UNCHANGED <<cfg, torrents, byih, ports, invalid, orphans, reserved, crashed>>

-----------------------------------------------------------------------------
(* remove                                                                   *)

BeginRemove(c, id) == Begin(c, "Remove", "detach", id, 0, NoArgs)

\* a = [run, deleted]: run = the torrent has a bitfield of its own (it was started at some time: its loop may be running
\* and then writes the bitfield when it is closed); deleted = the DeleteBucket transaction of this remove succeeded
RemDetach(c) ==
    /\ At(c, "Remove", "detach")
    /\ LET id == pc[c].id IN
       IF id \in DOMAIN torrents
       THEN /\ torrents' = Del(torrents, id)
            /\ byih' = byih \ {[h |-> torrents[id].h, id |-> id]}
            /\ reserved' = IF Tracking THEN reserved \cup {id} ELSE reserved
            /\ pc' = [pc EXCEPT ![c].step = "dbdel", ![c].h = torrents[id].h, ![c].port = torrents[id].port,
                                 ![c].a = [run |-> id \in DOMAIN db /\ db[id].bf = "own", deleted |-> FALSE]]
       ELSE /\ Done(c, "ok")
            /\ UNCHANGED <<torrents, byih, reserved>>
    /\ UNCHANGED <<cfg, ports, db, invalid, orphans, crashed>>

\* ok = FALSE: the DeleteBucket transaction failed; the remove goes on all the same (torrent closed, port released,
\* reservation dropped) - @obligation C14.leak for remove
\* (cfg.early: the reservation ends here, as the code was before the repair of round 4)
RemDb(c, ok) ==
    /\ At(c, "Remove", "dbdel") /\ ~DbHeld
    /\ db' = IF ok THEN Del(db, pc[c].id) ELSE db
    /\ reserved' = IF cfg.early THEN reserved \ {pc[c].id} ELSE reserved
    /\ pc' = [pc EXCEPT ![c].step = "close", ![c].a.deleted = ok]
    /\ UNCHANGED <<cfg, torrents, byih, ports, invalid, orphans, crashed>>

\* torrent.Close: the loop of the removed torrent stops; a torrent that was running writes its bitfield BY ID on the way
\* (wr = TRUE; resumer.update does nothing without a record).  A record found under the id after this remove has deleted
\* its own belongs to a NEW owner of the id: the write hands the removed torrent's bitfield down to it.
\* @obligation C14.record  the record of a torrent holds exactly what was written for it
RemClose(c, wr) ==
    /\ At(c, "Remove", "close")
    /\ wr => pc[c].a.run /\ ~DbHeld
    /\ db' = IF wr /\ pc[c].id \in DOMAIN db /\ pc[c].a.deleted THEN [db EXCEPT ![pc[c].id].bf = "left"] ELSE db
    /\ Goto(c, "release")
    /\ UNCHANGED <<cfg, torrents, byih, ports, invalid, orphans, reserved, crashed>>

\* releasePort, then unreserveID (the data directory - named after the id if DataDirIncludesTorrentID - is removed in between)
RemRelease(c) ==
    /\ At(c, "Remove", "release")
    /\ ports' = ports \cup {pc[c].port}
    /\ reserved' = reserved \ {pc[c].id}
    /\ Done(c, "ok")
    /\ UNCHANGED <<cfg, torrents, byih, db, invalid, orphans, crashed>>

-----------------------------------------------------------------------------
(* Start / Stop / AddTracker through GetTorrent                             *)

BeginFlag(c, op, id) == Begin(c, op, "lookup", id, 0, NoArgs)            \* op \in {"Start", "Stop"}
BeginTracker(c, id, uri, valid) == Begin(c, "AddTracker", "lookup", id, 0, [uri |-> uri, valid |-> valid])

\* @obligation C14.registry  GetTorrent finds exactly the torrents of the registry
LookupViol(c, found) == IF found # (pc[c].id \in DOMAIN torrents) THEN "C14.registry.lookup" ELSE ""
LookupUpd(c, found) ==
    /\ pc[c].step = "lookup"
    /\ IF found
       THEN pc' = [pc EXCEPT ![c].step = "apply", ![c].h = IF pc[c].id \in DOMAIN torrents THEN torrents[pc[c].id].h ELSE 0]
       ELSE Done(c, "notfound")
    /\ UNCHANGED <<cfg, torrents, byih, ports, db, invalid, orphans, reserved, crashed>>

FlagApply(c) ==
    /\ pc[c].op \in {"Start", "Stop"} /\ pc[c].step = "apply" /\ ~DbHeld
    /\ db' = SetStarted(db, pc[c].id, pc[c].op = "Start")
    /\ Done(c, "ok")
    /\ UNCHANGED <<cfg, torrents, byih, ports, invalid, orphans, reserved, crashed>>

\* Torrent.AddTracker: read-modify-write of the trackers key in ONE transaction; as the code is, a missing record is a nil
\* bucket that is dereferenced.   out \in {"ok", "err", "panic"}
\* @obligation C14.panic  no registry operation brings the process down
TrackerViol(c, out) ==
    LET f == pc[c] IN
    IF ~f.a.valid THEN (IF out = "err" THEN "" ELSE "C14.addtracker.invalid-accepted")
    ELSE IF f.id \in DOMAIN db THEN (IF out = "ok" THEN "" ELSE "C14.addtracker.failed")
    \* (a panic without a record is what the code as it is does: explained here, judged where the outcome is known -
    \*  NoCrash in the exhaustive configs, the call line in the trace specification)
    ELSE IF out = "ok" THEN "C14.addtracker.phantom-record"
    ELSE ""
\* (the URI is parsed before the transaction: an invalid one is refused without touching the database)
TrackerUpd(c, out) ==
    /\ At(c, "AddTracker", "apply")
    /\ pc[c].a.valid /\ ~cfg.split => ~DbHeld
    /\ IF out = "ok" /\ cfg.split
       \* expected-fail variant: the list is READ here (a read transaction: not blocked by a writer) ...
       THEN /\ pc' = [pc EXCEPT ![c].step = "put",
                                 ![c].a = [uri |-> pc[c].a.uri, valid |-> pc[c].a.valid,
                                           seen |-> IF pc[c].id \in DOMAIN db THEN db[pc[c].id].p.tiers ELSE <<>>]]
            /\ UNCHANGED <<db, crashed>>
       ELSE IF out = "ok"
       THEN /\ db' = IF pc[c].id \in DOMAIN db
                     THEN [db EXCEPT ![pc[c].id].p.tiers = Append(@, <<pc[c].a.uri>>)] ELSE db
            /\ Goto(c, "live")
            /\ UNCHANGED crashed
       ELSE /\ Done(c, out)
            /\ crashed' = IF out = "panic" THEN "addtracker" ELSE crashed
            /\ UNCHANGED db
    /\ UNCHANGED <<cfg, torrents, byih, ports, invalid, orphans, reserved>>

\* ... and the list that was read, extended by the new tier, is WRITTEN here, whatever the record holds by now
TrackerPut(c) ==
    /\ At(c, "AddTracker", "put") /\ ~DbHeld
    /\ db' = IF pc[c].id \in DOMAIN db
             THEN [db EXCEPT ![pc[c].id].p.tiers = Append(pc[c].a.seen, <<pc[c].a.uri>>)] ELSE db
    /\ Goto(c, "live")
    /\ UNCHANGED <<cfg, torrents, byih, ports, invalid, orphans, reserved, crashed>>

TrackerLive(c) ==
    /\ At(c, "AddTracker", "live")
    /\ LET id == pc[c].id IN
       torrents' = IF id \in DOMAIN torrents /\ torrents[id].h = pc[c].h
                   THEN [torrents EXCEPT ![id].p.tiers = Append(@, <<pc[c].a.uri>>)] ELSE torrents
    /\ Done(c, "ok")
    /\ UNCHANGED <<cfg, byih, ports, db, invalid, orphans, reserved, crashed>>

\* design-level outcome of the tracker transaction
\* (intended design: the transaction is refused unless the handle is still the registered torrent of that id - as the
\*  code is, a caller that looked the torrent up before a remove + re-add of the id writes into the NEW torrent's record)
TrackerOutcome(c) ==
    IF ~pc[c].a.valid THEN "err"
    ELSE IF cfg.atomic
    THEN (IF pc[c].id \in DOMAIN db /\ pc[c].id \in DOMAIN torrents /\ torrents[pc[c].id].h = pc[c].h THEN "ok" ELSE "err")
    ELSE IF pc[c].id \in DOMAIN db THEN "ok"
    ELSE "panic"

-----------------------------------------------------------------------------
(* operations taken at quiescence                                           *)

\* The *Upd operators of this section leave pc to the caller (exhaustive configs: UNCHANGED pc at quiescence; trace
\* validation: the calling frame goes to "done").

\* traffic: the live counters move (environment)
BumpUpd(id, cnt) ==
    /\ torrents' = IF id \in DOMAIN torrents THEN [torrents EXCEPT ![id].p.cnt = cnt] ELSE torrents
    /\ UNCHANGED <<cfg, byih, ports, db, invalid, orphans, reserved, crashed>>

\* CleanDatabase
CleanViol(out) == IF out # "ok" THEN "C14.clean.failed" ELSE ""
\* keepLive = FALSE is the code as it is: every id of the invalid list is deleted, also one that was added again since
CleanUpd(keepLive) ==
    /\ db' = [i \in (DOMAIN db) \ (IF keepLive THEN invalid \ DOMAIN torrents ELSE invalid) |-> db[i]]
    /\ invalid' = {}
    /\ UNCHANGED <<cfg, torrents, byih, ports, orphans, reserved, crashed>>

\* Session.Close (updateStats writes the counters of every registered torrent: a registered torrent WITHOUT a record is a
\* nil bucket) followed by NewSession on the same file (loadExistingTorrents).  corrupt = records damaged while closed.
CorruptPort == 99
CloseOutcome == IF (DOMAIN torrents) \subseteq (DOMAIN db) THEN "ok" ELSE "panic"
\* @obligation C14.panic
ReopenViol(out) ==
    IF out = "panic" THEN "C14.panic.close-without-record"
    ELSE IF out # "ok" THEN "C14.reopen.failed"
    ELSE ""
Saved == [i \in DOMAIN db |-> IF i \in DOMAIN torrents THEN [db[i] EXCEPT !.p.cnt = torrents[i].p.cnt] ELSE db[i]]
\* (a record that cannot be loaded is the record of somebody's earlier life: it has a bitfield)
Damaged(d, corrupt) == [i \in DOMAIN d |-> IF i \in corrupt THEN [d[i] EXCEPT !.bad = TRUE, !.port = CorruptPort, !.bf = "left"] ELSE d[i]]
Loaded(d) == [i \in {j \in DOMAIN d : ~d[j].bad} |-> [h |-> 0 - d[i].port, port |-> d[i].port, p |-> d[i].p]]
ReopenUpd(corrupt) ==
    /\ LET d == Damaged(Saved, corrupt)
           t == Loaded(d)
       IN /\ db' = d
          /\ torrents' = t
          /\ byih' = {[h |-> t[i].h, id |-> i] : i \in DOMAIN t}
          /\ ports' = cfg.range \ {t[i].port : i \in DOMAIN t}
          /\ invalid' = (DOMAIN d) \ (DOMAIN t)
    /\ orphans' = {}
    /\ reserved' = {}
    /\ UNCHANGED <<cfg, crashed>>

\* @obligation C14.restart  after close + reopen every loadable torrent is back with the same id, port, identity, trackers
\*                          and counters (what the trace specification compares with the observed session)
RestartEq(before, after, corrupt) ==
    /\ DOMAIN after = (DOMAIN before) \ corrupt
    /\ \A i \in DOMAIN after : after[i].port = before[i].port /\ after[i].p = before[i].p

\* CompactDatabase: the new file must hold, for every torrent that has metadata, what the session holds.
\* want / got : sets of records (the trace specification builds them)
\* @obligation C14.compact
CompactViol(out, want, got) ==
    IF out = "panic" THEN "C14.compact.panic"
    ELSE IF out = "err" THEN "C14.compact.error"
    ELSE IF out # "ok" THEN "C14.compact.unloadable"
    ELSE IF {r.id : r \in want} # {r.id : r \in got} THEN "C14.compact.ids"
    ELSE IF \E r \in want, s \in got : r.id = s.id /\ r.tiers # s.tiers THEN "C14.compact.trackers"
    ELSE IF \E r \in want, s \in got : r.id = s.id /\ r.ws # s.ws THEN "C14.compact.webseeds"
    ELSE IF \E r \in want, s \in got : r.id = s.id /\ r.port # s.port THEN "C14.compact.port"
    ELSE IF \E r \in want, s \in got : r.id = s.id /\ r.cnt # s.cnt THEN "C14.compact.counters"
    ELSE IF want # got THEN "C14.compact.fields"
    ELSE ""

-----------------------------------------------------------------------------
(* Invariants: the global form of the C14 obligations                       *)

Holders == {c \in Callers : pc[c].port # 0}
InFlightPorts == {pc[c].port : c \in Holders}
RegistryPorts == {torrents[i].port : i \in DOMAIN torrents}
OrphanPorts   == {o.port : o \in orphans}

\* C14: no two live torrents share a port
DistinctPorts ==
    \A i, j \in DOMAIN torrents : i # j => torrents[i].port # torrents[j].port

\* C14: every port of the range is free XOR owned by exactly one handle (registered, in flight, or - as-is only - orphaned)
PortsPartition ==
    /\ ports \subseteq cfg.range
    /\ ports \cap (RegistryPorts \cup InFlightPorts \cup OrphanPorts) = {}
    /\ ports \cup RegistryPorts \cup InFlightPorts \cup OrphanPorts = cfg.range
    /\ Cardinality(ports) + Cardinality(DOMAIN torrents) + Cardinality(Holders) + Cardinality(orphans)
         = Cardinality(cfg.range)

\* C14: failing adds / overwritten entries leak nothing
NoOrphans == orphans = {}

\* C14: #available + #torrents = size of the range, at quiescence
Conservation ==
    Quiescent => Cardinality(ports) + Cardinality(DOMAIN torrents) = Cardinality(cfg.range)

\* C14: the torrents of the session are exactly the loadable records of the database, with the same port / identity / trackers
RegistryIsDatabase ==
    Quiescent =>
        /\ DOMAIN torrents = (DOMAIN db) \ invalid
        /\ \A i \in DOMAIN torrents :
              /\ db[i].port = torrents[i].port
              /\ db[i].p.st = torrents[i].p.st
              /\ db[i].p.tiers = torrents[i].p.tiers

\* the info-hash index lists exactly the registered handles
IndexConsistent ==
    Quiescent => byih = {[h |-> torrents[i].h, id |-> i] : i \in DOMAIN torrents}

NoCrash == crashed = ""

\* C14: a torrent reappears with the same trackers - every tracker whose AddTracker call returned without error is in the
\* record, however the calls of concurrent callers were scheduled around the database's writer lock
\* @obligation C14.record.tracker-lost
NoLostTracker ==
    Quiescent => \A i \in (DOMAIN torrents) \cap (DOMAIN db) : Len(db[i].p.tiers) = Len(torrents[i].p.tiers)

\* C14: every value stored in resume data reads back equal to what was written - a loadable record holds nothing of a
\* previous owner of its bucket
RecordIsOwn == \A i \in DOMAIN db : ~db[i].bad => db[i].bf # "left"

ReservedOnlyInFlight == Quiescent => reserved = {}

Inv == DistinctPorts /\ PortsPartition /\ NoOrphans /\ Conservation /\ RegistryIsDatabase /\ IndexConsistent
       /\ NoCrash /\ ReservedOnlyInFlight /\ RecordIsOwn /\ NoLostTracker
=============================================================================
