SPECIFICATION MCSpec
CONSTANTS
  IDS = {"a", "b", "c"}
  RANGE = {1, 2, 3}
  K = 2
  ATOMIC = TRUE
  FULL = FALSE
  SPARSE = FALSE
  STORAGE = TRUE
INVARIANT Inv
CHECK_DEADLOCK FALSE
