SPECIFICATION MCSpec
CONSTANTS
  U = 2
  RANGE = {1, 2}
  FIX = {}
  MAXF = 1
  FAULTS = {"refuse", "cut", "crash", "disk", "dbfail", "sclose", "tadd", "srm"}
  BINITS = {"empty", "dupsame", "dupother", "dupih", "full"}
  RUNS = {TRUE, FALSE}
  DIRTYS = {TRUE, FALSE}
  DSTS = {"A", "B"}
  FINAL = TRUE
INVARIANT TypeOK
INVARIANT GenPrint
CHECK_DEADLOCK FALSE
