SPECIFICATION MCSpec
CONSTANTS
  MAXACC = 1
  MAXDIAL = 2
  BLOCKED = {3}
  DEV = {}
  UNIVERSE = 1
INVARIANT TypeOK
INVARIANT Balance
INVARIANT Caps
INVARIANT Uniq
INVARIANT GoodPeers
INVARIANT Closed
INVARIANT StoppedClean
CHECK_DEADLOCK FALSE
