SPECIFICATION ASpec
CONSTANTS
  ADDRS = {1, 2, 3}
  SELF = 9
  LL = 1
  BUDGET = 5
  VARIANT = "asis"
  IGNORE = {"X02.d"}
INVARIANT AInv
CHECK_DEADLOCK FALSE
