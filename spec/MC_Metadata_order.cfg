SPECIFICATION MCSpec
CONSTANTS
  NP = 2
  POLS <- PolsOrder
  BS = 2
  TSIZES = {5}
  MAXSZ = 6
  PARS = {1, 2}
  QS = {1, 2, 3}
  ADVS = {5}
  LENS = {1, 2}
  MODES = {"asis_nodrop", "fixed"}
  DUPOKS = {TRUE}
  PRIVATES = {FALSE}
INVARIANT Inv
PROPERTY Live
CHECK_DEADLOCK FALSE
