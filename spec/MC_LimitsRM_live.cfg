SPECIFICATION PFairSpec
CONSTANTS
  Reqs <- MCReqs3
  LIMIT = 2
  FIXED = TRUE
  PRECANCEL = TRUE
  ANYCANCEL = TRUE
  ANYCLOSE = TRUE
  RECHECK = FALSE
INVARIANT AInv
INVARIANT ToldIsHeld
PROPERTY CallsReturn
CHECK_DEADLOCK TRUE
