SPECIFICATION PFairSpec
CONSTANTS
  Reqs <- MCReqs3
  LIMIT = 2
  FIXED = TRUE
  PRECANCEL = TRUE
  ANYCANCEL = TRUE
  ANYCLOSE = TRUE
INVARIANT AInv
PROPERTY CallsReturn
CHECK_DEADLOCK TRUE
