SPECIFICATION MCSpec
CONSTANTS
  NP = 3
  POLS <- PolsAny
  BS = 2
  TSIZES = {3, 4}
  MAXSZ = 4
  PARS = {1, 2}
  QS = {1, 2}
  ADVS = {0, 1, 3, 4, 5}
  LENS = {0, 1, 2, 3}
  MODES = {"asis"}
  DUPOKS = {TRUE, FALSE}
  PRIVATES = {FALSE}
INVARIANT Inv
CHECK_DEADLOCK FALSE
