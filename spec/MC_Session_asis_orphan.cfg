SPECIFICATION MCSpec
CONSTANTS
  IDS = {"a"}
  RANGE = {1, 2}
  K = 2
  ATOMIC = FALSE
  FULL = FALSE
  SPARSE = FALSE
  STORAGE = FALSE
INVARIANT NoOrphans
CHECK_DEADLOCK FALSE
