SPECIFICATION MCSpec
CONSTANTS
  SECS <- Secs_plain3
  BS = 2
  QLENS = {2}
  FAST = TRUE
  AF = FALSE
  REJ = "out"
  UNREQ = FALSE
  ENDS = FALSE
INVARIANT InvNoStuck
CHECK_DEADLOCK FALSE
