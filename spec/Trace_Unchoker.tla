--------------------------- MODULE Trace_Unchoker ---------------------------
(***************************************************************************)
(* Trace specification: judges ndjson histories recorded from the REAL     *)
(* internal/unchoker.Unchoker (harness/x01, stub peers implementing its    *)
(* Peer interface) against the envelope of Unchoker.tla.                   *)
(*                                                                         *)
(* Every line carries the call (op, pe / rates), the choke and unchoke     *)
(* messages the call sent (msgs, in order) and the choke / optimistic      *)
(* flags of all peers after the call.  The shadow state is set to the      *)
(* observed flags; the obligations of the call are evaluated on            *)
(* (state before, arguments, messages, state after).  A failed obligation  *)
(* does not block: every violated tag is printed ("@@VIOL tag line") and   *)
(* the judge goes on.  Several traces are concatenated ("Init" resets).    *)
(*                                                                         *)
(* X01.l on the code is statistical: `wait[p]` counts the optimistic       *)
(* rounds a peer has been waiting (connected, interested, choked before    *)
(* and after the tick); a trace recorded with fair = L > 0 must keep it    *)
(* <= L (L is chosen by the driver so that a fair uniform draw exceeds it  *)
(* with probability < 1e-12).                                              *)
(***************************************************************************)
EXTENDS Unchoker, Json

VARIABLES l, wait, fair
tvars == <<vars, l, wait, fair>>

Trace == ndJsonDeserialize("trace.ndjson")
Ev == Trace[l]

CfgOf(e) == [npeers |-> e.npeers, N |-> e.N, M |-> e.M]
FlagsOf(q) == [p \in Peer |-> q[p]]
Zero(c) == [p \in 1 .. c.npeers |-> 0]

TraceInit ==
    /\ l = 2
    /\ Trace[1].op = "Init"
    /\ InitWith(CfgOf(Trace[1]))
    /\ wait = Zero(CfgOf(Trace[1])) /\ fair = Trace[1].fair
    /\ TLCSet(1, 1)

Note(S) == \A t \in S : PrintT("@@VIOL " \o t \o " " \o ToString(l))

\* X01.d: per connected peer the messages of this call are exactly the change of its choke flag
MsgsOf(msgs, p) == SelectSeq(msgs, LAMBDA x : x.pe = p)
MsgBad(msgs, c2) ==
    \/ \E i \in 1 .. Len(msgs) : msgs[i].pe \notin C
    \/ \E p \in C : LET mp == MsgsOf(msgs, p) IN
          IF c2[p] = chk[p] THEN mp # <<>>
          ELSE ~(Len(mp) = 1 /\ mp[1].m = (IF c2[p] THEN "choke" ELSE "unchoke"))
MsgViols(msgs, c2) == Tag(MsgBad(msgs, c2), "X01.d")

Step == l' = l + 1 /\ UNCHANGED fair

TrReset ==
    /\ Ev.op = "Init" /\ ResetWith(CfgOf(Ev)) /\ l' = l + 1
    /\ wait' = Zero(CfgOf(Ev)) /\ fair' = Ev.fair

\* environment events: the unchoker is not called (Disconnect: HandleDisconnect), nothing may be sent or change
Quiet == Note(Tag(Ev.msgs # <<>> \/ FlagsOf(Ev.chk) # chk' \/ FlagsOf(Ev.opt) # opt', "X01.d.quiet"))
TrConnect == Ev.op = "Connect" /\ Connect(Ev.pe) /\ Quiet /\ Step /\ wait' = [wait EXCEPT ![Ev.pe] = 0]
TrDisconnect == Ev.op = "Disconnect" /\ Disconnect(Ev.pe) /\ Quiet /\ Step /\ wait' = [wait EXCEPT ![Ev.pe] = 0]
TrNotInterested == Ev.op = "NotInterested" /\ NotInterested(Ev.pe) /\ Quiet /\ Step /\ wait' = [wait EXCEPT ![Ev.pe] = 0]

TrInterested ==
    /\ Ev.op = "Interested" /\ conn[Ev.pe]
    /\ LET c2 == FlagsOf(Ev.chk)  o2 == FlagsOf(Ev.opt)
       IN /\ Note(FastViols(Ev.pe, c2, o2) \cup MsgViols(Ev.msgs, c2))
          /\ InterestedUpdate(Ev.pe, c2, o2)
          /\ wait' = [p \in Peer |-> IF c2[p] THEN wait[p] ELSE 0]
    /\ Step

TrTick ==
    /\ Ev.op = "Tick"
    /\ LET c2 == FlagsOf(Ev.chk)  o2 == FlagsOf(Ev.opt)
           rate == [p \in Peer |-> IF Ev.completed THEN Ev.ul[p] ELSE Ev.dl[p]]
           w2 == [p \in Peer |-> IF p \in I /\ chk[p] /\ c2[p]
                                 THEN wait[p] + (IF OptRound THEN 1 ELSE 0) ELSE 0]
       IN /\ Note(TickViols(rate, c2, o2) \cup MsgViols(Ev.msgs, c2)
                  \cup Tag(fair > 0 /\ \E p \in Peer : w2[p] = fair + 1, "X01.l"))
          /\ TickUpdate(c2, o2)
          /\ wait' = w2
    /\ Step

TrPanic == Ev.op = "Panic" /\ Note({"X01.panic"}) /\ UNCHANGED <<vars, wait>> /\ Step

TraceNext ==
    /\ l <= Len(Trace)
    /\ \/ TrReset \/ TrConnect \/ TrDisconnect \/ TrNotInterested \/ TrInterested \/ TrTick \/ TrPanic

TraceSpec == TraceInit /\ [][TraceNext]_tvars

HighWater == TLCSet(1, IF l > TLCGet(1) THEN l ELSE TLCGet(1))
TraceAccepted ==
    LET hw == TLCGet(1) IN
    IF hw = Len(Trace) + 1 THEN TRUE
    ELSE /\ PrintT("@@REJECT " \o ToString(hw - 1) \o " " \o ToString(Len(Trace)))
         /\ FALSE
=============================================================================
