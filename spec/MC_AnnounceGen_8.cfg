SPECIFICATION Spec
CONSTANTS
  L = 8
CHECK_DEADLOCK FALSE
