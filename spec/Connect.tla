------------------------------ MODULE Connect ------------------------------
(***************************************************************************)
(* X03 - connection establishment and admission of ONE torrent.            *)
(*                                                                         *)
(* The life of a peer connection from "address queued" / "socket accepted" *)
(* to "established peer" or "closed", as the torrent event loop runs it:   *)
(*   internal/acceptor                      -> pend (accepted sockets)     *)
(*   torrent_connection.go handleNewConnection   Accept / Refuse           *)
(*   torrent_peer.go       handleNewPeers        AddAddrs                  *)
(*                         dialAddresses         Dial (sub-step)           *)
(*                         startPeer             StartPeer (sub-step)      *)
(*   torrent_handshake.go  handle*HandshakeDone  InDone / OutDone          *)
(*   internal/handshaker/* + internal/btconn     which results are possible*)
(*   torrent_close.go      closePeer             PeerGone                  *)
(*   torrent_pieces.go     checkCompletion       Complete                  *)
(*   torrent_start.go / torrent_stop.go          Start / Listen / Stop     *)
(* One action per event the loop handles (hook H1 takes one snapshot per   *)
(* handled event, so one recorded transition = one action).                *)
(*                                                                         *)
(* A connection is a record c = [dir, ip, key]: key = socket number of the *)
(* scripted side (dir "in") or number of the dialled address (dir "out").  *)
(* scr[c] = [ok, id] is what the remote side is ABLE to do: ok = it can    *)
(* finish a handshake with the right info-hash; id = the peer id it sends. *)
(* A handshake may always FAIL (time-out, reset); it may SUCCEED only if   *)
(* scr[c].ok and scr[c].id # cfg.own.                                      *)
(*                                                                         *)
(* Obligations (tags used by Trace_Connect and props/x03.py):              *)
(*  @obligation X03.balance   connIPs = IPs of handshakers + peers,        *)
(*                            peerIDs = ids of peers       (Balance)       *)
(*  @obligation C17.conn.accept / C17.conn.dial   caps     (Caps)          *)
(*  @obligation C17.conn.closed  a socket is open on the client's side     *)
(*                            iff it is pending, handshaking or a peer     *)
(*                            (Closed): failed / refused / stopped => shut *)
(*  @obligation X03.refuse    wrong info-hash, short handshake, own id,    *)
(*                            duplicate id, duplicate / banned / blocked   *)
(*                            IP never become a peer (GoodPeers, Uniq)     *)
(*  @obligation X03.stop      not running => nothing held (StoppedClean)   *)
(*  @obligation X03.timeout   (real time; Trace_Connect only)              *)
(*                                                                         *)
(* Deviations of the code as it is (cfg.dev, named so that TLC shows the   *)
(* consequence and the trace judge can be told what the code does):        *)
(*   "inFailKeep"   handleIncomingHandshakeDone forgets the IP of a failed *)
(*                  incoming handshake but does not close the socket       *)
(*   "completeLeak" checkCompletion closes the outgoing handshakers        *)
(*                  without forgetting their IPs                           *)
(* Code order kept on purpose: a ban is recorded AFTER closePeer has run   *)
(* dialAddresses (PeerGone dials with the old banned set).                 *)
(***************************************************************************)
EXTENDS Integers, FiniteSets, Sequences, TLC

VARIABLES cfg,        \* [maxAccept, maxDial, own, blocked, dev]
          scr,        \* [conn -> [ok, id]]  abilities of the remote side (environment)
          run,        \* torrent started (status not Stopped/Stopping)
          acc,        \* acceptor exists (listening)
          completed,
          queue,      \* addrList: set of addresses [ip, key]
          outHS,      \* outgoing handshakers (connections, dir "out")
          inHS,       \* incoming handshakers (connections, dir "in")
          peers,      \* established peers: set of [c, id]
          connIPs,    \* connectedPeerIPs
          peerIDs,    \* peerIDs
          banned,     \* bannedPeerIPs
          pend,       \* sockets accepted by the acceptor, not yet seen by the loop
          open        \* connections whose socket the client still holds open

core  == <<run, acc, completed, queue, outHS, inHS, peers, connIPs, peerIDs, banned>>
socks == <<pend, open>>
vars  == <<cfg, scr, core, socks>>

OutConn(a) == [dir |-> "out", ip |-> a.ip, key |-> a.key]
AddrOf(c)  == [ip |-> c.ip, key |-> c.key]
IPs(S)     == {c.ip : c \in S}
PeerConns(P) == {p.c : p \in P}
Held       == inHS \cup outHS \cup PeerConns(peers)
NIn(P)     == Cardinality({p \in P : p.c.dir = "in"})
NOut(P)    == Cardinality({p \in P : p.c.dir = "out"})
Dev(d)     == d \in cfg.dev
CanSucceed(c) == c \in DOMAIN scr /\ scr[c].ok /\ scr[c].id # cfg.own

----------------------------------------------------------------------------
(* dialAddresses: pop addresses until the dial cap is reached or the queue *)
(* is empty; an address whose IP is connected, banned (or blocked: dropped *)
(* by AddrList.Pop) is skipped.  The pop order is the priority order of    *)
(* the address list and is left open (envelope): P = popped, S = started.  *)
DialOutcomes(q, ips, nout, ban) ==
    LET room == cfg.maxDial - nout IN
    IF completed \/ room <= 0 THEN {[q |-> q, S |-> {}]}
    ELSE {[q |-> q \ x[1], S |-> x[2]] :
            x \in {y \in (SUBSET q) \X (SUBSET q) :
                     /\ y[2] \subseteq y[1]
                     /\ Cardinality(y[2]) <= room
                     /\ \A a \in y[2] : a.ip \notin ips /\ a.ip \notin ban /\ a.ip \notin cfg.blocked
                     /\ \A a, b \in y[2] : a.ip = b.ip => a = b
                     /\ \A a \in y[1] \ y[2] : a.ip \in ips \cup ban \cup cfg.blocked \cup IPs(y[2])
                     /\ (y[1] = q \/ Cardinality(y[2]) = room)}}

\* the tail "… ; t.dialAddresses()" of a handler: q0/hs0/ips0 = state reached before the call
DialThen(q0, hs0, ips0, nout, ban) ==
    \E r \in DialOutcomes(q0, ips0, Cardinality(hs0) + nout, ban) :
        /\ queue' = r.q
        /\ outHS' = hs0 \cup {OutConn(a) : a \in r.S}
        /\ connIPs' = ips0 \cup IPs(r.S)

----------------------------------------------------------------------------
(* Core actions (loop-owned state only).                                   *)

Start ==      \* start(): the acceptor comes up now or after allocation / verification (Listen)
    /\ ~run /\ run' = TRUE /\ acc' \in BOOLEAN
    /\ UNCHANGED <<completed, queue, outHS, inHS, peers, connIPs, peerIDs, banned>>

Listen ==
    /\ run /\ ~acc /\ acc' = TRUE
    /\ UNCHANGED <<run, completed, queue, outHS, inHS, peers, connIPs, peerIDs, banned>>

Stop ==       \* stop(): acceptor, peers, handshakers closed; every one of them forgets its IP; queue reset
    /\ run /\ run' = FALSE /\ acc' = FALSE
    /\ inHS' = {} /\ outHS' = {} /\ peers' = {} /\ queue' = {}
    /\ peerIDs' = peerIDs \ {p.id : p \in peers}
    /\ connIPs' = connIPs \ IPs(Held)
    /\ UNCHANGED <<completed, banned>>

\* handleNewPeers (ignored while stopped or completed).  AddrList.Push keys the queue by BEP 40 PRIORITY:
\* a new address replaces a queued one of equal priority (L; at most one per new address).  Which addresses
\* collide is the business of internal/addrlist (C17 addr / C18), here any queued address may be the victim.
AddAddrs(A) ==
    /\ run /\ ~completed
    /\ LET F == {a \in A : a.ip \notin banned /\ a.ip \notin cfg.blocked}
       IN \E L \in SUBSET queue :
            /\ Cardinality(L) <= Cardinality(F)
            /\ DialThen((queue \ L) \cup F, outHS, connIPs, NOut(peers), banned)
    /\ UNCHANGED <<run, acc, completed, inHS, peers, peerIDs, banned>>

RefuseReason(s) ==
    \/ Cardinality(inHS) + NIn(peers) >= cfg.maxAccept
    \/ s.ip \in cfg.blocked
    \/ s.ip \in connIPs
    \/ s.ip \in banned

Accept(s) ==     \* handleNewConnection, admitted
    /\ acc /\ s.dir = "in" /\ s \notin Held /\ ~RefuseReason(s)
    /\ inHS' = inHS \cup {s} /\ connIPs' = connIPs \cup {s.ip}
    /\ UNCHANGED <<run, acc, completed, queue, outHS, peers, peerIDs, banned>>

Refuse(s) ==     \* handleNewConnection, refused: the socket is closed, nothing else changes
    /\ acc /\ s.dir = "in" /\ RefuseReason(s)
    /\ UNCHANGED core

\* startPeer: inhs / ouths = handshaker sets after the finished handshaker was removed
StartPeer(c, inhs, ouths) ==
    LET id == scr[c].id IN
    IF id \in peerIDs
    THEN /\ inHS' = inhs /\ UNCHANGED <<peers, peerIDs>>            \* duplicate peer id: closed, IP forgotten
         /\ DialThen(queue, ouths, connIPs \ {c.ip}, NOut(peers), banned)
    ELSE /\ peers' = peers \cup {[c |-> c, id |-> id]} /\ peerIDs' = peerIDs \cup {id}
         /\ inHS' = inhs /\ outHS' = ouths /\ UNCHANGED <<queue, connIPs>>

InDone(s, ok) ==    \* handleIncomingHandshakeDone
    /\ s \in inHS
    /\ IF ok THEN /\ CanSucceed(s) /\ StartPeer(s, inHS \ {s}, outHS)
             ELSE /\ inHS' = inHS \ {s} /\ connIPs' = connIPs \ {s.ip}
                  /\ UNCHANGED <<queue, outHS, peers, peerIDs>>
    /\ UNCHANGED <<run, acc, completed, banned>>

OutDone(c, ok) ==   \* handleOutgoingHandshakeDone
    /\ c \in outHS
    /\ IF ok THEN /\ CanSucceed(c) /\ StartPeer(c, inHS, outHS \ {c})
             ELSE /\ DialThen(queue, outHS \ {c}, connIPs \ {c.ip}, NOut(peers), banned)
                  /\ UNCHANGED <<inHS, peers, peerIDs>>
    /\ UNCHANGED <<run, acc, completed, banned>>

PeerGone(p, ban) == \* closePeer (disconnect, protocol error, corrupt piece => ban recorded after the dial)
    /\ p \in peers
    /\ peers' = peers \ {p} /\ peerIDs' = peerIDs \ {p.id}
    /\ banned' = IF ban THEN banned \cup {p.c.ip} ELSE banned
    /\ DialThen(queue, outHS, connIPs \ {p.c.ip}, NOut(peers \ {p}), banned)
    /\ UNCHANGED <<run, acc, completed, inHS>>

Complete(K) ==      \* checkCompletion: outgoing handshakers closed, peers K (not interested) closed, queue reset
    /\ run /\ acc /\ ~completed /\ K \subseteq peers
    /\ completed' = TRUE /\ outHS' = {} /\ queue' = {}
    /\ peers' = peers \ K /\ peerIDs' = peerIDs \ {p.id : p \in K}
    /\ connIPs' = IF Dev("completeLeak") THEN connIPs \ IPs(PeerConns(K))
                  ELSE connIPs \ (IPs(outHS) \cup IPs(PeerConns(K)))
    /\ UNCHANGED <<run, acc, inHS, banned>>

----------------------------------------------------------------------------
(* Full actions: core + the sockets the client holds.                      *)
Sock(closed) ==     \* (an address may be dialled again at once by the same handler: closed first, then opened)
    open' = ((open \ closed) \cup (outHS' \ (outHS \ closed))) \cup (inHS' \ (inHS \ closed))

FStart   == Start /\ UNCHANGED socks
FListen  == Listen /\ UNCHANGED socks
FStop    == Stop /\ pend' = {} /\ open' = open \ (pend \cup Held)
FAdd(A)  == AddAddrs(A) /\ pend' = pend /\ Sock({})
FArrive(s) ==      \* the remote side connects; the acceptor holds the socket
    /\ acc /\ s.dir = "in" /\ s \notin open
    /\ pend' = pend \cup {s} /\ open' = open \cup {s} /\ UNCHANGED core
FAccept(s) == s \in pend /\ Accept(s) /\ pend' = pend \ {s} /\ Sock({})
FRefuse(s) == s \in pend /\ Refuse(s) /\ pend' = pend \ {s} /\ open' = open \ {s}
FInDone(s, ok) ==
    /\ InDone(s, ok) /\ pend' = pend
    /\ Sock(IF s \in PeerConns(peers') THEN {} ELSE IF ~ok /\ Dev("inFailKeep") THEN {} ELSE {s})
FOutDone(c, ok) ==
    /\ OutDone(c, ok) /\ pend' = pend
    /\ Sock(IF c \in PeerConns(peers') THEN {} ELSE {c})
FPeerGone(p, ban) == PeerGone(p, ban) /\ pend' = pend /\ Sock({p.c})
FComplete(K) == Complete(K) /\ pend' = pend /\ Sock(outHS \cup PeerConns(K))

----------------------------------------------------------------------------
Balance ==
    /\ connIPs = IPs(Held)
    /\ peerIDs = {p.id : p \in peers}
Caps ==
    /\ Cardinality(inHS) + NIn(peers) <= cfg.maxAccept
    /\ Cardinality(outHS) + NOut(peers) <= cfg.maxDial
Uniq ==
    /\ \A c, d \in Held : c.ip = d.ip => c = d
    /\ \A p, q \in peers : p.id = q.id => p = q
    /\ inHS \cap PeerConns(peers) = {} /\ outHS \cap PeerConns(peers) = {}
GoodPeers == \A p \in peers : CanSucceed(p.c) /\ scr[p.c].id = p.id /\ p.c.ip \notin cfg.blocked
Closed == open = pend \cup Held
StoppedClean == ~run => (Held = {} /\ queue = {} /\ pend = {} /\ ~acc)
TypeOK ==
    /\ \A c \in inHS : c.dir = "in"
    /\ \A c \in outHS : c.dir = "out"
    /\ pend \subseteq open
Inv == TypeOK /\ Balance /\ Caps /\ Uniq /\ GoodPeers /\ Closed /\ StoppedClean
=============================================================================
