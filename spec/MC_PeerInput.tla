---------------------------- MODULE MC_PeerInput ----------------------------
(***************************************************************************)
(* Exhaustive configurations of PeerInput and the TLC-as-generator specs.  *)
(*  MCSpec   every interleaving of <= K messages (over ALPHA) of NPE peers  *)
(*           with the life cycle of the torrent (progress, ready/replay,   *)
(*           completion, stop/start, connect/disconnect), from every       *)
(*           initial torrent state.  ASIS = FALSE is the design (Inv must  *)
(*           hold); ASIS = TRUE is today's replay (TLC exports the lead).  *)
(*           AFPARK = TRUE is the variant whose Choke handler parks an      *)
(*           allowed-fast download (MC_PeerInput_afpark exports the lead).  *)
(*  (MC_PeerInputGen extends this module with the generator GenSpec.)      *)
(*  Verdicts the class alphabet with the design verdicts (printed once by   *)
(*           MC_PeerInputGen; the driver must know the same class names).  *)
(***************************************************************************)
EXTENDS PeerInput, Json
CONSTANTS N, NPE, K, ASIS, ALPHA, MAXLEN, GUARD, AFPARK

VARIABLES nmsg, h

mvars == <<vars, nmsg, h>>

MCfg == [n |-> N, npe |-> NPE, maxmsg |-> 65536, asis |-> ASIS, guard |-> GUARD, afpark |-> AFPARK]

\* a reduced alphabet: one representative per behaviour class of the model (plus all queueable ones)
Reduced == Queueable \cup {"keepalive", "oversize.4g", "trunc.have", "wronglen.have9", "ext.unknown",
                           "choke", "unchoke", "interested", "request.ok", "request.ovf", "cancel.ok",
                           "reject.allbad", "piece.unreq", "piece.oob", "ext.hs.ok", "ext.hs.negsize",
                           "ext.meta.datajunk", "ext.meta.req0", "ext.pex.odd", "mut:flip:3:have.in0",
                           "ext.pex.len.added.8", "ext.pex.rep.xaaa.a"}
\* "full" = the hand-written alphabet plus representatives of the generated ut_pex families (their members differ only
\* in Benign / the delivered lengths, not in any state change of the model)
PexReps == {"ext.pex.len.added.8", "ext.pex.len.added.12", "ext.pex.len.dropped.64", "ext.pex.len.addedf.3",
            "ext.pex.len.added6.18", "ext.pex.len.dropped6.7", "ext.pex.rep.xaaa.", "ext.pex.rep.aa.a", "ext.pex.rep.ax.xa"}
ASSUME PexReps \subseteq PexFam
Alpha == CASE ALPHA = "full" -> Core \cup PexReps \cup {"mut:flip:3:have.in0"}
           [] ALPHA = "race" -> {"unchoke", "choke", "have.in0", "bitfield.full", "interested", "piece.unreq", "have.oob"}
           \* allowed-fast downloads: grant, source, choke / unchoke, a block of the running download, a closing message
           [] ALPHA = "af" -> {"allowedfast.all", "bitfield.full", "unchoke", "choke", "piece.alljunk", "have.oob"}
           [] OTHER -> Reduced

MCInit == /\ \E st \in {"meta", "alloc", "verify", "down", "seed"} : InitWith(MCfg, st)
          /\ nmsg = 0 /\ h = << >>

Note(x) == h' = Append(h, x)

MCNext ==
    \/ /\ nmsg < K /\ nmsg' = nmsg + 1
       /\ \E p \in Peers, c \in Alpha : Recv(p, c) /\ Note([pe |-> p, cls |-> c])
    \/ /\ UNCHANGED nmsg
       /\ \/ Progress /\ Note([pe |-> 0, cls |-> "@progress"])
          \/ \E t2 \in {"down", "seed"} : Ready(t2) /\ Note([pe |-> 0, cls |-> "@ready"])
          \/ Complete /\ Note([pe |-> 0, cls |-> "@complete"])
          \/ Stop /\ Note([pe |-> 0, cls |-> "@stop"])
          \/ Stopped /\ Note([pe |-> 0, cls |-> "@stopped"])
          \/ \E t2 \in {"down", "seed"} : Start(t2) /\ Note([pe |-> 0, cls |-> "@start"])
          \/ \E p \in Peers : Connect(p) /\ Note([pe |-> p, cls |-> "@connect"])
          \/ \E p \in Peers : Disconnect(p) /\ Note([pe |-> p, cls |-> "@disconnect"])
          \/ \E p \in Peers : TimerFire(p) /\ Note([pe |-> p, cls |-> "@fire"])
          \/ \E p \in Peers : SnubDeliver(p) /\ Note([pe |-> p, cls |-> "@snub"])

MCSpec == MCInit /\ [][MCNext]_mvars

\* last and h are output only
MCView == <<ts, loop, zomb, peer, nmsg>>

MCIsolation == [][last'.kind = "recv" =>
                    /\ \A q \in Peers : q # last'.pe => peer'[q] = peer[q]
                    /\ ts' = ts /\ loop' = loop /\ zomb' = zomb]_mvars

-----------------------------------------------------------------------------
\* header: the alphabet with the design verdicts (the driver side must know exactly the same class names)
SetToSeq(S) == LET RECURSIVE F(_) F(T) == IF T = {} THEN << >> ELSE LET x == CHOOSE y \in T : TRUE IN <<x>> \o F(T \ {x}) IN F(S)
Verdicts(c) == [cls |-> c, rv |-> RV(c), queueable |-> c \in Queueable, starter |-> c \in Starter,
                res |-> [t \in {"meta", "alloc", "verify", "down", "seed"} |-> SetToSeq(Res(t, c))],
                benign |-> [t \in {"meta", "alloc", "verify", "down", "seed"} |-> Benign(t, c)],
                closer |-> (c \in Queueable /\ LiveRes(c) = {"dropped"})]
=============================================================================
