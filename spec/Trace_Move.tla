----------------------------- MODULE Trace_Move -----------------------------
(***************************************************************************)
(* Trace specification of X05: judges the ndjson histories that            *)
(* harness/x05 records from TWO REAL torrent.Session processes (real RPC   *)
(* servers, real bbolt databases and data directories, failure-injecting   *)
(* TCP proxy between them) against the obligations of Move.tla.            *)
(*                                                                         *)
(* The state of Move.tla is used as a SHADOW: every observation line       *)
(* ("obs": registry, ports, loops, resume records, in-memory bitfields,    *)
(* piece-wise verdict on the files of every data directory, for both       *)
(* sessions) overwrites up / reg / db / avail / disk / orph; the lines of  *)
(* the user's actions (move, ret, remove, addsame, restart) maintain the   *)
(* ghost mv / gh exactly as the design-level actions do.  The obligations  *)
(* are THE SAME PREDICATES that TLC checks on the design model (AtLeastOne, *)
(* SourceKept, SourceRunState, NoPhantomRecord, NoOrphanData, TargetHasIt, *)
(* TargetBitfield, SourceGone, ClaimsOnlyIntact, and the C14 predicates of *)
(* Session.tla through SessionInvariants), evaluated on the observed state *)
(* in a separate Judge step after every observation.  A failed obligation  *)
(* does not block: it is printed ("@@VIOL tag line") and the judge goes on.*)
(* Histories generated from the design model carry its predictions (the    *)
(* model variant whose repairs props/x05.py finds in the tree under test): *)
(* the abstraction Abs of the observed state must be one of the predicted  *)
(* ones, otherwise "X05.drift" - the model does not describe the code any  *)
(* more (machinery error, not a verdict).                                  *)
(* Several histories are concatenated; an "Init" line resets everything.   *)
(* The id of the moved torrent is "m" in every history.                    *)
(***************************************************************************)
EXTENDS Move, Json

VARIABLES l, pend, otag, pred, extra, kindv
tvars == <<vars, l, pend, otag, pred, extra, kindv>>

Trace == ndJsonDeserialize("trace.ndjson")
Ev == Trace[l]

SeqSet(q) == {q[i] : i \in 1 .. Len(q)}
FromList(q, K(_), V(_)) == [k \in {K(q[i]) : i \in 1 .. Len(q)} |-> V(CHOOSE x \in SeqSet(q) : K(x) = k)]

TCfg(e) == [U |-> e.np1, range |-> 1 .. e.range, fix |-> {}, maxf |-> 0, faults |-> {}, binits |-> {}, runs |-> {}, dirtys |-> {},
            dsts |-> {}, final |-> FALSE]
Gh0 == [t0 |-> "t1", run0 |-> FALSE, bf0 |-> {}, dirty |-> FALSE, binit |-> "empty", removed |-> FALSE, faults |-> <<>>, lost |-> FALSE,
        tadded |-> FALSE, crashed |-> {}, phase |-> "trace", name0 |-> "", trk0 |-> <<>>]
NoPred == [settled |-> <<>>, final |-> <<>>]

Blank(c) ==
    [up |-> [s \in Sess |-> TRUE], reg |-> [s \in Sess |-> EmptyFn], db |-> [s \in Sess |-> EmptyFn],
     avail |-> [s \in Sess |-> c.range], disk |-> [s \in Sess |-> EmptyFn]]

PredOf(e) == IF "settled" \in DOMAIN e.pred THEN e.pred ELSE NoPred

TraceInit ==
    /\ l = 2 /\ Trace[1].op = "Init"
    /\ cfg = TCfg(Trace[1])
    /\ LET b == Blank(TCfg(Trace[1])) IN up = b.up /\ reg = b.reg /\ db = b.db /\ avail = b.avail /\ disk = b.disk
    /\ rsv = [s \in Sess |-> {}] /\ orph = [s \in Sess |-> {}]
    /\ mv = NoMove /\ gh = Gh0
    /\ pend = FALSE /\ otag = "" /\ pred = PredOf(Trace[1]) /\ extra = {} /\ kindv = ""
    /\ TLCSet(1, 1)

Step == l' = l + 1

TrReset ==
    /\ Ev.op = "Init" /\ ~pend
    /\ cfg' = TCfg(Ev)
    /\ LET b == Blank(TCfg(Ev)) IN up' = b.up /\ reg' = b.reg /\ db' = b.db /\ avail' = b.avail /\ disk' = b.disk
    /\ rsv' = [s \in Sess |-> {}] /\ orph' = [s \in Sess |-> {}]
    /\ mv' = NoMove /\ gh' = Gh0
    /\ pend' = FALSE /\ otag' = "" /\ pred' = PredOf(Ev) /\ extra' = {} /\ kindv' = ""
    /\ Step

\* lines that only document what the driver did to set the scene (the next observation shows the result)
TrNote ==
    /\ Ev.op \in {"add", "addtracker"} /\ ~pend
    /\ UNCHANGED <<vars, pend, otag, pred, extra, kindv>> /\ Step

\* ---------------------------------------------------------------------------------------------- observation -> shadow
ObsOf(s) == CHOOSE o \in SeqSet(Ev.ss) : o.s = s
LiveRec(x) == [t |-> x.t, port |-> x.port, run |-> x.run, bf |-> IF x.hasbf THEN SeqSet(x.bf) ELSE {}, hasbf |-> x.hasbf,
               name |-> x.name, trk |-> x.trk]
DbRec(x) == [t |-> x.t, port |-> x.port, started |-> x.started, bf |-> IF x.hasbf THEN SeqSet(x.bf) ELSE {}, name |-> x.name, trk |-> x.trk]
\* whose content a data directory is judged against: the torrent registered / recorded under that id, else the one it fits
DiskRec(o, x) ==
    LET lv == {y \in SeqSet(o.live) : y.id = x.id}
        dv == {y \in SeqSet(o.db) : y.id = x.id}
        t  == IF lv # {} THEN (CHOOSE y \in lv : TRUE).t
              ELSE IF dv # {} THEN (CHOOSE y \in dv : TRUE).t
              ELSE IF Len(x.g2) > Len(x.g1) THEN "t2" ELSE "t1"
    IN [t |-> t, good |-> IF t = "t2" THEN SeqSet(x.g2) ELSE SeqSet(x.g1)]
ObsReg(o)   == IF o.up THEN FromList(o.live, LAMBDA x : x.id, LiveRec) ELSE EmptyFn
ObsDb(o)    == IF o.up THEN FromList(o.db, LAMBDA x : x.id, DbRec) ELSE EmptyFn
ObsDisk(o)  == FromList(o.disk, LAMBDA x : x.id, LAMBDA x : DiskRec(o, x))
ObsAvail(o) == IF o.up THEN SeqSet(o.avail) ELSE {}
\* torrent loops that run without being registered hold the ports that are neither free nor registered
ObsOrph(o)  == IF o.up /\ o.loops > Len(o.live)
               THEN LET missing == (1 .. o.range) \ (SeqSet(o.avail) \cup {x.port : x \in SeqSet(o.live)})
                    IN IF missing = {} THEN {0} ELSE missing
               ELSE {}

\* torrents that no move touches must not change (registry entry, record, data)
Bystanders(s, o) ==
    IF ~(up[s] /\ o.up) THEN {}
    ELSE LET r2 == ObsReg(o)  d2 == ObsDb(o)  k2 == ObsDisk(o) IN
         {"X05.bystander" : i \in {j \in DOMAIN reg[s] : j # M /\
               ~(/\ j \in DOMAIN r2 /\ r2[j].t = reg[s][j].t /\ r2[j].port = reg[s][j].port /\ r2[j].name = reg[s][j].name
                 /\ r2[j].trk = reg[s][j].trk /\ reg[s][j].bf \subseteq r2[j].bf
                 /\ j \in DOMAIN d2
                 /\ (j \in DOMAIN disk[s] => j \in DOMAIN k2 /\ disk[s][j].good \subseteq k2[j].good))}}

TrObs ==
    /\ Ev.op = "obs" /\ ~pend
    /\ up'    = [s \in Sess |-> ObsOf(s).up]
    /\ reg'   = [s \in Sess |-> ObsReg(ObsOf(s))]
    /\ db'    = [s \in Sess |-> ObsDb(ObsOf(s))]
    /\ avail' = [s \in Sess |-> ObsAvail(ObsOf(s))]
    /\ disk'  = [s \in Sess |-> ObsDisk(ObsOf(s))]
    /\ orph'  = [s \in Sess |-> ObsOrph(ObsOf(s))]
    /\ rsv'   = [s \in Sess |-> {}]
    /\ mv' = IF mv.ph = "idle" THEN mv ELSE [mv EXCEPT !.ph = "over"]
    /\ extra' = UNION {Bystanders(s, ObsOf(s)) : s \in Sess}
                \cup {"X05.panic" : s \in {x \in Sess : ObsOf(x).panic # ""}}
                \cup {"X05.e.invalid-record" : s \in {x \in Sess : ObsOf(x).up /\ Len(ObsOf(x).invalid) > 0}}
    /\ otag' = Ev.tag /\ pend' = TRUE
    /\ UNCHANGED <<cfg, gh, pred, kindv>> /\ Step

\* ---------------------------------------------------------------------------------------------- the user's actions
LostKinds == {"cut", "tcrash", "scrash", "sclose", "timeout"}
BInitOf(dst, src) ==
    IF dst = src THEN "self"
    ELSE IF M \in DOMAIN reg[dst] THEN (IF reg[dst][M].t = reg[src][M].t THEN "dupsame" ELSE "dupother")
    ELSE "empty"

TrMove ==
    /\ Ev.op = "move" /\ ~pend /\ Ev.id = M
    /\ M \in DOMAIN reg[Ev.src]                 \* the driver only moves what the last observation showed
    /\ mv' = [NoMove EXCEPT !.ph = "run", !.src = Ev.src, !.dst = Ev.dst, !.hadDir = Ev.haddir, !.began = TRUE, !.tpc = "done", !.spc = "done"]
    \* run0 = what the user asked for (the started flag of the record), which is what the live state is unless an
    \* earlier failed move has left the torrent stopped
    /\ gh' = [Gh0 EXCEPT !.t0 = reg[Ev.src][M].t,
                         !.run0 = IF M \in DOMAIN db[Ev.src] THEN db[Ev.src][M].started ELSE reg[Ev.src][M].run, !.bf0 = reg[Ev.src][M].bf, !.binit = BInitOf(Ev.dst, Ev.src),
                         !.lost = Ev.kind \in LostKinds, !.name0 = reg[Ev.src][M].name, !.trk0 = reg[Ev.src][M].trk]
    /\ kindv' = Ev.kind
    /\ UNCHANGED <<cfg, up, reg, db, avail, disk, rsv, orph, pend, otag, pred, extra>> /\ Step

TrRemove ==
    /\ Ev.op = "remove" /\ ~pend
    /\ gh' = IF Ev.ok /\ Ev.id = M THEN [gh EXCEPT !.removed = TRUE] ELSE gh
    /\ UNCHANGED <<cfg, up, reg, db, avail, disk, rsv, orph, mv, pend, otag, pred, extra, kindv>> /\ Step

TrAddSame ==
    /\ Ev.op = "addsame" /\ ~pend
    /\ gh' = IF Ev.ok /\ Ev.id = M THEN [gh EXCEPT !.tadded = TRUE] ELSE gh
    /\ UNCHANGED <<cfg, up, reg, db, avail, disk, rsv, orph, mv, pend, otag, pred, extra, kindv>> /\ Step

\* res: "ok" | "fail" | "notfound" | "unknown" (nothing was reported: time-out of the caller, source gone) | "hang"
TrRet ==
    /\ Ev.op = "ret" /\ ~pend
    /\ mv' = [mv EXCEPT !.res = IF Ev.res \in {"ok", "fail"} THEN Ev.res ELSE "none"]
    /\ gh' = [gh EXCEPT !.crashed = {s \in {mv.src} : ~Ev.srcup} \cup {s \in {mv.dst} : ~Ev.dstup}]
    /\ IF Ev.res = "hang" THEN PrintT("@@VIOL X05.f.hang " \o ToString(l)) ELSE TRUE
    /\ UNCHANGED <<cfg, up, reg, db, avail, disk, rsv, orph, pend, otag, pred, extra, kindv>> /\ Step

TrRestart ==
    /\ Ev.op = "restart" /\ ~pend
    /\ IF Ev.panic # "" \/ Ev.res \in {"died", "hang"} THEN PrintT("@@VIOL X05.panic " \o ToString(l)) ELSE TRUE
    /\ UNCHANGED <<vars, pend, otag, pred, extra, kindv>> /\ Step

\* ---------------------------------------------------------------------------------------------- judging an observation
AllUp == \A s \in Sess : up[s]
Tag(bad, t) == IF bad THEN {t} ELSE {}

\* identity carried by a successful move (X05.c): name and tracker tiers of the registered torrent and of its record
Identity ==
    Succeeded /\ up[Dst] /\ M \in DOMAIN reg[Dst] /\ M \in DOMAIN db[Dst] =>
        /\ reg[Dst][M].name = gh.name0 /\ db[Dst][M].name = gh.name0
        /\ reg[Dst][M].trk = gh.trk0 /\ db[Dst][M].trk = gh.trk0

C14Tags(s) ==
    IF ~up[s] THEN {}
    ELSE Tag(~C14(s)!NoOrphans, "X05.e.orphan-handle")
         \cup Tag(~(C14(s)!DistinctPorts /\ C14(s)!PortsPartition /\ C14(s)!Conservation), "X05.e.ports")
         \cup Tag(~C14(s)!RegistryIsDatabase, "X05.e.registry")

\* the sessions a predicate reads must be up, otherwise their database is unknown (the shadow holds nothing for them)
Viols ==
    Tag(AllUp /\ ~AtLeastOne, "X05.a")
    \cup Tag(~SourceKept, "X05.b.source")
    \cup Tag(~SourceRunState, "X05.b.runstate")
    \cup Tag(up[Dst] /\ ~NoPhantomRecord, "X05.b.phantom")
    \cup Tag(up[Dst] /\ ~NoOrphanData, "X05.b.orphan-data")
    \cup Tag(up[Dst] /\ NoOrphanData /\ ~NoOrphanDataEvenAfterCrash, "X05.b.orphan-data-crash")
    \cup Tag(up[Dst] /\ ~TargetHasIt, "X05.c.target")
    \cup Tag(up[Dst] /\ TargetHasIt /\ ~TargetBitfield, "X05.c.bitfield")
    \cup Tag(~Identity, "X05.c.identity")
    \cup Tag(up[Src] /\ ~SourceGone, "X05.c.source")
    \cup Tag(~ClaimsOnlyIntact, "X05.d")
    \cup UNION {C14Tags(s) : s \in Sess}
    \cup extra

Preds == IF otag = "after-move" THEN pred.settled ELSE IF otag = "after-restart" THEN pred.final ELSE <<>>
Drift == Len(Preds) > 0 /\ ~\E i \in 1 .. Len(Preds) : Preds[i] = Abs

Emit(S) == \A t \in S : PrintT("@@VIOL " \o t \o " " \o ToString(l - 1))

Judge ==
    /\ pend
    /\ Emit(Viols \cup Tag(Drift, "X05.drift"))
    /\ IF Drift THEN PrintT("@@DRIFT " \o ToString(l - 1) \o " " \o ToJson(Abs)) ELSE TRUE
    /\ pend' = FALSE
    /\ UNCHANGED <<vars, l, otag, pred, extra, kindv>>

TraceNext ==
    \/ Judge
    \/ /\ l <= Len(Trace)
       /\ \/ TrReset \/ TrNote \/ TrObs \/ TrMove \/ TrRemove \/ TrAddSame \/ TrRet \/ TrRestart

TraceSpec == TraceInit /\ [][TraceNext]_tvars

HighWater == TLCSet(1, IF l > TLCGet(1) THEN l ELSE TLCGet(1))
TraceAccepted ==
    LET hw == TLCGet(1) IN
    IF hw = Len(Trace) + 1 THEN TRUE
    ELSE /\ PrintT("@@REJECT " \o ToString(hw - 1) \o " " \o ToString(Len(Trace)))
         /\ FALSE
=============================================================================
