----------------------------- MODULE LimitsCache -----------------------------
(***************************************************************************)
(* C17 sub-model Cache, part A: internal/piececache seen as one object.    *)
(*                                                                         *)
(*   ccfg     [max |-> size limit in units, par |-> parallel reads]        *)
(*   cached   set of entries [k, sz, ver]  (at most one per key)           *)
(*   loadedv  every value a loader has produced so far, per key            *)
(*   inflight number of loader calls running right now                     *)
(*                                                                         *)
(* This part is an ENVELOPE: which entries are evicted, and whether a new  *)
(* value is kept at all, is left to the code (LRU order and TTL are not    *)
(* part of property C17).  The obligations:                                *)
(*   @obligation C17.cache.limit     sum of cached sizes <= max, always    *)
(*   @obligation C17.cache.balance   Size() = sum of the sizes of the      *)
(*                                   entries, Len() = number of entries,   *)
(*                                   map / access heap / timers consistent *)
(*   @obligation C17.cache.value     Get returns its own loader's result   *)
(*                                   or a value loaded earlier for the key *)
(*   @obligation C17.cache.parallel  running loaders <= par                *)
(*   @obligation C17.cache.crash     no legal configuration (size 0 or     *)
(*                                   smaller than one value) crashes       *)
(* Part B (LimitsCacheProto.tla) is the two-lock model of the code and is  *)
(* checked to refine this module; Trace_LimitsCache.tla judges histories   *)
(* of the real cache against this module.                                  *)
(***************************************************************************)
EXTENDS Integers, FiniteSets, Sequences, TLC

VARIABLES ccfg, cached, loadedv, inflight

cvars == <<ccfg, cached, loadedv, inflight>>

RECURSIVE SumSz(_)
SumSz(S) == IF S = {} THEN 0 ELSE LET x == CHOOSE y \in S : TRUE IN x.sz + SumSz(S \ {x})

CKeys(S) == {x.k : x \in S}

CInitWith(c) == ccfg = c /\ cached = {} /\ loadedv = {} /\ inflight = 0
CResetWith(c) == ccfg' = c /\ cached' = {} /\ loadedv' = {} /\ inflight' = 0

\* a loader starts / finishes with value v = [k, sz, ver] (err: nothing is produced)
ALoadBegin == inflight' = inflight + 1 /\ UNCHANGED <<ccfg, cached, loadedv>>
ALoadEnd(v, err) ==
    /\ inflight' = inflight - 1
    /\ loadedv' = IF err THEN loadedv ELSE loadedv \cup {v}
    /\ UNCHANGED <<ccfg, cached>>

\* the cache keeps v and drops the entries in `evict` (and any older entry of the same key)
AInsert(v, evict) ==
    /\ evict \subseteq cached
    /\ cached' = {x \in cached \ evict : x.k # v.k} \cup {v}
    /\ UNCHANGED <<ccfg, loadedv, inflight>>

\* eviction / expiry / Clear
AEvict(evict) ==
    /\ evict \subseteq cached
    /\ cached' = cached \ evict
    /\ UNCHANGED <<ccfg, loadedv, inflight>>

\* @obligation C17.cache.limit
LimitOK(S) == SumSz(S) <= ccfg.max
\* @obligation C17.cache.parallel
ParOK(n) == n <= ccfg.par
\* @obligation C17.cache.value   (ran: this call's own loader ran and produced v0 / err0)
ValueViol(k, v, err, ran, v0, err0) ==
    IF ran THEN (IF err # err0 \/ (~err /\ v # v0) THEN "C17.cache.value.own" ELSE "")
    ELSE IF err THEN ""                       \* an error is shared with the readers that were waiting for the same load
    ELSE IF v \notin loadedv \/ v.k # k THEN "C17.cache.value.hit"
    ELSE ""

CStrictStep(V) ==
    \/ ALoadBegin /\ ParOK(inflight + 1)
    \/ \E v \in V, err \in BOOLEAN : inflight > 0 /\ ALoadEnd(v, err)
    \/ \E v \in loadedv, ev \in SUBSET cached : AInsert(v, ev) /\ LimitOK(cached')
    \/ \E ev \in SUBSET cached : AEvict(ev)

CInv ==
    /\ LimitOK(cached)
    /\ \A x, y \in cached : x.k = y.k => x = y
    /\ cached \subseteq loadedv
    /\ inflight >= 0 /\ ParOK(inflight)
=============================================================================
