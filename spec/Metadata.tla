------------------------------ MODULE Metadata ------------------------------
(***************************************************************************)
(* Property C13: magnet metadata is adopted only if it hashes to the       *)
(* link's info-hash.                                                       *)
(*                                                                         *)
(* Shadow model of                                                         *)
(*   internal/infodownloader  (New / RequestBlocks / GotBlock / Done)      *)
(*   torrent/torrent_infodownload.go   nextInfoDownload (eligibility, cap) *)
(*   torrent/torrent_start.go          startInfoDownloaders                *)
(*   torrent/torrent_metadataextension.go handleMetadataMessage            *)
(*   torrent/torrent_peer.go           handlePeerSnubbed (info branch)     *)
(*   torrent/torrent_run.go            peerDisconnectedC -> closePeer      *)
(* one action per handler.  startInfoDownloaders is a loop with a          *)
(* non-deterministic choice (map order); it is modelled by the flag `kick` *)
(* (set by every handler that calls it) and the internal actions StartOne  *)
(* / EndKick that run to completion before the next event is handled.      *)
(*                                                                         *)
(* Hash abstraction: the assembled bytes are Good iff the downloader's     *)
(* size is the true size and every block holds the honest bytes.           *)
(* Sizes are plain integers in bytes; cfg.bs is the block size (16 KiB in  *)
(* the code, 2 in the exhaustive configs), so the same operators judge     *)
(* recorded traces of the real InfoDownloader (Trace_Metadata).            *)
(*                                                                         *)
(* Configuration is a variable (cfg) that never changes after Init.        *)
(***************************************************************************)
EXTENDS Integers, FiniteSets, Sequences, TLC

VARIABLES cfg,      \* [np, bs, tsize, max, par, q, pol, advs, lens, restart, dupok, drops, private]
          pst,      \* [Peer -> {"idle","conn","hs","closed"}]
          adv,      \* [Peer -> Nat]  metadata_size of the peer's extension handshake (0 = none)
          idl,      \* [Peer -> downloader record | NoIdl]   t.infoDownloaders
          snub,     \* SUBSET Peer                            t.infoDownloadersSnubbed
          inflight, \* [Peer -> SUBSET Nat]  metadata requests sent to the peer and not answered yet
          asked,    \* [Peer -> BOOLEAN]     ghost: a metadata request was ever sent to the peer
          adopted,  \* "None" | "Good" | "Bad" | "Refused" (hash ok but private info: torrent stopped)
          kick      \* BOOLEAN  startInfoDownloaders() is running

vars == <<cfg, pst, adv, idl, snub, inflight, asked, adopted, kick>>

Peer  == 1 .. cfg.np
NoIdl == [size |-> -1]

MinI(a, b) == IF a < b THEN a ELSE b

-----------------------------------------------------------------------------
(* Block layout of a metadata of sz bytes (BEP 9): blocks of cfg.bs bytes, *)
(* the last one holds the rest.                                            *)
NB(sz)         == (sz + cfg.bs - 1) \div cfg.bs
BlkSize(sz, i) == MinI((i + 1) * cfg.bs, sz) - i * cfg.bs

(* infodownloader.New *)
NewIdl(sz) ==
    [ size |-> sz, nb |-> NB(sz), next |-> 0, pending |-> 0,
      reqd |-> {}, got |-> {}, cont |-> [i \in 0 .. (NB(sz) - 1) |-> "zero"], dup |-> FALSE ]

(* infodownloader.RequestBlocks(q) *)
ReqF(d, q) ==
    LET n  == IF q > d.pending THEN q - d.pending ELSE 0
        nx == MinI(d.nb, d.next + n)
    IN  [d EXCEPT !.next = nx, !.pending = d.pending + (nx - d.next), !.reqd = d.reqd \cup (d.next .. (nx - 1))]

\* @obligation C13.idl.accept  a block is accepted only if its index is in range, it was requested
\*                             and its length is the length of that block in the advertised layout
AcceptOK(d, i, len) == i >= 0 /\ i < d.nb /\ i \in d.reqd /\ len = BlkSize(d.size, i)
Fresh(d, i)         == i \notin d.got

(* state change of an accepted GotBlock; cls = "good" iff the data are the honest bytes of that range;              *)
(* "moved" = the honest bytes of ANOTHER block of the same length (right payload under a wrong index: the "swap"    *)
(* liar); "bad" = anything else.  Only "good" counts for the hash: the hash is a function of the ASSEMBLED bytes     *)
(* (block contents BY INDEX), never of the order or the multiset of the payloads that arrived.                       *)
AcceptF(d, i, cls) ==
    [d EXCEPT !.pending = @ - 1, !.got = @ \cup {i}, !.cont = [@ EXCEPT ![i] = cls], !.dup = @ \/ (i \in d.got)]

DoneC(d)     == d.next = d.nb /\ d.pending = 0          \* infodownloader.Done as coded
AllGot(d)    == d.got = 0 .. (d.nb - 1)
\* the abstraction of  sha1(id.Bytes) = t.infoHash
GoodBytes(d) == d.size = cfg.tsize /\ \A i \in 0 .. (d.nb - 1) : d.cont[i] = "good"

-----------------------------------------------------------------------------
I0(c) ==
    [ pst |-> [p \in 1 .. c.np |-> "idle"], adv |-> [p \in 1 .. c.np |-> 0],
      idl |-> [p \in 1 .. c.np |-> NoIdl], inflight |-> [p \in 1 .. c.np |-> {}],
      asked |-> [p \in 1 .. c.np |-> FALSE] ]

InitWith(c) ==
    LET i == I0(c) IN
    /\ cfg = c /\ pst = i.pst /\ adv = i.adv /\ idl = i.idl /\ snub = {} /\ inflight = i.inflight
    /\ asked = i.asked /\ adopted = "None" /\ kick = FALSE

ResetWith(c) ==
    LET i == I0(c) IN
    /\ cfg' = c /\ pst' = i.pst /\ adv' = i.adv /\ idl' = i.idl /\ snub' = {} /\ inflight' = i.inflight
    /\ asked' = i.asked /\ adopted' = "None" /\ kick' = FALSE

-----------------------------------------------------------------------------
(* torrent side                                                            *)

Running == Cardinality({p \in Peer : idl[p] # NoIdl}) - Cardinality(snub)

\* @obligation C13.cap  a peer advertising more than MaxMetadataSize (or nothing) is never asked
Eligible == {p \in Peer : pst[p] = "hs" /\ idl[p] = NoIdl /\ adv[p] # 0 /\ adv[p] <= cfg.max}

Connect(p) ==
    /\ ~kick /\ adopted = "None" /\ pst[p] = "idle"
    /\ pst' = [pst EXCEPT ![p] = "conn"]
    /\ UNCHANGED <<cfg, adv, idl, snub, inflight, asked, adopted, kick>>

\* ExtensionHandshakeMessage (first one only; a second handshake is ignored by the code)
ExtHandshake(p, sz) ==
    /\ ~kick /\ adopted = "None" /\ pst[p] = "conn"
    /\ pst' = [pst EXCEPT ![p] = "hs"]
    /\ adv' = [adv EXCEPT ![p] = sz]
    /\ kick' = TRUE
    /\ UNCHANGED <<cfg, idl, snub, inflight, asked, adopted>>

\* one iteration of the loop in startInfoDownloaders: nextInfoDownload + New + RequestBlocks
StartOne ==
    /\ kick /\ adopted = "None" /\ Running < cfg.par
    /\ \E p \in Eligible :
          LET d == ReqF(NewIdl(adv[p]), cfg.q) IN
          /\ idl' = [idl EXCEPT ![p] = d]
          /\ inflight' = [inflight EXCEPT ![p] = @ \cup d.reqd]
          /\ asked' = [asked EXCEPT ![p] = @ \/ d.reqd # {}]
    /\ UNCHANGED <<cfg, pst, adv, snub, adopted, kick>>

EndKick ==
    /\ kick /\ (adopted # "None" \/ Running >= cfg.par \/ Eligible = {})
    /\ kick' = FALSE
    /\ UNCHANGED <<cfg, pst, adv, idl, snub, inflight, asked, adopted>>

\* closePeer(p) (+ closeInfoDownloader)
ClosePeerUpd(p) ==
    /\ pst' = [pst EXCEPT ![p] = "closed"]
    /\ idl' = [idl EXCEPT ![p] = NoIdl]
    /\ snub' = snub \ {p}
    /\ inflight' = [inflight EXCEPT ![p] = {}]

\* @obligation C13.adopt  adoption only after the assembled bytes hashed to the info-hash
\* ut_metadata "data" message from p
Data(p, i, len, cls) ==
    /\ ~kick /\ adopted = "None" /\ pst[p] = "hs"
    /\ IF idl[p] = NoIdl
       THEN \* no downloader for this peer: ignored
            /\ inflight' = [inflight EXCEPT ![p] = @ \ {i}]
            /\ UNCHANGED <<cfg, pst, adv, idl, snub, asked, adopted, kick>>
       ELSE LET d == idl[p] IN
            IF ~AcceptOK(d, i, len) \/ (~Fresh(d, i) /\ ~cfg.dupok)
            THEN \* GotBlock error: closePeer + startInfoDownloaders
                 /\ ClosePeerUpd(p) /\ kick' = TRUE
                 /\ UNCHANGED <<cfg, adv, asked, adopted>>
            ELSE LET d1 == AcceptF(d, i, cls) IN
                 IF ~DoneC(d1)
                 THEN LET d2 == ReqF(d1, cfg.q) IN
                      /\ idl' = [idl EXCEPT ![p] = d2]
                      /\ snub' = snub \ {p}
                      /\ inflight' = [inflight EXCEPT ![p] = (@ \ {i}) \cup (d2.reqd \ d1.reqd)]
                      /\ asked' = [asked EXCEPT ![p] = @ \/ d2.reqd # {}]
                      /\ UNCHANGED <<cfg, pst, adv, adopted, kick>>
                 ELSE IF GoodBytes(d1)
                      THEN \* hash matches: stopInfoDownloaders, adopt (or stop on a private info)
                           /\ adopted' = IF cfg.private THEN "Refused" ELSE "Good"
                           /\ idl' = [q \in Peer |-> NoIdl]
                           /\ snub' = {}
                           /\ inflight' = [inflight EXCEPT ![p] = @ \ {i}]
                           /\ UNCHANGED <<cfg, pst, adv, asked, kick>>
                      ELSE \* hash mismatch: closePeer + startInfoDownloaders
                           /\ ClosePeerUpd(p) /\ kick' = TRUE
                           /\ UNCHANGED <<cfg, adv, asked, adopted>>

\* ut_metadata "reject" message from p
Reject(p) ==
    /\ ~kick /\ adopted = "None" /\ pst[p] = "hs"
    /\ IF idl[p] = NoIdl
       THEN UNCHANGED vars
       ELSE /\ ClosePeerUpd(p) /\ kick' = TRUE
            /\ UNCHANGED <<cfg, adv, asked, adopted>>

\* snub timer of a peer with an info downloader (handlePeerSnubbed)
Snub(p) ==
    /\ ~kick /\ adopted = "None" /\ idl[p] # NoIdl /\ p \notin snub
    /\ snub' = snub \cup {p}
    /\ kick' = TRUE
    /\ UNCHANGED <<cfg, pst, adv, idl, inflight, asked, adopted>>

\* the connection breaks (remote close, read error, undecodable message): peerDisconnectedC -> closePeer.
\* The code does NOT call startInfoDownloaders here (cfg.restart = FALSE); cfg.restart = TRUE is the repaired design.
Disconnect(p) ==
    /\ ~kick /\ adopted = "None" /\ pst[p] \in {"conn", "hs"}
    /\ ClosePeerUpd(p)
    /\ kick' = cfg.restart
    /\ UNCHANGED <<cfg, adv, asked, adopted>>

-----------------------------------------------------------------------------
(* remote peers: what a peer of a given policy may send                    *)

\* (the end-to-end scenarios of MC_Metadata_gen use further scripted variants of "any": total, capmax, junk, proto, nometa,
\*  forge, huge, neg - see harness/c13/e2e.go; the trace specification only distinguishes "honest" from the rest)
Policies == {"honest", "any", "sizeplus", "sizeminus", "badlen", "dup", "unreq", "garbage", "reject", "stall", "over", "drop", "swap"}

PolAdv(pol) ==
    CASE pol = "any"       -> cfg.advs
      [] pol = "sizeplus"  -> {cfg.tsize + 1}
      [] pol = "sizeminus" -> {cfg.tsize - 1}
      [] pol = "over"      -> {cfg.max + 1}
      [] OTHER             -> {cfg.tsize}

\* "good" data can only be sent for a range that exists in the true metadata
CanBeGood(i, len) == len > 0 /\ i * cfg.bs + len <= cfg.tsize
\* "moved" data are the honest bytes of another block of the same length
CanBeMoved(i, len) == \E j \in 0 .. (NB(cfg.tsize) - 1) : j # i /\ BlkSize(cfg.tsize, j) = len

PolData(pol, p, i, len, cls) ==
    /\ (cls = "good") => CanBeGood(i, len)
    /\ (cls = "moved") => CanBeMoved(i, len)
    /\ CASE pol = "any"       -> cls # "moved"      \* ("moved" refines "bad": no handler tells them apart)
         [] pol \in {"sizeplus", "sizeminus", "over"} -> i \in inflight[p] /\ len = BlkSize(adv[p], i)
         [] pol = "badlen"    -> i \in inflight[p] /\ len # BlkSize(adv[p], i)
         [] pol = "dup"       -> idl[p] # NoIdl /\ i \in idl[p].reqd /\ len = BlkSize(adv[p], i) /\ cls = "good"
         [] pol = "unreq"     -> idl[p] # NoIdl /\ i \notin idl[p].reqd /\ cls = "good"
         [] pol = "garbage"   -> i \in inflight[p] /\ len = BlkSize(adv[p], i) /\ cls = "bad"
         \* right payloads, right sizes, every index requested - but two equal-size blocks carry each other's index
         \* (in whatever ARRIVAL order: the genuine payload order included)
         [] pol = "swap"      -> i \in inflight[p] /\ len = BlkSize(adv[p], i) /\ cls \in {"good", "moved"}
         [] OTHER             -> FALSE

\* an honest peer answers the pipelined requests in ANY order (\E i \in inflight[p]): C13.live does not depend on it
HonestData(p) ==
    /\ cfg.pol[p] = "honest"
    /\ \E i \in inflight[p] : Data(p, i, BlkSize(cfg.tsize, i), "good")

HonestHandshake(p) == cfg.pol[p] = "honest" /\ ExtHandshake(p, cfg.tsize)

LiarStep(p) ==
    /\ cfg.pol[p] # "honest"
    /\ \/ \E sz \in PolAdv(cfg.pol[p]) : ExtHandshake(p, sz)
       \/ \E i \in 0 .. (NB(cfg.max) + 1), len \in cfg.lens, cls \in {"good", "bad", "moved"} :
             PolData(cfg.pol[p], p, i, len, cls) /\ Data(p, i, len, cls)
       \/ cfg.pol[p] \in {"any", "reject"} /\ Reject(p)
       \/ cfg.drops /\ cfg.pol[p] \in {"any", "drop", "garbage"} /\ Disconnect(p)

Next ==
    \/ StartOne \/ EndKick
    \/ \E p \in Peer : Connect(p) \/ HonestHandshake(p) \/ HonestData(p) \/ LiarStep(p) \/ Snub(p)

-----------------------------------------------------------------------------
(* Invariants                                                              *)

TypeOK ==
    /\ adopted \in {"None", "Good", "Bad", "Refused"}
    /\ snub \subseteq {p \in Peer : idl[p] # NoIdl}
    /\ \A p \in Peer : pst[p] \in {"idle", "conn", "hs", "closed"}

AdoptSafe ==                  \* C13.adopt
    adopted # "Bad"
CapSafe ==                    \* C13.cap
    \A p \in Peer : asked[p] => (adv[p] # 0 /\ adv[p] <= cfg.max)
RequestsInRange ==
    \A p \in Peer : inflight[p] \subseteq 0 .. (NB(adv[p]) - 1)
OutstandingBound ==           \* without accepted duplicates at most q requests are unanswered
    \A p \in Peer : (idl[p] # NoIdl /\ ~idl[p].dup) =>
        /\ idl[p].pending = Cardinality(idl[p].reqd \ idl[p].got)
        /\ idl[p].pending <= cfg.q
DownloaderOnlyForLivePeer ==
    \A p \in Peer : idl[p] # NoIdl => pst[p] = "hs"
AdoptedStopsDownloads ==
    adopted # "None" => \A p \in Peer : idl[p] = NoIdl

Inv == TypeOK /\ AdoptSafe /\ CapSafe /\ RequestsInRange /\ OutstandingBound /\ DownloaderOnlyForLivePeer
       /\ AdoptedStopsDownloads

Fetched == adopted \in {"Good", "Refused"}
=============================================================================
