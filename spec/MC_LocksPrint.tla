---------------------------- MODULE MC_LocksPrint ----------------------------
(***************************************************************************)
(* Prints the step sequences of Locks.tla (both transcriptions) so that    *)
(* props/c20.py can compare them with what harness/c20x extracts from the  *)
(* sources (structural conformance; a mismatch means the SPEC is out of    *)
(* date: exit 2, never a verdict).                                         *)
(***************************************************************************)
EXTENDS Locks, Json

T1 == <<"t1">>
C0 == <<>>
PAny(f) == TRUE

RECURSIVE Emit(_)
Emit(R) ==
    IF R = {} THEN TRUE
    ELSE LET o == CHOOSE x \in R : TRUE IN
         /\ \A fx \in SUBSET Relevant(o) :
                PrintT("@@" \o ToJson([kind |-> "prog", op |-> o, fx |-> fx, prog |-> ProgV(o, fx)]))
         /\ Emit(R \ {o})

ASSUME Emit(Roots)
ASSUME Relevant("x") = {} /\ UNION {Relevant(o) : o \in Roots} = FixNames
ASSUME PrintT("@@" \o ToJson([kind |-> "meta", fixnames |-> FixNames, replycmds |-> ReplyCmds, stopcmds |-> StopCmds,
                               atoms |-> LoopAtomsFlat]))
=============================================================================
