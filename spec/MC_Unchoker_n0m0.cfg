SPECIFICATION MCSpec
CONSTANTS
  NPEERS = 3
  NN = 0
  MM = 0
  RMAX = 2
  VICTIM = 0
INVARIANT Inv
CHECK_DEADLOCK FALSE
