--------------------------- MODULE MC_AdmissionGen ---------------------------
(***************************************************************************)
(* TLC as generator of inputs for the real code (E-gen).                   *)
(*  GLSpec: prints every rule list of MC_Admission!Lists (the lists the    *)
(*          design-level check is exhaustive over) - the driver loads each *)
(*          of them into the real Blocklist and queries the universe.      *)
(*  GSSpec: prints every sequence of K queue operations over the alphabet  *)
(*          built from MC_Admission!QPool / QLists - the driver replays    *)
(*          them on the real AddrList (priorities come from the real       *)
(*          peerpriority.Calculate).                                       *)
(***************************************************************************)
EXTENDS MC_Admission, Json
CONSTANTS K, ALPHA      \* ALPHA: "narrow" | "wide" | "core"

VARIABLE h

GLInit == BlInit /\ h \in Lists
GLNext == UNCHANGED <<vars, h>>
GLSpec == GLInit /\ [][GLNext]_<<vars, h>>
GLPrint == PrintT("@@" \o ToJson([lines |-> h]))

\* unknown, the configured one, the IP of pool addresses 1/2/9, the IP of pool address 3
Cips == << NoIp, QCfg.cip, <<2561, 1>>, <<2563, 4>> >>
Op(o, a, s, li) == [op |-> o, addrs |-> a, s |-> s, li |-> li]
PushB0 == {<<a>> : a \in 1 .. Len(QPool)} \cup {<<1, 2>>, <<3, 4>>, <<1, 9>>, <<3, 1>>, <<5, 6>>, <<3, 1, 4>>}
PushB1 == IF ALPHA = "wide" THEN PushB0 ELSE {<<1>>, <<2>>, <<3>>, <<3, 1>>}
Alphabet ==
    (IF ALPHA = "core"
     THEN {Op("Push", <<1>>, 0, 0), Op("Push", <<2>>, 0, 0), Op("Push", <<3>>, 1, 0), Op("Push", <<4>>, 0, 0),
           Op("Push", <<3, 1, 4>>, 0, 0)}
     ELSE {Op("Push", b, 0, 0) : b \in PushB0} \cup {Op("Push", b, 1, 0) : b \in PushB1})
    \cup {Op("Pop", <<>>, 0, 0), Op("Reset", <<>>, 0, 0), Op("Reload", <<>>, 0, 1), Op("Reload", <<>>, 0, 2)}
    \* the client learns / changes its external address (index into Header.cips)
    \cup {Op("SetCip", <<>>, 0, i) : i \in 1 .. Len(Cips)}

Header == [hdr |-> TRUE, port |-> QCfg.port, cip |-> QCfg.cip, cips |-> Cips,
           pool |-> [i \in 1 .. Len(QPool) |-> [ip |-> QPool[i].ip, port |-> QPool[i].port]],
           lists |-> << <<>>, <<Cidr(<<2561, 256>>, 30)>> >>]

GSInit == BlInit /\ h = <<>>
GSNext == Len(h) < K /\ \E o \in Alphabet : h' = Append(h, o) /\ UNCHANGED vars
GSSpec == GSInit /\ [][GSNext]_<<vars, h>>
GSPrint == IF Len(h) = 0 THEN PrintT("@@" \o ToJson(Header))
           ELSE IF Len(h) = K THEN PrintT("@@" \o ToJson([ops |-> h]))
           ELSE TRUE
=============================================================================
