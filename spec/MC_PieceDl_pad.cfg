SPECIFICATION MCSpec
CONSTANTS
  SECS <- Secs_pad
  BS = 2
  QLENS = {1, 2, 4, 5}
  FAST = FALSE
  AF = FALSE
  REJ = "none"
  UNREQ = TRUE
  ENDS = TRUE
INVARIANT InvNoStuck
CHECK_DEADLOCK FALSE
