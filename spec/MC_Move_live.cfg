SPECIFICATION LiveSpec
CONSTANTS
  U = 2
  RANGE = {1, 2}
  FIX = {}
  MAXF = 1
  FAULTS = {"refuse", "cut", "crash", "disk", "dbfail", "srm", "sclose", "tadd"}
  BINITS = {"empty", "dupsame", "full"}
  RUNS = {TRUE}
  DIRTYS = {FALSE}
  DSTS = {"A", "B"}
  FINAL = FALSE
PROPERTY MoveEnds
CHECK_DEADLOCK FALSE
