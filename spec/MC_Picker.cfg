SPECIFICATION MCSpec
CONSTANTS
  NP = 3
  NPEERS = 2
  NSRC = 1
  LIMIT = 2
  SEQ = FALSE
  EDGE = {0, 2}
  AFP = {1}
INVARIANT Inv
VIEW MCView
CHECK_DEADLOCK FALSE
