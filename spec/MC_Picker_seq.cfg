SPECIFICATION MCSpec
CONSTANTS
  NP = 3
  NPEERS = 2
  NSRC = 1
  LIMIT = 1
  SEQ = TRUE
  EDGE = {0, 2}
  AFP = {1}
INVARIANT Inv
VIEW MCView
CHECK_DEADLOCK FALSE
