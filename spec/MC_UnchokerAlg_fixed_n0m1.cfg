SPECIFICATION ASpec
CONSTANTS
  NPEERS = 3
  NN = 0
  MM = 1
  RMAX = 2
  VARIANT = "fixed"
  IGNORE = {}
  VICTIM = 0
INVARIANT AInv
CHECK_DEADLOCK FALSE
