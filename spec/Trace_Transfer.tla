---------------------------- MODULE Trace_Transfer ----------------------------
(***************************************************************************)
(* Judges traces of real download scenarios (harness/xfer) against the     *)
(* observable obligations of TransferObs.  Each line is an abstract event   *)
(* projected by props/xfer_common.py from the raw driver trace:            *)
(*   init      np, plen[], honest, good[] (pieces already right in storage:*)
(*             data-less pieces and pre-existing files)                    *)
(*   w         storage write exit: p, cls, err, pgood (storage truth after)*)
(*   snap      loop snapshot: status, have[], done[], banned[], conns[]    *)
(*   rep       pieces reported to a peer (have / bitfield / have-all)      *)
(*   stats     Stats(): have, completed                                    *)
(*   complete  NotifyComplete fired: filesOK                               *)
(*   timeout   completion did not happen in time                           *)
(*   expect    ban expectation for a sole corrupting peer: ok              *)
(*   redial    connection attempt from a banned address: accepted          *)
(*   disk      storage truth at the end (class per piece)                  *)
(*   disk-mutate  storage changed behind the client's back while stopped   *)
(*             (class per piece afterwards); recorded when the Verify      *)
(*             command that follows it has been taken by the loop          *)
(*   disk-lost files of the torrent vanished from the storage while it was *)
(*             stopped (class per piece afterwards); recorded when the     *)
(*             torrent, started again, has opened its files (allocation)   *)
(*   drop      a stalling peer hangs up while the honest peer is busy with *)
(*             an end-game duplicate (environment event, no obligation)    *)
(*   resume    resume-database bitfield read back after Close              *)
(* init.obsw = FALSE: the torrent uses the session's own file storage on a *)
(* real directory; writes are not observed, the files are read (disk line) *)
(* when completion is reported and at the end: the claims (C01.b/c) are    *)
(* judged only where the storage truth is fresh, C01.d always.             *)
(* A failed obligation sets viol (does not block the step).                *)
(***************************************************************************)
EXTENDS TransferObs, Json

VARIABLES l, plen, honest, bansSeen,
          peerHave,   \* [ip -> pieces the scripted peer at that address holds] (from the scenario)
          idleSince,  \* [ip -> time (ms) since which the peer is idle, unchoked and holds a needed unrequested piece; -1 = not]
          obsw,       \* storage writes are observed (recording storage); FALSE on the real file system
          fresh       \* good is the exact storage truth now (always, if obsw; else from a disk line to the next loop step)
tvars == <<obsvars, l, plen, honest, bansSeen, peerHave, idleSince, obsw, fresh>>

IdleLimitMs == 3000

\* a failed obligation is reported (tag and line) and the run continues, so one pass judges every trace
Note(v) == IF v = "" THEN TRUE ELSE PrintT("@@VIOL " \o v \o " " \o ToString(l))

Trace == ndJsonDeserialize("trace.ndjson")
Ev == Trace[l]
SetOf(q) == {q[i] : i \in 1 .. Len(q)}

RECURSIVE SumLen(_, _)
SumLen(S, pl) == IF S = {} THEN 0 ELSE LET x == CHOOSE y \in S : TRUE IN pl[x + 1] + SumLen(S \ {x}, pl)

PeerHaveOf(e) == [i \in {e.peers[k].ip : k \in 1 .. Len(e.peers)} |->
                     UNION {SetOf(e.peers[k].have) : k \in {j \in 1 .. Len(e.peers) : e.peers[j].ip = i}}]

TraceInit ==
    /\ l = 2
    /\ Trace[1].ev = "init"
    /\ np = Trace[1].np /\ plen = Trace[1].plen /\ honest = Trace[1].honest
    /\ good = SetOf(Trace[1].good) /\ have = {} /\ reported = {} /\ banned = {} /\ conn = {} /\ bansSeen = {}
    /\ peerHave = PeerHaveOf(Trace[1]) /\ idleSince = [ip \in DOMAIN PeerHaveOf(Trace[1]) |-> -1]
    /\ obsw = Trace[1].obsw /\ fresh = TRUE
    /\ TLCSet(1, 1)

TrReset ==
    /\ Ev.ev = "init"
    /\ np' = Ev.np /\ plen' = Ev.plen /\ honest' = Ev.honest
    /\ good' = SetOf(Ev.good) /\ have' = {} /\ reported' = {} /\ banned' = {} /\ conn' = {} /\ bansSeen' = {}
    /\ peerHave' = PeerHaveOf(Ev) /\ idleSince' = [ip \in DOMAIN PeerHaveOf(Ev) |-> -1]
    /\ obsw' = Ev.obsw /\ fresh' = TRUE
    /\ l' = l + 1

Keep == UNCHANGED <<np, plen, honest, peerHave, obsw>>

\* @obligation C01.a  every byte written into the torrent's files is verified content
TrWrite ==
    /\ Ev.ev = "w"
    /\ LET bad == Ev.cls \in {"bad", "zero"} /\ ~Ev.err
       IN /\ good' = IF Ev.p \in Piece /\ ~Ev.err          \* a failed write leaves the stored bytes as they were
                    THEN (IF Ev.pgood THEN good \cup {Ev.p} ELSE good \ {Ev.p}) ELSE good
          /\ Note(IF bad THEN "C01.a" ELSE "")
    /\ l' = l + 1 /\ Keep /\ UNCHANGED <<have, reported, banned, conn, bansSeen, idleSince, fresh>>

\* @obligation C01.b  bitfield / Done flags only for verified pieces in storage
\* @obligation C01.e  banned addresses are not connected
\* @obligation C04.L2 Seeding only with every piece
\* @obligation C10.idle  no idle, unchoked peer holding a needed and unrequested piece is left without a request
\* pieces somebody is already fetching: peer downloads, the piece being written, web-seed ranges from their current piece on
Busy(e) == {e.plist[k].piece : k \in 1 .. Len(e.plist)} \cup SetOf(e.writing)
           \cup UNION {{q \in Piece : e.wsr[k][3] <= q /\ q < e.wsr[k][2]} : k \in 1 .. Len(e.wsr)}
IdleNow(e, ip) ==
    /\ e.status = "Downloading" /\ ~e.pickerNil
    /\ \E k \in 1 .. Len(e.plist) : e.plist[k].ip = ip /\ ~e.plist[k].choking /\ e.plist[k].piece = -1
    /\ (peerHave[ip] \ (SetOf(e.have) \cup SetOf(e.done) \cup Busy(e))) # {}

TrSnap ==
    /\ Ev.ev = "snap"
    /\ have' = SetOf(Ev.have) \cup SetOf(Ev.done)
    /\ banned' = SetOf(Ev.banned)
    /\ bansSeen' = bansSeen \cup SetOf(Ev.banned)
    /\ conn' = SetOf(Ev.conns)
    /\ idleSince' = [ip \in DOMAIN idleSince |-> IF IdleNow(Ev, ip) THEN (IF idleSince[ip] = -1 THEN Ev.t ELSE idleSince[ip]) ELSE -1]
    /\ fresh' = obsw                                 \* a loop step may have written; unobserved writes make the truth stale
    /\ Note(IF fresh' /\ ~(have' \subseteq good) THEN "C01.b"
               ELSE IF (bansSeen' \cap conn') # {} THEN "C01.e.connected"
               ELSE IF Ev.status = "Seeding" /\ SetOf(Ev.have) # Piece THEN "C01.d.seeding"
               ELSE IF \E ip \in DOMAIN idleSince : idleSince[ip] # -1 /\ Ev.t - idleSince[ip] >= IdleLimitMs THEN "C10.idle"
               ELSE "")
    /\ l' = l + 1 /\ Keep /\ UNCHANGED <<good, reported>>

\* @obligation C01.c  pieces reported to peers are verified pieces
TrRep ==
    /\ Ev.ev = "rep"
    /\ LET ps == IF Ev.kind = "haveall" THEN Piece ELSE SetOf(Ev.pieces)
       IN /\ reported' = reported \cup ps
          /\ Note(IF fresh /\ ~(ps \subseteq good) THEN "C01.c.wire" ELSE "")
    /\ l' = l + 1 /\ Keep /\ UNCHANGED <<good, have, banned, conn, bansSeen, idleSince, fresh>>

\* @obligation C01.c  stats never claim more than what is verified in storage
TrStats ==
    /\ Ev.ev = "stats"
    /\ Note(IF fresh /\ Ev.have > Cardinality(good) THEN "C01.c.stats.have"
               ELSE IF fresh /\ Ev.completed > SumLen(good, plen) THEN "C01.c.stats.bytes"
               ELSE "")
    /\ l' = l + 1 /\ Keep /\ UNCHANGED <<good, have, reported, banned, conn, bansSeen, idleSince, fresh>>

\* @obligation C01.d  completion reported => every file byte-identical to the metainfo's content
TrComplete ==
    /\ Ev.ev = "complete"
    /\ Note(IF fresh /\ good # Piece THEN "C01.d.pieces" ELSE IF ~Ev.filesOK THEN "C01.d.files" ELSE "")
    /\ l' = l + 1 /\ Keep /\ UNCHANGED <<good, have, reported, banned, conn, bansSeen, idleSince, fresh>>

\* @obligation C10.live  an honest full source stayed reachable but the download did not finish
TrTimeout ==
    /\ Ev.ev = "timeout"
    /\ Note(IF \E ip \in DOMAIN idleSince : idleSince[ip] # -1 /\ Ev.t - idleSince[ip] >= IdleLimitMs THEN "C10.idle"
            ELSE IF honest THEN "C10.live" ELSE "")
    /\ l' = l + 1 /\ Keep /\ UNCHANGED <<good, have, reported, banned, conn, bansSeen, idleSince, fresh>>

\* @obligation C01.e  the peer that supplied a corrupt piece is disconnected and banned ...
TrExpect ==
    /\ Ev.ev = "expect"
    /\ Note(IF Ev.what = "ban" /\ Ev.sentBad > 0 /\ ~Ev.ok THEN "C01.e.notbanned" ELSE "")
    /\ bansSeen' = IF Ev.ok THEN bansSeen \cup {Ev.ip} ELSE bansSeen
    /\ l' = l + 1 /\ Keep /\ UNCHANGED <<good, have, reported, banned, conn, idleSince, fresh>>

\* @obligation C01.e  ... and not reused
TrRedial ==
    /\ Ev.ev = "redial"
    /\ Note(IF Ev.accepted /\ Ev.ip \in bansSeen THEN "C01.e.reused" ELSE "")
    /\ l' = l + 1 /\ Keep /\ UNCHANGED <<good, have, reported, banned, conn, bansSeen, idleSince, fresh>>

\* storage truth recomputed by the harness: end of run, completion on the real file system, and the environment actions of
\* Transfer.tla that change the storage while the torrent is stopped (Damage: bytes of a piece altered, followed by Verify;
\* LoseFiles: files removed, followed by Start) - from here on every claim is judged against the new truth
TrDisk ==
    /\ Ev.ev \in {"disk", "disk-mutate", "disk-lost"}
    /\ good' = {p \in Piece : Ev.class[p + 1] = "good"}
    /\ fresh' = TRUE
    /\ l' = l + 1 /\ Keep /\ UNCHANGED <<have, reported, banned, conn, bansSeen, idleSince>>

TrDrop ==                                          \* environment: a stalling peer hangs up (Transfer.tla Disconnect of a liar)
    /\ Ev.ev = "drop"
    /\ l' = l + 1 /\ Keep /\ UNCHANGED <<good, have, reported, banned, conn, bansSeen, idleSince, fresh>>

\* @obligation C01.r  resume data never claims a piece whose verified content is not in storage
TrResume ==
    /\ Ev.ev = "resume"
    /\ Note(IF fresh /\ ~(SetOf(Ev.bits) \subseteq good) THEN "C01.c.resume" ELSE "")
    /\ l' = l + 1 /\ Keep /\ UNCHANGED <<good, have, reported, banned, conn, bansSeen, idleSince, fresh>>

TraceNext ==
    /\ l <= Len(Trace)
    /\ \/ TrReset \/ TrWrite \/ TrSnap \/ TrRep \/ TrStats \/ TrComplete \/ TrTimeout \/ TrExpect \/ TrRedial
       \/ TrDisk \/ TrResume \/ TrDrop

TraceSpec == TraceInit /\ [][TraceNext]_tvars

HighWater == TLCSet(1, IF l > TLCGet(1) THEN l ELSE TLCGet(1))
TraceAccepted ==
    LET hw == TLCGet(1) IN
    IF hw = Len(Trace) + 1 THEN TRUE
    ELSE /\ PrintT("@@REJECT " \o ToString(hw - 1) \o " " \o ToString(Len(Trace)))
         /\ FALSE
=============================================================================
