SPECIFICATION Spec
CONSTANTS
  IPs = {1, 2}
  Ports = {1, 2}
  SLOTS = 1
  BANFIRST = FALSE
  STOPCLEARS = FALSE
INVARIANT NeverDialBanned
CHECK_DEADLOCK FALSE
