SPECIFICATION MCSpec
CONSTANTS
  N = 4
  NPE = 2
  K = 4
  ASIS = FALSE
  ALPHA = "race"
  MAXLEN = 10
  GUARD = TRUE
INVARIANT Inv
PROPERTY MCIsolation
VIEW MCView
CHECK_DEADLOCK FALSE
