SPECIFICATION MCSpec
CONSTANTS
  N = 4
  NPE = 2
  K = 4
  ASIS = FALSE
  ALPHA = "race"
  MAXLEN = 10
  GUARD = TRUE
  AFPARK = FALSE
INVARIANT Inv
PROPERTY MCIsolation
VIEW MCView
CHECK_DEADLOCK FALSE
