------------------------------ MODULE WireConc ------------------------------
(***************************************************************************)
(* C11 for SEVERAL connections that are set up at the same time: one       *)
(* client answers (btconn.Accept) or opens (btconn.Dial) connections for   *)
(* different torrents / with different identities concurrently.            *)
(*                                                                         *)
(* Writing a handshake is two steps that other connections may interleave  *)
(* with: Build(c) serialises the 68 bytes of connection c into the buffer  *)
(* that is handed to the transport, Flush(c) is the moment the (blocking)  *)
(* transport takes the bytes - until then the buffer belongs to the        *)
(* writer and the transport reads whatever it holds at that moment.        *)
(* Obligation (C11.handshake, per connection): the bytes that connection c *)
(* carries are Encode(handshake of c) for EVERY interleaving - i.e. the    *)
(* buffer is private to the connection (SHARED = FALSE).  SHARED = TRUE is *)
(* the rejected design (one template for all connections); TLC refutes it  *)
(* (MC_WireConc_shared.cfg), which shows that the schedules printed here   *)
(* and replayed into the real btconn discriminate.                         *)
(***************************************************************************)
EXTENDS WireCodec
CONSTANTS MaxConns, SHARED

VARIABLES n,      \* number of connections of this run
          pc,     \* conn -> "idle" | "built" | "done"
          buf,    \* cell -> bytes handed to the transport and not yet taken (cell = conn, or 0 when SHARED)
          wire,   \* conn -> bytes the transport took
          sched   \* the interleaving so far (generator output)

cvars == <<n, pc, buf, wire, sched>>

HsOf(c) == [k |-> "handshake", reserved |-> [i \in 1 .. 8 |-> (c * 16 + i) % 256],
            ih |-> [i \in 1 .. 20 |-> (c * 20 + i) % 256], pid |-> [i \in 1 .. 20 |-> (200 + c + i) % 256]]
Cell(c) == IF SHARED THEN 0 ELSE c

CInit == /\ n \in 2 .. MaxConns
         /\ pc = [c \in 1 .. MaxConns |-> "idle"]
         /\ buf = [c \in 0 .. MaxConns |-> <<>>]
         /\ wire = [c \in 1 .. MaxConns |-> <<>>]
         /\ sched = <<>>

Build(c) == /\ pc[c] = "idle"
            /\ buf' = [buf EXCEPT ![Cell(c)] = Encode(HsOf(c))]
            /\ pc' = [pc EXCEPT ![c] = "built"]
            /\ sched' = Append(sched, [op |-> "b", c |-> c])
            /\ UNCHANGED <<n, wire>>

Flush(c) == /\ pc[c] = "built"
            /\ wire' = [wire EXCEPT ![c] = buf[Cell(c)]]
            /\ pc' = [pc EXCEPT ![c] = "done"]
            /\ sched' = Append(sched, [op |-> "f", c |-> c])
            /\ UNCHANGED <<n, buf>>

CNext == \E c \in 1 .. n : Build(c) \/ Flush(c)
CSpec == CInit /\ [][CNext]_cvars

AllDone == \A c \in 1 .. n : pc[c] = "done"
\* @obligation C11.handshake (per connection, every interleaving)
Private == \A c \in 1 .. n : pc[c] = "done" => Decode(TRUE, wire[c]) = <<HsOf(c)>>
=============================================================================
