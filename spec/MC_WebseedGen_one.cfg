SPECIFICATION GSpec
CONSTANTS
  PL = 2
  FILES <- G_one
  RB = 0
  RE = 3
  MAXCH = 2
  VARIANT = "fixed"
  IGNORE = {}
  MODES = {"206", "500", "terr", "200"}
  NSTOP = 2
  NCLOSE = 1
  NERR = 1
INVARIANT GenPrint
CHECK_DEADLOCK FALSE
