---------------------------- MODULE Trace_Connect ----------------------------
(***************************************************************************)
(* Judges connection histories recorded from a real torrent.Session        *)
(* (harness/x03) against Connect.tla.                                      *)
(*                                                                         *)
(* Every loop event of the torrent yields one "snap" line: the COMPLETE    *)
(* loop-owned connection state (hook H1 + shim VerifX03Snapshot, taken on  *)
(* the loop goroutine): handshaker identities, peers with ids,             *)
(* connectedPeerIPs, peerIDs, banned IPs, the address queue.  The core     *)
(* variables of Connect are BOUND to that observation; the judge checks    *)
(*   - the state obligations of Connect on the observed state,             *)
(*   - that the observed transition is a step of Connect (one handler),    *)
(*     given what the environment has done so far (addresses handed over,  *)
(*     sockets dialled, abilities scr of the scripted remote sides),       *)
(*   - real-time bounds of handshakers (born = first snapshot showing it), *)
(*   - on "check" lines (taken at quiescence by the scripted side): every  *)
(*     socket the scripted side still sees open is held by the client.     *)
(* Failed obligations are printed (@@VIOL tag line) and do not block.      *)
(* Tag X03.model.step = the transition is not explained by Connect: that   *)
(* is a specification/driver mismatch, never a verdict (props/x03.py).     *)
(***************************************************************************)
EXTENDS Connect, Json

VARIABLES l, given, lim,
          everHeld,   \* connections seen as handshaker or peer in some snapshot
          susp        \* incoming sockets open at the previous check that the loop had never shown (still pending?)
tvars == <<vars, l, given, lim, everHeld, susp>>

Trace == ndJsonDeserialize("trace.ndjson")
Ev == Trace[l]
SetOf(q) == {q[i] : i \in 1 .. Len(q)}
Note(v) == IF v = "" THEN TRUE ELSE PrintT("@@VIOL " \o v \o " " \o ToString(l))

Conn(d, x) == [dir |-> d, ip |-> x[1], key |-> x[2]]
Addr(x)    == [ip |-> x[1], key |-> x[2]]
PeerOf(p)  == [c |-> [dir |-> p.dir, ip |-> p.ip, key |-> p.key], id |-> p.id]

CfgOf(e) == [maxAccept |-> e.maxAccept, maxDial |-> e.maxDial, own |-> 0, blocked |-> SetOf(e.blocked), dev |-> {}]
LimOf(e) == [inLimit |-> e.inLimit, outLimit |-> e.outLimit, slack |-> e.slack]
NoScr == [c \in {} |-> [ok |-> FALSE, id |-> -1]]

InitFrom(e) ==
    /\ cfg = CfgOf(e) /\ lim = LimOf(e) /\ scr = NoScr /\ given = {} /\ everHeld = {} /\ susp = {}
    /\ run = FALSE /\ acc = FALSE /\ completed = FALSE
    /\ queue = {} /\ outHS = {} /\ inHS = {} /\ peers = {} /\ connIPs = {} /\ peerIDs = {} /\ banned = {}
    /\ pend = {} /\ open = {}

TraceInit == l = 2 /\ Trace[1].ev = "init" /\ InitFrom(Trace[1]) /\ TLCSet(1, 1)

TrReset ==
    /\ Ev.ev = "init"
    /\ cfg' = CfgOf(Ev) /\ lim' = LimOf(Ev) /\ scr' = NoScr /\ given' = {} /\ everHeld' = {} /\ susp' = {}
    /\ run' = FALSE /\ acc' = FALSE /\ completed' = FALSE
    /\ queue' = {} /\ outHS' = {} /\ inHS' = {} /\ peers' = {} /\ connIPs' = {} /\ peerIDs' = {} /\ banned' = {}
    /\ pend' = {} /\ open' = {}
    /\ l' = l + 1

Keep == UNCHANGED <<cfg, core, socks, lim, everHeld>>

\* the scripted side is about to connect (dir "in") / listens on an address (dir "out"): its abilities
TrScript ==
    /\ Ev.ev = "script"
    /\ LET c == [dir |-> Ev.dir, ip |-> Ev.ip, key |-> Ev.key]
       IN scr' = [x \in DOMAIN scr \cup {c} |-> IF x = c THEN [ok |-> Ev.ok, id |-> Ev.id] ELSE scr[x]]
    /\ l' = l + 1 /\ Keep /\ UNCHANGED <<given, susp>>

\* the user hands addresses to the torrent (AddPeer)
TrAddPeer ==
    /\ Ev.ev = "addpeer"
    /\ given' = given \cup {Addr(x) : x \in SetOf(Ev.addrs)}
    /\ l' = l + 1 /\ Keep /\ UNCHANGED <<scr, susp>>

----------------------------------------------------------------------------
\* one step of Connect explains the observed transition (primed core variables are already bound)
InKnown == {c \in DOMAIN scr : c.dir = "in"}
CoreStep ==
    \/ UNCHANGED core
    \/ Start \/ Listen \/ Stop
    \/ \E a \in given : AddAddrs({a})
    \/ \E s \in InKnown : Accept(s)
    \/ \E s \in inHS, ok \in BOOLEAN : InDone(s, ok)
    \/ \E c \in outHS, ok \in BOOLEAN : OutDone(c, ok)
    \/ \E p \in peers, ban \in BOOLEAN : PeerGone(p, ban)
    \/ \E K \in SUBSET peers : Complete(K)

\* @obligation X03.balance / C17.conn.* / X03.uniq / X03.refuse / X03.admit / X03.stop / X03.timeout
SnapViol(e) ==
    LET nin  == Len(e.inHS) + e.nIn
        nout == Len(e.outHS) + e.nOut
        newHS == (inHS' \ inHS) \cup (outHS' \ outHS)
        badPeers == {p \in peers' : ~(p.c \in DOMAIN scr /\ scr[p.c].ok /\ scr[p.c].id = p.id)}
    IN
    IF Len(e.inHS) # Cardinality(inHS') \/ Len(e.outHS) # Cardinality(outHS') \/ Len(e.peers) # Cardinality(peers')
         \/ e.nIn + e.nOut # Len(e.peers) THEN "X03.uniq.conn"
    ELSE IF nin > cfg.maxAccept THEN "C17.conn.accept"
    ELSE IF nout > cfg.maxDial THEN "C17.conn.dial"
    ELSE IF connIPs' \ IPs(Held') # {} THEN "X03.balance.leak"
    ELSE IF IPs(Held') \ connIPs' # {} THEN "X03.balance.missing"
    ELSE IF peerIDs' # {p.id : p \in peers'} THEN "X03.balance.ids"
    ELSE IF \E c, d \in Held' : c.ip = d.ip /\ c # d THEN "X03.uniq.ip"
    ELSE IF \E p, q \in peers' : p.id = q.id /\ p # q THEN "X03.uniq.id"
    ELSE IF \E p \in peers' : p.id = cfg.own THEN "X03.refuse.ownid"
    ELSE IF badPeers # {} THEN "X03.refuse.handshake"
    ELSE IF \E c \in newHS : c.ip \in banned \cup cfg.blocked THEN "X03.admit.banned"
    ELSE IF ~run' /\ (Held' # {} \/ queue' # {} \/ acc') THEN "X03.stop.clean"
    ELSE IF \E x \in SetOf(e.inHS) : e.t > x[3] + lim.inLimit + lim.slack THEN "X03.timeout.in"
    ELSE IF \E x \in SetOf(e.outHS) : e.t > x[3] + lim.outLimit + lim.slack THEN "X03.timeout.out"
    ELSE IF ~CoreStep THEN "X03.model.step"
    ELSE ""

TrSnap ==
    /\ Ev.ev = "snap"
    /\ run' = Ev.run /\ acc' = Ev.acc /\ completed' = Ev.completed
    /\ queue' = {Addr(x) : x \in SetOf(Ev.queue)}
    /\ outHS' = {Conn("out", x) : x \in SetOf(Ev.outHS)}
    /\ inHS' = {Conn("in", x) : x \in SetOf(Ev.inHS)}
    /\ peers' = {PeerOf(p) : p \in SetOf(Ev.peers)}
    /\ connIPs' = SetOf(Ev.connIPs) /\ peerIDs' = SetOf(Ev.peerIDs) /\ banned' = SetOf(Ev.banned)
    /\ Note(SnapViol(Ev))
    /\ everHeld' = everHeld \cup Held'
    /\ l' = l + 1 /\ UNCHANGED <<cfg, scr, socks, given, lim, susp>>

\* @obligation C17.conn.closed / X03.stop.socket : sockets seen open by the scripted side at quiescence.
\* A socket that the client held once (handshaker / peer) and holds no more must be closed by now.  An incoming
\* socket the loop has never shown may still wait in the acceptor (a refusal is not a visible loop event): it is
\* a violation only if it is still open and still unknown at the NEXT check, or once the torrent is stopped.
TrCheck ==
    /\ Ev.ev = "check"
    /\ LET oin == {Conn("in", x) : x \in SetOf(Ev.openIn)}
           heldIn == {c \in Held : c.dir = "in"}
           bad == oin \ heldIn
           outBad == \E x \in SetOf(Ev.openOut) : x[3] > (IF Conn("out", x) \in Held THEN 1 ELSE 0)
       IN /\ Note(IF ~run /\ (oin # {} \/ Len(Ev.openOut) > 0) THEN "X03.stop.socket"
                  ELSE IF bad \cap everHeld # {} THEN "C17.conn.closed.in"
                  ELSE IF bad \cap susp # {} THEN "C17.conn.closed.in"
                  ELSE IF outBad THEN "C17.conn.closed.out"
                  ELSE "")
          /\ susp' = bad \ everHeld
    /\ l' = l + 1 /\ Keep /\ UNCHANGED <<scr, given>>

\* bounded-time expectations evaluated by the driver (admission of an admissible honest connection)
TrExpect ==
    /\ Ev.ev = "expect"
    /\ Note(IF Ev.ok THEN "" ELSE "X03.live." \o Ev.what)
    /\ l' = l + 1 /\ Keep /\ UNCHANGED <<scr, given, susp>>

TrProc ==
    /\ Ev.ev = "proc"
    /\ Note(IF Ev.what = "crash" THEN "X03.crash" ELSE IF Ev.what = "hang" THEN "X03.hang" ELSE "")
    /\ l' = l + 1 /\ Keep /\ UNCHANGED <<scr, given, susp>>

TraceNext ==
    /\ l <= Len(Trace)
    /\ \/ TrReset \/ TrScript \/ TrAddPeer \/ TrSnap \/ TrCheck \/ TrExpect \/ TrProc

TraceSpec == TraceInit /\ [][TraceNext]_tvars

HighWater == TLCSet(1, IF l > TLCGet(1) THEN l ELSE TLCGet(1))
TraceAccepted ==
    LET hw == TLCGet(1) IN
    IF hw = Len(Trace) + 1 THEN TRUE
    ELSE /\ PrintT("@@REJECT " \o ToString(hw - 1) \o " " \o ToString(Len(Trace)))
         /\ FALSE
=============================================================================
