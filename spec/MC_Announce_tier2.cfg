SPECIFICATION MCSpec
CONSTANTS
  NT = 1
  NM = 2
  UDP = FALSE
  CMIN = 2
  BO = 3
  IVALS <- IvSmall
  ASIS = {}
  CIDS = {0}
  ENV = {"complete", "flip", "stop"}
INVARIANT InvFixed
PROPERTY Live
CHECK_DEADLOCK FALSE
