SPECIFICATION MCSpec
CONSTANTS
  NT = 1
  NM = 2
  UDP = FALSE
  CMIN = 2
  BO = 3
  IVALS <- IvSmall
  ASIS = {}
  ENV = {"complete", "flip", "stop"}
INVARIANT InvFixed
PROPERTY Live
CHECK_DEADLOCK FALSE
