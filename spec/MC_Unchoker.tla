----------------------------- MODULE MC_Unchoker -----------------------------
(***************************************************************************)
(* Exhaustive configurations of the envelope of Unchoker.tla:              *)
(*  - the per-call obligations imply the global invariants (SlotBound,     *)
(*    NoChokedOptimistic) for every interleaving of connects, interest     *)
(*    changes, ticks and disconnects and every rate assignment;            *)
(*  - the obligations are jointly satisfiable in every reachable state     *)
(*    (TickPossible / FastPossible): the judge can never reject every      *)
(*    possible behaviour of an implementation;                             *)
(*  - liveness (LiveSpec, X01.l): with strong fairness of "the draw picks  *)
(*    p" a peer that stays connected, interested and choked is eventually  *)
(*    unchoked although it is ALWAYS the slowest (VICTIM has rate 0, all   *)
(*    others rate 1), i.e. through the optimistic slot; the obligations    *)
(*    (in particular the hold clause X01.f) do not prevent rotation.       *)
(*    With M = 0 the same property fails (MC_Unchoker_live_m0.cfg is       *)
(*    expected to produce a counterexample): fairness needs the slot.      *)
(***************************************************************************)
EXTENDS Unchoker
CONSTANTS NPEERS, NN, MM, RMAX, VICTIM

MCInit == InitWith([npeers |-> NPEERS, N |-> NN, M |-> MM])

Rates == IF VICTIM = 0 THEN [Peer -> 0 .. RMAX]
         ELSE {[p \in Peer |-> IF p = VICTIM THEN 0 ELSE 1]}

\* Only X01.g depends on the rates and equal rates satisfy it trivially: Tick(r, x) for some r  <=>  Tick(equal rates, x).
\* The successor states are therefore enumerated with equal rates; all rate assignments are covered by TickPossible.
TickRates == IF VICTIM = 0 THEN {[p \in Peer |-> 0]} ELSE Rates
MCTick == \E r \in TickRates, st \in Results : Tick(r, ChkOf(st), OptFlagOf(st))

MCNext ==
    \/ \E p \in Peer : Connect(p) \/ Disconnect(p) \/ NotInterested(p)
    \/ \E p \in Peer, st \in Results : Interested(p, ChkOf(st), OptFlagOf(st))
    \/ MCTick

MCSpec == MCInit /\ [][MCNext]_vars

TickPossible == \A r \in Rates : \E st \in Results : TickOK(r, ChkOf(st), OptFlagOf(st))
FastPossible == \A p \in C : \E st \in Results : FastOK(p, ChkOf(st), OptFlagOf(st))

Inv == TypeOK /\ SlotBound /\ NoChokedOptimistic /\ TickPossible /\ FastPossible

(* liveness *)
TickUnchokes(p) == \E r \in TickRates, st \in Results : Tick(r, ChkOf(st), OptFlagOf(st)) /\ chk[p] /\ st[p] # 0
LiveSpec == MCSpec /\ WF_vars(MCTick) /\ SF_vars(TickUnchokes(VICTIM))
Waiting(p) == conn[p] /\ intr[p] /\ chk[p]
EventuallyUnchoked == []<>(~Waiting(VICTIM))
=============================================================================
