SPECIFICATION TraceSpec
CONSTANTS
  MaxHist = 0
  AsIs = {}
CONSTRAINT HighWater
POSTCONDITION TraceAccepted
CHECK_DEADLOCK FALSE
