SPECIFICATION MCSpec
CONSTANTS
  THREE = FALSE
INVARIANT NoPadSkipHole
CHECK_DEADLOCK FALSE
