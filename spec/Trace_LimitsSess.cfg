SPECIFICATION TraceSpec
CONSTRAINT HighWater
CONSTRAINT CleanOnly
POSTCONDITION TraceAccepted
CHECK_DEADLOCK FALSE
