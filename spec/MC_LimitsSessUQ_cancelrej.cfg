SPECIFICATION Spec
CONSTANTS
  CAP = 2
  N = 6
  STRICT = TRUE
  CANCELREJ = TRUE
  FAST = TRUE
INVARIANT FloodBound
CHECK_DEADLOCK FALSE
