------------------------------ MODULE Metainfo ------------------------------
(***************************************************************************)
(* Property C06: untrusted metainfo is rejected or well-formed; starting   *)
(* it terminates with work bounded by the input.                           *)
(*                                                                         *)
(* Code modelled: internal/metainfo/info.go NewInfo (what it must          *)
(* guarantee about an accepted description), torrent/session_add.go and    *)
(* session_load.go (MaxPieces / MaxTorrentSize) and the piece-construction *)
(* loop internal/piece/piece.go NewPieces (one action PieceStep per        *)
(* iteration of its inner loop).                                           *)
(*                                                                         *)
(* The obligation is ONE-DIRECTIONAL: nothing is said about which inputs   *)
(* must be accepted; an accepted description must be WellFormed and the    *)
(* piece construction over it must take at most N + #files section steps.  *)
(*                                                                         *)
(* Real torrents carry 64-bit quantities, TLC integers are 32 bit: all     *)
(* quantities are little-endian limb sequences in a base P.b ("big         *)
(* naturals", sign kept separately).  The same operators are used with a   *)
(* tiny base in MC_Metainfo (where they are checked against plain integer  *)
(* arithmetic, carries included) and with base 10000 in Trace_Metainfo.    *)
(***************************************************************************)
EXTENDS Integers, Sequences, FiniteSets, TLC

W == 8   \* limbs per number; 10000^8 > 2^96 > any sum/product met in a trace

\* ---------------------------------------------------------------- big naturals
Pad(s) == [i \in 1 .. W |-> IF i <= Len(s) THEN s[i] ELSE 0]
ZeroN == [i \in 1 .. W |-> 0]
IsZeroN(x) == \A i \in 1 .. W : x[i] = 0
LessN(x, y) == \E i \in 1 .. W : x[i] < y[i] /\ \A j \in (i + 1) .. W : x[j] = y[j]
LeqN(x, y) == ~LessN(y, x)

RECURSIVE AddC(_, _, _, _, _)
AddC(b, x, y, i, c) ==
    IF i > W THEN <<>>
    ELSE LET s == x[i] + y[i] + c IN <<s % b>> \o AddC(b, x, y, i + 1, s \div b)
AddN(b, x, y) == Pad(AddC(b, x, y, 1, 0))

RECURSIVE ConvS(_, _, _, _)
ConvS(x, y, k, i) == IF i > k THEN 0 ELSE x[i] * y[k + 1 - i] + ConvS(x, y, k, i + 1)
RECURSIVE MulC(_, _, _, _, _)
MulC(b, x, y, k, c) ==
    IF k > W THEN <<>>
    ELSE LET s == ConvS(x, y, k, 1) + c IN <<s % b>> \o MulC(b, x, y, k + 1, s \div b)
\* precondition (asserted by the users): x and y have at most 3 non-zero limbs
MulN(b, x, y) == Pad(MulC(b, x, y, 1, 0))
Short(x) == \A i \in 4 .. W : x[i] = 0

RECURSIVE ToLimbs(_, _)
ToLimbs(b, k) == IF k = 0 THEN <<>> ELSE <<k % b>> \o ToLimbs(b, k \div b)
FromInt(b, k) == Pad(ToLimbs(b, k))

RECURSIVE SumFrom(_, _, _)
SumFrom(b, xs, i) == IF i > Len(xs) THEN ZeroN ELSE AddN(b, Pad(xs[i].m), SumFrom(b, xs, i + 1))

\* ---------------------------------------------------------------- C06: WellFormed
\* r = [pl, n : limbs;  lens : Seq([neg : 0..1, m : limbs]);  lim : 0..1;  maxn, size, maxsz : limbs]
\* P = [b : base, imax : limbs of the largest signed machine integer (2^63-1 in traces)]
\* @obligation C06.wellformed.pl        piece length > 0
\* @obligation C06.wellformed.n         at least one piece
\* @obligation C06.wellformed.neglen    every file length >= 0
\* @obligation C06.wellformed.overflow  the true sum of the lengths fits the machine integer
\* @obligation C06.wellformed.sum       0 <= N*PL - Sum < PL
\* @obligation C06.wellformed.maxpieces N <= MaxPieces      (session paths only, lim = 1)
\* @obligation C06.wellformed.maxsize   description size <= MaxTorrentSize (session paths only)
WFViol(P, r) ==
    LET pl == Pad(r.pl)
        n  == Pad(r.n)
    IN
    IF IsZeroN(pl) THEN "C06.wellformed.pl"
    ELSE IF IsZeroN(n) THEN "C06.wellformed.n"
    ELSE IF \E i \in 1 .. Len(r.lens) : r.lens[i].neg = 1 /\ ~IsZeroN(Pad(r.lens[i].m)) THEN "C06.wellformed.neglen"
    ELSE LET sum == SumFrom(P.b, r.lens, 1)
             tot == MulN(P.b, n, pl)
         IN
         IF LessN(Pad(P.imax), sum) THEN "C06.wellformed.overflow"
         ELSE IF LessN(tot, sum) \/ ~LessN(tot, AddN(P.b, sum, pl)) THEN "C06.wellformed.sum"
         ELSE IF r.lim = 1 /\ LessN(Pad(r.maxn), n) THEN "C06.wellformed.maxpieces"
         ELSE IF r.lim = 1 /\ LessN(Pad(r.maxsz), Pad(r.size)) THEN "C06.wellformed.maxsize"
         ELSE ""

\* @obligation C06.work  piece construction takes at most N + #files section steps
WorkBound(P, r) == AddN(P.b, Pad(r.n), FromInt(P.b, Len(r.lens)))
WorkViol(P, r, steps) == IF LessN(WorkBound(P, r), Pad(steps)) THEN "C06.work" ELSE ""

\* ---------------------------------------------------------------- design model of NewPieces
(* Abstract run of piece.NewPieces over an info with small integers.  The   *)
(* state is the set of local variables of the Go function; one PieceStep is *)
(* one iteration of the inner loop (= one file section appended).           *)
VARIABLES info,   \* [pl, n, lens]  small integers
          st      \* [pc, i, left, fi, fo, tot, steps, plen]
mvars == <<info, st>>

RECURSIVE SumInts(_, _)
SumInts(xs, i) == IF i > Len(xs) THEN 0 ELSE xs[i] + SumInts(xs, i + 1)
MinI(a, b) == IF a < b THEN a ELSE b

\* the same definition over plain integers; MAXI plays the role of 2^63-1
SmallWFViol(f, MAXI) ==
    IF f.pl <= 0 THEN "C06.wellformed.pl"
    ELSE IF f.n <= 0 THEN "C06.wellformed.n"
    ELSE IF \E i \in 1 .. Len(f.lens) : f.lens[i] < 0 THEN "C06.wellformed.neglen"
    ELSE IF SumInts(f.lens, 1) > MAXI THEN "C06.wellformed.overflow"
    ELSE IF ~(0 <= f.n * f.pl - SumInts(f.lens, 1) /\ f.n * f.pl - SumInts(f.lens, 1) < f.pl) THEN "C06.wellformed.sum"
    ELSE ""

\* ---------------------------------------------------------------- design model of the parser's layout rule
(* A raw info dictionary d = [pl, n (hashes in the pieces string), len, files] may carry BOTH the single-file key         *)
(* "length" and a "files" list (HYBRID dictionary; an absent "length" is len = 0, an absent "files" is <<>>).  The parser  *)
(* has to settle on ONE layout and judge the piece count against the lengths of THAT layout (info.go NewInfo: a non-empty *)
(* "files" wins, "length" is ignored).  rule = "add" is the defective variant that counts both: its accepted description  *)
(* has a piece count that its file list does not add up to - piece construction then runs past the last file.             *)
(* MC_Metainfo: ParserSound("files-win") holds over all small raw dictionaries, ParserSound("add") does not.              *)
CodeLength(d, rule) == IF Len(d.files) > 0 THEN SumInts(d.files, 1) + (IF rule = "add" THEN d.len ELSE 0) ELSE d.len
CodeFiles(d) == IF Len(d.files) > 0 THEN d.files ELSE <<d.len>>
CodeAccepts(d, rule, MAXI) ==
    /\ d.pl > 0 /\ d.n > 0
    /\ \A i \in 1 .. Len(d.files) : d.files[i] >= 0
    /\ CodeLength(d, rule) <= MAXI
    /\ LET delta == d.n * d.pl - CodeLength(d, rule) IN delta >= 0 /\ delta < d.pl
ParserSound(Raw, rule, MAXI) ==
    \A d \in Raw : CodeAccepts(d, rule, MAXI) => SmallWFViol([pl |-> d.pl, n |-> d.n, lens |-> CodeFiles(d)], MAXI) = ""
\* every entry path of a session (file, URL body, resume record, info dictionary from a peer for a magnet link) applies
\* the parser's rule AND the limits: the verdict does not depend on the path (Trace_Metainfo judges the lines of the sites
\* add/addl, url, res and mag with the same WFViol, lim = 1).
SessionAccepts(path, d, rule, MAXI, maxn) == CodeAccepts(d, rule, MAXI) /\ d.n <= maxn

Abs(k) == IF k < 0 THEN 0 - k ELSE k
Enc(b, f) == [pl |-> ToLimbs(b, f.pl), n |-> ToLimbs(b, f.n),
              lens |-> [i \in 1 .. Len(f.lens) |-> [neg |-> IF f.lens[i] < 0 THEN 1 ELSE 0, m |-> ToLimbs(b, Abs(f.lens[i]))]],
              lim |-> 0, maxn |-> <<>>, size |-> <<>>, maxsz |-> <<>>]

Start(f) == [pc |-> "run", i |-> 0, left |-> f.pl, fi |-> 1, fo |-> 0, tot |-> 0, steps |-> 0, plen |-> <<>>, cur |-> 0]
Skip == [pc |-> "skip", i |-> 0, left |-> 0, fi |-> 1, fo |-> 0, tot |-> 0, steps |-> 0, plen |-> <<>>, cur |-> 0]

\* piece.go:67-91 (n >= 0 is guaranteed by WellFormed; the run is only started for well-formed infos)
PieceStep ==
    /\ st.pc = "run"
    /\ LET f    == info
           n    == MinI(st.left, f.lens[st.fi] - st.fo)
           left == st.left - n
           tot  == st.tot + n
           fo   == st.fo + n
           cur  == st.cur + n
           brk  == tot = SumInts(f.lens, 1)                 \* `if total == info.Length { break }`
           nf   == ~brk /\ fo = f.lens[st.fi]               \* `if fileLeft() == 0 { nextFile() }`
           oob  == nf /\ st.fi + 1 > Len(f.lens)             \* index out of range in nextFile
           pdone == brk \/ left = 0                          \* inner loop ends: next piece
           lastp == pdone /\ st.i + 1 = f.n
       IN st' = [pc    |-> IF oob THEN "oob" ELSE IF lastp THEN "done" ELSE "run",
                 i     |-> IF pdone THEN st.i + 1 ELSE st.i,
                 left  |-> IF pdone THEN f.pl ELSE left,
                 fi    |-> IF nf /\ ~oob THEN st.fi + 1 ELSE st.fi,
                 fo    |-> IF nf THEN 0 ELSE fo,
                 tot   |-> tot,
                 steps |-> st.steps + 1,
                 plen  |-> IF pdone THEN Append(st.plen, cur) ELSE st.plen,
                 cur   |-> IF pdone THEN 0 ELSE cur]
    /\ UNCHANGED info

\* design-level theorem checked by MC_Metainfo: for every well-formed info the loop terminates
\* without an index error within N + #files steps and the pieces tile the torrent
DesignInv(MAXI) ==
    /\ st.pc # "oob"
    /\ st.pc \in {"run", "done"} => st.steps <= info.n + Len(info.lens)
    /\ st.pc = "run" => st.fi \in 1 .. Len(info.lens) /\ st.i < info.n
    /\ st.pc = "done" =>
          /\ st.tot = SumInts(info.lens, 1)
          /\ Len(st.plen) = info.n
          /\ \A k \in 1 .. info.n - 1 : st.plen[k] = info.pl
          /\ st.plen[info.n] = SumInts(info.lens, 1) - (info.n - 1) * info.pl
          /\ st.plen[info.n] >= 1
=============================================================================
