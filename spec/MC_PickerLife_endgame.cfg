SPECIFICATION LifeSpec
CONSTANTS
  NP = 2
  NPEERS = 3
  NSRC = 0
  LIMIT = 2
  SEQ = FALSE
  EDGE = {0, 1}
  AFP = {}
  AFS = {0}
  HAVES = {{0, 1}}
INVARIANT Inv
VIEW LifeView
CHECK_DEADLOCK FALSE
