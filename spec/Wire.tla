-------------------------------- MODULE Wire --------------------------------
(***************************************************************************)
(* One direction of a peer connection: the local writer (btconn handshake  *)
(* + peerconn/peerwriter) serialises a script of messages with the         *)
(* reference codec (WireCodec), the transport delivers the bytes in        *)
(* arbitrary fragments, the remote reader (same code base: btconn          *)
(* readHandshake + peerconn/peerreader) reassembles and decodes them.      *)
(*                                                                         *)
(* Writer behaviour that is visible on the wire and modelled here:         *)
(*   - every message is one frame, frames are written in script order;     *)
(*   - a "piece" for a request that was already served on this connection  *)
(*     is answered with a fast-extension "reject" instead (peerwriter's    *)
(*     servedRequests);                                                    *)
(*   - the upload counter grows by the block length of every piece frame.  *)
(* Queue limits, choke-cancels and rate limiting decide WHETHER a piece is *)
(* sent, not how it is encoded; the drivers keep them out of the way.      *)
(*                                                                         *)
(* @obligation C11.frame      4-byte big-endian length prefix = bytes that follow; one frame per message, nothing else *)
(* @obligation C11.id         message id byte as in BEP 3 / 6 / 10                                                     *)
(* @obligation C11.fields     fixed fields big-endian in protocol order                                                *)
(* @obligation C11.ext        extended id byte + canonical bencoded dictionary (+ raw metadata piece)                  *)
(* @obligation C11.payload    block / bitfield / metadata bytes verbatim                                               *)
(* @obligation C11.handshake  68-byte handshake layout                                                                 *)
(* @obligation C11.keepalive  keep-alive = four zero bytes                                                             *)
(* @obligation C11.roundtrip  reader(any fragmentation of Encode(m1..mk)) = m1..mk                                     *)
(* @obligation C11.upcount    reported upload bytes = payload bytes of the piece frames written                        *)
(*                            -- including a frame that the transport took only in part (FAULT, below)                 *)
(*                                                                         *)
(* TIME is part of the fragmentation: between two deliveries the transport *)
(* may stay silent until the reader's read deadline expires (Timeout).     *)
(* The reader tolerates an expired deadline only inside the body of a      *)
(* block ("piece") of which it received at least one byte since it armed   *)
(* the deadline (peerreader.readPiece: a slow peer keeps the connection);  *)
(* a tolerated timeout changes NOTHING in the reader - in particular not   *)
(* the position inside the block or the stream - any other expired         *)
(* deadline closes the connection (what was delivered before stays a       *)
(* prefix of what was written).                                            *)
(*                                                                         *)
(* FAULT (environment): the connection may break WHILE the writer hands a  *)
(* frame to the transport - the transport takes only the first k bytes of  *)
(* the frame (0 <= k < frame length; conn.Write returns k and an error) -  *)
(* SendCut.  Nothing is written afterwards.  "Payload bytes actually sent" *)
(* then counts, for a piece frame, the k - 13 block bytes the transport    *)
(* took (none while k <= 13), NOT the block length of the request; the     *)
(* invariant UploadCount states it at the receiving end: the bytes of      *)
(* complete blocks plus the body bytes of the truncated one.               *)
(***************************************************************************)
EXTENDS WireCodec

VARIABLES script,   \* sequence of messages handed to the writer (a leading handshake is allowed)
          ns,       \* how many of them have been written
          net,      \* bytes written and not yet delivered
          wr,       \* writer: [upl, served, log, cut]   log = messages completely emitted;
                    \*         cut = -1: connection intact, k >= 0: it broke after the transport took k bytes of a frame
          rd,       \* remote reader, see WireCodec!RdInit
          tm        \* reader and time: [got |-> a body byte of the current block arrived since the deadline was armed,
                    \*                   closed |-> the reader gave up after an expired deadline]

vars == <<script, ns, net, wr, rd, tm>>

PLenLimbs(m) == << PLen(m) \div 65536, PLen(m) % 65536 >>
ReqOf(m)     == << m.index, m.begin, PLenLimbs(m) >>
RejectOf(m)  == [k |-> "reject", index |-> m.index, begin |-> m.begin, length |-> PLenLimbs(m)]
IsDup(w, m)  == m.k = "piece" /\ ReqOf(m) \in w.served

WrInit == [upl |-> 0, served |-> {}, log |-> <<>>, cut |-> -1]
Broken(w) == w.cut >= 0
\* what the writer puts on the wire for m
Emitted(w, m) == IF IsDup(w, m) THEN RejectOf(m) ELSE m
WrStep(w, m) ==
    LET x == Emitted(w, m) IN
    [upl |-> w.upl + (IF x.k = "piece" THEN PLen(x) ELSE 0),
     served |-> IF x.k = "piece" THEN w.served \cup {ReqOf(x)} ELSE w.served,
     log |-> Append(w.log, x), cut |-> w.cut]
\* block bytes among the first k bytes of the frame of x (13 = length prefix + id + index + begin)
PayloadTaken(x, k) == IF x.k = "piece" /\ k > 13 THEN k - 13 ELSE 0
\* the write of m was cut short after k bytes
WrCut(w, m, k) ==
    LET x == Emitted(w, m) IN
    [upl |-> w.upl + PayloadTaken(x, k),
     served |-> IF x.k = "piece" THEN w.served \cup {ReqOf(x)} ELSE w.served,
     log |-> w.log, cut |-> k]

HasHs(s) == s # <<>> /\ s[1].k = "handshake"

\* the reader holds the complete 13-byte header of a block and waits for (more of) its body
InBlock(r)  == ~r.err /\ r.phase = "msg" /\ Len(r.buf) >= 13 /\ r.buf[5] = 7
BodyHave(r) == Len(r.buf) - 13
\* the rule of the reader for an expired read deadline (used by the trace specification as well)
Tolerated(inBlock, got) == inBlock /\ got
TmInit == [got |-> FALSE, closed |-> FALSE]
\* after k bytes were handed over: "got" for the block that is now being read
GotAfter(r, r2, k, g) ==
    IF ~InBlock(r2) THEN FALSE
    ELSE IF InBlock(r) /\ Len(r2.buf) = Len(r.buf) + k THEN TRUE          \* same block, k >= 1 more body bytes
    ELSE BodyHave(r2) > 0                                                  \* a new block: bytes that came with its header count

InitWith(s) ==
    /\ script = s /\ ns = 0 /\ net = <<>> /\ wr = WrInit /\ rd = RdInit(HasHs(s)) /\ tm = TmInit

\* the writer serialises the next message (any admissible encoding of it)
Send ==
    /\ ns < Len(script) /\ ~Broken(wr)
    /\ LET m == script[ns + 1] IN
       /\ \E e \in Encodings(Emitted(wr, m)) : net' = net \o e
       /\ wr' = WrStep(wr, m)
    /\ ns' = ns + 1
    /\ UNCHANGED <<script, rd, tm>>

\* FAULT: the connection breaks while the next frame is being written; the transport took its first k bytes
SendCut ==
    /\ ns < Len(script) /\ ~Broken(wr)
    /\ LET m == script[ns + 1] IN
       \E e \in Encodings(Emitted(wr, m)) : \E k \in 0 .. Len(e) - 1 :
          /\ net' = net \o SubSeq(e, 1, k)
          /\ wr' = WrCut(wr, m, k)
    /\ UNCHANGED <<script, ns, rd, tm>>

\* the transport hands the first k pending bytes to the reader
Deliver(k) ==
    /\ ~tm.closed
    /\ k \in 1 .. Len(net)
    /\ rd' = Feed(rd, SubSeq(net, 1, k))
    /\ net' = SubSeq(net, k + 1, Len(net))
    /\ tm' = [tm EXCEPT !.got = GotAfter(rd, rd', k, tm.got)]
    /\ UNCHANGED <<script, ns, wr>>

\* the transport stays silent until the reader's deadline expires.  A tolerated timeout re-arms the deadline and
\* leaves the reader exactly where it was; every other one ends the connection.
Timeout ==
    /\ ~tm.closed
    /\ tm' = IF Tolerated(InBlock(rd), tm.got) THEN [tm EXCEPT !.got = FALSE] ELSE [tm EXCEPT !.closed = TRUE]
    /\ UNCHANGED <<script, ns, net, wr, rd>>

Next == ~tm.closed /\ (Send \/ (\E k \in 1 .. Len(net) : Deliver(k)) \/ Timeout)
\* with the write fault
NextF == Next \/ (~tm.closed /\ SendCut)

-----------------------------------------------------------------------------
Expected == SelectSeq(wr.log, Visible)

\* C11.roundtrip, safety half: never an error, never a message that was not sent, order kept
ReaderPrefix == ~rd.err /\ IsPrefix(rd.out, Expected)
\* C11.roundtrip, completeness half: once every written byte is delivered the reader has produced
\* exactly the messages written and holds no partial frame -- for every fragmentation
\* and every sequence of deadline expiries that the reader tolerates
\* (after a cut write it holds exactly the k bytes of the truncated frame and never delivers that message)
ReaderComplete == (net = <<>> /\ ~tm.closed) => (rd.out = Expected /\ Len(rd.buf) = (IF Broken(wr) THEN wr.cut ELSE 0))

RECURSIVE SumPiece(_)
SumPiece(q) == IF q = <<>> THEN 0 ELSE (IF Head(q).k = "piece" THEN Len(Head(q).payload) ELSE 0) + SumPiece(Tail(q))
\* C11.upcount: what the writer reports equals the block bytes the remote side received
\* (complete blocks + the body bytes of a block whose frame was cut short by a connection break)
UploadCount == (net = <<>> /\ ~tm.closed) => wr.upl = SumPiece(rd.out) + (IF InBlock(rd) THEN BodyHave(rd) ELSE 0)
\* a reader that is inside a block with fresh bytes is never closed by ONE expired deadline (liveness of slow peers,
\* stated as a safety property of the step): checked as an action property in MC_Wire (SlowPeerKept)
SlowPeerKept == [][(InBlock(rd) /\ tm.got /\ ~tm.closed /\ net' = net /\ ns' = ns) => (~tm'.closed /\ rd' = rd)]_vars

Inv == ReaderPrefix /\ ReaderComplete /\ UploadCount
=============================================================================
