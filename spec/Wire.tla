-------------------------------- MODULE Wire --------------------------------
(***************************************************************************)
(* One direction of a peer connection: the local writer (btconn handshake  *)
(* + peerconn/peerwriter) serialises a script of messages with the         *)
(* reference codec (WireCodec), the transport delivers the bytes in        *)
(* arbitrary fragments, the remote reader (same code base: btconn          *)
(* readHandshake + peerconn/peerreader) reassembles and decodes them.      *)
(*                                                                         *)
(* Writer behaviour that is visible on the wire and modelled here:         *)
(*   - every message is one frame, frames are written in script order;     *)
(*   - a "piece" for a request that was already served on this connection  *)
(*     is answered with a fast-extension "reject" instead (peerwriter's    *)
(*     servedRequests);                                                    *)
(*   - the upload counter grows by the block length of every piece frame.  *)
(* Queue limits, choke-cancels and rate limiting decide WHETHER a piece is *)
(* sent, not how it is encoded; the drivers keep them out of the way.      *)
(*                                                                         *)
(* @obligation C11.frame      4-byte big-endian length prefix = bytes that follow; one frame per message, nothing else *)
(* @obligation C11.id         message id byte as in BEP 3 / 6 / 10                                                     *)
(* @obligation C11.fields     fixed fields big-endian in protocol order                                                *)
(* @obligation C11.ext        extended id byte + canonical bencoded dictionary (+ raw metadata piece)                  *)
(* @obligation C11.payload    block / bitfield / metadata bytes verbatim                                               *)
(* @obligation C11.handshake  68-byte handshake layout                                                                 *)
(* @obligation C11.keepalive  keep-alive = four zero bytes                                                             *)
(* @obligation C11.roundtrip  reader(any fragmentation of Encode(m1..mk)) = m1..mk                                     *)
(* @obligation C11.upcount    reported upload bytes = payload bytes of the piece frames written                        *)
(***************************************************************************)
EXTENDS WireCodec

VARIABLES script,   \* sequence of messages handed to the writer (a leading handshake is allowed)
          ns,       \* how many of them have been written
          net,      \* bytes written and not yet delivered
          wr,       \* writer: [upl, served, log]   log = messages actually emitted
          rd        \* remote reader, see WireCodec!RdInit

vars == <<script, ns, net, wr, rd>>

PLenLimbs(m) == << PLen(m) \div 65536, PLen(m) % 65536 >>
ReqOf(m)     == << m.index, m.begin, PLenLimbs(m) >>
RejectOf(m)  == [k |-> "reject", index |-> m.index, begin |-> m.begin, length |-> PLenLimbs(m)]
IsDup(w, m)  == m.k = "piece" /\ ReqOf(m) \in w.served

WrInit == [upl |-> 0, served |-> {}, log |-> <<>>]
\* what the writer puts on the wire for m
Emitted(w, m) == IF IsDup(w, m) THEN RejectOf(m) ELSE m
WrStep(w, m) ==
    LET x == Emitted(w, m) IN
    [upl |-> w.upl + (IF x.k = "piece" THEN PLen(x) ELSE 0),
     served |-> IF x.k = "piece" THEN w.served \cup {ReqOf(x)} ELSE w.served,
     log |-> Append(w.log, x)]

HasHs(s) == s # <<>> /\ s[1].k = "handshake"

InitWith(s) ==
    /\ script = s /\ ns = 0 /\ net = <<>> /\ wr = WrInit /\ rd = RdInit(HasHs(s))

\* the writer serialises the next message (any admissible encoding of it)
Send ==
    /\ ns < Len(script)
    /\ LET m == script[ns + 1] IN
       /\ \E e \in Encodings(Emitted(wr, m)) : net' = net \o e
       /\ wr' = WrStep(wr, m)
    /\ ns' = ns + 1
    /\ UNCHANGED <<script, rd>>

\* the transport hands the first k pending bytes to the reader
Deliver(k) ==
    /\ k \in 1 .. Len(net)
    /\ rd' = Feed(rd, SubSeq(net, 1, k))
    /\ net' = SubSeq(net, k + 1, Len(net))
    /\ UNCHANGED <<script, ns, wr>>

Next == Send \/ \E k \in 1 .. Len(net) : Deliver(k)

-----------------------------------------------------------------------------
Expected == SelectSeq(wr.log, Visible)

\* C11.roundtrip, safety half: never an error, never a message that was not sent, order kept
ReaderPrefix == ~rd.err /\ IsPrefix(rd.out, Expected)
\* C11.roundtrip, completeness half: once every written byte is delivered the reader has produced
\* exactly the messages written and holds no partial frame -- for every fragmentation
ReaderComplete == (net = <<>>) => (rd.out = Expected /\ rd.buf = <<>>)

RECURSIVE SumPiece(_)
SumPiece(q) == IF q = <<>> THEN 0 ELSE (IF Head(q).k = "piece" THEN Len(Head(q).payload) ELSE 0) + SumPiece(Tail(q))
\* C11.upcount: what the writer reports equals the block bytes the remote side received
UploadCount == (net = <<>>) => wr.upl = SumPiece(rd.out)

Inv == ReaderPrefix /\ ReaderComplete /\ UploadCount
=============================================================================
