SPECIFICATION MCSpec
CONSTANTS
  NP = 2
  NF = 3
  FO <- Geo2x3
  SYNC = TRUE
  WERR = "first"
  DESIGN = "safe"
INVARIANT Inv
CHECK_DEADLOCK FALSE
