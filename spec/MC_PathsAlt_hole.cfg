SPECIFICATION MCSpec
CONSTANTS
  SYMS = {"L", "D"}
  MAXLEN = 2
INVARIANT NoOrderHole
CHECK_DEADLOCK FALSE
