SPECIFICATION MCSpec
CONSTANTS
  IDS = {"a"}
  RANGE = {1, 2}
  K = 1
  ATOMIC = TRUE
  FULL = TRUE
  SPARSE = FALSE
  STORAGE = TRUE
INVARIANT Inv
CHECK_DEADLOCK FALSE
