------------------------------- MODULE Upload -------------------------------
(***************************************************************************)
(* Upload path of rain (property C03): request validation in              *)
(* torrent/torrent_messagehandler.go (RequestMessage / CancelMessage),    *)
(* the 16 KiB cap of internal/peerconn/peerreader, the queue of            *)
(* internal/peerconn/peerwriter (queueMessage / cancelRequest /           *)
(* cancelQueuedPieceMessages / servedRequests), the choke state driven by  *)
(* internal/unchoker, the allowed-fast set of internal/peer and the read   *)
(* path internal/cachedpiece over internal/piececache.                     *)
(*                                                                         *)
(* Two halves share this module:                                           *)
(*  - rain's half (rvars): what the code does with a message; the unchoker *)
(*    and the cache are ENVELOPES (choke/unchoke at any time, any entry    *)
(*    may be evicted at any time = "whatever the cache holds").            *)
(*  - the leecher's half (lvars): what an independent peer knows from the  *)
(*    bytes on its socket only: requests it sent and that are still        *)
(*    unanswered, the last choke/unchoke and the allowed-fast messages it  *)
(*    received.  The obligations of C03 are stated over this half          *)
(*    (PieceViol) and are evaluated when a piece message is delivered.     *)
(* MC_Upload composes both halves (every delivery of the design satisfies  *)
(* the obligations, for every interleaving); Trace_Upload evolves only the *)
(* leecher's half from the events recorded by the scripted leecher that    *)
(* talks to a real seeding Session (harness/c03).                          *)
(*                                                                         *)
(* Bytes are abstract: byte k of piece p is the number p*1000+k, a byte of *)
(* a piece that is not verified is -1.                                     *)
(***************************************************************************)
EXTENDS Integers, FiniteSets, Sequences, TLC

VARIABLES cfg,         \* [np, plen (sequence, plen[i+1] = length of piece i), maxblk, maxq, cb, nconn, impl, afsend,
                       \*  afcheck, shortread, twophase, bufs]   (the last four: round-3 axes, see xvars below)
                       \*   afsend = "all"  : an allowed-fast message goes out for EVERY piece entered in Peer.SentAllowedFast (design)
                       \*   afsend = "held" : ... only for the pieces that are verified at that moment, the others are entered
                       \*                     silently (expected-fail variant: a piece obtained later is served to a choked peer
                       \*                     that was never told so)
          have,        \* set of verified pieces
          \* ---- rain's half, per connection
          open,        \* [Conn -> BOOLEAN]
          fast,        \* [Conn -> BOOLEAN]   fast extension negotiated
          choking,     \* [Conn -> BOOLEAN]   rain chokes the peer (Peer.ClientChoking)
          interested,  \* [Conn -> BOOLEAN]
          af,          \* [Conn -> SUBSET Piece]  Peer.SentAllowedFast
          inq,         \* [Conn -> Seq(Msg)]  leecher -> rain, in flight
          wq,          \* [Conn -> Seq(Msg)]  PeerWriter.writeQueue
          served,      \* [Conn -> SUBSET Req]  PeerWriter.servedRequests
          wire,        \* [Conn -> Seq(Msg)]  rain -> leecher, in flight
          cache,       \* function: subset of (piece, cache block) -> content
          \* ---- rain's half, round-3 axes (xvars)
          raf,         \* [Conn -> SUBSET Piece]  Peer.ReceivedAllowedFast: allowed-fast messages the PEER sent to rain (they grant
                       \*   rain downloads from that peer; they must never widen what rain serves to it: cfg.afcheck = "sent" is
                       \*   the design, "received" the expected-fail variant that consults the wrong set)
          cut,         \* [Piece -> 0 .. PLen]  environment fault: the storage under piece p ends after cut[p] bytes (file truncated
                       \*   behind the client's back); PLen(p) = intact.  A storage read of a cache block that reaches beyond it
                       \*   comes back short.  cfg.shortread = "error": the writer ends, the connection is closed (design);
                       \*   "eof": a block read that returns 0 bytes is taken for a regular end and the message goes out with the
                       \*   bytes collected so far (the code as found; expected-fail variant, C03.length)
          hold,        \* [Conn -> Seq(rec)] of length 0 or 1: the piece message whose bytes the writer of c has fetched from the
                       \*   cache but not yet copied to its socket (cfg.twophase: the read is not atomic with evictions and with
                       \*   the loads of other writers).  cfg.bufs = "fresh": a buffer handed out is never written again (design);
                       \*   "reuse": the buffer of an evicted entry is taken for the next load while a reader may still hold it
                       \*   (expected-fail variant, C03.content, needs two concurrent uploads)
          \* ---- leecher's half, per connection
          lopen,       \* [Conn -> BOOLEAN]
          out,         \* [Conn -> Seq(Req)]  requests sent and not yet answered (piece/reject)
          lchoked,     \* [Conn -> BOOLEAN]   last choke/unchoke received (initially choked)
          laf,         \* [Conn -> SUBSET Int] allowed-fast messages received
          lcan,        \* [Conn -> Seq(Req)]  cancels sent and not yet acknowledged by a reject
          bad          \* tag of the first violated obligation ("" = none)

rvars == <<open, fast, choking, interested, af, inq, wq, served, wire, cache>>
xvars == <<raf, cut, hold>>
lvars == <<lopen, out, lchoked, laf, lcan>>
vars  == <<cfg, have, rvars, xvars, lvars, bad>>

EmptyCache == [x \in {} |-> <<>>]

Conn  == 1 .. cfg.nconn
Piece == 0 .. (cfg.np - 1)
PLen(i) == cfg.plen[i + 1]

Min2(a, b) == IF a < b THEN a ELSE b
MinOf(S) == CHOOSE x \in S : \A y \in S : x <= y

M(k, i, b, l, d) == [k |-> k, i |-> i, b |-> b, l |-> l, d |-> d]
R(i, b, l) == [i |-> i, b |-> b, l |-> l]
ReqOf(m) == R(m.i, m.b, m.l)

-----------------------------------------------------------------------------
(* Validity of a request, as the property states it (independent of the    *)
(* code): index in range, non-empty, at most 16 KiB, inside the piece.     *)
(* Values are saturated by the recorder at 2^30, so the sum cannot         *)
(* overflow TLC's integers; the code has to get the 2^32 wrap right.       *)
Valid(i, b, l) ==
    /\ i >= 0 /\ i < cfg.np
    /\ l # 0 /\ l <= cfg.maxblk
    /\ b >= 0 /\ b + l <= PLen(i)

TruthByte(p, k) == p * 1000 + k
Truth(p, b, n)  == [j \in 1 .. n |-> TruthByte(p, b + j - 1)]

-----------------------------------------------------------------------------
(* Read path: internal/cachedpiece.ReadAt over internal/piececache         *)

NBlk(p)        == (PLen(p) + cfg.cb - 1) \div cfg.cb
BlkLen(p, k)   == Min2(cfg.cb, PLen(p) - k * cfg.cb)
\* what the loader reads from storage: truth iff the piece is verified
DiskBlock(p, k) == [j \in 1 .. BlkLen(p, k) |-> IF p \in have THEN TruthByte(p, k * cfg.cb + j - 1) ELSE -1]
BlockContent(p, k) == IF <<p, k>> \in DOMAIN cache THEN cache[<<p, k>>] ELSE DiskBlock(p, k)

\* design ("loop"): every byte comes from the cache block that contains it
ReadLoop(p, off, n) == [j \in 1 .. n |-> BlockContent(p, (off + j - 1) \div cfg.cb)[((off + j - 1) % cfg.cb) + 1]]
\* the code as it is ("single"): copy(p, buf[begin:]) from the one block that contains off
ReadSingle(p, off, n) ==
    LET k == off \div cfg.cb
        beg == off - k * cfg.cb
        buf == BlockContent(p, k)
    IN  SubSeq(buf, beg + 1, Min2(Len(buf), beg + n))
ReadAt(p, off, n) == IF cfg.impl = "single" THEN ReadSingle(p, off, n) ELSE ReadLoop(p, off, n)

\* blocks touched by a read; they are in the cache afterwards (until evicted)
Touched(p, off, n) ==
    IF cfg.impl = "single" THEN {<<p, off \div cfg.cb>>}
    ELSE {<<p, k>> : k \in (off \div cfg.cb) .. ((off + n - 1) \div cfg.cb)}
CacheAfter(p, off, n) ==
    LET t == Touched(p, off, n)
    IN  [key \in (DOMAIN cache) \cup t |-> IF key \in DOMAIN cache THEN cache[key] ELSE DiskBlock(key[1], key[2])]

\* ---- storage fault (round 3): the blocks of a read whose storage read comes back short
StoShort(p, k)      == <<p, k>> \notin DOMAIN cache /\ k * cfg.cb + BlkLen(p, k) > cut[p]
ShortBlks(p, off, n) == {key[2] : key \in {x \in Touched(p, off, n) : StoShort(x[1], x[2])}}
\* number of bytes collected before the first short block (blocks are fetched in ascending order)
BytesBefore(p, off, n) ==
    LET k == MinOf(ShortBlks(p, off, n)) IN IF k * cfg.cb > off THEN k * cfg.cb - off ELSE 0
\* io.ReadFull over the sections: 0 bytes read = io.EOF (a "regular end" for bytes.Buffer.ReadFrom), some = ErrUnexpectedEOF
ZeroByteRead(p, off, n) == cut[p] <= MinOf(ShortBlks(p, off, n)) * cfg.cb

-----------------------------------------------------------------------------
(* The leecher's half: observer state and the obligations of C03           *)

\* @obligation C03.unrequested   a piece message answers an outstanding request (same index, begin) of this connection
\* @obligation C03.length        ... and carries exactly the requested number of bytes
\* @obligation C03.invalidServed requests with length 0, > 16 KiB, out of bounds or index >= N are never answered with data
\* @obligation C03.notHeld       requests for a piece that is not verified are never answered with data
\* @obligation C03.choked        while choked only allowed-fast pieces are served
\* @obligation C03.content       the bytes equal ground truth [begin, begin+length) of the piece
Cands(c, i, b) == {k \in 1 .. Len(out[c]) : out[c][k].i = i /\ out[c][k].b = b}

\* what a peer was GRANTED = the allowed-fast messages that actually reached it on this connection (bytes on the wire), not
\* what rain has entered in its own set: a piece that rain obtains AFTER the connection was opened may be served to the
\* choked peer only if its allowed-fast message was sent
Granted(c) == laf[c]

PieceViol(c, i, b, n, good) ==
    IF i < 0 \/ i >= cfg.np THEN "C03.invalidServed"
    ELSE IF Cands(c, i, b) = {} THEN "C03.unrequested"
    ELSE IF \A k \in Cands(c, i, b) : out[c][k].l # n THEN "C03.length"
    ELSE IF ~Valid(i, b, n) THEN "C03.invalidServed"
    ELSE IF i \notin have THEN "C03.notHeld"
    ELSE IF lchoked[c] /\ i \notin Granted(c) THEN "C03.choked"
    ELSE IF ~good THEN "C03.content"
    ELSE ""

RemoveAt(s, k) == SubSeq(s, 1, k - 1) \o SubSeq(s, k + 1, Len(s))

\* drop the request that a piece message (i, b, n bytes) answers: the oldest one with that length,
\* otherwise (violation already recorded) the oldest with that (index, begin)
OutAfterPiece(c, i, b, n) ==
    LET ex == {k \in Cands(c, i, b) : out[c][k].l = n}
    IN  IF ex # {} THEN RemoveAt(out[c], MinOf(ex))
        ELSE IF Cands(c, i, b) # {} THEN RemoveAt(out[c], MinOf(Cands(c, i, b)))
        ELSE out[c]
\* A reject answers either a cancel (rain acknowledges every cancel of a fast peer with a reject, whether
\* or not the request was still queued) or a request.  It is attributed to a pending cancel first; the
\* request then stays outstanding, which only weakens C03.unrequested (envelope).
CanHits(c, i, b, l) == {k \in 1 .. Len(lcan[c]) : lcan[c][k] = R(i, b, l)}
OutAfterReject(c, i, b, l) ==
    LET ex == {k \in 1 .. Len(out[c]) : out[c][k] = R(i, b, l)}
    IN  IF CanHits(c, i, b, l) # {} THEN out[c]
        ELSE IF ex # {} THEN RemoveAt(out[c], MinOf(ex)) ELSE out[c]
CanAfterReject(c, i, b, l) ==
    IF CanHits(c, i, b, l) # {} THEN RemoveAt(lcan[c], MinOf(CanHits(c, i, b, l))) ELSE lcan[c]

ObsOpen(c) ==
    /\ lopen' = [lopen EXCEPT ![c] = TRUE]
    /\ out' = [out EXCEPT ![c] = <<>>]
    /\ lchoked' = [lchoked EXCEPT ![c] = TRUE]
    /\ laf' = [laf EXCEPT ![c] = {}]
    /\ lcan' = [lcan EXCEPT ![c] = <<>>]
ObsClosed(c) ==
    /\ lopen' = [lopen EXCEPT ![c] = FALSE]
    /\ out' = [out EXCEPT ![c] = <<>>]
    /\ lchoked' = [lchoked EXCEPT ![c] = TRUE]
    /\ laf' = [laf EXCEPT ![c] = {}]
    /\ lcan' = [lcan EXCEPT ![c] = <<>>]
ObsRequest(c, i, b, l) == out' = [out EXCEPT ![c] = Append(@, R(i, b, l))] /\ UNCHANGED <<lopen, lchoked, laf, lcan>>
ObsCancel(c, i, b, l)  == lcan' = [lcan EXCEPT ![c] = Append(@, R(i, b, l))] /\ UNCHANGED <<lopen, out, lchoked, laf>>
ObsChoke(c)   == lchoked' = [lchoked EXCEPT ![c] = TRUE] /\ UNCHANGED <<lopen, out, laf, lcan>>
ObsUnchoke(c) == lchoked' = [lchoked EXCEPT ![c] = FALSE] /\ UNCHANGED <<lopen, out, laf, lcan>>
ObsAF(c, i)   == laf' = [laf EXCEPT ![c] = @ \cup {i}] /\ UNCHANGED <<lopen, out, lchoked, lcan>>
ObsReject(c, i, b, l) ==
    /\ out' = [out EXCEPT ![c] = OutAfterReject(c, i, b, l)]
    /\ lcan' = [lcan EXCEPT ![c] = CanAfterReject(c, i, b, l)]
    /\ UNCHANGED <<lopen, lchoked, laf>>
ObsPiece(c, i, b, n)  == out' = [out EXCEPT ![c] = OutAfterPiece(c, i, b, n)] /\ UNCHANGED <<lopen, lchoked, laf, lcan>>

-----------------------------------------------------------------------------
(* Initial state                                                           *)

I0(c) ==
    [ f |-> [x \in 1 .. c.nconn |-> FALSE],
      t |-> [x \in 1 .. c.nconn |-> TRUE],
      q |-> [x \in 1 .. c.nconn |-> <<>>],
      s |-> [x \in 1 .. c.nconn |-> {}] ]

InitWith(c, h) ==
    LET z == I0(c) IN
    /\ cfg = c /\ have = h
    /\ open = z.f /\ fast = z.f /\ choking = z.t /\ interested = z.f /\ af = z.s
    /\ inq = z.q /\ wq = z.q /\ served = z.s /\ wire = z.q /\ cache = EmptyCache
    /\ raf = z.s /\ cut = [p \in 0 .. (c.np - 1) |-> c.plen[p + 1]] /\ hold = z.q
    /\ lopen = z.f /\ out = z.q /\ lchoked = z.t /\ laf = z.s /\ lcan = z.q
    /\ bad = ""

ResetWith(c, h) ==
    LET z == I0(c) IN
    /\ cfg' = c /\ have' = h
    /\ open' = z.f /\ fast' = z.f /\ choking' = z.t /\ interested' = z.f /\ af' = z.s
    /\ inq' = z.q /\ wq' = z.q /\ served' = z.s /\ wire' = z.q /\ cache' = EmptyCache
    /\ raf' = z.s /\ cut' = [p \in 0 .. (c.np - 1) |-> c.plen[p + 1]] /\ hold' = z.q
    /\ lopen' = z.f /\ out' = z.q /\ lchoked' = z.t /\ laf' = z.s /\ lcan' = z.q
    /\ bad' = ""

-----------------------------------------------------------------------------
(* rain's half                                                             *)

NPieces(q) == Cardinality({k \in 1 .. Len(q) : q[k].k = "piece"})
SelectNot(q, kind) == SelectSeq(q, LAMBDA m : m.k # kind)

\* PeerWriter.queueMessage(Piece): bounded by MaxRequestsIn; overflow is rejected (fast) or dropped
QueuePiece(c, r) ==
    IF NPieces(wq[c]) >= cfg.maxq
    THEN IF fast[c] THEN Append(wq[c], M("reject", r.i, r.b, r.l, <<>>)) ELSE wq[c]
    ELSE Append(wq[c], M("piece", r.i, r.b, r.l, <<>>))

\* a new connection: handshake done, first messages queued (allowed-fast set S only with the fast extension)
Open(c, f, S) ==
    /\ ~open[c] /\ ~lopen[c] /\ wire[c] = <<>>
    /\ open' = [open EXCEPT ![c] = TRUE]
    /\ fast' = [fast EXCEPT ![c] = f]
    /\ choking' = [choking EXCEPT ![c] = TRUE]
    /\ interested' = [interested EXCEPT ![c] = FALSE]
    /\ af' = [af EXCEPT ![c] = IF f THEN S ELSE {}]
    /\ inq' = [inq EXCEPT ![c] = <<>>]
    /\ served' = [served EXCEPT ![c] = {}]
    /\ raf' = [raf EXCEPT ![c] = {}] /\ hold' = [hold EXCEPT ![c] = <<>>] /\ UNCHANGED cut
    /\ LET pcs == IF f THEN (IF cfg.afsend = "held" THEN S \cap have ELSE S) ELSE {}
           \* GenerateAndSendAllowedFastMessages: one message per piece (also for pieces that are not verified yet: the set is
           \* computed once per connection), ascending order is as good as any
           RECURSIVE Afs(_)
           Afs(T) == IF T = {} THEN <<>> ELSE <<M("af", MinOf(T), 0, 0, <<>>)>> \o Afs(T \ {MinOf(T)})
       IN wq' = [wq EXCEPT ![c] = Afs(pcs)]
    /\ ObsOpen(c)
    /\ UNCHANGED <<cfg, have, wire, cache, bad>>

\* torrent.closePeer / reader error: nothing more is queued or written; bytes already written may still arrive
RClose(c) ==
    /\ open' = [open EXCEPT ![c] = FALSE]
    /\ inq' = [inq EXCEPT ![c] = <<>>]
    /\ wq' = [wq EXCEPT ![c] = <<>>]
    /\ served' = [served EXCEPT ![c] = {}]
    /\ wire' = [wire EXCEPT ![c] = Append(@, M("closed", 0, 0, 0, <<>>))]
    /\ hold' = [hold EXCEPT ![c] = <<>>]
    /\ UNCHANGED <<fast, choking, interested, af, cache, raf, cut>>

\* handlePeerMessage, one message from the peer
RHandle(c) ==
    /\ open[c] /\ inq[c] # <<>>
    /\ LET m == Head(inq[c])
           rest == [inq EXCEPT ![c] = Tail(@)]
           push(x) == /\ wq' = [wq EXCEPT ![c] = Append(@, x)] /\ inq' = rest
                      /\ UNCHANGED <<open, fast, choking, interested, af, served, wire, cache, xvars>>
           drop == /\ inq' = rest /\ UNCHANGED <<open, fast, choking, interested, af, wq, served, wire, cache, xvars>>
           \* which of the two allowed-fast sets the choke exception consults
           afset == IF cfg.afcheck = "received" THEN raf[c] ELSE af[c]
       IN CASE m.k = "interested" ->
                 \* FastUnchoke: may unchoke at once (envelope of internal/unchoker)
                 /\ interested' = [interested EXCEPT ![c] = TRUE]
                 /\ inq' = rest
                 /\ \/ /\ choking[c]
                       /\ choking' = [choking EXCEPT ![c] = FALSE]
                       /\ wq' = [wq EXCEPT ![c] = Append(@, M("unchoke", 0, 0, 0, <<>>))]
                    \/ UNCHANGED <<choking, wq>>
                 /\ UNCHANGED <<open, fast, af, served, wire, cache, xvars>>
            [] m.k = "peeraf" ->
                 \* AllowedFastMessage FROM the peer: index check, then PiecePicker.HandleAllowedFast (only while rain
                 \* downloads; the model is the larger behaviour: always recorded).  Nothing else changes.
                 IF m.i >= cfg.np THEN RClose(c)
                 ELSE /\ raf' = [raf EXCEPT ![c] = @ \cup {m.i}] /\ inq' = rest
                      /\ UNCHANGED <<open, fast, choking, interested, af, wq, served, wire, cache, cut, hold>>
            [] m.k = "notinterested" ->
                 /\ interested' = [interested EXCEPT ![c] = FALSE]
                 /\ inq' = rest
                 /\ UNCHANGED <<open, fast, choking, af, wq, served, wire, cache, xvars>>
            [] m.k = "req" ->
                 IF m.l > cfg.maxblk THEN RClose(c)                         \* peerreader: blockSizeError
                 ELSE IF m.i >= cfg.np THEN RClose(c)                       \* invalid request index
                 ELSE IF ~(m.l # 0 /\ m.b + m.l <= PLen(m.i)) THEN RClose(c) \* validPieceRequest (64-bit sum)
                 ELSE IF m.i \notin have THEN push(M("reject", m.i, m.b, m.l, <<>>))
                 ELSE IF choking[c]
                      THEN IF fast[c]
                           THEN IF m.i \in afset
                                THEN /\ wq' = [wq EXCEPT ![c] = QueuePiece(c, ReqOf(m))] /\ inq' = rest
                                     /\ UNCHANGED <<open, fast, choking, interested, af, served, wire, cache, xvars>>
                                ELSE push(M("reject", m.i, m.b, m.l, <<>>))
                           ELSE drop
                      ELSE /\ wq' = [wq EXCEPT ![c] = QueuePiece(c, ReqOf(m))] /\ inq' = rest
                           /\ UNCHANGED <<open, fast, choking, interested, af, served, wire, cache, xvars>>
            [] m.k = "cancel" ->
                 IF m.i >= cfg.np THEN drop
                 ELSE LET hit == {k \in 1 .. Len(wq[c]) : wq[c][k].k = "piece" /\ ReqOf(wq[c][k]) = ReqOf(m)}
                          q1 == IF hit = {} THEN wq[c] ELSE RemoveAt(wq[c], MinOf(hit))
                          q2 == IF fast[c] THEN Append(q1, M("reject", m.i, m.b, m.l, <<>>)) ELSE q1
                      IN /\ wq' = [wq EXCEPT ![c] = q2] /\ inq' = rest
                         /\ UNCHANGED <<open, fast, choking, interested, af, served, wire, cache, xvars>>
    /\ UNCHANGED <<cfg, have, lvars, bad>>

\* unchoker (envelope): choke any unchoked peer, unchoke any interested choked peer, at any time
RChoke(c) ==
    /\ open[c] /\ ~choking[c]
    /\ choking' = [choking EXCEPT ![c] = TRUE]
    \* queueMessage(ChokeMessage): cancelQueuedPieceMessages, then the choke itself
    /\ wq' = [wq EXCEPT ![c] = Append(SelectNot(@, "piece"), M("choke", 0, 0, 0, <<>>))]
    /\ UNCHANGED <<cfg, have, open, fast, interested, af, inq, served, wire, cache, xvars, lvars, bad>>

RUnchoke(c) ==
    /\ open[c] /\ choking[c] /\ interested[c]
    /\ choking' = [choking EXCEPT ![c] = FALSE]
    /\ wq' = [wq EXCEPT ![c] = Append(@, M("unchoke", 0, 0, 0, <<>>))]
    /\ UNCHANGED <<cfg, have, open, fast, interested, af, inq, served, wire, cache, xvars, lvars, bad>>

\* PeerWriter.messageWriter: next queued message goes to the socket; piece data is read now.
\*  - a storage read that comes back short (cut) ends the writer: the connection is closed and NO message goes out
\*    (cfg.shortread = "error"); the code as found sends what it has when the short block returned 0 bytes ("eof")
\*  - cfg.twophase: the bytes are fetched now (hold) and copied to the socket in a later step (RWriteEnd)
Overwrite(d, blk) == [j \in 1 .. Len(d) |-> IF j <= Len(blk) THEN blk[j] ELSE d[j]]
RWrite(c) ==
    /\ open[c] /\ wq[c] # <<>> /\ hold[c] = <<>>
    /\ LET m == Head(wq[c]) IN
       IF m.k = "piece" /\ ReqOf(m) \notin served[c] /\ ShortBlks(m.i, m.b, m.l) # {}
          /\ ~(cfg.shortread = "eof" /\ ZeroByteRead(m.i, m.b, m.l))
       THEN \* read error: messageWriter returns, its deferred conn.Close() hangs up
            /\ RClose(c)
       ELSE
       /\ wq' = [wq EXCEPT ![c] = Tail(@)]
       /\ UNCHANGED <<open, inq, raf, cut>>
       /\ IF m.k = "piece"
          THEN IF ReqOf(m) \in served[c]
               THEN /\ wire' = [wire EXCEPT ![c] = Append(@, M("reject", m.i, m.b, m.l, <<>>))]   \* duplicate request
                    /\ UNCHANGED <<served, cache, hold>>
               ELSE LET n == IF ShortBlks(m.i, m.b, m.l) # {} THEN BytesBefore(m.i, m.b, m.l) ELSE m.l
                        d == IF n = 0 THEN <<>> ELSE ReadAt(m.i, m.b, n)
                        loaded == IF n = 0 THEN {} ELSE Touched(m.i, m.b, n) \ DOMAIN cache
                        \* buffers of evicted entries that other writers still hold are taken for this load ("reuse")
                        victim(o) == /\ cfg.bufs = "reuse" /\ o # c /\ hold[o] # <<>> /\ loaded # {}
                                     /\ \E key \in hold[o][1].keys : key \notin DOMAIN cache
                        blk == LET key == CHOOSE key \in loaded : TRUE IN DiskBlock(key[1], key[2])
                        h1 == [o \in Conn |-> IF victim(o) THEN <<[hold[o][1] EXCEPT !.d = Overwrite(@, blk)]>> ELSE hold[o]]
                    IN /\ served' = [served EXCEPT ![c] = @ \cup {ReqOf(m)}]
                       /\ cache' = IF n = 0 THEN cache ELSE CacheAfter(m.i, m.b, n)
                       /\ IF cfg.twophase
                          THEN /\ hold' = [h1 EXCEPT ![c] = <<[m |-> m, d |-> d, keys |-> Touched(m.i, m.b, m.l)]>>]
                               /\ UNCHANGED wire
                          ELSE /\ wire' = [wire EXCEPT ![c] = Append(@, M("piece", m.i, m.b, m.l, d))]
                               /\ hold' = h1
          ELSE /\ wire' = [wire EXCEPT ![c] = Append(@, m)]
               /\ UNCHANGED <<served, cache, hold>>
    /\ UNCHANGED <<cfg, have, fast, choking, interested, af, lvars, bad>>

\* the writer copies the fetched bytes to its socket (second half of a two-phase read)
RWriteEnd(c) ==
    /\ open[c] /\ hold[c] # <<>>
    /\ LET h == hold[c][1] IN wire' = [wire EXCEPT ![c] = Append(@, M("piece", h.m.i, h.m.b, h.m.l, h.d))]
    /\ hold' = [hold EXCEPT ![c] = <<>>]
    /\ UNCHANGED <<cfg, have, open, fast, choking, interested, af, inq, wq, served, cache, raf, cut, lvars, bad>>

\* environment fault: the storage under a verified piece is cut behind the client's back
Truncate(p, k) ==
    /\ p \in have /\ k >= 0 /\ k < cut[p]
    /\ cut' = [cut EXCEPT ![p] = k]
    /\ UNCHANGED <<cfg, have, rvars, raf, hold, lvars, bad>>

\* piececache: LRU eviction / TTL expiry, abstracted: any entry may disappear at any time
Evict(key) ==
    /\ key \in DOMAIN cache
    /\ cache' = [x \in (DOMAIN cache) \ {key} |-> cache[x]]
    /\ UNCHANGED <<cfg, have, open, fast, choking, interested, af, inq, wq, served, wire, xvars, lvars, bad>>

\* a piece is downloaded and verified (the set only grows while peers are connected)
Verified(p) ==
    /\ p \in Piece \ have
    /\ have' = have \cup {p}
    /\ UNCHANGED <<cfg, rvars, xvars, lvars, bad>>

-----------------------------------------------------------------------------
(* the leecher                                                             *)

\* the leecher writes a message; it is lost if rain has already closed its side
LSend(c, m) ==
    /\ lopen[c]
    /\ inq' = [inq EXCEPT ![c] = IF open[c] THEN Append(@, m) ELSE @]
    /\ IF m.k = "req" THEN ObsRequest(c, m.i, m.b, m.l)
       ELSE IF m.k = "cancel" THEN ObsCancel(c, m.i, m.b, m.l)
       ELSE UNCHANGED lvars
    /\ UNCHANGED <<cfg, have, open, fast, choking, interested, af, wq, served, wire, cache, xvars, bad>>

\* the leecher reads the next message from its socket
LRecv(c) ==
    /\ lopen[c] /\ wire[c] # <<>>
    /\ LET m == Head(wire[c]) IN
       /\ wire' = [wire EXCEPT ![c] = Tail(@)]
       /\ CASE m.k = "piece" ->
                 /\ bad' = IF bad # "" THEN bad ELSE PieceViol(c, m.i, m.b, Len(m.d), m.d = Truth(m.i, m.b, Len(m.d)))
                 /\ ObsPiece(c, m.i, m.b, Len(m.d))
            [] m.k = "reject"  -> ObsReject(c, m.i, m.b, m.l) /\ UNCHANGED bad
            [] m.k = "choke"   -> ObsChoke(c) /\ UNCHANGED bad
            [] m.k = "unchoke" -> ObsUnchoke(c) /\ UNCHANGED bad
            [] m.k = "af"      -> ObsAF(c, m.i) /\ UNCHANGED bad
            [] m.k = "closed"  -> ObsClosed(c) /\ UNCHANGED bad
    /\ UNCHANGED <<cfg, have, open, fast, choking, interested, af, inq, wq, served, cache, xvars>>

\* the leecher hangs up
LClose(c) ==
    /\ lopen[c]
    /\ open' = [open EXCEPT ![c] = FALSE]
    /\ inq' = [inq EXCEPT ![c] = <<>>]
    /\ wq' = [wq EXCEPT ![c] = <<>>]
    /\ served' = [served EXCEPT ![c] = {}]
    /\ wire' = [wire EXCEPT ![c] = <<>>]
    /\ ObsClosed(c)
    /\ hold' = [hold EXCEPT ![c] = <<>>]
    /\ UNCHANGED <<cfg, have, fast, choking, interested, af, cache, raf, cut, bad>>

-----------------------------------------------------------------------------
(* Invariants of the design                                                *)

NoBad == bad = ""

\* PeerWriter: never more than MaxRequestsIn piece messages queued
QueueBound == \A c \in Conn : NPieces(wq[c]) <= cfg.maxq

\* only valid requests for verified pieces are ever queued / recorded as served
QueuedValid ==
    \A c \in Conn :
        /\ \A k \in 1 .. Len(wq[c]) : wq[c][k].k = "piece" => (Valid(wq[c][k].i, wq[c][k].b, wq[c][k].l) /\ wq[c][k].i \in have)
        /\ \A r \in served[c] : Valid(r.i, r.b, r.l) /\ r.i \in have

\* while rain chokes a peer, only allowed-fast pieces wait in its queue
ChokedQueue ==
    \A c \in Conn : (open[c] /\ choking[c]) =>
        \A k \in 1 .. Len(wq[c]) : wq[c][k].k = "piece" => wq[c][k].i \in af[c]

\* whatever the cache holds is ground truth of a verified piece
CacheTruth ==
    \A key \in DOMAIN cache : key[1] \in have /\ cache[key] = Truth(key[1], key[2] * cfg.cb, BlkLen(key[1], key[2]))

\* the leecher's knowledge is a sound view of rain's state (FIFO argument used by C03.choked)
ViewSound ==
    \A c \in Conn : (open[c] /\ lopen[c]) => laf[c] \subseteq af[c]

Inv == NoBad /\ QueueBound /\ QueuedValid /\ ChokedQueue /\ CacheTruth /\ ViewSound
=============================================================================
