SPECIFICATION Spec
CONSTANTS
  TorrentSeq <- T1
  NClients = 3
  Choices <- ChoicesCore
  BgSeq <- BgOne
  Fixed = {}
  Budget = 0
  Unbuffered = {}
  SrcOver <- SrcOverDef
  Allowed <- AnyPick
CONSTRAINT Report
INVARIANT TypeOK
CHECK_DEADLOCK FALSE
