SPECIFICATION Spec
CONSTANTS
  TorrentSeq <- T1
  NClients = 3
  Choices <- ChoicesCore
  BgSeq <- BgOne
  Fixed = {}
  Budget = 0
  Allowed <- AnyPick
CONSTRAINT Report
INVARIANT TypeOK
CHECK_DEADLOCK FALSE
