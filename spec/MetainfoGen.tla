---------------------------- MODULE MetainfoGen ----------------------------
(***************************************************************************)
(* TLC as generator for C06: enumerates bencoded-dictionary STRUCTURES     *)
(* whose fields are drawn from adversarial value sets.  Every case is      *)
(* printed as one JSON object; harness/c06 concretises it (tokens such as  *)
(* "2^63-1" or "pl+1" become exact integers), bencodes it with its own     *)
(* encoder and feeds it to the real parser / piece construction / session. *)
(*                                                                         *)
(*   core  = piece length x pieces-string length x layout x file lengths   *)
(*   var   = ONE peripheral deviation (private encodings, wrong types,     *)
(*           duplicate / unsorted / odd keys, nesting depth, name and path *)
(*           variants, oversized strings, trailing bytes ...)              *)
(* Cases = all cores with var = "none"                                     *)
(*       + a set of representative cores x all deviations.                 *)
(***************************************************************************)
EXTENDS Integers, Sequences, FiniteSets, TLC, Json
CONSTANTS TIER   \* "quick" | "thorough"

PLs     == {"absent", "0", "1", "16384", "2^32-1", "2^32", "-1", "str"}
GoodPLs == {"1", "16384"}
PcsLens == {-1, 0, 19, 20, 21, 40, 100}          \* -1 = key absent
GoodPcs == {20, 40}
Lens    == {"-2^63", "-2^62", "-pl", "-1", "0", "1", "2", "pl-1", "pl", "pl+1", "pl+2", "2^31", "2^62", "2^63-1"}
NegLens == {"-2^63", "-2^62", "-pl", "-1"}
HugeLens == {"2^62", "2^63-1"}
PadModes == {"none", "neg", "tail"}   \* which entries carry attr "p": none / the negative and huge ones / all but the first

SeqsUpTo(S, n) == UNION {[1 .. k -> S] : k \in 0 .. n}

Core(pl, pcs, mode, len, files, pad) ==
    [pl |-> pl, pcs |-> pcs, mode |-> mode, len |-> len, files |-> files, pad |-> pad, var |-> "none"]

\* single-file layouts (and the layouts with neither or both of "length"/"files")
SingleCores == {Core(pl, pcs, "single", len, <<>>, "none") : pl \in PLs, pcs \in PcsLens, len \in Lens \cup {"absent", "str"}}
BothCores   == {Core(pl, pcs, "both", len, <<f>>, "none") : pl \in GoodPLs, pcs \in GoodPcs, len \in Lens, f \in Lens}
\* multi-file layouts: <=2 entries with every piece length / pieces string, 3 entries only where acceptance is possible
Files2Cores == {Core(pl, pcs, "files", "absent", fs, pad) : pl \in PLs, pcs \in PcsLens, fs \in SeqsUpTo(Lens, 2), pad \in {"none", "neg"}}
Files3Cores == {Core(pl, pcs, "files", "absent", fs, pad) : pl \in GoodPLs, pcs \in GoodPcs, fs \in [1 .. 3 -> Lens], pad \in PadModes}
Files3Quick == {c \in Files3Cores : c.pl = "16384" /\ c.pad # "tail"}

Variants ==
    { "priv:i0e", "priv:i1e", "priv:i-1e", "priv:s1", "priv:s0", "priv:s", "priv:list", "priv:dict", "priv:huge",
      "name:absent", "name:int", "name:empty", "name:utf8", "name:list",
      "dup:length", "dup:files", "dup:piecelength", "dup:pieces", "dup:info", "unsorted", "intkey", "emptykey",
      "extra:nest100", "extra:nest10k", "extra:nest200k", "extra:nest3M", "extra:dictnest3M", "info:nest3M",
      "extra:bigstr", "pieces:bigstr", "name:bigstr", "extra:comment11M", "extra:manykeys",
      "files:emptylist", "files:dict", "files:int", "files:listofint", "path:absent", "path:empty", "path:int", "path:str",
      "path:deep", "flen:str", "flen:absent", "flen:list", "attr:int", "attr:p",
      "type:plstr", "type:piecesint", "type:lengthstr", "type:infolist", "type:infostr", "type:toplist", "type:topint",
      "trail:junk", "trail:second", "announce:int", "announcelist:deep", "urllist:int", "urllist:nested",
      "neg0", "leadzero", "plus", "int:empty", "int:huge", "str:neglen", "str:short",
      "pieces:65536", "pieces:65537", "files:1000zero", "files:1000neg" }

RepCores ==
    { Core("16384", 20, "single", "pl", <<>>, "none"),
      Core("16384", 40, "files", "absent", <<"pl", "pl-1">>, "none"),
      Core("16384", 20, "files", "absent", <<"pl", "1", "-1">>, "neg"),
      Core("1", 20, "single", "1", <<>>, "none"),
      Core("0", 20, "single", "0", <<>>, "none") }
RepQuick == { c \in RepCores : c.pl = "16384" }

Cases ==
    LET cores == SingleCores \cup Files2Cores \cup (IF TIER = "quick" THEN Files3Quick ELSE Files3Cores \cup BothCores)
        reps  == IF TIER = "quick" THEN RepQuick ELSE RepCores
    IN cores \cup {[c EXCEPT !.var = v] : c \in reps, v \in Variants}

VARIABLE c
Init == c \in Cases /\ PrintT("@@" \o ToJson(c))
Next == FALSE /\ UNCHANGED c
Spec == Init /\ [][Next]_c
=============================================================================
