---------------------------- MODULE MetainfoGen ----------------------------
(***************************************************************************)
(* TLC as generator for C06: enumerates bencoded-dictionary STRUCTURES     *)
(* whose fields are drawn from adversarial value sets.  Every case is      *)
(* printed as one JSON object; harness/c06 concretises it (tokens such as  *)
(* "2^63-1" or "pl+1" become exact integers), bencodes it with its own     *)
(* encoder and feeds it to the real parser / piece construction / session. *)
(*                                                                         *)
(*   core  = piece length x pieces-string length x layout x file lengths   *)
(*   var   = ONE peripheral deviation (private encodings, wrong types,     *)
(*           duplicate / unsorted / odd keys, nesting depth, name and path *)
(*           variants, oversized strings, trailing bytes ...)              *)
(* Cases = all cores with var = "none"                                     *)
(*       + a set of representative cores x all deviations.                 *)
(***************************************************************************)
EXTENDS Integers, Sequences, FiniteSets, TLC, Json
CONSTANTS TIER   \* "quick" | "thorough"

PLs     == {"absent", "0", "1", "16384", "2^32-1", "2^32", "-1", "str"}
GoodPLs == {"1", "16384"}
PcsLens == {-1, 0, 19, 20, 21, 40, 100}          \* -1 = key absent
GoodPcs == {20, 40}
Lens    == {"-2^63", "-2^62", "-pl", "-1", "0", "1", "2", "pl-1", "pl", "pl+1", "pl+2", "2^31", "2^62", "2^63-1"}
NegLens == {"-2^63", "-2^62", "-pl", "-1"}
HugeLens == {"2^62", "2^63-1"}
PadModes == {"none", "neg", "tail"}   \* which entries carry attr "p": none / the negative and huge ones / all but the first

SeqsUpTo(S, n) == UNION {[1 .. k -> S] : k \in 0 .. n}

Core(pl, pcs, mode, len, files, pad) ==
    [pl |-> pl, pcs |-> pcs, mode |-> mode, len |-> len, files |-> files, pad |-> pad, var |-> "none"]

\* single-file layouts (and the layouts with neither or both of "length"/"files")
SingleCores == {Core(pl, pcs, "single", len, <<>>, "none") : pl \in PLs, pcs \in PcsLens, len \in Lens \cup {"absent", "str"}}
BothCores   == {Core(pl, pcs, "both", len, <<f>>, "none") : pl \in GoodPLs, pcs \in GoodPcs, len \in Lens, f \in Lens}
\* multi-file layouts: <=2 entries with every piece length / pieces string, 3 entries only where acceptance is possible
LensS == {"-1", "0", "pl", "2^63-1"}
Lens3 == {"-2^63", "-pl", "-1", "0", "1", "pl-1", "pl", "pl+1", "2^62", "2^63-1"}
F2a == {Core(pl, pcs, "files", "absent", fs, "neg") : pl \in PLs, pcs \in PcsLens, fs \in SeqsUpTo(LensS, 2)}
F2b == {Core(pl, pcs, "files", "absent", fs, pad) : pl \in GoodPLs, pcs \in GoodPcs, fs \in SeqsUpTo(Lens, 2), pad \in {"none", "neg"}}
F2c == {Core(pl, pcs, "files", "absent", fs, pad) : pl \in PLs, pcs \in PcsLens, fs \in SeqsUpTo(Lens, 2), pad \in {"none", "neg"}}
F3q == {Core("16384", 20, "files", "absent", fs, pad) : fs \in [1 .. 3 -> Lens3], pad \in {"none", "neg"}}
F3t == {Core(pl, pcs, "files", "absent", fs, pad) : pl \in GoodPLs, pcs \in GoodPcs, fs \in [1 .. 3 -> Lens], pad \in PadModes}
\* HYBRID dictionaries: both the single-file key "length" and a non-empty "files" list, with a pieces string sized
\* for every candidate total (length | sum(files) | length + sum(files)).  Whatever total the parser settles on, the
\* accepted description must add up (its file list vs. its piece count) and must survive allocation + piece construction.
LensB == {"1", "pl", "pl+1"}
BothQ == {Core(pl, pcs, "both", len, fs, "none") : pl \in GoodPLs, pcs \in {20, 40, 60, 80}, len \in LensB,
                                                    fs \in (SeqsUpTo(LensB, 2) \ {<<>>})}
\* piece counts around a LOWERED Config.MaxPieces (the driver's low-limit session uses MaxPieces = 3): N = 2 .. 5 as a
\* single file and as two files.  The same dictionaries enter through all paths (file, URL body, resume record,
\* info from a peer for a magnet link).
KPl == <<"pl", "2pl", "3pl", "4pl", "5pl">>
LimitCores == {Core(pl, 20 * k, "single", KPl[k], <<>>, "none") : pl \in GoodPLs, k \in 2 .. 5}
        \cup {Core(pl, 20 * k, "files", "absent", <<"pl", KPl[k - 1]>>, "none") : pl \in GoodPLs, k \in 2 .. 5}
QuickCores    == SingleCores \cup F2a \cup F2b \cup F3q \cup BothQ \cup LimitCores
ThoroughCores == SingleCores \cup BothCores \cup BothQ \cup LimitCores \cup F2c \cup F3t

\* deviations that cost seconds of CPU or hundreds of MB each: applied to one representative core only
Heavy == {"extra:nest3M", "extra:dictnest3M", "info:nest3M", "extra:comment11M", "extra:bigstr", "pieces:bigstr", "name:bigstr",
          "pieces:65536", "pieces:65537", "extra:nest200k", "announcelist:deep", "urllist:nested", "extra:manykeys"}
Light ==
    { "priv:i0e", "priv:i1e", "priv:i-1e", "priv:s1", "priv:s0", "priv:s", "priv:list", "priv:dict", "priv:huge",
      "name:absent", "name:int", "name:empty", "name:utf8", "name:list",
      "dup:length", "dup:files", "dup:piecelength", "dup:pieces", "dup:info", "unsorted", "intkey", "emptykey",
      "extra:nest100", "extra:nest10k",
      "files:emptylist", "files:dict", "files:int", "files:listofint", "path:absent", "path:empty", "path:int", "path:str",
      "path:deep", "flen:str", "flen:absent", "flen:list", "attr:int", "attr:p",
      "type:plstr", "type:piecesint", "type:lengthstr", "type:infolist", "type:infostr", "type:toplist", "type:topint",
      "trail:junk", "trail:second", "announce:int", "urllist:int",
      "neg0", "leadzero", "plus", "int:empty", "int:huge", "str:neglen", "str:short",
      "files:1000zero", "files:1000neg" }

\* DECLARED STRING LENGTHS (design model: MetainfoScan.tla).  A bencoded string is <decimal digits> ":" <bytes>; the digits are
\* attacker-chosen and unbounded, the machine integers that hold the value are not.  tok = the declared value (the payload keeps
\* its true length n): around the largest accepted value (2^31), around the 32-bit and 64-bit word sizes (values that wrap to
\* the true length n, to a NEGATIVE length, to minus the width of the prefix = back onto the same token), and beyond (10^30,
\* forty nines).  pos = which string of the .torrent carries it: the only token of the input ("lone": d<tok>:e), a key / a
\* value of the outer dictionary, a key of the info dictionary, the pieces string, the name, a path component of a file entry.
\* Obligation: rejected with an error or parsed - never a crash (C06.crash), a hang (C06.hang) or an allocation of the declared size.
StrLenToks == {"2^31-1", "2^31", "2^32", "2^32+n", "2^63-1", "2^63", "2^63+n", "2^64-10^6", "2^64-back", "2^64-1", "2^64", "2^64+n",
               "10^19", "10^30", "9x40"}
StrLenPos  == {"lone", "topkey", "topval", "infokey", "pieces", "name", "path"}
StrLenVars == {"strlen:" \o t \o "@" \o p : t \in StrLenToks, p \in StrLenPos}
StrLenIn   == {"strlen:" \o t \o "@" \o p : t \in StrLenToks, p \in StrLenPos \ {"lone"}}   \* "lone" does not depend on the core

Rep1 == Core("16384", 20, "single", "pl", <<>>, "none")
Rep2 == Core("16384", 40, "files", "absent", <<"pl", "pl-1">>, "none")
RepCores ==
    { Rep1, Rep2,
      Core("16384", 20, "files", "absent", <<"pl", "1", "-1">>, "neg"),
      Core("1", 20, "single", "1", <<>>, "none"),
      Core("0", 20, "single", "0", <<>>, "none") }
RepQuick == { c \in RepCores : c.pl = "16384" }

Cases ==
    LET cores == IF TIER = "quick" THEN QuickCores ELSE ThoroughCores
        reps  == IF TIER = "quick" THEN RepQuick ELSE RepCores
    IN cores \cup {[c EXCEPT !.var = v] : c \in reps, v \in Light} \cup {[Rep1 EXCEPT !.var = v] : v \in StrLenVars} \cup {[Rep2 EXCEPT !.var = v] : v \in StrLenIn} \cup {[Rep1 EXCEPT !.var = v] : v \in (IF TIER = "quick" THEN Heavy \ {"extra:dictnest3M", "info:nest3M"} ELSE Heavy)}

(***************************************************************************)
(* HTTP source (Session.AddURI with an http URL): scripted servers.  One   *)
(* case = one behaviour of the environment of MetainfoFetch.tla (the       *)
(* server's actions SrvHeaders / SrvBytes / Tick (silence) / SrvClose):    *)
(*   hdr    when the response head arrives: prompt | never | partial (half *)
(*          a status line, then silence) | late (after the time-out)       *)
(*   status 200 | 404 | 500 | 204 | redirect loop | redirect chain -> 200  *)
(*   cl     Content-Length: none | exact | huge (2^40) | under | over      *)
(*   body   good torrent | garbage | bigvalid (valid, above MaxTorrentSize)*)
(*          | pieces4 (valid, more pieces than the lowered MaxPieces)      *)
(*          | endless (zero bytes for ever)                                *)
(*   pace   fast | drip (one byte per time-out/8) | stall-start |          *)
(*          stall-mid (half the body, then silence, connection kept open)  *)
(*          | close-mid                                                    *)
(* Obligation: AddURI returns (ok or error) within the configured time-out *)
(* + slack, allocating O(MaxTorrentSize); an accepted body is WellFormed   *)
(* and within the limits.                                                  *)
(***************************************************************************)
H(hdr, st, cl, body, pace) == [kind |-> "http", hdr |-> hdr, status |-> st, cl |-> cl, body |-> body, pace |-> pace]
HttpCLs == IF TIER = "quick" THEN {"none", "exact", "huge"} ELSE {"none", "exact", "huge", "under", "over"}
HttpCases ==
    {H("prompt", "200", cl, body, pace) : cl \in HttpCLs, body \in {"good", "garbage", "bigvalid"},
                                          pace \in {"fast", "drip", "stall-start", "stall-mid", "close-mid"}}
    \cup {H("prompt", "200", cl, "endless", pace) : cl \in {"none", "huge", "under"}, pace \in {"fast", "drip"}}
    \cup {H(hdr, "200", "exact", "good", "fast") : hdr \in {"never", "partial", "late"}}
    \cup {H("prompt", st, "exact", "good", "fast") : st \in {"404", "500", "204", "redir-loop", "redir-chain"}}
    \cup {H("prompt", "redir-chain", "none", "good", pace) : pace \in {"stall-mid", "drip"}}
    \cup {H("prompt", "200", cl, "pieces4", "fast") : cl \in {"none", "exact"}}   \* valid, above the lowered MaxPieces

\* one evaluation prints every case; the state space itself is a single state
VARIABLE c
Init == /\ c = 0
        /\ \A x \in Cases : PrintT("@@" \o ToJson(x))
        /\ \A x \in HttpCases : PrintT("@@" \o ToJson(x))
Next == FALSE /\ UNCHANGED c
Spec == Init /\ [][Next]_c
=============================================================================
