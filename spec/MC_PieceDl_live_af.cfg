SPECIFICATION LiveSpec
CONSTANTS
  SECS <- Secs_plain3
  BS = 2
  QLENS = {1, 2}
  FAST = TRUE
  AF = TRUE
  REJ = "none"
  UNREQ = TRUE
  ENDS = FALSE
INVARIANT TypeOK
CHECK_DEADLOCK FALSE
PROPERTY Completes
