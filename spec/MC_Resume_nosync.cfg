SPECIFICATION MCSpec
CONSTANTS
  NP = 2
  NF = 2
  FO <- Geo2x2
  SYNC = FALSE
  WERR = "first"
  DESIGN = "safe"
INVARIANT Inv
CHECK_DEADLOCK FALSE
