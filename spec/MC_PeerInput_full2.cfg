SPECIFICATION MCSpec
CONSTANTS
  N = 4
  NPE = 2
  K = 2
  ASIS = FALSE
  ALPHA = "full"
  MAXLEN = 10
  GUARD = TRUE
  AFPARK = FALSE
INVARIANT Inv
PROPERTY MCIsolation
VIEW MCView
CHECK_DEADLOCK FALSE
