SPECIFICATION MCSpec
CONSTANTS
  SYMS = {"L", "D", "P"}
  MAXLEN = 2
INVARIANT UsedIsValidated
CHECK_DEADLOCK FALSE
