SPECIFICATION MLiveSpec
CONSTANTS
  NP = 2
  NSRC = 2
  CAPD = 1
  RI = 1
  VARIANT = "asis"
  NSTOPS = 1
  NERRS = 1
PROPERTY MRetryNotForgotten
VIEW MView
CHECK_DEADLOCK FALSE
