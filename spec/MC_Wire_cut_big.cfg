SPECIFICATION MCSpecF
CONSTANTS
  LEVEL = 2
INVARIANT Inv
CHECK_DEADLOCK FALSE
PROPERTY SlowPeerKept
