----------------------------- MODULE LeechProto -----------------------------
(***************************************************************************)
(* X08 - protocol discipline of rain AS A DOWNLOADER on its peer           *)
(* connections, as an independent peer observes it on the wire (BEP 3,     *)
(* BEP 6).  Level: the connection (interest, choke discipline,             *)
(* announcements, what may be requested at all); the request pipeline of   *)
(* one piece download is PieceDl.tla (X04).                                *)
(*                                                                         *)
(* State per connection c (cs[c]):                                         *)
(*   open, fast   connection established / fast extension negotiated       *)
(*   any          rain has sent at least one message                       *)
(*   first        rain has sent bitfield / have-all / have-none            *)
(*   pHave        pieces the peer has announced (bitfield, have, have-all) *)
(*   amInt        rain's interest as told to the peer (initially FALSE)    *)
(*   chokd        the peer chokes rain (initially TRUE)                    *)
(*   af           allowed-fast pieces the peer has granted                 *)
(*   out          requests rain has sent and that are neither answered     *)
(*                (piece / reject), cancelled, nor voided by a choke of a  *)
(*                peer without fast extension                              *)
(*   annc         pieces rain has announced to the peer                    *)
(* Global: mine = pieces rain holds (verified).  A trace does not know     *)
(* mine exactly at every message: the obligations take a lower bound lo    *)
(* (held for sure) and an upper bound hi (possibly held); lo = hi = mine   *)
(* at design level.                                                        *)
(*                                                                         *)
(* cfg.dev = named deviations of the code that the ENVELOPE accepts:       *)
(*   "skiphave"  a newly verified piece is not announced to a peer that    *)
(*               has announced the piece itself (torrent_write.go, "Skip   *)
(*               peers having the piece to save bandwidth")                *)
(***************************************************************************)
EXTENDS Integers, FiniteSets, Sequences, TLC

VARIABLES cfg,    \* [np, plen (sequence of piece lengths), bs, conns, dev]
          cs,     \* connection records
          mine    \* verified pieces
vars == <<cfg, cs, mine>>

Tag(b, t) == IF b THEN {t} ELSE {}
Pieces == 0 .. cfg.np - 1
Min(a, b) == IF a < b THEN a ELSE b

NoConn == [open |-> FALSE, fast |-> FALSE, any |-> FALSE, first |-> FALSE, pHave |-> {}, amInt |-> FALSE,
           chokd |-> TRUE, af |-> {}, out |-> {}, annc |-> {}]
NewConn(fast) == [NoConn EXCEPT !.open = TRUE, !.fast = fast]

Req(i, b, n) == [i |-> i, b |-> b, n |-> n]
InPiece(r) == r.i \in Pieces /\ r.n > 0 /\ r.b >= 0 /\ r.b + r.n <= cfg.plen[r.i + 1]

(***************************************************************************)
(* Obligations (sets of violated tags; c = connection record)              *)
(***************************************************************************)
\* @obligation X08.req.announced  a request names a piece the peer has announced
\* @obligation X08.req.block      ... a block inside that piece
\* @obligation X08.req.held       ... a piece rain does not hold at that moment
\* @obligation X08.req.choked     ... only while the peer does not choke rain, or for an allowed-fast piece (BEP 6)
\* @obligation X08.req.interest   ... only after rain has declared itself interested (and not taken it back)
ReqViols(c, r, lo) ==
    Tag(r.i \notin c.pHave, "X08.req.announced")
    \cup Tag(~InPiece(r), "X08.req.block")
    \cup Tag(r.i \in lo, "X08.req.held")
    \cup Tag(c.chokd /\ ~(c.fast /\ r.i \in c.af), "X08.req.choked")
    \cup Tag(~c.amInt, "X08.req.interest")

\* @obligation X08.int.alt  interested / not interested alternate (the connection starts not interested)
IntViols(c, want) == Tag(c.amInt = want, "X08.int.alt")

\* @obligation X08.int.missing  at a quiescent point: the peer has a piece rain lacks => rain has said interested
\* @obligation X08.int.stale    at a quiescent point: rain holds everything the peer has => rain is not interested
IntTruthViols(c, lo, hi) ==
    Tag(c.pHave \ hi # {} /\ ~c.amInt, "X08.int.missing")
    \cup Tag(c.pHave \subseteq lo /\ c.amInt, "X08.int.stale")

\* @obligation X08.first.order     bitfield / have-all / have-none only as the very first message
\* @obligation X08.first.fastonly  have-all / have-none only with the fast extension
\* @obligation X08.first.content   the announced set is the set of verified pieces at that moment
FirstViols(c, kind, A, lo, hi) ==
    Tag(c.any, "X08.first.order")
    \cup Tag(kind \in {"haveall", "havenone"} /\ ~c.fast, "X08.first.fastonly")
    \cup Tag(~(lo \subseteq A /\ A \subseteq hi), "X08.first.content")

\* @obligation X08.first.missing  fast extension: exactly one of the three comes before anything else; without it a
\*                                bitfield may be left out only if rain holds nothing
OtherViols(c, lo) == Tag(~c.any /\ (c.fast \/ lo # {}), "X08.first.missing")

\* @obligation X08.have.dup    a piece is announced at most once per connection (bitfield included)
\* @obligation X08.have.truth  only verified pieces are announced
HaveViols(c, i, hi) == Tag(i \in c.annc, "X08.have.dup") \cup Tag(i \notin hi, "X08.have.truth")

\* @obligation X08.have.all  at a quiescent point every verified piece has been announced on the connection
\*                           (deviation "skiphave": or the peer has announced it itself)
HaveAllViols(c, lo) ==
    Tag(~(lo \subseteq c.annc \cup (IF "skiphave" \in cfg.dev THEN c.pHave ELSE {})), "X08.have.all")

\* @obligation X08.cancel.out        a cancel names an outstanding request
\* @obligation X08.cancel.elsewhere  at a quiescent point no request is outstanding for a piece rain holds
CancelViols(c, r) == Tag(r \notin c.out, "X08.cancel.out")
QuietViols(c, lo, hi) ==
    IntTruthViols(c, lo, hi) \cup HaveAllViols(c, lo)
    \cup Tag(\E r \in c.out : r.i \in lo, "X08.cancel.elsewhere")

(***************************************************************************)
(* State updates (shared with the trace specifications)                    *)
(***************************************************************************)
Said(c) == [c EXCEPT !.any = TRUE]
UpdReq(c, r) == [Said(c) EXCEPT !.out = c.out \cup {r}]
UpdCancel(c, r) == [Said(c) EXCEPT !.out = c.out \ {r}]
UpdInt(c, want) == [Said(c) EXCEPT !.amInt = want]
UpdFirst(c, A) == [Said(c) EXCEPT !.first = TRUE, !.annc = c.annc \cup A]
UpdHave(c, i) == [Said(c) EXCEPT !.annc = c.annc \cup {i}]
UpdAnnounce(c, S) == [c EXCEPT !.pHave = c.pHave \cup S]
UpdChoke(c) == [c EXCEPT !.chokd = TRUE, !.out = IF c.fast THEN c.out ELSE {}]
UpdUnchoke(c) == [c EXCEPT !.chokd = FALSE]
UpdAF(c, i) == [c EXCEPT !.af = c.af \cup {i}]
UpdAnswer(c, r) == [c EXCEPT !.out = c.out \ {r}]

(***************************************************************************)
(* Design level: every action of rain is guarded by its obligations.       *)
(***************************************************************************)
I0(np, plen, bs, conns, dev) == [np |-> np, plen |-> plen, bs |-> bs, conns |-> conns, dev |-> dev]
InitWith(c0, m0) == cfg = c0 /\ cs = [c \in c0.conns |-> NoConn] /\ mine = m0
ResetWith(c0, m0) == cfg' = c0 /\ cs' = [c \in c0.conns |-> NoConn] /\ mine' = m0

Set(c, rec) == cs' = [cs EXCEPT ![c] = rec] /\ UNCHANGED cfg
Blocks(i) == {Req(i, b, Min(cfg.bs, cfg.plen[i + 1] - b)) : b \in {x \in 0 .. cfg.plen[i + 1] - 1 : x % cfg.bs = 0}}

Connect(c, fast) == ~cs[c].open /\ Set(c, NewConn(fast)) /\ UNCHANGED mine
Disconnect(c) == cs[c].open /\ Set(c, NoConn) /\ UNCHANGED mine

\* the peer
PAnnounce(c, S) == cs[c].open /\ S # {} /\ ~(S \subseteq cs[c].pHave) /\ Set(c, UpdAnnounce(cs[c], S)) /\ UNCHANGED mine
PChoke(c) == cs[c].open /\ ~cs[c].chokd /\ Set(c, UpdChoke(cs[c])) /\ UNCHANGED mine
PUnchoke(c) == cs[c].open /\ cs[c].chokd /\ Set(c, UpdUnchoke(cs[c])) /\ UNCHANGED mine
PAllowedFast(c, i) == cs[c].open /\ cs[c].fast /\ i \notin cs[c].af /\ Set(c, UpdAF(cs[c], i)) /\ UNCHANGED mine
PReject(c, r) == cs[c].open /\ cs[c].fast /\ r \in cs[c].out /\ Set(c, UpdAnswer(cs[c], r)) /\ UNCHANGED mine
PPiece(c, r) == cs[c].open /\ r \in cs[c].out /\ Set(c, UpdAnswer(cs[c], r)) /\ UNCHANGED mine

\* a piece is verified (downloaded through one of the connections, or elsewhere: another peer, a webseed)
Verify(i) == i \notin mine /\ mine' = mine \cup {i} /\ UNCHANGED <<cfg, cs>>

\* rain
FirstKind(c) == IF cs[c].fast /\ mine = Pieces THEN "haveall" ELSE IF cs[c].fast /\ mine = {} THEN "havenone" ELSE "bitfield"
RFirst(c) ==
    /\ cs[c].open /\ FirstViols(cs[c], FirstKind(c), mine, mine, mine) = {}
    /\ Set(c, UpdFirst(cs[c], mine)) /\ UNCHANGED mine
Ready(c) == cs[c].open /\ OtherViols(cs[c], mine) = {}
RInt(c, want) == Ready(c) /\ IntViols(cs[c], want) = {} /\ Set(c, UpdInt(cs[c], want)) /\ UNCHANGED mine
RRequest(c, r) == Ready(c) /\ r \notin cs[c].out /\ ReqViols(cs[c], r, mine) = {} /\ Set(c, UpdReq(cs[c], r)) /\ UNCHANGED mine
RCancel(c, r) == Ready(c) /\ CancelViols(cs[c], r) = {} /\ Set(c, UpdCancel(cs[c], r)) /\ UNCHANGED mine
RHave(c, i) == Ready(c) /\ HaveViols(cs[c], i, mine) = {} /\ Set(c, UpdHave(cs[c], i)) /\ UNCHANGED mine

AllReqs == UNION {Blocks(i) : i \in Pieces}
PeerNext(c) ==
    \/ \E S \in SUBSET Pieces : PAnnounce(c, S)
    \/ PChoke(c) \/ PUnchoke(c)
    \/ \E i \in Pieces : PAllowedFast(c, i)
    \/ \E r \in AllReqs : PReject(c, r) \/ PPiece(c, r)
RainNext(c) ==
    \/ RFirst(c) \/ RInt(c, TRUE) \/ RInt(c, FALSE)
    \/ \E r \in AllReqs : RRequest(c, r) \/ RCancel(c, r)
    \/ \E i \in Pieces : RHave(c, i)

(***************************************************************************)
(* Global forms implied by the per-message obligations                     *)
(***************************************************************************)
InvOutAnnounced == \A c \in cfg.conns : \A r \in cs[c].out : r.i \in cs[c].pHave /\ InPiece(r)
InvOutChoke == \A c \in cfg.conns : cs[c].chokd /\ ~cs[c].fast => cs[c].out = {}
InvAnncTruth == \A c \in cfg.conns : cs[c].annc \subseteq mine
InvFirst == \A c \in cfg.conns : cs[c].fast /\ cs[c].any => cs[c].first
InvClosed == \A c \in cfg.conns : ~cs[c].open => cs[c] = NoConn
=============================================================================
