-------------------------- MODULE Trace_LimitsRM --------------------------
(***************************************************************************)
(* Trace specification for the resource manager: judges call/ret histories *)
(* recorded from the REAL internal/resourcemanager under concurrent        *)
(* callers (harness/c17, sub-driver rm) against LimitsRM.tla.              *)
(*                                                                         *)
(* Every goroutine g logs  call  before and  ret  after each API call; the *)
(* log order is one global atomic sequence.  The effect of a call is an    *)
(* internal step Lin(g) placed nondeterministically between its call and   *)
(* its ret (props/c17.py copies the observed result from the ret line onto *)
(* the call line, so only the POSITION is guessed).  Notifications are     *)
(* manager-initiated: LinNotify(r) may happen any time before the          *)
(* "Notified" line that the receiving goroutine logs; a cancelled waiter   *)
(* may have been dropped any time after its "Cancel" line (logged before   *)
(* the channel is closed).  Acceptance: see LimitsTrace.tla.               *)
(***************************************************************************)
EXTENDS LimitsRM, LimitsTrace

VARIABLES pend, notif, nt
tvars == <<avars, pend, notif, nt, l, viol, vl>>

NoCall == [f |-> "none", lin |-> TRUE]
ReqOf(e) == [id |-> e.id, key |-> e.key, n |-> e.n]

TraceInit ==
    /\ TraceInit0
    /\ AInitWith([limit |-> Trace[1].limit])
    /\ pend = [g \in 1 .. Trace[1].ng |-> NoCall]
    /\ notif = {} /\ nt = {}

TrReset ==
    /\ Ev.op = "Init" /\ Boundary
    /\ AResetWith([limit |-> Ev.limit])
    /\ pend' = [g \in 1 .. Ev.ng |-> NoCall]
    /\ notif' = {} /\ nt' = {}

TrCall ==
    /\ Ev.op = "call" /\ pend[Ev.g].f = "none"
    /\ pend' = [pend EXCEPT ![Ev.g] = [f |-> Ev.f, e |-> Ev, lin |-> FALSE]]
    /\ nt' = IF Ev.f = "Request" /\ Ev.nt = 1 THEN nt \cup {Ev.id} ELSE nt
    /\ Advance /\ KeepViol
    /\ UNCHANGED <<avars, notif>>

\* Internal steps are only taken immediately before a line that OBSERVES something (a ret or a Notified line):
\* postponing an internal step over call/Cancel lines never loses an explanation (partial-order reduction).
Observing == Ev.op \in {"ret", "Notified"}

\* A cancelled waiter that is not going to be notified may have been dropped by the manager (run(): case <-req.cancelC)
\* at any time after its Cancel line.  Only Stats can see the difference (PendingKeys), so the drop is decided lazily at
\* the linearization point of a Stats call: a set of keys ALL of whose waiters are droppable disappears so that the
\* reported number of pending keys is met (dropping later is always still possible, un-dropping is not).
DroppableKeys == {k \in Keys(waiters) : \A r \in waiters : r.key = k => (r.id \in canc /\ r.id \notin nt)}
StatsPending == \E g \in DOMAIN pend : pend[g].f = "Stats" /\ ~pend[g].lin

\* the linearization point of the call pending in goroutine g
Lin(g) ==
    /\ Observing
    /\ pend[g].f # "none" /\ ~pend[g].lin /\ pend[g].e.hung = 0
    /\ LET e == pend[g].e
           r == ReqOf(e)
       IN \/ /\ e.f = "Request" /\ e.acq
             /\ AReq(r, TRUE)
             /\ SetViol(IF GrantOK(r) THEN "" ELSE "C17.rm.limit")          \* @obligation C17.rm.limit
          \/ /\ e.f = "Request" /\ ~e.acq /\ e.n >= 0
             /\ AReq(r, FALSE) /\ KeepViol
          \/ /\ e.f = "Request" /\ ~e.acq /\ (e.n < 0 \/ e.id \in canc)
             /\ ARefuse /\ KeepViol
          \/ /\ e.f = "Release"
             /\ ARelease(r) /\ KeepViol
          \/ /\ e.f = "Stats"                                             \* @obligation C17.rm.balance
             /\ LET v0 == StatsViol(e.size, e.objects, Cardinality(Keys(waiters)))     \* size / objects only
                    Ks == {K \in SUBSET DroppableKeys : Cardinality(Keys(waiters)) - Cardinality(K) = e.pending}
                IN IF v0 # "" THEN UNCHANGED avars /\ SetViol(v0)
                   ELSE IF Ks = {} THEN UNCHANGED avars /\ SetViol("C17.rm.pending")
                   ELSE /\ \E K \in Ks : waiters' = {w \in waiters : w.key \notin K}
                        /\ UNCHANGED <<rcfg, avail, holders, canc>> /\ KeepViol
          \/ /\ e.f = "Close"
             /\ UNCHANGED avars /\ KeepViol
    /\ pend' = [pend EXCEPT ![g].lin = TRUE]
    /\ UNCHANGED <<l, notif, nt>>

TrRet ==
    /\ Ev.op = "ret" /\ pend[Ev.g].f = Ev.f /\ pend[Ev.g].lin
    /\ pend' = [pend EXCEPT ![Ev.g] = NoCall]
    /\ Advance /\ KeepViol
    /\ UNCHANGED <<avars, notif, nt>>

\* Postponing a notification never invalidates a grant (it only leaves more available to the others, and at its own
\* late position avail is n above the real value), so it is placed right before its own Notified line - unless a Stats
\* call is waiting for its linearization point and may have seen it.
\* @obligation C17.rm.grant_vs_cancel : a Notified line of a request whose Cancel line came earlier (driver mode "race":
\* the cancel channel closes while/just before another holder releases and the owner listens) is explained ONLY by
\* ANotify - the request is a holder from here on, its owner's Release is ARelease, and every later Stats / grant is
\* judged against the charged budget (C17.rm.balance.*, C17.rm.limit).
LinNotify(r) ==
    /\ Observing
    /\ (Ev.op = "Notified" /\ Ev.id = r.id) \/ StatsPending
    /\ r \in waiters /\ r.id \in nt /\ r.id \notin notif
    /\ ANotify(r)
    /\ SetViol(IF GrantOK(r) THEN "" ELSE "C17.rm.limit")                   \* @obligation C17.rm.limit
    /\ notif' = notif \cup {r.id}
    /\ UNCHANGED <<pend, nt, l>>

TrNotified ==
    /\ Ev.op = "Notified"
    /\ \/ /\ Ev.id \in notif
          /\ notif' = notif \ {Ev.id} /\ nt' = nt \ {Ev.id}
          /\ KeepViol
       \/ /\ Ev.id \notin notif /\ Ev.id \notin Ids(waiters)                \* nobody is waiting under that id
          /\ SetViol("C17.rm.balance.notify")
          /\ UNCHANGED <<notif, nt>>
    /\ Advance
    /\ UNCHANGED <<avars, pend>>

TrCancel ==
    /\ Ev.op = "Cancel"
    /\ ACancel(Ev.id)
    /\ Advance /\ KeepViol
    /\ UNCHANGED <<pend, notif, nt>>

\* @obligation C17.rm.handshake : the watchdog found the caller blocked in Request/Release/Close while the
\* manager goroutine sits idle in its main select (nobody will ever answer)
TrHang ==
    /\ Ev.op = "Hang"
    /\ SetViol("C17.rm.handshake")
    /\ Advance
    /\ UNCHANGED <<avars, pend, notif, nt>>

TrCrash ==
    /\ Ev.op = "Crash"
    /\ SetViol("C17.rm.crash")
    /\ Advance
    /\ UNCHANGED <<avars, pend, notif, nt>>

TrEnd == Ev.op = "End" /\ Boundary /\ UNCHANGED <<avars, pend, notif, nt>>

TraceNext ==
    /\ l <= Len(Trace)
    /\ \/ TrReset \/ TrEnd \/ TrCall \/ TrRet \/ TrNotified \/ TrCancel \/ TrHang \/ TrCrash
       \/ \E g \in DOMAIN pend : Lin(g)
       \/ \E r \in waiters : LinNotify(r)

TraceSpec == TraceInit /\ [][TraceNext]_tvars
=============================================================================
