-------------------------- MODULE Trace_LimitsRM --------------------------
(***************************************************************************)
(* Trace specification for the resource manager: judges call/ret histories *)
(* recorded from the REAL internal/resourcemanager under concurrent        *)
(* callers (harness/c17, sub-driver rm) against LimitsRM.tla.              *)
(*                                                                         *)
(* Every goroutine g logs  call  before and  ret  after each API call; the *)
(* log order is one global atomic sequence.  The effect of a call is an    *)
(* internal step Lin(g) placed nondeterministically between its call and   *)
(* its ret (props/c17.py copies the observed result from the ret line onto *)
(* the call line, so only the POSITION is guessed).  Notifications are     *)
(* manager-initiated: LinNotify(r) may happen any time before the          *)
(* "Notified" line that the receiving goroutine logs; a cancelled waiter   *)
(* may be dropped (Drop) any time after its "Cancel" line.                 *)
(*                                                                         *)
(* A history is ACCEPTED iff SOME placement of the internal steps explains *)
(* all its lines without a failed obligation.  A failed obligation does    *)
(* not block: it makes `viol` sticky, and that path may not pass the next  *)
(* "Init" line.  TLC registers: 1 = furthest line reached with viol = "",  *)
(* 2 = furthest line reached at all, 3 = <<line, tag>> of the violating    *)
(* path that got furthest.  clean < any  =>  the history can only be       *)
(* explained with a violated obligation (verdict); clean = any < end  =>   *)
(* driver/spec mismatch (exit 2).                                          *)
(***************************************************************************)
EXTENDS LimitsRM, Json

VARIABLES pend, notif, nt, l, viol
tvars == <<avars, pend, notif, nt, l, viol>>

Trace == ndJsonDeserialize("trace.ndjson")
Ev == Trace[l]

NoCall == [f |-> "none", lin |-> TRUE]
ReqOf(e) == [id |-> e.id, key |-> e.key, n |-> e.n]
SetViol(v) == viol' = IF viol # "" THEN viol ELSE v

TraceInit ==
    /\ l = 2 /\ viol = ""
    /\ Trace[1].op = "Init"
    /\ AInitWith([limit |-> Trace[1].limit])
    /\ pend = [g \in 1 .. Trace[1].ng |-> NoCall]
    /\ notif = {} /\ nt = {}
    /\ TLCSet(1, 1) /\ TLCSet(2, 1) /\ TLCSet(3, <<0, "">>)

TrReset ==
    /\ Ev.op = "Init" /\ viol = ""
    /\ AResetWith([limit |-> Ev.limit])
    /\ pend' = [g \in 1 .. Ev.ng |-> NoCall]
    /\ notif' = {} /\ nt' = {}
    /\ l' = l + 1 /\ viol' = ""

TrCall ==
    /\ Ev.op = "call" /\ pend[Ev.g].f = "none"
    /\ pend' = [pend EXCEPT ![Ev.g] = [f |-> Ev.f, e |-> Ev, lin |-> FALSE]]
    /\ nt' = IF Ev.f = "Request" /\ Ev.nt = 1 THEN nt \cup {Ev.id} ELSE nt
    /\ l' = l + 1
    /\ UNCHANGED <<avars, notif, viol>>

\* Internal steps are only taken immediately before a line that OBSERVES something (a ret or a Notified line):
\* postponing an internal step over call/Cancel lines never loses an explanation (partial-order reduction).
Observing == Ev.op \in {"ret", "Notified"}

\* the linearization point of the call pending in goroutine g
Lin(g) ==
    /\ Observing
    /\ pend[g].f # "none" /\ ~pend[g].lin /\ pend[g].e.hung = 0
    /\ LET e == pend[g].e
           r == ReqOf(e)
       IN \/ /\ e.f = "Request" /\ e.acq
             /\ AReq(r, TRUE)
             /\ SetViol(IF GrantOK(r) THEN "" ELSE "C17.rm.limit")          \* @obligation C17.rm.limit
          \/ /\ e.f = "Request" /\ ~e.acq /\ e.n >= 0
             /\ AReq(r, FALSE) /\ SetViol("")
          \/ /\ e.f = "Request" /\ ~e.acq /\ (e.n < 0 \/ e.id \in canc)
             /\ ARefuse /\ SetViol("")
          \/ /\ e.f = "Release"
             /\ ARelease(r) /\ SetViol("")
          \/ /\ e.f = "Stats"
             /\ UNCHANGED avars
             /\ SetViol(StatsViol(e.size, e.objects, e.pending))          \* @obligation C17.rm.balance
          \/ /\ e.f = "Close"
             /\ UNCHANGED avars /\ SetViol("")
    /\ pend' = [pend EXCEPT ![g].lin = TRUE]
    /\ UNCHANGED <<l, notif, nt>>

TrRet ==
    /\ Ev.op = "ret" /\ pend[Ev.g].f = Ev.f /\ pend[Ev.g].lin
    /\ pend' = [pend EXCEPT ![Ev.g] = NoCall]
    /\ l' = l + 1
    /\ UNCHANGED <<avars, notif, nt, viol>>

LinNotify(r) ==
    /\ Observing
    /\ r \in waiters /\ r.id \in nt /\ r.id \notin notif
    /\ ANotify(r)
    /\ SetViol(IF GrantOK(r) THEN "" ELSE "C17.rm.limit")                   \* @obligation C17.rm.limit
    /\ notif' = notif \cup {r.id}
    /\ UNCHANGED <<pend, nt, l>>

TrNotified ==
    /\ Ev.op = "Notified"
    /\ \/ /\ Ev.id \in notif
          /\ notif' = notif \ {Ev.id} /\ nt' = nt \ {Ev.id}
          /\ UNCHANGED viol
       \/ /\ Ev.id \notin notif /\ Ev.id \notin Ids(waiters)                \* nobody is waiting under that id
          /\ SetViol("C17.rm.balance.notify")
          /\ UNCHANGED <<notif, nt>>
    /\ l' = l + 1
    /\ UNCHANGED <<avars, pend>>

Drop(r) ==
    /\ Observing
    /\ r \in waiters /\ r.id \in canc /\ r.id \notin nt
    /\ ADrop(r)
    /\ UNCHANGED <<pend, notif, nt, l, viol>>

TrCancel ==
    /\ Ev.op = "Cancel"
    /\ ACancel(Ev.id)
    /\ l' = l + 1
    /\ UNCHANGED <<pend, notif, nt, viol>>

\* @obligation C17.rm.handshake : the watchdog found the caller blocked in Request/Release/Close while the
\* manager goroutine sits idle in its main select (nobody will ever answer)
TrHang ==
    /\ Ev.op = "Hang"
    /\ SetViol("C17.rm.handshake")
    /\ l' = l + 1
    /\ UNCHANGED <<avars, pend, notif, nt>>

TrCrash ==
    /\ Ev.op = "Crash"
    /\ SetViol("C17.rm.crash")
    /\ l' = l + 1
    /\ UNCHANGED <<avars, pend, notif, nt>>

TraceNext ==
    /\ l <= Len(Trace)
    /\ \/ TrReset \/ TrCall \/ TrRet \/ TrNotified \/ TrCancel \/ TrHang \/ TrCrash
       \/ \E g \in DOMAIN pend : Lin(g)
       \/ \E r \in waiters : LinNotify(r) \/ Drop(r)

TraceSpec == TraceInit /\ [][TraceNext]_tvars

Max(a, b) == IF a > b THEN a ELSE b
HighWater ==
    /\ TLCSet(2, Max(TLCGet(2), l))
    /\ IF viol = "" THEN TLCSet(1, Max(TLCGet(1), l))
       ELSE IF l > TLCGet(3)[1] THEN TLCSet(3, <<l, viol>>) ELSE TRUE

TraceAccepted ==
    LET clean == TLCGet(1) any == TLCGet(2) v == TLCGet(3) IN
    IF clean = Len(Trace) + 1 THEN TRUE
    ELSE /\ PrintT("@@REJECT " \o ToString(clean - 1) \o " " \o ToString(Len(Trace)))
         /\ PrintT("@@VIOL " \o ToString(v[1] - 1) \o " " \o ToString(any - 1) \o " " \o v[2])
         /\ FALSE
=============================================================================
