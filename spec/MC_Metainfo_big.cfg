SPECIFICATION MCSpec
CONSTANTS
  MaxPL = 4
  MaxN = 4
  NegLo = 2
  LenHi = 8
  MaxFiles = 3
  BASE = 4
  MAXI = 13
INVARIANT Inv
CHECK_DEADLOCK TRUE
