--------------------------- MODULE Trace_Metadata ---------------------------
(***************************************************************************)
(* Trace specification of property C13.  Judges ndjson traces recorded by  *)
(* harness/c13 from the REAL code against Metadata.tla.  Three kinds of    *)
(* traces share the file (an "Init" line starts a trace and says which):   *)
(*                                                                         *)
(*  kind "idl"  calls into the real internal/infodownloader.InfoDownloader *)
(*              (New / RequestBlocks / GotBlock / Done, data messages      *)
(*              decoded by the real ut_metadata codec); the shadow         *)
(*              downloader is idl[1] of Metadata.tla.                      *)
(*  kind "mag"  internal/magnet New() / String(): every line is one        *)
(*              self-contained judgement (expected vs. observed fields,    *)
(*              strings interned as small integers by the driver).         *)
(*  kind "e2e"  a real Session fetching metadata from scripted peers:      *)
(*              what the scripted peers sent and received (PeerHs,         *)
(*              PeerReq, PeerData, PeerGone) and the final outcome (End).  *)
(*                                                                         *)
(* A failed obligation does not block the step: its tag is stored in viol  *)
(* and a line  @@VIOL <position> <tag>  is printed, so ONE run judges the  *)
(* whole file (Trace_Metadata.cfg has no stopping invariant; props/c13.py  *)
(* takes the first failed obligation of every trace, every "Mag" line      *)
(* being a judgement of its own).  Trace_Metadata_strict.cfg stops at the  *)
(* first one (INVARIANT NoViolation) and shows the shadow state.           *)
(***************************************************************************)
EXTENDS Metadata, Json

VARIABLES l, viol
tvars == <<vars, l, viol>>

Trace == ndJsonDeserialize("trace.ndjson")
Ev == Trace[l]
SetOf(s) == {s[k] : k \in 1 .. Len(s)}

CfgOf(e) ==
    [ np |-> e.np, bs |-> e.bs, tsize |-> e.tsize, max |-> e.max, par |-> e.par, q |-> e.q, pol |-> e.pol,
      advs |-> {}, lens |-> {}, restart |-> FALSE, dupok |-> TRUE, drops |-> TRUE, private |-> e.private ]

TraceInit ==
    /\ l = 2 /\ viol = ""
    /\ Trace[1].op = "Init"
    /\ InitWith(CfgOf(Trace[1]))
    /\ TLCSet(1, 1)

\* a failed obligation is stored in viol AND printed as  @@VIOL <position> <tag>  so that one run judges the whole file
Step(v) ==
    /\ l' = l + 1 /\ viol' = v
    /\ (v = "" \/ PrintT("@@VIOL " \o ToString(l) \o " " \o v))

TrReset == Ev.op = "Init" /\ ResetWith(CfgOf(Ev)) /\ l' = l + 1 /\ viol' = ""

-----------------------------------------------------------------------------
(* kind "idl": the real InfoDownloader                                     *)

D == idl[1]
SetD(d) == idl' = [idl EXCEPT ![1] = d] /\ UNCHANGED <<cfg, pst, adv, snub, inflight, asked, adopted, kick>>

\* @obligation C13.idl.alloc  the assembly buffer has exactly the advertised size
TrNew ==
    /\ Ev.op = "New"
    /\ SetD(NewIdl(Ev.size))
    /\ Step(IF Ev.blen # Ev.size THEN "C13.idl.alloc" ELSE "")

\* @obligation C13.idl.req.range  requests only for blocks of the advertised layout
\* @obligation C13.idl.req.bound  never more than queueLength requests outstanding (requests - accepted blocks)
\* @obligation C13.idl.req.live   while fewer are outstanding and unrequested blocks remain, more are requested
\* (d.pending is used as "requests issued minus blocks accepted"; d.next is not used by the trace spec)
TrReq ==
    /\ Ev.op = "Req"
    /\ D # NoIdl
    /\ LET d == D
           R == SetOf(Ev.reqs)
           n == Len(Ev.reqs)
           d1 == [d EXCEPT !.reqd = @ \cup {i \in R : i >= 0 /\ i < d.nb}, !.pending = @ + n]
           bound == IF Ev.q > d.pending THEN Ev.q ELSE d.pending
           v == IF \E i \in R : i < 0 \/ i >= d.nb THEN "C13.idl.req.range"
                ELSE IF d1.pending > bound THEN "C13.idl.req.bound"
                ELSE IF d1.pending < Ev.q /\ d1.reqd # 0 .. (d.nb - 1) THEN "C13.idl.req.live"
                ELSE ""
       IN SetD(d1) /\ Step(v)

\* @obligation C13.idl.accept   GotBlock succeeds only for an in-range, requested index and the exact block length
\* @obligation C13.idl.refuse   a requested, not yet received block of the right length is accepted
\* @obligation C13.idl.bytes    Bytes = concatenation, in index order, of the last accepted data of every block (zeros elsewhere)
\* @obligation C13.idl.done     Done() only when every block was accepted (histories without an accepted duplicate)
\* @obligation C13.idl.notdone  Done() once every block was accepted
\* @obligation C13.idl.hash     sha1(Bytes) = sha1(truth) iff size is the true size and all blocks hold the honest bytes
\* @obligation C13.codec        the data message decoded by the real codec carries the piece index / payload that was sent
ContEq(obs, d) == Len(obs) = d.nb /\ \A k \in 0 .. (d.nb - 1) : obs[k + 1] = d.cont[k]
TrGot ==
    /\ Ev.op = "Got"
    /\ D # NoIdl
    /\ LET d  == D
           ok == AcceptOK(d, Ev.i, Ev.len)
           d1 == IF Ev.err = 0 /\ ok THEN AcceptF(d, Ev.i, Ev.cls) ELSE d
           v  == IF Ev.codec # 0 THEN "C13.codec"
                 ELSE IF Ev.err = 0 /\ ~ok THEN "C13.idl.accept"
                 ELSE IF Ev.err = 1 /\ ok /\ Fresh(d, Ev.i) THEN "C13.idl.refuse"
                 ELSE IF ~ContEq(Ev.cont, d1) THEN "C13.idl.bytes"
                 ELSE IF Ev.done = 1 /\ ~d1.dup /\ ~AllGot(d1) THEN "C13.idl.done"
                 ELSE IF Ev.done = 0 /\ ~d1.dup /\ AllGot(d1) THEN "C13.idl.notdone"
                 ELSE IF (Ev.sha = 1) # GoodBytes(d1) THEN "C13.idl.hash"
                 ELSE ""
       IN SetD(d1) /\ Step(v)

TrPanic == Ev.op = "Panic" /\ UNCHANGED vars /\ Step("C13.panic")

-----------------------------------------------------------------------------
(* kind "mag": magnet parse / render.  x = expected, o = observed.          *)
(* hash, name, trackers and peers are interned integers (0 = a string that *)
(* is none of the expected ones).                                          *)

TierBag(ts) == LET S == {SetOf(ts[k]) : k \in 1 .. Len(ts)}
               IN  [s \in S |-> Cardinality({k \in 1 .. Len(ts) : SetOf(ts[k]) = s})]

\* @obligation C13.magnet.hash   the parsed info-hash is the v1 hash of the link; links without a usable v1 hash are refused
\* @obligation C13.magnet.reject a well-formed link is not refused
\* @obligation C13.magnet.name   the display name survives (parse of an independently encoded link; String() -> New())
\* @obligation C13.magnet.tiers  the tracker tiers survive, each tier as a set, tiers as a multiset
\* @obligation C13.magnet.peers  the x.pe peers survive
MagViol(e) ==
    IF e.err = 1
    THEN IF e.must = 1 THEN "C13.magnet.reject" ELSE ""
    ELSE IF e.must = 0 THEN "C13.magnet.hash"
    ELSE IF e.ohash \notin SetOf(e.xhash) THEN "C13.magnet.hash"
    ELSE IF e.oname # e.xname THEN "C13.magnet.name"
    ELSE IF TierBag(e.otiers) # TierBag(e.xtiers) THEN "C13.magnet.tiers"
    ELSE IF e.opeers # e.xpeers THEN "C13.magnet.peers"
    ELSE ""

TrMag == Ev.op = "Mag" /\ UNCHANGED vars /\ Step(MagViol(Ev))

-----------------------------------------------------------------------------
(* kind "e2e": real Session + scripted peers                                *)

TrPeerHs ==
    /\ Ev.op = "PeerHs"
    /\ pst' = [pst EXCEPT ![Ev.p] = "hs"]
    /\ adv' = [adv EXCEPT ![Ev.p] = Ev.sz]
    /\ UNCHANGED <<cfg, idl, snub, inflight, asked, adopted, kick>>
    /\ Step("")

\* @obligation C13.cap        a peer that advertised more than MaxMetadataSize (or no metadata) never receives a request
\* @obligation C13.req.range  requested piece indexes lie inside the layout the peer advertised
TrPeerReq ==
    /\ Ev.op = "PeerReq"
    /\ asked' = [asked EXCEPT ![Ev.p] = TRUE]
    /\ inflight' = [inflight EXCEPT ![Ev.p] = @ \cup {Ev.i}]
    /\ UNCHANGED <<cfg, pst, adv, idl, snub, adopted, kick>>
    /\ Step(IF pst[Ev.p] # "hs" \/ adv[Ev.p] = 0 \/ adv[Ev.p] > cfg.max THEN "C13.cap"
            ELSE IF Ev.i < 0 \/ Ev.i >= NB(adv[Ev.p]) THEN "C13.req.range"
            ELSE "")

\* a data message sent by a scripted peer whose policy is about WHAT ARRIVES IN WHICH ORDER UNDER WHICH INDEX ("honest"
\* peers, which may answer the pipelined requests in any order, and "swap" liars).  Not an obligation of the code: the
\* enabling condition binds the driver to the design (Metadata!HonestData / PolData("swap")): the premise of C13.live
\* - the honest peer answered every request with the honest bytes of that range - is checked by TLC, not assumed.
TrPeerData ==
    /\ Ev.op = "PeerData"
    /\ Ev.i \in inflight[Ev.p]
    /\ cfg.pol[Ev.p] \in {"honest", "swap"}
    /\ Ev.len = BlkSize(adv[Ev.p], Ev.i)
    /\ (cfg.pol[Ev.p] = "honest") => (Ev.cls = "good" /\ adv[Ev.p] = cfg.tsize)
    /\ (cfg.pol[Ev.p] = "swap") => (Ev.cls \in {"good", "moved"} /\ ((Ev.cls = "moved") => CanBeMoved(Ev.i, Ev.len)))
    /\ inflight' = [inflight EXCEPT ![Ev.p] = @ \ {Ev.i}]
    /\ UNCHANGED <<cfg, pst, adv, idl, snub, asked, adopted, kick>>
    /\ Step("")

TrPeerGone ==
    /\ Ev.op = "PeerGone"
    /\ pst' = [pst EXCEPT ![Ev.p] = "closed"]
    /\ UNCHANGED <<cfg, adv, idl, snub, inflight, asked, adopted, kick>>
    /\ Step("")

\* @obligation C13.adopt    adopted metadata hashes to the link's info-hash (Torrent() bytes, independent SHA-1) and carries the true name
\* @obligation C13.private  a private info is never adopted from a magnet link
\* @obligation C13.live     with an honest peer connected (metadata within the cap) the metadata is fetched within the deadline
\* an honest peer completed its extension handshake (honest peers never leave by themselves)
HonestUp == \E p \in Peer : cfg.pol[p] = "honest" /\ pst[p] \in {"hs", "closed"} /\ adv[p] = cfg.tsize
TrEnd ==
    /\ Ev.op = "End"
    /\ adopted' = IF Ev.adopted = 1 THEN (IF Ev.sha = 1 THEN "Good" ELSE "Bad") ELSE IF Ev.refused = 1 THEN "Refused" ELSE "None"
    /\ UNCHANGED <<cfg, pst, adv, idl, snub, inflight, asked, kick>>
    /\ Step(IF Ev.adopted = 1 /\ (Ev.sha # 1 \/ Ev.name # 1) THEN "C13.adopt"
            ELSE IF Ev.adopted = 1 /\ cfg.private THEN "C13.private"
            ELSE IF HonestUp /\ cfg.tsize <= cfg.max /\ ~cfg.private /\ Ev.adopted # 1 THEN "C13.live"
            ELSE IF HonestUp /\ cfg.tsize <= cfg.max /\ cfg.private /\ Ev.refused # 1 THEN "C13.live"
            ELSE "")

-----------------------------------------------------------------------------
TraceNext ==
    /\ l <= Len(Trace)
    /\ \/ TrReset \/ TrNew \/ TrReq \/ TrGot \/ TrPanic \/ TrMag
       \/ TrPeerHs \/ TrPeerReq \/ TrPeerData \/ TrPeerGone \/ TrEnd

TraceSpec == TraceInit /\ [][TraceNext]_tvars

HighWater == TLCSet(1, IF l > TLCGet(1) THEN l ELSE TLCGet(1))
NoViolation == viol = ""
\* design invariants that are meaningful on traces (C13.cap, C13.adopt in global form)
TraceInv == AdoptSafe /\ CapSafe
TraceAccepted ==
    LET hw == TLCGet(1) IN
    IF hw = Len(Trace) + 1 THEN TRUE
    ELSE /\ PrintT("@@REJECT " \o ToString(hw - 1) \o " " \o ToString(Len(Trace)))
         /\ FALSE
=============================================================================
