---------------------------- MODULE Trace_Stats ----------------------------
(***************************************************************************)
(* Judges accounting histories recorded from the real code (harness/x07:   *)
(* real torrent.Session, scripted seeders / web seed / leechers, stop /    *)
(* start / verify, Session.Close + NewSession, SIGKILL + NewSession)       *)
(* against the obligations of StatsObs.  One line = one event:             *)
(*   init, tor        sizes of the torrents of the scenario                *)
(*   how, life        a session lifetime begins (how the last one ended)   *)
(*   blk   t c i n cls  a seeder is about to write a piece message:        *)
(*                    U = first delivery of a requested block (stored),    *)
(*                    J = surely not stored (duplicate, other piece,       *)
(*                    invalid), M = nobody outside can tell                *)
(*   bad   t c i n    the corrupted piece (n data bytes) is complete on    *)
(*                    the wire with block i of connection c (i = 0: web    *)
(*                    seed)                                                *)
(*   ws    t n cls    the web seed is about to serve n bytes               *)
(*   req / got        a leecher asks for / has received n payload bytes    *)
(*   conns t ...      quiescent point: per connection the index up to      *)
(*                    which its blocks are known to have been handled,     *)
(*                    leechers still connected, web-seed bytes known to    *)
(*                    be consumed, the environment's connection counts     *)
(*   disk  t good     pieces byte-identical on disk                        *)
(*   stats t q ...    Torrent.Stats()    (q: at a quiescent point)         *)
(*   sess  q ...      Session.Stats()                                      *)
(*   cmd              stop / stopped / start / started / verify / verified *)
(*   persisted t      a periodic resume write is known to have stored the  *)
(*                    last quiescent report                                *)
(*   close / closed / crash / db (persisted values read after a SIGKILL)   *)
(* Truth is an interval: hi grows when bytes are about to be sent, lo when *)
(* they are known to have been handled.  A failed obligation is printed    *)
(* ("@@VIOL tag line") and does not block.                                 *)
(*                                                                         *)
(* Tolerances (the only ones): SeededFor is sampled by a 1 s ticker and by *)
(* Stats() itself: SEEDTICK per stop/start cycle (upper bound) and per     *)
(* stop (lower bound) + SEEDSLACK / SEEDUNDER; speeds are 1-minute EWMAs   *)
(* ticked every 5 s: only sign, zero when stopped, ETA consistency.        *)
(***************************************************************************)
EXTENDS StatsObs, Json

VARIABLES l, nt, hasws, np, plen, dlen, total,
          lo, hi,          \* [t -> [dl, ul, wa]]
          pend,            \* [t -> sequence of unconfirmed [k, c, i, n, cls]]
          ulp,             \* [t -> sequence of unconfirmed received uploads [c, n]]
          wsc, wsbadn, wsbadc,
          floor,           \* [t -> [dl, ul, wa, sf]] last report (monotonicity)
          pfloor,          \* [t -> [dl, ul, wa, sf]] known to be persisted
          base, hasbase,   \* [t -> first quiescent report of this lifetime]
          lastq,           \* [t -> last quiescent report]
          good, g0, hasg0, \* disk truth now / at the beginning of this lifetime
          tp,              \* [t -> environment's connection counts at the last quiescent point]
          seed,            \* [t -> [st, lo, hi, lastlo, lasthi, cyc, nstop, sf0, on]]
          wsseen,          \* a web seed served bytes in this lifetime
          crashed          \* the last lifetime ended by SIGKILL and its first report is still due, per torrent

tvars == <<l, nt, hasws, np, plen, dlen, total, lo, hi, pend, ulp, wsc, wsbadn, wsbadc, floor, pfloor, base, hasbase, lastq, good, g0, hasg0,
           tp, seed, wsseen, crashed>>

SEEDTICK == 1100
SEEDSLACK == 150
SEEDUNDER == 800      \* a tick handled late subtracts its lateness (KNOWN finding X07-4) - kept apart from a counter that does not advance

Trace == ndJsonDeserialize("trace.ndjson")
Ev == Trace[l]
SetOf(q) == {q[i] : i \in 1 .. Len(q)}
Note(S) == \A t \in S : PrintT("@@VIOL " \o t \o " " \o ToString(l))

RECURSIVE SumNums(_)
SumNums(q) == IF q = <<>> THEN 0 ELSE Head(q) + SumNums(Tail(q))

Z3 == [dl |-> 0, ul |-> 0, wa |-> 0]
Z4 == [dl |-> 0, ul |-> 0, wa |-> 0, sf |-> 0]
TP0 == [peers |-> 0, pin |-> 0, pout |-> 0, hsin |-> 0, avail |-> 0]
SD0 == [st |-> "?", lo |-> 0, hi |-> 0, lastlo |-> 0, lasthi |-> 0, cyc |-> 0, nstop |-> 0, sf0 |-> 0, on |-> FALSE]
T2 == {1, 2}
All(x) == [t \in T2 |-> x]

TraceInit ==
    /\ l = 2 /\ Trace[1].ev = "init"
    /\ nt = Trace[1].ntor /\ hasws = FALSE /\ np = All(0) /\ plen = All(<<>>) /\ dlen = All(<<>>) /\ total = All(0)
    /\ lo = All(Z3) /\ hi = All(Z3) /\ pend = All(<<>>) /\ ulp = All(<<>>)
    /\ wsc = All(0) /\ wsbadn = All(0) /\ wsbadc = All(FALSE)
    /\ floor = All(Z4) /\ pfloor = All(Z4) /\ base = All(Z4) /\ hasbase = All(FALSE) /\ lastq = All(Z4)
    /\ good = All({}) /\ g0 = All({}) /\ hasg0 = All(FALSE) /\ tp = All(TP0) /\ seed = All(SD0)
    /\ wsseen = FALSE /\ crashed = All(FALSE)
    /\ TLCSet(1, 1)

Step == l' = l + 1
Sizes == <<nt, np, plen, dlen, total>>
Truth == <<lo, hi, pend, ulp, wsc, wsbadn, wsbadc>>
Reports == <<floor, pfloor, base, hasbase, lastq>>
Disk == <<good, g0, hasg0>>

TrInit ==
    /\ Ev.ev = "init"
    /\ nt' = Ev.ntor /\ hasws' = FALSE /\ np' = All(0) /\ plen' = All(<<>>) /\ dlen' = All(<<>>) /\ total' = All(0)
    /\ lo' = All(Z3) /\ hi' = All(Z3) /\ pend' = All(<<>>) /\ ulp' = All(<<>>)
    /\ wsc' = All(0) /\ wsbadn' = All(0) /\ wsbadc' = All(FALSE)
    /\ floor' = All(Z4) /\ pfloor' = All(Z4) /\ base' = All(Z4) /\ hasbase' = All(FALSE) /\ lastq' = All(Z4)
    /\ good' = All({}) /\ g0' = All({}) /\ hasg0' = All(FALSE) /\ tp' = All(TP0) /\ seed' = All(SD0)
    /\ wsseen' = FALSE /\ crashed' = All(FALSE)
    /\ Step

TrTor ==
    /\ Ev.ev = "tor"
    /\ np' = [np EXCEPT ![Ev.t] = Ev.np] /\ plen' = [plen EXCEPT ![Ev.t] = Ev.plen] /\ dlen' = [dlen EXCEPT ![Ev.t] = Ev.dlen]
    /\ total' = [total EXCEPT ![Ev.t] = Ev.total]
    /\ Step /\ UNCHANGED <<nt, hasws, Truth, Reports, Disk, tp, seed, wsseen, crashed>>

\* events that carry no obligation
TrSkip ==
    /\ Ev.ev \in {"how", "op", "close", "end", "harness"}
    /\ Step /\ UNCHANGED <<Sizes, hasws, Truth, Reports, Disk, tp, seed, wsseen, crashed>>

\* a new session lifetime: connections of the previous one are gone (what was not confirmed stays an upper bound only)
TrLife ==
    /\ Ev.ev = "life"
    /\ pend' = All(<<>>) /\ ulp' = All(<<>>) /\ wsc' = All(0) /\ wsbadn' = All(0) /\ wsbadc' = All(FALSE)
    /\ hasbase' = All(FALSE) /\ hasg0' = All(FALSE) /\ tp' = All(TP0) /\ seed' = All(SD0) /\ wsseen' = FALSE
    /\ Step /\ UNCHANGED <<Sizes, hasws, lo, hi, floor, pfloor, base, lastq, good, g0, crashed>>

\* ------------------------------------------------------------------ truth
TrBlk ==
    /\ Ev.ev = "blk"
    /\ hi' = [hi EXCEPT ![Ev.t].dl = @ + Ev.n, ![Ev.t].wa = IF Ev.cls = "U" THEN @ ELSE @ + Ev.n]
    /\ pend' = [pend EXCEPT ![Ev.t] = Append(@, [k |-> "blk", c |-> Ev.c, i |-> Ev.i, n |-> Ev.n, cls |-> Ev.cls])]
    /\ Step /\ UNCHANGED <<Sizes, hasws, lo, ulp, wsc, wsbadn, wsbadc, Reports, Disk, tp, seed, wsseen, crashed>>

TrBad ==
    /\ Ev.ev = "bad"
    /\ hi' = [hi EXCEPT ![Ev.t].wa = @ + Ev.n]
    /\ IF Ev.i = 0
       THEN wsbadn' = [wsbadn EXCEPT ![Ev.t] = Ev.n] /\ pend' = pend
       ELSE wsbadn' = wsbadn /\ pend' = [pend EXCEPT ![Ev.t] = Append(@, [k |-> "bad", c |-> Ev.c, i |-> Ev.i, n |-> Ev.n, cls |-> "J"])]
    /\ Step /\ UNCHANGED <<Sizes, hasws, lo, ulp, wsc, wsbadc, Reports, Disk, tp, seed, wsseen, crashed>>

TrWs ==
    /\ Ev.ev = "ws"
    /\ hi' = [hi EXCEPT ![Ev.t].dl = @ + Ev.n, ![Ev.t].wa = IF Ev.cls = "U" THEN @ ELSE @ + Ev.n]
    /\ wsseen' = TRUE /\ hasws' = TRUE
    /\ Step /\ UNCHANGED <<Sizes, lo, pend, ulp, wsc, wsbadn, wsbadc, Reports, Disk, tp, seed, crashed>>

TrReq ==
    /\ Ev.ev = "req"
    /\ hi' = [hi EXCEPT ![Ev.t].ul = @ + Ev.n]
    /\ Step /\ UNCHANGED <<Sizes, hasws, lo, pend, ulp, wsc, wsbadn, wsbadc, Reports, Disk, tp, seed, wsseen, crashed>>

TrGot ==
    /\ Ev.ev = "got"
    /\ ulp' = [ulp EXCEPT ![Ev.t] = Append(@, [c |-> Ev.c, n |-> Ev.n])]
    /\ Step /\ UNCHANGED <<Sizes, hasws, lo, hi, pend, wsc, wsbadn, wsbadc, Reports, Disk, tp, seed, wsseen, crashed>>

\* quiescent point: what is known to have been handled becomes a lower bound
UptoOf(e, c) == LET S == {j \in 1 .. Len(e.upto) : e.upto[j][1] = c} IN IF S = {} THEN 0 ELSE e.upto[CHOOSE j \in S : TRUE][2]
TrConns ==
    /\ Ev.ev = "conns"
    /\ LET t == Ev.t
           conf(x) == x.i > 0 /\ x.i <= UptoOf(Ev, x.c)
           cs == SelectSeq(pend[t], conf)
           rest == SelectSeq(pend[t], LAMBDA x : ~conf(x))
           dDl == SumNums([j \in 1 .. Len(cs) |-> IF cs[j].k = "blk" THEN cs[j].n ELSE 0])
           dWa == SumNums([j \in 1 .. Len(cs) |-> IF cs[j].k = "bad" \/ cs[j].cls = "J" THEN cs[j].n ELSE 0])
           us == SelectSeq(ulp[t], LAMBDA x : x.c \in SetOf(Ev.ulsure))
           dUl == SumNums([j \in 1 .. Len(us) |-> us[j].n])
           dWs == IF Ev.wssure > wsc[t] THEN Ev.wssure - wsc[t] ELSE 0
           newbad == Ev.wsbadsure /\ ~wsbadc[t]
           dBad == IF newbad THEN wsbadn[t] ELSE 0
       IN /\ lo' = [lo EXCEPT ![t].dl = @ + dDl + dWs + dBad, ![t].wa = @ + dWa + dBad, ![t].ul = @ + dUl]
          /\ pend' = [pend EXCEPT ![t] = rest]
          /\ ulp' = [ulp EXCEPT ![t] = SelectSeq(@, LAMBDA x : x.c \notin SetOf(Ev.ulsure))]
          /\ wsc' = [wsc EXCEPT ![t] = IF Ev.wssure > @ THEN Ev.wssure ELSE @]
          /\ wsbadc' = [wsbadc EXCEPT ![t] = @ \/ Ev.wsbadsure]
          /\ tp' = [tp EXCEPT ![t] = [peers |-> Ev.peers, pin |-> Ev.pin, pout |-> Ev.pout, hsin |-> Ev.hsin, avail |-> Ev.avail]]
    /\ Step /\ UNCHANGED <<Sizes, hasws, hi, wsbadn, Reports, Disk, seed, wsseen, crashed>>

TrDisk ==
    /\ Ev.ev = "disk"
    /\ good' = [good EXCEPT ![Ev.t] = SetOf(Ev.good)]
    /\ g0' = [g0 EXCEPT ![Ev.t] = IF hasg0[Ev.t] THEN @ ELSE SetOf(Ev.good)]
    /\ hasg0' = [hasg0 EXCEPT ![Ev.t] = TRUE]
    /\ Step /\ UNCHANGED <<Sizes, hasws, Truth, Reports, tp, seed, wsseen, crashed>>

\* ------------------------------------------------------------------ SeededFor bookkeeping
\* the status the environment can be sure of: S seeding, N not seeding (stopped), ? anything
Advance(sd, msLo, msHi) ==
    IF ~sd.on THEN sd
    ELSE [sd EXCEPT !.lo = IF sd.st = "S" /\ msLo > sd.lastlo THEN @ + (msLo - sd.lastlo) ELSE @,
                    !.hi = IF sd.st # "N" /\ msHi > sd.lasthi THEN @ + (msHi - sd.lasthi) ELSE @,
                    !.lastlo = IF msHi > @ THEN msHi ELSE @, !.lasthi = IF msHi > @ THEN msHi ELSE @]

TrCmd ==
    /\ Ev.ev = "cmd"
    /\ LET sd == Advance(seed[Ev.t], Ev.ms, Ev.ms) IN
       seed' = [seed EXCEPT ![Ev.t] = [sd EXCEPT !.st = IF Ev.op = "stopped" THEN "N" ELSE "?",
                                                 !.cyc = IF Ev.op = "start" \/ Ev.op = "verify" THEN @ + 1 ELSE @,
                                                 !.nstop = IF Ev.op = "stop" \/ Ev.op = "verify" THEN @ + 1 ELSE @]]
    /\ Step /\ UNCHANGED <<Sizes, hasws, Truth, Reports, Disk, tp, wsseen, crashed>>

\* ------------------------------------------------------------------ the reports
Rep(e) == [dl |-> e.dl, ul |-> e.ul, wa |-> e.wa, sf |-> e.sf, completed |-> e.completed, incomplete |-> e.incomplete, total |-> e.total,
           have |-> e.have, missing |-> e.missing, np |-> e.np]
PLenF(t) == [p \in 0 .. np[t] - 1 |-> plen[t][p + 1]]
DLenF(t) == [p \in 0 .. np[t] - 1 |-> dlen[t][p + 1]]
LoS(r, flr) == [dl |-> IF r.dl > flr.dl THEN r.dl ELSE flr.dl, ul |-> IF r.ul > flr.ul THEN r.ul ELSE flr.ul,
                wa |-> IF r.wa > flr.wa THEN r.wa ELSE flr.wa, sf |-> IF r.sf > flr.sf THEN r.sf ELSE flr.sf]

\* @obligation X07.e  ETA / speeds are sane: non-negative, zero when stopped, ETA only while downloading with a positive speed
SpeedViols(e) ==
    Tag(e.spdl < 0 \/ e.spul < 0 \/ (e.status = "Stopped" /\ (e.spdl # 0 \/ e.spul # 0)), "X07.e.speed")
    \cup Tag(e.eta < -1 \/ (e.eta # -1 /\ (e.status # "Downloading" \/ e.spdl <= 0)), "X07.e.eta")
\* @obligation X07.d  Peers.* / Handshakes.* / Pieces.Available equal the environment's truth at quiescent points
ConnViols(e, x) ==
    Tag(e.peers # x.peers \/ e.pin # x.pin \/ e.pout # x.pout \/ e.peers # e.pin + e.pout, "X07.d.peers")
    \cup Tag(e.hsin # x.hsin \/ e.hsout # 0 \/ e.hs # e.hsin + e.hsout, "X07.d.handshakes")
    \cup Tag(e.status = "Downloading" /\ e.avail # x.avail, "X07.d.available")
\* @obligation X07.e  SeededFor advances only while the status is Seeding, and does advance then
SeedViols(e, sd) ==
    IF ~sd.on THEN {}
    ELSE Tag(e.sf - sd.sf0 > sd.hi + SEEDTICK * sd.cyc + SEEDSLACK, "X07.e.seed.over")
         \cup Tag(e.sf - sd.sf0 < sd.lo - SEEDTICK * sd.nstop - SEEDUNDER, "X07.e.seed.under")

TrStats ==
    /\ Ev.ev = "stats"
    /\ LET t == Ev.t
           r == Rep(Ev)
           q == Ev.q
           sd == Advance(seed[t], Ev.ms0, Ev.ms)
           gain == SumOver((good[t] \ g0[t]) \cap (0 .. np[t] - 1), DLenF(t))
           b == IF hasbase[t] THEN base[t] ELSE [dl |-> r.dl, ul |-> r.ul, wa |-> r.wa, sf |-> r.sf]
           first == crashed[t]
       IN /\ Note(DlViols(lo[t], hi[t], r, q) \cup WaViols(lo[t], hi[t], r, q) \cup UlViols(lo[t], hi[t], r, q)
                  \cup SubViols(r)
                  \cup (IF q THEN UseViols(r, b.dl, b.wa, gain) ELSE {})
                  \cup Tag(r.completed + r.incomplete # r.total \/ r.completed < 0 \/ r.incomplete < 0 \/ r.total # total[t], "X07.a.bytes.sum")
                  \cup Tag(r.have + r.missing # r.np \/ r.np # np[t], "X07.a.pieces")
                  \cup (IF q THEN PieceViols(r, PLenF(t), SetOf(Ev.haveset)) \cup Tag(~(SetOf(Ev.haveset) \subseteq good[t]), "X07.a.pieces.disk")
                        ELSE {})
                  \cup Tag(Ev.alloc < 0 \/ Ev.alloc > r.total
                           \/ (q /\ Ev.status \in {"Downloading", "Seeding"} /\ Ev.alloc \notin {r.total, r.total - Ev.padding}), "X07.a.alloc")
                  \cup MonoViols(r, floor[t])
                  \* @obligation X07.b  after a SIGKILL the counters restart exactly from what the database holds
                  \cup Tag(first /\ (r.dl # pfloor[t].dl \/ r.ul # pfloor[t].ul \/ r.wa # pfloor[t].wa), "X07.b.reload")
                  \cup SpeedViols(Ev)
                  \cup (IF q THEN ConnViols(Ev, tp[t]) ELSE {})
                  \cup SeedViols(Ev, sd))
          /\ floor' = [floor EXCEPT ![t] = LoS(r, @)]
          /\ base' = [base EXCEPT ![t] = IF q /\ ~hasbase[t] THEN [dl |-> r.dl, ul |-> r.ul, wa |-> r.wa, sf |-> r.sf] ELSE @]
          /\ hasbase' = [hasbase EXCEPT ![t] = @ \/ q]
          /\ lastq' = [lastq EXCEPT ![t] = IF q THEN [dl |-> r.dl, ul |-> r.ul, wa |-> r.wa, sf |-> r.sf] ELSE @]
          /\ crashed' = [crashed EXCEPT ![t] = FALSE]
          /\ seed' = [seed EXCEPT ![t] =
                 IF ~sd.on THEN [sd EXCEPT !.on = TRUE, !.sf0 = r.sf, !.lastlo = Ev.ms, !.lasthi = Ev.ms0,
                                           !.st = IF Ev.status = "Seeding" THEN "S" ELSE IF Ev.status = "Stopped" THEN "N" ELSE "?"]
                 ELSE [sd EXCEPT !.st = IF Ev.status = "Seeding" THEN "S" ELSE IF Ev.status = "Stopped" THEN "N" ELSE "?"]]
    /\ Step /\ UNCHANGED <<Sizes, hasws, Truth, pfloor, Disk, tp, wsseen>>

\* @obligation X07.f  session-level aggregates = sum over the torrents (downloads: peers only, as documented)
TrSess ==
    /\ Ev.ev = "sess"
    /\ LET T == 1 .. nt
           sumUl == SumOver(T, [t \in T |-> lastq[t].ul - base[t].ul])
           sumDl == SumOver(T, [t \in T |-> lastq[t].dl - base[t].dl])
           sumPeers == SumOver(T, [t \in T |-> tp[t].peers])
           wsMax == IF wsseen THEN total[1] ELSE 0
       IN Note(IF Ev.q /\ \A t \in T : hasbase[t]
               THEN Tag(Ev.torrents # nt, "X07.f.torrents") \cup Tag(Ev.peers # sumPeers, "X07.f.peers")
                    \cup Tag(Ev.ul # sumUl, "X07.f.uploaded")
                    \cup Tag(Ev.dl > sumDl \/ Ev.dl < sumDl - wsMax, "X07.f.downloaded")
                    \cup Tag(Ev.spdl < 0 \/ Ev.spul < 0, "X07.e.speed")
               ELSE {})
    /\ Step /\ UNCHANGED <<Sizes, hasws, Truth, Reports, Disk, tp, seed, wsseen, crashed>>

\* a periodic resume write is known to have stored the last quiescent report
TrPersisted ==
    /\ Ev.ev = "persisted"
    /\ pfloor' = [pfloor EXCEPT ![Ev.t] = lastq[Ev.t]]
    /\ Step /\ UNCHANGED <<Sizes, hasws, Truth, floor, base, hasbase, lastq, Disk, tp, seed, wsseen, crashed>>

\* Session.Close returned: it stores what the torrents had counted (the last report was taken at rest right before)
TrClosed ==
    /\ Ev.ev = "closed"
    /\ pfloor' = [t \in T2 |-> lastq[t]]
    /\ Step /\ UNCHANGED <<Sizes, hasws, Truth, floor, base, hasbase, lastq, Disk, tp, seed, wsseen, crashed>>

TrCrash ==
    /\ Ev.ev = "crash"
    /\ Step /\ UNCHANGED <<Sizes, hasws, Truth, Reports, Disk, tp, seed, wsseen, crashed>>

\* @obligation X07.b  what the database holds after a SIGKILL: at least what is known to be persisted, at most what was ever counted;
\*                    the next session starts from exactly that (lost: at most the increments since the last resume write)
TrDb ==
    /\ Ev.ev = "db"
    /\ LET t == Ev.t
           P == [dl |-> Ev.dl, ul |-> Ev.ul, wa |-> Ev.wa, sf |-> Ev.sf]
           Mx(x, y) == IF x > y THEN x ELSE y
       IN /\ Note(Tag(P.dl < pfloor[t].dl \/ P.ul < pfloor[t].ul \/ P.wa < pfloor[t].wa, "X07.b.floor")
                  \cup Tag(P.sf < pfloor[t].sf, "X07.b.floor.sf")
                  \* (a report that exceeded the truth has been judged where it was made)
                  \cup Tag(P.dl > Mx(hi[t].dl, floor[t].dl) \/ P.ul > Mx(hi[t].ul, floor[t].ul) \/ P.wa > Mx(hi[t].wa, floor[t].wa), "X07.b.ahead"))
          /\ pfloor' = [pfloor EXCEPT ![t] = P]
          /\ floor' = [floor EXCEPT ![t] = P]
          /\ lo' = [lo EXCEPT ![t] = [dl |-> P.dl, ul |-> P.ul, wa |-> P.wa]]
          /\ hi' = [hi EXCEPT ![t] = [dl |-> P.dl, ul |-> P.ul, wa |-> P.wa]]
          /\ crashed' = [crashed EXCEPT ![t] = TRUE]
    /\ Step /\ UNCHANGED <<Sizes, hasws, pend, ulp, wsc, wsbadn, wsbadc, base, hasbase, lastq, Disk, tp, seed, wsseen>>

\* the client itself went down (its loop panics kill the process)
TrPanic ==
    /\ Ev.ev = "panic" /\ Note({"X07.panic"})
    /\ Step /\ UNCHANGED <<Sizes, hasws, Truth, Reports, Disk, tp, seed, wsseen, crashed>>

TraceNext ==
    /\ l <= Len(Trace)
    /\ \/ TrInit \/ TrTor \/ TrSkip \/ TrLife \/ TrBlk \/ TrBad \/ TrWs \/ TrReq \/ TrGot \/ TrConns \/ TrDisk \/ TrCmd
       \/ TrStats \/ TrSess \/ TrPersisted \/ TrClosed \/ TrCrash \/ TrDb \/ TrPanic

TraceSpec == TraceInit /\ [][TraceNext]_tvars

HighWater == TLCSet(1, IF l > TLCGet(1) THEN l ELSE TLCGet(1))
TraceAccepted ==
    LET hw == TLCGet(1) IN
    IF hw = Len(Trace) + 1 THEN TRUE
    ELSE /\ PrintT("@@REJECT " \o ToString(hw - 1) \o " " \o ToString(Len(Trace)))
         /\ FALSE
=============================================================================
