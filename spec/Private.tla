------------------------------- MODULE Private -------------------------------
(***************************************************************************)
(* Property C19: a torrent whose metainfo is marked private gets its peers *)
(* only from its trackers and from the user.                               *)
(*                                                                         *)
(* One torrent of a session.  Every path by which a peer address can enter *)
(* the torrent is an action (one per handler of the code):                 *)
(*   TrackerPeers  torrent_run.go addrsFromTrackers -> handleNewPeers      *)
(*   AddPeer       torrent_peer.go addPeerString    -> handleNewPeers      *)
(*   PexMsg        torrent_messagehandler.go ExtensionPEXMessage           *)
(*   DhtPeers      session_dht.go processDHTResults -> dhtPeersC           *)
(*                 (results are delivered to EVERY torrent of the session  *)
(*                  that has the info-hash, whoever asked)                 *)
(*   Incoming      a peer connects to us (no address is queued)            *)
(* handleNewPeers -> addrList.Push (queue) -> dialAddresses (Dial).        *)
(* Outputs: Dial, PexFlush (a ut_pex message leaves), DhtTick (the session *)
(* sends get_peers/announce_peer for the info-hash), MagnetCall, Metadata  *)
(* (adopt / refuse the info dict fetched through a magnet link).           *)
(*                                                                         *)
(* The design below is the INTENDED one.  AsIs names guards that are left  *)
(* out, to show that the invariants notice their absence:                  *)
(*   "pexrecv"  incoming PEX handler does not look at the private flag     *)
(*   "dhtrecv"  DHT results are taken by a private torrent                 *)
(*   "pending"  a stop leaves the torrent's pending DHT request in place   *)
(*   "adopt"    private metadata from a magnet link is adopted             *)
(*   "pexsend"  PEX sender is started for a private torrent                *)
(*   "dhtstart" DHT announcer is started for a private torrent             *)
(*   "magnet"   Magnet() exports a private torrent                         *)
(*   "loadident" a torrent loaded from a resume record without bitfield    *)
(*              (added stopped / stopped while allocating) gets its        *)
(*              trackers with the public identity                          *)
(*   "magnetgone" Magnet() through a handle that outlives the torrent      *)
(*              (RemoveTorrent, Session.Close) exports a private torrent   *)
(*   "pendinglate" the pending DHT request is dropped only when the torrent *)
(*              reaches Stopped, not when it stops: it survives the        *)
(*              Stopping state (the "stopped" event is on its way to a     *)
(*              tracker that is slow to answer)                            *)
(*   "sharedtracker" tracker objects are shared by the torrents of the     *)
(*              session that announce to the same URL: the identity is the *)
(*              one the FIRST torrent created the object with              *)
(*                                                                         *)
(* Life cycle: Reload = the session is closed and a new session loads the  *)
(* torrent from its resume record (restart, or move to another session):   *)
(* the trackers are created anew, with the identity the loader derives     *)
(* from the record.  Gone = the torrent was removed or its session closed  *)
(* while the user still holds the handle: only Magnet() can be called.     *)
(* Stopping = the torrent has stopped (announcers, peers, queue gone) and  *)
(* sends the "stopped" event to the trackers that had answered; it reaches *)
(* Stopped when they have answered or tracker-stop-timeout has passed      *)
(* (environment: a tracker that is slow to answer keeps it there).         *)
(* Co-tenant = another torrent of the same session (a public torrent or a  *)
(* magnet link) that announces to the same tracker URL and was added       *)
(* before this torrent's trackers were created.                            *)
(***************************************************************************)
EXTENDS Integers, FiniteSets, Sequences, TLC

CONSTANTS MaxHist,   \* bound on environment events in one behaviour
          AsIs       \* subset of the guard names above; {} = intended design

VARIABLES cfg,        \* [priv, dht, pex, sibling : BOOLEAN, mode : {"file","magnet"}]   (constant per behaviour)
          info,       \* "none" (magnet, metadata unknown) | "known" | "refused"
          running,
          stopping,   \* the torrent has stopped and is sending the "stopped" event to its trackers (status Stopping)
          conn,       \* connected peers, named by how we met them: SUBSET Kind
          pexOn,      \* peers for which the PEX sender runs
          queue,      \* sources that have an address waiting in the candidate queue
          dialled,    \* sources whose address was dialled
          dhtAnn,     \* the torrent's DHT announcer runs
          dhtPending, \* the torrent sits in the session's map of pending DHT requests
          asked,      \* the session asked the DHT (get_peers + announce_peer) on behalf of this torrent
          sibAsked,   \* another torrent of the session with the same info-hash asked the DHT
          nodes,      \* a DHT node was learned through a port message
          magnetRes,  \* "none" | "ok" | "err"
          leak,       \* forbidden outputs produced so far (history variable)
          hist,
          life        \* [bf : the resume record holds a bitfield (allocation / verification finished once),
                      \*  ident : identity class the torrent's trackers were created with ("private" | "public"),
                      \*  gone : the torrent was removed / its session closed, the handle lives on,
                      \*  co : a co-tenant (another torrent of the session announcing to the same URL) exists]

vars == <<cfg, info, running, stopping, conn, pexOn, queue, dialled, dhtAnn, dhtPending, asked, sibAsked, nodes, magnetRes, leak, hist, life>>

Source == {"tracker", "manual", "dht", "pex"}
Kind == Source \cup {"incoming"}
Allowed == {"tracker", "manual"}

Cfgs == [priv : BOOLEAN, dht : BOOLEAN, pex : BOOLEAN, sibling : BOOLEAN, mode : {"file", "magnet"}]

\* @obligation C19.flag  reading of the "private" key of the info dict (fail-safe): the torrent is private iff the key is
\* present and its value is not one of {integer 0, string "0", empty string}.  BEP 27 writes private=1; any other value
\* that is present -- another integer, another string, a list, a dictionary, an integer that does not fit -- is read as
\* private, so that a malformed flag never opens a torrent to DHT / PEX.  (This is what internal/metainfo parsePrivateField
\* does on the unchanged tree; the value classes are named "absent", "int:<n>", "int:big", "str:<s>", "list", "dict".)
PublicValues == {"absent", "int:0", "str:0", "str:"}
IsPrivateEncoding(v) == v \notin PublicValues

\* the client knows that the torrent is private
IsPriv == info = "known" /\ cfg.priv
\* ... or has learned it from the metadata it refused
Restricted == IsPriv \/ info = "refused"

InitWith2(c, co) ==
    /\ cfg = c /\ stopping = FALSE
    /\ info = IF c.mode = "file" THEN "known" ELSE "none"
    /\ running = FALSE /\ conn = {} /\ pexOn = {} /\ queue = {} /\ dialled = {}
    /\ dhtAnn = FALSE /\ dhtPending = FALSE /\ asked = FALSE /\ sibAsked = FALSE /\ nodes = FALSE
    /\ magnetRes = "none" /\ leak = {} /\ hist = 0
    \* @obligation C19.identity  the trackers of a private torrent are created with the private identity whatever other torrents
    \* of the session announce to the same URL
    /\ life = [bf |-> FALSE, ident |-> IF c.mode = "file" /\ c.priv /\ ~(co /\ "sharedtracker" \in AsIs) THEN "private" ELSE "public", gone |-> FALSE, co |-> co]
InitWith(c) == InitWith2(c, FALSE)

Init == \E c \in Cfgs, co \in BOOLEAN : InitWith2(c, co)

\* ---------------------------------------------------------------------------
\* effects (every operator fixes all variables except hist)

\* @obligation C19.dht  startAnnouncers: DHT announcer only when the torrent is not known to be private
DoStart ==
    /\ ~running
    /\ running' = TRUE /\ stopping' = FALSE        \* a start in Stopping state completes the stop first (handleStopped)
    /\ info' = IF info = "refused" THEN "none" ELSE info
    /\ LET ann == cfg.dht /\ (~IsPriv \/ "dhtstart" \in AsIs)
       IN /\ dhtAnn' = ann
          /\ dhtPending' = (dhtPending \/ ann)          \* the announcer announces at once
    /\ UNCHANGED <<cfg, conn, pexOn, queue, dialled, asked, sibAsked, nodes, magnetRes, leak, life>>

StopEffectsTo(st) ==
    /\ running' = FALSE /\ stopping' = st /\ conn' = {} /\ pexOn' = {} /\ queue' = {} /\ dhtAnn' = FALSE
    \* @obligation C19.metadata  a stopped torrent is not announced to the DHT any more: the pending request goes when the
    \* torrent stops, not when the trackers have answered the "stopped" event
    /\ dhtPending' = IF "pending" \in AsIs \/ (st /\ "pendinglate" \in AsIs) THEN dhtPending ELSE FALSE
StopEffects == StopEffectsTo(FALSE)      \* close / removal / reload: no Stopping state

\* st = TRUE: the torrent enters Stopping (DoStopped follows); FALSE: seen as one step (trace lines logged when Stopped was reached)
DoStopTo(st) ==
    /\ running
    /\ StopEffectsTo(st)
    /\ UNCHANGED <<cfg, info, dialled, asked, sibAsked, nodes, magnetRes, leak, life>>
DoStop == DoStopTo(TRUE)

\* the trackers answered the "stopped" event, or tracker-stop-timeout passed: handleStopped
DoStopped ==
    /\ stopping /\ stopping' = FALSE
    /\ dhtPending' = IF "pending" \in AsIs THEN dhtPending ELSE FALSE
    /\ UNCHANGED <<cfg, info, running, conn, pexOn, queue, dialled, dhtAnn, asked, sibAsked, nodes, magnetRes, leak, life>>

\* @obligation C19.sources  handleNewPeers: a private torrent admits tracker and manual addresses only
Admit(src) ==
    \/ src \in Allowed
    \/ ~IsPriv
    \/ (src = "pex" /\ "pexrecv" \in AsIs)
    \/ (src = "dht" /\ "dhtrecv" \in AsIs)

NewPeers(src) == queue' = IF running /\ Admit(src) THEN queue \cup {src} ELSE queue

DoTrackerPeers ==
    /\ NewPeers("tracker")
    /\ UNCHANGED <<cfg, info, running, stopping, conn, pexOn, dialled, dhtAnn, dhtPending, asked, sibAsked, nodes, magnetRes, leak, life>>

DoAddPeer ==
    /\ NewPeers("manual")
    /\ UNCHANGED <<cfg, info, running, stopping, conn, pexOn, dialled, dhtAnn, dhtPending, asked, sibAsked, nodes, magnetRes, leak, life>>

LeakOfDial(s) == IF Restricted /\ s \notin Allowed THEN {"dial." \o s} ELSE {}

DoDial(s) ==
    /\ running /\ s \in queue
    /\ queue' = queue \ {s} /\ dialled' = dialled \cup {s} /\ conn' = conn \cup {s}
    /\ leak' = leak \cup LeakOfDial(s)
    /\ UNCHANGED <<cfg, info, running, stopping, pexOn, dhtAnn, dhtPending, asked, sibAsked, nodes, magnetRes, life>>

DoIncoming ==
    /\ running
    /\ conn' = conn \cup {"incoming"}
    /\ UNCHANGED <<cfg, info, running, stopping, pexOn, queue, dialled, dhtAnn, dhtPending, asked, sibAsked, nodes, magnetRes, leak, life>>

\* @obligation C19.pex.sent  extension handshake handler: the PEX sender starts only for a torrent known to be public
DoExtHs(p) ==
    /\ p \in conn
    /\ pexOn' = IF cfg.pex /\ info = "known" /\ (~cfg.priv \/ "pexsend" \in AsIs) THEN pexOn \cup {p} ELSE pexOn
    /\ UNCHANGED <<cfg, info, running, stopping, conn, queue, dialled, dhtAnn, dhtPending, asked, sibAsked, nodes, magnetRes, leak, life>>

DoPexFlush(p) ==         \* a ut_pex message leaves
    /\ p \in pexOn
    /\ leak' = leak \cup (IF Restricted THEN {"pex.sent"} ELSE {})
    /\ UNCHANGED <<cfg, info, running, stopping, conn, pexOn, queue, dialled, dhtAnn, dhtPending, asked, sibAsked, nodes, magnetRes, life>>

\* @obligation C19.pex.acted  incoming PEX message: ignored unless PEX is enabled AND the torrent is not private
DoPexMsg(p) ==
    /\ p \in conn
    /\ IF cfg.pex THEN NewPeers("pex") ELSE UNCHANGED queue
    /\ UNCHANGED <<cfg, info, running, stopping, conn, pexOn, dialled, dhtAnn, dhtPending, asked, sibAsked, nodes, magnetRes, leak, life>>

DoPortMsg(p) ==          \* dht.AddNode: a node of the routing table, nothing about the torrent
    /\ p \in conn
    /\ nodes' = (nodes \/ cfg.dht)
    /\ UNCHANGED <<cfg, info, running, stopping, conn, pexOn, queue, dialled, dhtAnn, dhtPending, asked, sibAsked, magnetRes, leak, life>>

DoDhtAnnounce ==         \* announcer timer: torrent.announceDHT
    /\ dhtAnn /\ dhtPending' = TRUE
    /\ UNCHANGED <<cfg, info, running, stopping, conn, pexOn, queue, dialled, dhtAnn, asked, sibAsked, nodes, magnetRes, leak, life>>

DoDhtTick ==             \* session tick: PeersRequestPort(info-hash, announce, port)
    /\ dhtPending /\ dhtPending' = FALSE /\ asked' = TRUE
    /\ leak' = leak \cup (IF Restricted THEN {"dht.ask"} ELSE {})
    /\ UNCHANGED <<cfg, info, running, stopping, conn, pexOn, queue, dialled, dhtAnn, sibAsked, nodes, magnetRes, life>>

DoSiblingAsk ==
    /\ cfg.sibling /\ cfg.dht /\ sibAsked' = TRUE
    /\ UNCHANGED <<cfg, info, running, stopping, conn, pexOn, queue, dialled, dhtAnn, dhtPending, asked, nodes, magnetRes, leak, life>>

\* @obligation C19.dht  DHT results never feed a private torrent, whoever asked for the info-hash
DoDhtPeers ==
    /\ asked \/ sibAsked
    /\ NewPeers("dht")
    /\ UNCHANGED <<cfg, info, running, stopping, conn, pexOn, dialled, dhtAnn, dhtPending, asked, sibAsked, nodes, magnetRes, leak, life>>

\* @obligation C19.metadata  metadata from a magnet link that is marked private is refused: the torrent stops
DoMetadata(adopt) ==
    /\ cfg.mode = "magnet" /\ info = "none" /\ running
    /\ IF adopt
       THEN /\ info' = "known"
            /\ leak' = leak \cup (IF cfg.priv THEN {"adopted"} ELSE {})
            /\ UNCHANGED <<running, stopping, conn, pexOn, queue, dhtAnn, dhtPending>>
       ELSE /\ info' = "refused" /\ StopEffectsTo(TRUE) /\ UNCHANGED leak
    /\ UNCHANGED <<cfg, dialled, asked, sibAsked, nodes, magnetRes, life>>

\* @obligation C19.magnet  Magnet() errors for a private torrent
DoMagnet(ok) ==
    /\ magnetRes' = IF ok THEN "ok" ELSE "err"
    /\ leak' = leak \cup (IF IsPriv /\ ok THEN {"magnet.ok"} ELSE {})
    /\ UNCHANGED <<cfg, info, running, stopping, conn, pexOn, queue, dialled, dhtAnn, dhtPending, asked, sibAsked, nodes, life>>

\* @obligation C19.identity  peer-id prefix / extension handshake "v" / HTTP User-Agent
IdentityClass == IF IsPriv THEN "private" ELSE "public"

\* allocation / verification finished: from now on the resume record holds a bitfield (internal step of the running torrent)
DoProgress ==
    /\ running /\ info = "known" /\ ~life.bf
    /\ life' = [life EXCEPT !.bf = TRUE]
    /\ UNCHANGED <<cfg, info, running, stopping, conn, pexOn, queue, dialled, dhtAnn, dhtPending, asked, sibAsked, nodes, magnetRes, leak>>

\* @obligation C19.identity  session_load.go loadExistingTorrent: the torrent is built again from its resume record in EVERY
\* state of the record (no bitfield yet / partial / complete); its trackers get the private identity iff the recorded info
\* dict is private.  The new session starts it or leaves it stopped (DoStart is enabled either way).
DoReload ==
    /\ StopEffects
    /\ info' = IF info = "refused" THEN "none" ELSE info
    /\ life' = [life EXCEPT !.ident = IF IsPriv /\ (life.bf \/ "loadident" \notin AsIs) /\ ~(life.co /\ "sharedtracker" \in AsIs)
                                      THEN "private" ELSE "public"]
    /\ UNCHANGED <<cfg, dialled, asked, sibAsked, nodes, magnetRes, leak>>

\* another torrent (public, or a magnet link) that announces to the same tracker URL is added to the session; it is there when
\* this torrent's trackers are created the next time (DoReload: the new session loads the torrents in any order)
DoCoTenant ==
    /\ ~life.co /\ life' = [life EXCEPT !.co = TRUE]
    /\ UNCHANGED <<cfg, info, running, stopping, conn, pexOn, queue, dialled, dhtAnn, dhtPending, asked, sibAsked, nodes, magnetRes, leak>>

\* RemoveTorrent / Session.Close while the user keeps the handle: the torrent's loop has ended
DoGone ==
    /\ StopEffects
    /\ life' = [life EXCEPT !.gone = TRUE]
    /\ UNCHANGED <<cfg, info, dialled, asked, sibAsked, nodes, magnetRes, leak>>

\* @obligation C19.magnet  ... in every life-cycle state of the handle: before the metadata is known (nothing to protect yet),
\* running, stopped, after RemoveTorrent, after Session.Close
MagnetOk == ~IsPriv \/ "magnet" \in AsIs \/ (life.gone /\ "magnetgone" \in AsIs)

\* ---------------------------------------------------------------------------
Env(A) == hist < MaxHist /\ A /\ hist' = hist + 1
Intl(A) == A /\ UNCHANGED hist

Live ==
    \/ Intl(DoStart)
    \/ Env(DoStop) \/ Intl(DoStopped) \/ Env(DoCoTenant)
    \/ Env(DoTrackerPeers) \/ Env(DoAddPeer) \/ Env(DoIncoming)
    \/ \E s \in Source : Intl(DoDial(s))
    \/ \E p \in Kind : Env(DoExtHs(p)) \/ Env(DoPexMsg(p)) \/ Env(DoPortMsg(p)) \/ Intl(DoPexFlush(p))
    \/ Intl(DoDhtAnnounce) \/ Intl(DoDhtTick)
    \/ Env(DoSiblingAsk) \/ Env(DoDhtPeers)
    \/ Intl(DoMetadata((cfg.priv /\ "adopt" \in AsIs) \/ ~cfg.priv))
    \/ Intl(DoProgress) \/ Env(DoReload) \/ Env(DoGone)

Next ==
    \/ ~life.gone /\ Live
    \/ Env(DoMagnet(MagnetOk))

Spec == Init /\ [][Next]_vars

\* ---------------------------------------------------------------------------
\* invariants (what the per-handler obligations must add up to)
InvSources == IsPriv => (queue \cup dialled \cup (conn \ {"incoming"})) \subseteq Allowed
InvDht     == IsPriv => ~dhtAnn /\ ~dhtPending /\ ~asked
InvPex     == IsPriv => pexOn = {}
InvMagnet  == IsPriv => magnetRes # "ok"
InvRefused == info = "refused" => ~running /\ ~dhtAnn /\ ~dhtPending /\ queue = {} /\ conn = {}     \* in Stopping state as well
InvStopping == stopping => ~running /\ ~dhtAnn /\ queue = {} /\ conn = {} /\ pexOn = {}
InvAdopt   == (cfg.mode = "magnet" /\ info = "known") => ~cfg.priv
InvNoLeak  == leak = {}
InvIdentity == IsPriv => life.ident = "private"
InvGone    == life.gone => ~running /\ ~stopping /\ ~dhtAnn /\ ~dhtPending /\ queue = {} /\ conn = {}
TypeOK ==
    /\ cfg \in Cfgs /\ info \in {"none", "known", "refused"} /\ running \in BOOLEAN /\ stopping \in BOOLEAN
    /\ conn \subseteq Kind /\ pexOn \subseteq Kind /\ queue \subseteq Source /\ dialled \subseteq Source
    /\ magnetRes \in {"none", "ok", "err"} /\ hist \in 0 .. MaxHist
    /\ life \in [bf : BOOLEAN, ident : {"private", "public"}, gone : BOOLEAN, co : BOOLEAN]
=============================================================================
