SPECIFICATION TraceSpec
CONSTANTS
  TorrentSeq <- TT1
  NClients = 0
  Choices <- TC0
  BgSeq <- TC0
  Fixed = {}
  Budget = 0
  Unbuffered = {}
  SrcOver <- NoOver
  Allowed <- TAny
CONSTRAINT HighWater
INVARIANT NoViolation
POSTCONDITION TraceAccepted
CHECK_DEADLOCK FALSE
