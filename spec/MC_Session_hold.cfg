\* intended design with a holder of the database's writer lock (queued database steps run back to back after the release)
\* and repeated / concurrent AddTracker calls on one torrent: all invariants, incl. NoLostTracker
SPECIFICATION MCSpec
CONSTANTS
  IDS = {"a"}
  RANGE = {1, 2}
  K = 3
  ATOMIC = TRUE
  FULL = TRUE
  SPARSE = FALSE
  STORAGE = FALSE
  HOLD <- On
  NARROW <- On
  TRACKERS2 <- On
INVARIANT Inv
CHECK_DEADLOCK FALSE
