SPECIFICATION MCSpec
CONSTANTS
  MODE = "policy"
  PADS_AB = {0, 511}
  PADS_CD = {0, 511}
  FULLFR = FALSE
INVARIANT Inv
CHECK_DEADLOCK TRUE
