SPECIFICATION MCSpec
CONSTANTS
  ADDRS = {1, 2, 3, 4}
  SELF = 9
  LL = 2
  BUDGET = 5
  VARIANT = "fixed"
  IGNORE = {}
INVARIANT Inv
CHECK_DEADLOCK FALSE
