SPECIFICATION ASpec
CONSTANTS
  NPEERS = 3
  NN = 1
  MM = 1
  RMAX = 1
  VARIANT = "asis"
  IGNORE = {}
  VICTIM = 0
INVARIANT AInv
CHECK_DEADLOCK FALSE
