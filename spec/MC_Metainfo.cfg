SPECIFICATION MCSpec
CONSTANTS
  MaxPL = 3
  MaxN = 3
  NegLo = 2
  LenHi = 4
  MaxFiles = 3
  BASE = 3
  MAXI = 7
INVARIANT Inv
CHECK_DEADLOCK TRUE
