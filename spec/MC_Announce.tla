----------------------------- MODULE MC_Announce -----------------------------
(* Exhaustive design-level configurations of Announce (machine + monitor).  *)
EXTENDS Announce
CONSTANTS NT,      \* torrents (each with one tier)
          NM,      \* members of the tier
          UDP,     \* members are UDP trackers (one shared connection per member)
          CMIN,    \* client minimum announce interval (abstract units)
          BO,      \* back-off after an announce without reply (>= CMIN)
          IVALS,   \* interval / min-interval values of ok replies (0 = absent)
          ASIS,    \* subset of {"gap","tier","cancel","stopmember"}: behaviour of the unchanged tree (+ seeded faults)
          CIDS,    \* connection ids a UDP tracker may hand out (0 is a legal id)
          ENV      \* enabled environment actions: subset of {"need","complete","flip","expire","stop","dupconn"}

IvFull  == {-1, 0, 1, 2, 2147483647}
IvSmall == {0, 2}
IvNeg   == {-1, 0, 2}
IvOne   == {2}

MCCfg == [ ann |-> [t \in 1 .. NT |-> [t |-> t, ks |-> [i \in 1 .. NM |-> i]]],
           tor |-> [t \in 1 .. NT |-> [ih |-> "ih", pid |-> "pid", port |-> 1, total |-> 1, left0 |-> 1, dmax |-> 1, umax |-> 0]],
           trk |-> [k \in 1 .. NM |-> [udp |-> UDP, dest |-> k, up0 |-> TRUE]],
           cmin |-> CMIN, unit |-> 1, gslack |-> 0, bo |-> BO, lat |-> 0, slk |-> 0, timed |-> FALSE, gapk |-> 1,
           asis |-> ASIS, ivals |-> IVALS, cids |-> CIDS ]

MCInit ==
    /\ cfg = MCCfg
    /\ mon = MonInit(MCCfg).mon /\ mt = MonInit(MCCfg).mt /\ mk = MonInit(MCCfg).mk /\ viol = ""
    /\ tor = [t \in 1 .. NT |-> [run |-> FALSE, done |-> FALSE]]
    /\ an = [t \in 1 .. NT |-> An0]
    /\ rq = {}
    /\ idx = [t \in 1 .. NT |-> 0]
    /\ up = [k \in 1 .. NM |-> TRUE]
    /\ uc = [k \in 1 .. NM |-> NoConn]

\* a cancelled announce and the "stopped" announce come back quickly: the environment does not change again before
\* they did (the announcer's own steps - restart, timer, replies, "completed" - do overlap with them)
Calm == \A r \in rq : r.ph \notin {"zombie", "stop"}

\* ... and before the tier has been advanced a second time: a failing reply waits for the side requests that used an
\* older member (otherwise a cancelled call that lingers for a whole cycle would advance the tier once more: ABA)
Prompt(r) == \A z \in rq : (z.t = r.t /\ z.ph \in {"zombie", "stop"}) => z.li = r.li
Answer(r) == (up[r.k] \/ Prompt(r)) /\ Reply(r)
ConnErr(r) == Prompt(r) /\ DeliverErr(r)

MCNext ==
    \/ \E t \in T : Start(t) \/ Fire(t) \/ AnnComplete(t)
    \/ ("stop" \in ENV /\ Calm /\ \E t \in T : Stop(t))
    \/ ("complete" \in ENV /\ Calm /\ \E t \in T : Complete(t))
    \/ ("need" \in ENV /\ Calm /\ \E t \in T, v \in BOOLEAN : Need(t, v))
    \/ \E r \in rq : Answer(r) \/ ConnErr(r) \/ SideEnd(r)
    \/ \E k \in K : ConnStep(k)
    \/ ("dupconn" \in ENV /\ \E k \in K : ConnReply(k) \/ DupConnReply(k))     \* connect reply arrives / is duplicated
    \/ \E r \in rq : Retransmit(r)
    \/ ("expire" \in ENV /\ Calm /\ \E k \in K : ConnExpire(k))
    \/ ("flip" \in ENV /\ Calm /\ \E k \in K : Flip(k))

\* the announcer's own steps and the tracker's answers are fair; torrent events and tracker outages are not
Fair ==
    /\ \A t \in 1 .. NT : WF_vars(Fire(t))
    /\ \A t \in 1 .. NT : WF_vars(\E r \in rq : r.t = t /\ (Answer(r) \/ ConnErr(r) \/ SideEnd(r)))
    /\ \A k \in 1 .. NM : WF_vars(ConnStep(k))

MCSpec == MCInit /\ [][MCNext]_vars /\ Fair

Inv == NoViolation /\ NoLostAnnounce /\ TimerArmed /\ OneRequest /\ NoParked
InvFixed == Inv /\ TierIndexOK        \* the repaired tier stores a wrapped index

\* @obligation C16.live  while a torrent keeps running it keeps announcing
Live == \A t \in 1 .. NT : ([]<>(~tor[t].run)) \/ ([]<><<Emits(t)>>_vars)
=============================================================================
