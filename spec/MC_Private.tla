---------------------------- MODULE MC_Private ----------------------------
(* Exhaustive check of the design of Private.tla: all 32 configurations (private flag x DHT x PEX x sibling x     *)
(* file/magnet) x all interleavings with at most MaxHist environment events.                                      *)
EXTENDS Private
=============================================================================
