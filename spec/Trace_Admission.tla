--------------------------- MODULE Trace_Admission ---------------------------
(***************************************************************************)
(* Trace specification: judges ndjson traces recorded from the REAL        *)
(* internal/blocklist, internal/addrlist, internal/peerpriority and        *)
(* internal/resolver (driver harness/c18) against Admission.tla.           *)
(*                                                                         *)
(* One action per recorded call.  The blocklist state `rules` is evolved   *)
(* from the structured form of the lines that were fed to Reload (the      *)
(* ranges are computed by the specification, not by the driver); every     *)
(* Blocked() answer is compared with the naive definition.  The queue      *)
(* content after every AddrList call is part of the record (`q`); the      *)
(* envelopes of Admission.tla decide whether it is acceptable, and the     *)
(* shadow state continues from the recorded content.                       *)
(* A failed obligation does not block the step: its tag goes to `viol`     *)
(* and a line  @@VIOL <position> <tag>  is printed, so that ONE run judges *)
(* the whole file and reports every failed obligation (Trace_Admission.cfg *)
(* has no stopping invariant; Trace_Admission_strict.cfg stops at the      *)
(* first one with INVARIANT NoViolation and shows the state).              *)
(* Several traces are concatenated; an "Init" line starts a new one        *)
(* ("Reinit": same pool, the capacity / client address given).                *)
(***************************************************************************)
EXTENDS Admission, Json

VARIABLES l, viol,
          ct       \* session-level contact state of the scenario: [sw, self, conn, banned]
tvars == <<vars, l, viol, ct>>

NoCt == [sw |-> [out |-> FALSE, inc |-> FALSE, trk |-> FALSE], self |-> {}, conn |-> {}, banned |-> {}]

Trace == ndJsonDeserialize("trace.ndjson")
Ev == Trace[l]

QcOf(e) == [cap |-> e.cap, port |-> e.port, cip |-> e.cip, bl |-> e.bl, pool |-> e.pool, moved |-> FALSE]
QOf(e)  == {[a |-> x[1], s |-> x[2], p |-> <<x[3], x[4]>>] : x \in SeqSet(e.q)}
WithPrios(pool, prios) == [i \in 1 .. Len(pool) |-> [pool[i] EXCEPT !.prio = prios[i]]]

TraceInit ==
    /\ l = 2 /\ viol = "" /\ ct = NoCt
    /\ Trace[1].op = "Init"
    /\ rules = {} /\ lines = <<>> /\ qc = QcOf(Trace[1]) /\ q = {} /\ out = NoOut
    /\ TLCSet(1, 1)

StepC(v) ==
    /\ l' = l + 1 /\ viol' = v
    /\ IF v = "" THEN TRUE ELSE PrintT("@@VIOL " \o ToString(l) \o " " \o v)
Step(v) == StepC(v) /\ ct' = ct

TrReset ==
    /\ Ev.op = "Init"
    /\ rules' = {} /\ lines' = <<>> /\ qc' = QcOf(Ev) /\ q' = {} /\ out' = NoOut
    /\ ct' = NoCt /\ StepC("")

TrReinit ==
    /\ Ev.op = "Reinit"
    /\ rules' = {} /\ lines' = <<>> /\ q' = {} /\ out' = NoOut
    /\ qc' = [qc EXCEPT !.cap = Ev.cap, !.cip = Ev.cip, !.moved = FALSE, !.pool = WithPrios(qc.pool, Ev.prios)]
    /\ Step("")

TrReload ==
    /\ Ev.op = "Reload"
    /\ ReloadUpdate(Ev.lines, Ev.err)
    /\ Step(ReloadViol(Ev.lines, Ev.err))

\* @obligation C18.blocked  every recorded Blocked(ip) answer equals the naive definition
TrQuery ==
    /\ Ev.op = "Query"
    /\ UNCHANGED vars
    /\ Step(IF \E i \in 1 .. Len(Ev.ips) : Ev.ans[i] # Blocked(Ev.ips[i], rules) THEN "C18.blocked" ELSE "")

\* @obligation C18.resolve  resolver.Resolve refuses exactly the blocked literal addresses (and port 0)
TrResolve ==
    /\ Ev.op = "Resolve"
    /\ UNCHANGED vars
    /\ Step(IF Ev.port = 0 THEN (IF Ev.res # "badport" THEN "C18.resolve.port0" ELSE "")
            ELSE IF Blocked(Ev.ip, rules) # (Ev.res = "blocked") THEN "C18.resolve.blocked"
            ELSE IF Ev.res \notin {"ok", "blocked"} THEN "C18.resolve.other"
            ELSE "")

\* @obligation C18.prio  peerpriority reproduces the BEP 40 vectors and is symmetric
TrPrio ==
    /\ Ev.op = "Prio"
    /\ UNCHANGED vars
    /\ Step(IF Ev.got # Ev.want THEN "C18.prio" ELSE "")

\* observations outside the property (IPv6 queries, IPv6 / mapped CIDR lines): recorded, not judged
TrInfo == Ev.op = "Info" /\ UNCHANGED vars /\ Step("")

QStep(v) ==
    /\ q' = QOf(Ev)
    /\ UNCHANGED <<rules, lines, qc>>
    /\ Step(IF v # "" THEN v
            ELSE IF Len(Ev.q) # Cardinality(QOf(Ev)) THEN "C18.q.dup"
            ELSE ViewViol(Ev.len, Ev.ls, QOf(Ev)))

TrPush ==
    /\ Ev.op = "Push"
    /\ out' = out
    /\ QStep(PushViol(Ev.addrs, Ev.s, QOf(Ev)))

TrPop ==
    /\ Ev.op = "Pop"
    /\ out' = [a |-> Ev.r, s |-> Ev.s]
    /\ QStep(PopViol(Ev.r, Ev.s, QOf(Ev)))

TrSetCip ==
    /\ Ev.op = "SetCip"
    /\ SetCipUpdate(Ev.cip, Ev.prios)
    /\ q' = QOf(Ev) /\ out' = out
    /\ UNCHANGED <<rules, lines>>
    /\ Step(IF SetCipViol(QOf(Ev)) # "" THEN SetCipViol(QOf(Ev)) ELSE ViewViol(Ev.len, Ev.ls, QOf(Ev)))

TrQReset ==
    /\ Ev.op = "Reset"
    /\ out' = NoOut
    /\ QStep(ResetViol(QOf(Ev)))

TrPanic == Ev.op = "Panic" /\ UNCHANGED vars /\ Step("C18.panic")

-----------------------------------------------------------------------------
(* Session-level contact observations (harness/c18 -mode contact): a real  *)
(* torrent.Session on loopback addresses; its blocklist is the `rules` of  *)
(* the preceding Reload lines (recorded when the session reports the list  *)
(* as loaded).  Every observed contact is judged against the state at the  *)
(* moment of the observation.                                              *)

TrCInit ==
    /\ Ev.op = "CInit" /\ UNCHANGED vars
    /\ ct' = [sw |-> [out |-> Ev.out, inc |-> Ev.inc, trk |-> Ev.trk], self |-> {}, conn |-> {}, banned |-> {}]
    /\ StepC("")
\* the torrent got its listening port / was told its external IP by a peer (yourip of the extension handshake)
TrCSelf  == Ev.op = "CSelf" /\ UNCHANGED vars /\ ct' = [ct EXCEPT !.self = @ \cup {<<Ev.self, Ev.sport>>}] /\ StepC("")
\* a connection with the client exists (handshake done) or is being set up (TCP accepted by a scripted listener)
TrCConn  == Ev.op = "CConn" /\ UNCHANGED vars /\ ct' = [ct EXCEPT !.conn = @ \cup {Ev.ip}] /\ StepC("")
TrCDisc  == Ev.op = "CDisc" /\ UNCHANGED vars /\ ct' = [ct EXCEPT !.conn = @ \ {Ev.ip}] /\ StepC("")
\* the client's own state lists the IP as banned (hook H1)
TrCBan   == Ev.op = "CBan" /\ UNCHANGED vars /\ ct' = [ct EXCEPT !.banned = @ \cup {Ev.ip}] /\ StepC("")
\* a scripted listener on ip:port accepted a connection of the client, or the client's state shows a dial to ip
TrCDial  == /\ Ev.op = "CDial" /\ UNCHANGED <<vars, ct>>
            /\ StepC(DialViol(Ev.ip, Ev.port, ct.sw, ct.self, ct.conn, ct.banned))
\* the client answered the handshake of a connection coming from ip
TrCAccept == Ev.op = "CAccept" /\ UNCHANGED <<vars, ct>> /\ StepC(AcceptViol(Ev.ip, ct.sw))
\* a tracker (HTTP request / UDP datagram) or a web seed listening on ip received a request
TrCAnnounce == Ev.op = "CAnnounce" /\ UNCHANGED <<vars, ct>> /\ StepC(AnnounceViol(Ev.ip, ct.sw))
TrCWebseed  == Ev.op = "CWebseed" /\ UNCHANGED <<vars, ct>> /\ StepC(WebseedViol(Ev.ip, ct.sw))
\* bookkeeping lines of the harness (offers, controls, end of scenario): not judged
TrCNote  == Ev.op \in {"CNote", "CEnd"} /\ UNCHANGED <<vars, ct>> /\ StepC("")

TraceNext ==
    /\ l <= Len(Trace)
    /\ \/ TrReset \/ TrReinit \/ TrReload \/ TrQuery \/ TrResolve \/ TrPrio \/ TrInfo
       \/ TrPush \/ TrPop \/ TrSetCip \/ TrQReset \/ TrPanic
       \/ TrCInit \/ TrCSelf \/ TrCConn \/ TrCDisc \/ TrCBan \/ TrCDial \/ TrCAccept \/ TrCAnnounce \/ TrCWebseed \/ TrCNote

TraceSpec == TraceInit /\ [][TraceNext]_tvars

HighWater == TLCSet(1, IF l > TLCGet(1) THEN l ELSE TLCGet(1))
NoViolation == viol = ""
TraceAccepted ==
    LET hw == TLCGet(1) IN
    IF hw = Len(Trace) + 1 THEN TRUE
    ELSE /\ PrintT("@@REJECT " \o ToString(hw - 1) \o " " \o ToString(Len(Trace)))
         /\ FALSE
=============================================================================
