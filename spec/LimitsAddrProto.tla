---------------------------- MODULE LimitsAddrProto ----------------------------
(* Part B: transcription of internal/addrlist/addrlist.go (see LimitsAddr.tla). *)
EXTENDS LimitsAddr

CONSTANTS MAXITEMS, Prios, MAXPUSH

VARIABLES entries,   \* set of [prio, src, ts]          (peerByPriority, keyed by prio / peerByTime)
          clock
vars == <<avars, entries, clock>>

PInit == AddrInitWith([max |-> MAXITEMS]) /\ entries = {} /\ clock = 0

\* one loop iteration of Push: ReplaceOrInsert(p); the previous holder of that priority loses its count
RECURSIVE Apply(_, _, _, _)
Apply(ps, src, es, c) ==
    IF ps = <<>> THEN <<es, c>>
    ELSE LET p == Head(ps)
             old == {e \in es : e.prio = p}
             c1 == IF old = {} THEN c ELSE LET o == CHOOSE e \in old : TRUE IN [c EXCEPT ![o.src] = @ - 1]
         IN Apply(Tail(ps), src, (es \ old) \cup {[prio |-> p, src |-> src, ts |-> clock + 1]}, c1)

\* removeExcessItems(delta): the delta oldest entries (any order among equal timestamps)
OldestSets(es, d) == {S \in SUBSET es : Cardinality(S) = d /\ \A x \in S, y \in es \ S : x.ts <= y.ts}

RECURSIVE Dec(_, _)
Dec(c, S) == IF S = {} THEN c ELSE LET x == CHOOSE y \in S : TRUE IN Dec([c EXCEPT ![x.src] = @ - 1], S \ {x})

Push(ps, src) ==
    LET r == Apply(ps, src, entries, cnt)
        es1 == r[1]
        c1 == [r[2] EXCEPT ![src] = @ + Len(ps)]          \* countBySource[source] += added
        delta == Cardinality(es1) - MAXITEMS
    IN /\ clock' = clock + 1
       /\ IF delta > 0
          THEN \E S \in OldestSets(es1, delta) : entries' = es1 \ S /\ ASet(Dec(c1, S))
          ELSE entries' = es1 /\ ASet(c1)

Pop ==
    /\ entries # {}
    /\ LET m == CHOOSE e \in entries : \A f \in entries : f.prio <= e.prio
       IN entries' = entries \ {m} /\ ASet([cnt EXCEPT ![m.src] = @ - 1])
    /\ UNCHANGED clock

Reset == entries' = {} /\ ASet([s \in Sources |-> 0]) /\ UNCHANGED clock

PushSeqs == UNION {[1 .. n -> Prios] : n \in 0 .. MAXPUSH}

PNext ==
    \/ \E ps \in PushSeqs, src \in Sources : Push(ps, src)
    \/ Pop \/ Reset

PSpec == PInit /\ [][PNext]_vars
Bound == clock <= 4

\* @obligation C17.addr.limit  @obligation C17.addr.balance
PInv ==
    /\ AddrInv
    /\ Cardinality(entries) <= MAXITEMS
    /\ \A s \in Sources : cnt[s] = Cardinality({e \in entries : e.src = s})
    /\ \A e, f \in entries : e.prio = f.prio => e = f
=============================================================================
