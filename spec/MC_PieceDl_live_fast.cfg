SPECIFICATION LiveSpec
CONSTANTS
  SECS <- Secs_plain4
  BS = 2
  QLENS = {1, 2}
  FAST = TRUE
  AF = FALSE
  REJ = "choked"
  UNREQ = TRUE
  ENDS = FALSE
INVARIANT TypeOK
CHECK_DEADLOCK FALSE
PROPERTY Completes
