SPECIFICATION MSpec
CONSTANTS
  NP = 2
  NSRC = 2
  CAPD = 1
  RI = 1
  VARIANT = "fixed"
  NSTOPS = 0
  NERRS = 1
INVARIANT NeverRetried
VIEW MView
CHECK_DEADLOCK FALSE
