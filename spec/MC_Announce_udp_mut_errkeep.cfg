SPECIFICATION MCSpec
CONSTANTS
  NT = 2
  NM = 1
  UDP = TRUE
  CMIN = 2
  BO = 3
  IVALS <- IvOne
  ASIS = {"errkeep"}
  CIDS = {0}
  ENV = {"flip", "stop"}
INVARIANT Inv
PROPERTY Live
CHECK_DEADLOCK FALSE
