SPECIFICATION MCSpec
CONSTANTS
  NP = 3
  NF = 2
  FO <- Geo3x2
  DESIGN = "safe"
  ONFOREIGN = "refuse"
  READD = "fresh"
INVARIANT Inv
CHECK_DEADLOCK FALSE
