SPECIFICATION MCSpec
CONSTANTS
  SECS <- Secs_plain4
  BS = 2
  QLENS = {1, 2, 3}
  FAST = TRUE
  AF = FALSE
  REJ = "choked"
  UNREQ = TRUE
  ENDS = TRUE
INVARIANT InvNoStuck
CHECK_DEADLOCK FALSE
