SPECIFICATION MCSpec
CONSTANTS
  MaxFiles = 3
  MaxLen = 2
  MaxPL = 3
  BSS = {2, 3}
INVARIANT ReadBackInv
INVARIANT DiskInv
INVARIANT AllWrittenIsFinal
CHECK_DEADLOCK FALSE
