SPECIFICATION GenSpec
CONSTANTS
  N = 4
  NPE = 2
  K = 3
  ASIS = FALSE
  ALPHA = "full"
  MAXLEN = 10
  GUARD = TRUE
  AFPARK = FALSE
INVARIANT GenPrint
CHECK_DEADLOCK FALSE
