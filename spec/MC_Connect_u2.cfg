SPECIFICATION MCSpec
CONSTANTS
  MAXACC = 2
  MAXDIAL = 2
  BLOCKED = {}
  DEV = {}
  UNIVERSE = 2
INVARIANT TypeOK
INVARIANT Balance
INVARIANT Caps
INVARIANT Uniq
INVARIANT GoodPeers
INVARIANT Closed
INVARIANT StoppedClean
CHECK_DEADLOCK FALSE
