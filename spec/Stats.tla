------------------------------- MODULE Stats -------------------------------
(***************************************************************************)
(* X07 - byte and piece accounting: PART 2, the algorithm of the code as a *)
(* state machine run against the obligations of StatsObs (PART 1, which    *)
(* also documents the meaning of the counters).                            *)
(* Units: 1 unit = 1 block; a piece has NB units of which PAD[p] are       *)
(* padding that is never transferred.  FIX selects repairs; FIX = {} is    *)
(* the code as it is.  `av` = tags violated by the last step.              *)
(***************************************************************************)
EXTENDS StatsObs

CONSTANTS NP,        \* pieces
          NB,        \* units per piece (padding included)
          PAD,       \* <<padding units of piece 1, ...>>
          NSRC,      \* peers that upload to the client
          WS,        \* TRUE: one web seed
          FIX,       \* subset of {"late", "pad", "close", "seed", "tick"}; {} = the code as it is
          MUT,       \* "none" or a deliberate mutation (sanity of the envelope itself)
          IGNORE,    \* tags not reported in av
          RXMAX, NJUNK, NWRITE, NFAIL, NCRASH, NCLOSE, NSTOP, NUP, NINV, NLATE,
          TMAX, PERIOD, LATE, SEEDTOL

Piece == 1 .. NP
Src == 1 .. NSRC
W == 0                              \* the web seed as a source id
Data(p) == NB - PAD[p]              \* data units of a piece (what a source really transfers)
Blocks(p) == 1 .. Data(p)
Z4 == [dl |-> 0, ul |-> 0, wa |-> 0, sf |-> 0]
ZT == [rx |-> 0, rxw |-> 0, junk |-> 0, bad |-> 0, tx |-> 0, txunc |-> 0, gain |-> 0]
NoWrite == [p |-> 0, s |-> 0, ok |-> TRUE, stale |-> FALSE]

VARIABLES
    phase,    \* "open" | "closing" (Session.Close has written the stats, torrents still run) | "down"
    st,       \* "D" downloading | "S" seeding | "X" stopped
    have,     \* bitfield
    disk,     \* pieces whose verified content is in storage (truth)
    cnt,      \* [Piece -> times the piece was added to the bitfield in this session]
    alive,    \* [Src -> the client holds an open connection to that peer]
    pd,       \* [Src -> piece being downloaded from it, 0 = none]
    got,      \* [Src -> blocks received into its piece downloader]
    late,     \* [Src -> piece messages still in the pipe of a peer the client has closed]
    wr,       \* piece being hashed / written
    ulq,      \* BlockUploaded notifications not yet handled by the loop
    c,        \* the reported counters
    ps,       \* the persisted counters
    b,        \* the counters as loaded by this session
    T,        \* ground truth of this session (environment)
    sess,     \* session-level counters [dl, ul]
    ST,       \* session-level truth [rx (peers only), tx]
    bud,      \* remaining budgets
    now, due, upd, seedT, cycles,   \* time: clock, ticker due, seedDurationUpdatedAt (-1 = zero), truth, stop->start cycles
    tickAt,   \* the time carried by the pending tick (the time at which the ticker fired; the loop may handle it up to LATE later)
    clean,    \* how the session went down: TRUE = Close completed
    av        \* tags violated by the last step

vars == <<phase, st, have, disk, cnt, alive, pd, got, late, wr, ulq, c, ps, b, T, sess, ST, bud, now, due, upd, seedT, cycles, tickAt, clean, av>>

Fixed(x) == x \in FIX

\* -------------------------------------------------------------- the envelope evaluated on a state
Lo(TT, bb, q) == [dl |-> bb.dl + TT.rx + TT.rxw, wa |-> bb.wa + TT.junk + TT.bad, ul |-> bb.ul + TT.tx - TT.txunc - q]
Hi(TT, bb) == [dl |-> bb.dl + TT.rx + TT.rxw, wa |-> bb.wa + TT.junk + TT.bad, ul |-> bb.ul + TT.tx]
Report(cc, hv) == [dl |-> cc.dl, ul |-> cc.ul, wa |-> cc.wa, sf |-> cc.sf,
                   completed |-> Cardinality(hv) * NB, incomplete |-> NP * NB - Cardinality(hv) * NB, total |-> NP * NB,
                   have |-> Cardinality(hv), missing |-> NP - Cardinality(hv), np |-> NP]
PLen == [p \in Piece |-> NB]

StateViols(cc, TT, bb, hv, dk, ct, q, se, SS, sT, cy) ==
    LET r == Report(cc, hv) IN
    DlViols(Lo(TT, bb, q), Hi(TT, bb), r, TRUE) \cup WaViols(Lo(TT, bb, q), Hi(TT, bb), r, TRUE)
    \cup UlViols(Lo(TT, bb, q), Hi(TT, bb), r, TRUE) \cup SubViols(r)
    \cup UseViols(r, bb.dl, bb.wa, TT.gain) \cup PieceViols(r, PLen, hv)
    \* @obligation X07.a  the bitfield only counts pieces whose verified content is in storage (C01.b at Stats level)
    \cup Tag(~(hv \subseteq dk), "X07.a.pieces.disk")
    \* @obligation X07.c  a piece is added to the bitfield once
    \cup Tag(\E p \in Piece : ct[p] > 1, "X07.c.once")
    \* @obligation X07.e  SeededFor advances only while the status is Seeding (tolerance: SEEDTOL per stop->start cycle)
    \cup Tag(cc.sf - bb.sf > sT + SEEDTOL * cy, "X07.e.seed")
    \* @obligation X07.f  session counters = sum over the torrents of what they counted in this session (peers only for downloads)
    \cup Tag(se.dl # SS.rx \/ se.ul > SS.tx \/ se.ul < SS.tx - TT.txunc - q, "X07.f.sess")

\* -------------------------------------------------------------- initial state
Init ==
    /\ phase = "open" /\ st = "D" /\ have = {} /\ disk = {} /\ cnt = [p \in Piece |-> 0]
    /\ alive = [s \in Src |-> TRUE] /\ pd = [s \in Src |-> 0] /\ got = [s \in Src |-> {}] /\ late = [s \in Src |-> 0]
    /\ wr = NoWrite /\ ulq = 0
    /\ c = Z4 /\ ps = Z4 /\ b = Z4 /\ T = ZT /\ sess = [dl |-> 0, ul |-> 0] /\ ST = [rx |-> 0, tx |-> 0]
    /\ bud = [rx |-> RXMAX, junk |-> NJUNK, write |-> NWRITE, fail |-> NFAIL, crash |-> NCRASH, close |-> NCLOSE, stop |-> NSTOP, up |-> NUP, inv |-> NINV, late |-> NLATE]
    /\ now = 0 /\ due = FALSE /\ upd = -1 /\ seedT = 0 /\ cycles = 0 /\ tickAt = -1 /\ clean = FALSE
    /\ av = {}

Running == phase \in {"open", "closing"} /\ st # "X"
TimeVars == <<now, due, upd, seedT, cycles, tickAt>>
Judge == av' = (StateViols(c', T', b', have', disk', cnt', ulq', sess', ST', seedT', cycles')
                \cup MonoViols(c', c)) \ IGNORE

\* updateSeedDuration(tm) applied to (status, upd, sf).  As is, the difference is added whatever its sign:
\* a tick carries the time at which it fired and may be handled after a Stats() call that used a later time.
SeedUpdAt(status, u, sf, tm) ==
    IF status # "S" THEN [u |-> -1, sf |-> sf]
    ELSE IF u = -1 THEN [u |-> tm, sf |-> sf]
    ELSE [u |-> tm, sf |-> sf + (tm - u)]
SeedUpd(status, u, sf) == SeedUpdAt(status, u, sf, now)

\* -------------------------------------------------------------- download from peers
Wanted == Piece \ (have \cup (IF wr.p # 0 /\ ~wr.stale THEN {wr.p} ELSE {}))

\* startPieceDownloaderFor: any wanted piece; the same piece may be fetched from two peers (end-game)
Pick(s) ==
    /\ Running /\ st = "D" /\ alive[s] /\ pd[s] = 0
    /\ \E p \in Wanted : pd' = [pd EXCEPT ![s] = p] /\ got' = [got EXCEPT ![s] = {}]
    /\ UNCHANGED <<phase, st, have, disk, cnt, alive, late, wr, ulq, c, ps, b, T, sess, ST, bud, clean>> /\ UNCHANGED TimeVars
    /\ Judge

\* handlePieceMessage for an open peer: block bl of piece p arrives from peer s.  A requested block is the next missing
\* block of the peer's current piece (the order of honest answers does not matter for the accounting); anything else
\* (duplicate - e.g. the second answer after a choke without the fast extension re-queued a pending request -, a block
\* of another piece, a block when no piece is being downloaded) is junk and limited by a budget.
NextBlock(s) == CHOOSE x \in Blocks(pd[s]) \ got[s] : \A y \in Blocks(pd[s]) \ got[s] : x <= y
Recv(s, p, bl) ==
    /\ Running /\ alive[s] /\ wr.p = 0 /\ bud.rx > 0
    /\ LET stored == pd[s] = p /\ bl \notin got[s]
           g2 == got[s] \cup {bl}
           done == stored /\ g2 = Blocks(p)
           okset == IF bud.fail > 0 THEN BOOLEAN ELSE {TRUE}
       IN /\ IF stored THEN bl = NextBlock(s) ELSE bud.junk > 0
          /\ bud' = [bud EXCEPT !.rx = @ - 1, !.junk = IF stored THEN @ ELSE @ - 1]
          /\ ST' = [ST EXCEPT !.rx = @ + 1] /\ sess' = [sess EXCEPT !.dl = @ + 1]
          /\ T' = [T EXCEPT !.rx = @ + 1, !.junk = IF stored THEN @ ELSE @ + 1]
          /\ c' = [c EXCEPT !.dl = @ + 1,
                            !.wa = IF stored \/ MUT = "nowaste" THEN @ ELSE @ + 1]
          /\ IF done
             THEN \E ok \in okset :
                    /\ wr' = [p |-> p, s |-> s, ok |-> ok, stale |-> FALSE]
                    /\ pd' = [pd EXCEPT ![s] = 0] /\ got' = [got EXCEPT ![s] = {}]
             ELSE /\ wr' = wr /\ pd' = pd
                  /\ got' = IF stored THEN [got EXCEPT ![s] = g2] ELSE got
    /\ UNCHANGED <<phase, st, have, disk, cnt, alive, late, ulq, ps, b, clean>> /\ UNCHANGED TimeVars
    /\ Judge

\* handlePieceMessage, first branch (pe.Closed): a block that was in the pipe when the client closed the peer.
\* As is: Wasted only.  "late": Downloaded too (the bytes were received).
RecvLate(s) ==
    /\ Running /\ ~alive[s] /\ late[s] > 0 /\ wr.p = 0
    /\ late' = [late EXCEPT ![s] = @ - 1]
    /\ T' = [T EXCEPT !.rx = @ + 1, !.junk = @ + 1]
    /\ ST' = [ST EXCEPT !.rx = @ + 1]
    /\ c' = [c EXCEPT !.wa = @ + 1, !.dl = IF Fixed("late") THEN @ + 1 ELSE @]
    /\ sess' = [sess EXCEPT !.dl = IF Fixed("late") THEN @ + 1 ELSE @]
    /\ UNCHANGED <<phase, st, have, disk, cnt, alive, pd, got, wr, ulq, ps, b, bud, clean>> /\ UNCHANGED TimeVars
    /\ Judge

\* handlePieceMessage, "invalid piece index" branch: Wasted only as is; the peer is closed
RecvInvalid(s) ==
    /\ Running /\ alive[s] /\ wr.p = 0 /\ bud.inv > 0
    /\ bud' = [bud EXCEPT !.inv = @ - 1]
    /\ T' = [T EXCEPT !.rx = @ + 1, !.junk = @ + 1]
    /\ ST' = [ST EXCEPT !.rx = @ + 1]
    /\ c' = [c EXCEPT !.wa = @ + 1, !.dl = IF Fixed("late") THEN @ + 1 ELSE @]
    /\ sess' = [sess EXCEPT !.dl = IF Fixed("late") THEN @ + 1 ELSE @]
    /\ alive' = [alive EXCEPT ![s] = FALSE] /\ pd' = [pd EXCEPT ![s] = 0] /\ got' = [got EXCEPT ![s] = {}]
    /\ UNCHANGED <<phase, st, have, disk, cnt, late, wr, ulq, ps, b, clean>> /\ UNCHANGED TimeVars
    /\ Judge

\* handleWebseedPieceResult: the web seed delivers a whole piece (its buffer has the full piece length: padding is
\* never fetched but, as is, counted).  A piece that is complete already is discarded: Wasted only, as is.
WebPiece(p) ==
    /\ WS /\ Running /\ st = "D" /\ wr.p = 0 /\ bud.rx >= Data(p)
    /\ bud' = [bud EXCEPT !.rx = @ - Data(p)]
    /\ LET n == IF Fixed("pad") THEN Data(p) ELSE NB IN
       IF p \in have
       THEN /\ T' = [T EXCEPT !.rxw = @ + Data(p), !.junk = @ + Data(p)]
            /\ c' = [c EXCEPT !.wa = @ + n, !.dl = IF Fixed("late") THEN @ + n ELSE @]
            /\ wr' = wr
       ELSE /\ T' = [T EXCEPT !.rxw = @ + Data(p)]
            /\ c' = [c EXCEPT !.dl = @ + n]
            /\ \E ok \in (IF bud.fail > 0 THEN BOOLEAN ELSE {TRUE}) : wr' = [p |-> p, s |-> W, ok |-> ok, stale |-> FALSE]
    /\ UNCHANGED <<phase, st, have, disk, cnt, alive, pd, got, late, ulq, ps, b, sess, ST, clean>> /\ UNCHANGED TimeVars
    /\ Judge

\* handlePieceWriteDone
WriteDone ==
    /\ phase # "down" /\ wr.p # 0
    /\ wr' = NoWrite
    /\ LET p == wr.p IN
       IF wr.stale
       THEN \* result of a previous run: ignored (the bytes stay Downloaded, are neither Completed nor Wasted)
            /\ disk' = IF wr.ok THEN disk \cup {p} ELSE disk
            /\ UNCHANGED <<st, have, cnt, alive, pd, got, late, c, T, bud, upd>>
       ELSE IF ~wr.ok
       THEN \* hash failure: Wasted += len(buffer) = the FULL piece length as is; the source is dropped
            /\ c' = [c EXCEPT !.wa = IF MUT = "nohashwaste" THEN @ ELSE @ + (IF Fixed("pad") THEN Data(p) ELSE NB)]
            /\ T' = [T EXCEPT !.bad = @ + Data(p)]
            /\ bud' = [bud EXCEPT !.fail = @ - 1]
            /\ IF wr.s # W
               THEN /\ alive' = [alive EXCEPT ![wr.s] = FALSE]
                    /\ \E k \in 0 .. Min(1, bud.late) : late' = [late EXCEPT ![wr.s] = k]
                    /\ pd' = [pd EXCEPT ![wr.s] = 0] /\ got' = [got EXCEPT ![wr.s] = {}]
               ELSE UNCHANGED <<alive, late, pd, got>>
            /\ UNCHANGED <<st, have, disk, cnt, upd>>
       ELSE \* verified and written
            /\ have' = have \cup {p} /\ disk' = disk \cup {p} /\ cnt' = [cnt EXCEPT ![p] = @ + 1]
            /\ T' = [T EXCEPT !.gain = @ + Data(p)]
            /\ pd' = [s \in Src |-> IF pd[s] = p THEN 0 ELSE pd[s]]          \* other downloaders of p are closed,
            /\ got' = [s \in Src |-> IF pd[s] = p THEN {} ELSE got[s]]       \* their blocks are dropped silently
            /\ st' = IF have' = Piece THEN "S" ELSE st
            /\ LET su == SeedUpd(st', upd, c.sf) IN                          \* checkCompletion -> updateSeedDuration
               /\ upd' = IF have' = Piece THEN su.u ELSE upd
               /\ c' = IF MUT = "prehash" THEN [c EXCEPT !.dl = @ + Data(p)] ELSE c
            /\ UNCHANGED <<alive, late, bud>>
    /\ UNCHANGED <<phase, ulq, ps, b, sess, ST, clean, now, due, seedT, cycles, tickAt>>
    /\ Judge

\* -------------------------------------------------------------- upload
\* peerwriter.messageWriter: conn.Write of a piece message, then BlockUploaded travels to the loop
Upload ==
    /\ Running /\ have # {} /\ bud.up > 0
    /\ bud' = [bud EXCEPT !.up = @ - 1]
    /\ T' = [T EXCEPT !.tx = @ + 1] /\ ST' = [ST EXCEPT !.tx = @ + 1] /\ ulq' = ulq + 1
    /\ UNCHANGED <<phase, st, have, disk, cnt, alive, pd, got, late, wr, c, ps, b, sess, clean>> /\ UNCHANGED TimeVars
    /\ Judge
UploadCounted ==
    /\ Running /\ ulq > 0
    /\ ulq' = ulq - 1 /\ c' = [c EXCEPT !.ul = @ + 1] /\ sess' = [sess EXCEPT !.ul = @ + 1]
    /\ UNCHANGED <<phase, st, have, disk, cnt, alive, pd, got, late, wr, ps, b, T, ST, bud, clean>> /\ UNCHANGED TimeVars
    /\ Judge

\* -------------------------------------------------------------- stop / start
StopEffects ==
    /\ alive' = [s \in Src |-> FALSE] /\ pd' = [s \in Src |-> 0] /\ got' = [s \in Src |-> {}]
    /\ late' = [s \in Src |-> 0]
    /\ wr' = IF wr.p # 0 THEN [wr EXCEPT !.stale = TRUE] ELSE wr
    /\ T' = [T EXCEPT !.txunc = @ + ulq] /\ ulq' = 0           \* notifications of a closed peer are dropped

Stop ==
    /\ phase = "open" /\ st # "X" /\ bud.stop > 0
    /\ bud' = [bud EXCEPT !.stop = @ - 1]
    /\ st' = "X" /\ StopEffects
    /\ IF Fixed("seed")
       THEN LET su == SeedUpd(st, upd, c.sf) IN c' = [c EXCEPT !.sf = su.sf] /\ upd' = -1
       ELSE c' = c /\ upd' = upd
    /\ UNCHANGED <<phase, have, disk, cnt, ps, b, sess, ST, clean, now, due, seedT, cycles, tickAt>>
    /\ Judge

Start ==
    /\ phase = "open" /\ st = "X"
    /\ st' = IF have = Piece THEN "S" ELSE "D"
    /\ alive' = [s \in Src |-> TRUE]
    /\ cycles' = cycles + 1
    /\ UNCHANGED <<phase, have, disk, cnt, pd, got, late, wr, ulq, c, ps, b, T, sess, ST, bud, clean, now, due, upd, seedT, tickAt>>
    /\ Judge

\* -------------------------------------------------------------- persistence
\* Session.updateStats: periodic (ticker of ResumeWriteInterval)
ResumeWrite ==
    /\ phase = "open" /\ ps # c /\ bud.write > 0
    /\ ps' = c /\ bud' = [bud EXCEPT !.write = @ - 1]
    /\ UNCHANGED <<phase, st, have, disk, cnt, alive, pd, got, late, wr, ulq, c, b, T, sess, ST, clean>> /\ UNCHANGED TimeVars
    /\ Judge

\* Session.Close, step 1: updateStats() - the torrents are still running.  "close": written when they have stopped.
CloseWrite ==
    /\ phase = "open" /\ bud.close > 0
    /\ bud' = [bud EXCEPT !.close = @ - 1]
    /\ phase' = "closing" /\ ps' = c
    /\ UNCHANGED <<st, have, disk, cnt, alive, pd, got, late, wr, ulq, c, b, T, sess, ST, clean>> /\ UNCHANGED TimeVars
    /\ Judge
\* Session.Close, step 2: the torrents are closed
CloseStop ==
    /\ phase = "closing"
    /\ phase' = "down" /\ clean' = TRUE /\ StopEffects /\ st' = st
    /\ ps' = IF Fixed("close") /\ MUT # "nopersist" THEN c ELSE IF MUT = "nopersist" THEN b ELSE ps
    /\ UNCHANGED <<have, disk, cnt, c, b, sess, ST, bud>> /\ UNCHANGED TimeVars
    /\ Judge
\* the process dies
Crash ==
    /\ phase \in {"open", "closing"} /\ bud.crash > 0
    /\ bud' = [bud EXCEPT !.crash = @ - 1]
    /\ phase' = "down" /\ clean' = FALSE /\ StopEffects /\ st' = st
    /\ UNCHANGED <<have, disk, cnt, c, ps, b, sess, ST>> /\ UNCHANGED TimeVars
    /\ Judge

\* NewSession on the same database: newTorrent adds the persisted values to zero counters.
\* (the bitfield is persisted with the counters and at stop / completion: C05/C14 judge it; here it is kept)
\* @obligation X07.b  a restart never goes below the persisted value, loses nothing after a clean Close, never double counts
Reload ==
    /\ phase = "down"
    /\ phase' = "open"
    /\ c' = IF MUT = "dbl" THEN [dl |-> ps.dl + ps.dl, ul |-> ps.ul + ps.ul, wa |-> ps.wa + ps.wa, sf |-> ps.sf + ps.sf] ELSE ps
    /\ b' = ps /\ T' = ZT /\ sess' = [dl |-> 0, ul |-> 0] /\ ST' = [rx |-> 0, tx |-> 0]
    /\ wr' = NoWrite /\ ulq' = 0 /\ cnt' = [p \in Piece |-> 0]
    /\ alive' = [s \in Src |-> st # "X"] /\ upd' = -1 /\ seedT' = 0 /\ cycles' = 0 /\ due' = FALSE /\ tickAt' = -1
    /\ av' = (StateViols(c', T', b', have, disk, cnt', 0, sess', ST', 0, 0)
              \cup Tag(\E x \in {"dl", "ul", "wa", "sf"} : c'[x] < ps[x], "X07.b.floor")
              \cup Tag(clean /\ c' # c, "X07.b.clean")) \ IGNORE
    /\ UNCHANGED <<st, have, disk, pd, got, late, ps, bud, clean, now>>

\* -------------------------------------------------------------- time and SeededFor
Time ==
    /\ phase = "open" /\ now < TMAX /\ (due => now < tickAt + LATE)
    /\ now' = now + 1 /\ due' = (due \/ (now + 1) % PERIOD = 0)
    /\ tickAt' = IF ~due /\ (now + 1) % PERIOD = 0 THEN now + 1 ELSE tickAt
    /\ seedT' = IF st = "S" THEN seedT + 1 ELSE seedT
    /\ UNCHANGED <<phase, st, have, disk, cnt, alive, pd, got, late, wr, ulq, c, ps, b, T, sess, ST, bud, clean, upd, cycles>>
    /\ Judge
\* seedDurationTicker (clears due) or a Stats() call (any time)
SeedTick(ticker) ==
    /\ phase = "open" /\ TMAX > 0 /\ (ticker => due)
    /\ LET su == SeedUpdAt(st, upd, c.sf, IF ticker /\ ~Fixed("tick") THEN tickAt ELSE now) IN     \* "tick": the loop reads the clock itself
       /\ upd' = su.u /\ c' = [c EXCEPT !.sf = su.sf]
       /\ (upd' # upd \/ c' # c \/ ticker)
    /\ due' = IF ticker THEN FALSE ELSE due
    /\ tickAt' = IF ticker THEN -1 ELSE tickAt
    /\ UNCHANGED <<phase, st, have, disk, cnt, alive, pd, got, late, wr, ulq, ps, b, T, sess, ST, bud, clean, now, seedT, cycles>>
    /\ Judge

Next ==
    \/ \E s \in Src : Pick(s) \/ RecvLate(s) \/ RecvInvalid(s)
    \/ \E s \in Src, p \in Piece : \E bl \in Blocks(p) : Recv(s, p, bl)
    \/ \E p \in Piece : WebPiece(p)
    \/ WriteDone \/ Upload \/ UploadCounted
    \/ Stop \/ Start \/ ResumeWrite \/ CloseWrite \/ CloseStop \/ Crash \/ Reload
    \/ Time \/ \E k \in BOOLEAN : SeedTick(k)

Spec == Init /\ [][Next]_vars

\* -------------------------------------------------------------- invariants
Conforms == av = {}
TypeOK ==
    /\ phase \in {"open", "closing", "down"} /\ st \in {"D", "S", "X"}
    /\ have \subseteq Piece /\ disk \subseteq Piece
    /\ \A x \in {"dl", "ul", "wa"} : c[x] >= 0 /\ ps[x] >= 0
    /\ ulq >= 0
\* what is persisted was reported at some time: never ahead of the counters of the session that wrote it
PersistedNotAhead == phase # "down" => \A x \in {"dl", "ul", "wa"} \cup (IF Fixed("tick") THEN {"sf"} ELSE {}) : ps[x] <= c[x] \/ MUT # "none"
Inv == TypeOK /\ Conforms /\ PersistedNotAhead
View == <<phase, st, have, disk, cnt, alive, pd, got, late, wr, ulq, c, ps, b, T, sess, ST, bud, now, due, upd, seedT, cycles, tickAt, clean>>
=============================================================================
