------------------------------- MODULE Stats -------------------------------
(***************************************************************************)
(* X07 - byte and piece accounting reported to the user is conserved.      *)
(*                                                                         *)
(* Code: torrent/torrent_stats.go (Stats), torrent_messagehandler.go       *)
(* (handlePieceMessage, BlockUploaded), torrent_write.go                   *)
(* (handlePieceWriteDone), torrent_webseed.go (handleWebseedPieceResult),  *)
(* session_stats.go (Session.Stats, updateStats = the resume write),       *)
(* session.go (Close), torrent.go (newTorrent: counters seeded from the    *)
(* resume record), session_load.go.                                        *)
(*                                                                         *)
(* PART 1 (observable, shared with Trace_Stats): the obligations as        *)
(* predicates over  ground truth kept by the environment  x  numbers       *)
(* reported by Stats().  Ground truth is an interval [lo, hi] per counter  *)
(* (the design-level machine below knows it exactly: lo = hi; the driver   *)
(* of the real code knows exactly at quiescent points, and only an upper   *)
(* bound while blocks are in flight or after a connection was cut).        *)
(*                                                                         *)
(* What the counters mean (doc comments of Stats in torrent_stats.go):     *)
(*   Downloaded "number of bytes downloaded from swarm. Because some       *)
(*              pieces may be downloaded more than once, this number may   *)
(*              be greater than completed bytes"                           *)
(*              => every payload byte of every piece message received      *)
(*              (requested, unrequested, duplicate, end-game duplicate,    *)
(*              of pieces that later fail the hash) + every byte fetched   *)
(*              from a web seed for a delivered piece, each ONCE.          *)
(*   Wasted     "Bytes downloaded due to duplicate/non-requested pieces"   *)
(*              => a part of Downloaded: blocks that were not stored       *)
(*              (duplicate, no/other piece downloader, invalid, peer       *)
(*              already closed) + (what the code adds) the data of pieces  *)
(*              discarded for hash failure and of web-seed pieces that     *)
(*              arrive for a piece already complete.                       *)
(*              NOT wasted (code and doc agree): blocks of partial pieces  *)
(*              dropped at stop / disconnect / when another source wins    *)
(*              the end-game.                                              *)
(*   Uploaded   payload bytes of piece messages written to peers' sockets. *)
(*   Completed  sum of the lengths (padding included, like Total) of the   *)
(*              pieces in the bitfield; Incomplete = Total - Completed.    *)
(*   SeededFor  "Duration while the torrent is in Seeding status", sampled *)
(*              by a 1 s ticker and by every Stats() call.                 *)
(* Persistence: the four counters are written by the periodic resume write *)
(* (Config.ResumeWriteInterval) and by Session.Close - NOT at Torrent.Stop *)
(* - and are added to fresh zero counters at load.                         *)
(*                                                                         *)
(* PART 2: the algorithm of the code as a state machine over abstract      *)
(* units (1 unit = 1 block; a piece has NB units of which PAD[p] are       *)
(* padding that is never transferred), run against PART 1.  FIX selects    *)
(* repairs; FIX = {} is the code as it is.                                 *)
(***************************************************************************)
EXTENDS Integers, Sequences, FiniteSets, TLC

Tag(c, t) == IF c THEN {t} ELSE {}
Max(a, b) == IF a > b THEN a ELSE b
Min(a, b) == IF a < b THEN a ELSE b

RECURSIVE SumOver(_, _)
SumOver(S, f) == IF S = {} THEN 0 ELSE LET x == CHOOSE y \in S : TRUE IN f[x] + SumOver(S \ {x}, f)

(***************************************************************************)
(* PART 1 - obligations                                                    *)
(*   lo, hi : [dl, ul, wa]   bounds from ground truth (base value at load  *)
(*                           included)                                     *)
(*   r      : the report     [dl, ul, wa, ...]                             *)
(*   q      : TRUE at a quiescent point (lower bounds are due only there)  *)
(***************************************************************************)
\* @obligation X07.a  conservation: Downloaded = payload received (+ web-seed bytes), each byte once
\* @obligation X07.c  ... in particular end-game duplicates and re-requested blocks are counted once per wire message
DlViols(lo, hi, r, q) == Tag(r.dl > hi.dl \/ (q /\ r.dl < lo.dl), "X07.a.dl")
\* @obligation X07.a  Wasted = blocks not stored + data of pieces discarded for hash failure
WaViols(lo, hi, r, q) == Tag(r.wa > hi.wa \/ (q /\ r.wa < lo.wa), "X07.a.wa")
\* @obligation X07.a  Uploaded = payload bytes written to peers' sockets in piece messages
UlViols(lo, hi, r, q) == Tag(r.ul > hi.ul \/ (q /\ r.ul < lo.ul), "X07.a.ul")
\* @obligation X07.a  wasted bytes are downloaded bytes
SubViols(r) == Tag(r.wa > r.dl, "X07.a.sub")
\* @obligation X07.a  useful bytes: what was downloaded and not wasted covers the data of the pieces gained by download
\*                    (dl0, wa0: the counters when this session loaded the torrent; gain: data bytes of pieces gained since)
UseViols(r, dl0, wa0, gain) == Tag((r.dl - dl0) - (r.wa - wa0) < gain, "X07.a.use")
\* @obligation X07.a  Completed = sum of piece lengths of the verified pieces; Completed + Incomplete = Total; Have + Missing = Total pieces
\* @obligation X07.c  a piece obtained from two sources is counted once
PieceViols(r, plen, haveSet) ==
    Tag(r.completed + r.incomplete # r.total \/ r.completed < 0 \/ r.incomplete < 0, "X07.a.bytes.sum")
    \cup Tag(r.completed # SumOver(haveSet, plen), "X07.a.bytes.completed")
    \cup Tag(r.have + r.missing # r.np \/ r.have # Cardinality(haveSet), "X07.a.pieces")
\* @obligation X07.b  the persistent counters never decrease (floor = previous report of this session, or what is known to be persisted)
MonoViols(r, floor) ==
    Tag(r.dl < floor.dl, "X07.b.mono.dl") \cup Tag(r.ul < floor.ul, "X07.b.mono.ul")
    \cup Tag(r.wa < floor.wa, "X07.b.mono.wa") \cup Tag(r.sf < floor.sf, "X07.b.mono.sf")

(***************************************************************************)
(* PART 2 - the algorithm                                                  *)
(***************************************************************************)
CONSTANTS NP,        \* pieces
          NB,        \* units per piece (padding included)
          PAD,       \* <<padding units of piece 1, ...>>
          NSRC,      \* peers that upload to the client
          WS,        \* TRUE: one web seed
          FIX,       \* subset of {"late", "pad", "close", "seed"}; {} = the code as it is
          MUT,       \* "none" or a deliberate mutation (sanity of the envelope itself)
          IGNORE,    \* tags not reported in av
          RXMAX, NFAIL, NCRASH, NCLOSE, NSTOP, NUP, NINV, NLATE,
          TMAX, PERIOD, SEEDTOL

Piece == 1 .. NP
Src == 1 .. NSRC
W == 0                              \* the web seed as a source id
Data(p) == NB - PAD[p]              \* data units of a piece (what a source really transfers)
Blocks(p) == 1 .. Data(p)
Z4 == [dl |-> 0, ul |-> 0, wa |-> 0, sf |-> 0]
ZT == [rx |-> 0, rxw |-> 0, junk |-> 0, bad |-> 0, tx |-> 0, txunc |-> 0, gain |-> 0]
NoWrite == [p |-> 0, s |-> 0, ok |-> TRUE, stale |-> FALSE]

VARIABLES
    phase,    \* "open" | "closing" (Session.Close has written the stats, torrents still run) | "down"
    st,       \* "D" downloading | "S" seeding | "X" stopped
    have,     \* bitfield
    disk,     \* pieces whose verified content is in storage (truth)
    cnt,      \* [Piece -> times the piece was added to the bitfield in this session]
    alive,    \* [Src -> the client holds an open connection to that peer]
    pd,       \* [Src -> piece being downloaded from it, 0 = none]
    got,      \* [Src -> blocks received into its piece downloader]
    late,     \* [Src -> piece messages still in the pipe of a peer the client has closed]
    wr,       \* piece being hashed / written
    ulq,      \* BlockUploaded notifications not yet handled by the loop
    c,        \* the reported counters
    ps,       \* the persisted counters
    b,        \* the counters as loaded by this session
    T,        \* ground truth of this session (environment)
    sess,     \* session-level counters [dl, ul]
    ST,       \* session-level truth [rx (peers only), tx]
    bud,      \* remaining budgets
    now, due, upd, seedT, cycles,   \* time: clock, ticker due, seedDurationUpdatedAt (-1 = zero), truth, stop->start cycles
    clean,    \* how the session went down: TRUE = Close completed
    av        \* tags violated by the last step

vars == <<phase, st, have, disk, cnt, alive, pd, got, late, wr, ulq, c, ps, b, T, sess, ST, bud, now, due, upd, seedT, cycles, clean, av>>

Fixed(x) == x \in FIX

\* -------------------------------------------------------------- the envelope evaluated on a state
Lo(TT, bb, q) == [dl |-> bb.dl + TT.rx + TT.rxw, wa |-> bb.wa + TT.junk + TT.bad, ul |-> bb.ul + TT.tx - TT.txunc - q]
Hi(TT, bb) == [dl |-> bb.dl + TT.rx + TT.rxw, wa |-> bb.wa + TT.junk + TT.bad, ul |-> bb.ul + TT.tx]
Report(cc, hv) == [dl |-> cc.dl, ul |-> cc.ul, wa |-> cc.wa, sf |-> cc.sf,
                   completed |-> Cardinality(hv) * NB, incomplete |-> NP * NB - Cardinality(hv) * NB, total |-> NP * NB,
                   have |-> Cardinality(hv), missing |-> NP - Cardinality(hv), np |-> NP]
PLen == [p \in Piece |-> NB]

StateViols(cc, TT, bb, hv, dk, ct, q, se, SS, sT, cy) ==
    LET r == Report(cc, hv) IN
    DlViols(Lo(TT, bb, q), Hi(TT, bb), r, TRUE) \cup WaViols(Lo(TT, bb, q), Hi(TT, bb), r, TRUE)
    \cup UlViols(Lo(TT, bb, q), Hi(TT, bb), r, TRUE) \cup SubViols(r)
    \cup UseViols(r, bb.dl, bb.wa, TT.gain) \cup PieceViols(r, PLen, hv)
    \* @obligation X07.a  the bitfield only counts pieces whose verified content is in storage (C01.b at Stats level)
    \cup Tag(~(hv \subseteq dk), "X07.a.pieces.disk")
    \* @obligation X07.c  a piece is added to the bitfield once
    \cup Tag(\E p \in Piece : ct[p] > 1, "X07.c.once")
    \* @obligation X07.e  SeededFor advances only while the status is Seeding (tolerance: SEEDTOL per stop->start cycle)
    \cup Tag(cc.sf - bb.sf > sT + SEEDTOL * cy, "X07.e.seed")
    \* @obligation X07.f  session counters = sum over the torrents of what they counted in this session (peers only for downloads)
    \cup Tag(se.dl # SS.rx \/ se.ul > SS.tx \/ se.ul < SS.tx - TT.txunc - q, "X07.f.sess")

\* -------------------------------------------------------------- initial state
Init ==
    /\ phase = "open" /\ st = "D" /\ have = {} /\ disk = {} /\ cnt = [p \in Piece |-> 0]
    /\ alive = [s \in Src |-> TRUE] /\ pd = [s \in Src |-> 0] /\ got = [s \in Src |-> {}] /\ late = [s \in Src |-> 0]
    /\ wr = NoWrite /\ ulq = 0
    /\ c = Z4 /\ ps = Z4 /\ b = Z4 /\ T = ZT /\ sess = [dl |-> 0, ul |-> 0] /\ ST = [rx |-> 0, tx |-> 0]
    /\ bud = [rx |-> RXMAX, fail |-> NFAIL, crash |-> NCRASH, close |-> NCLOSE, stop |-> NSTOP, up |-> NUP, inv |-> NINV, late |-> NLATE]
    /\ now = 0 /\ due = FALSE /\ upd = -1 /\ seedT = 0 /\ cycles = 0 /\ clean = FALSE
    /\ av = {}

Running == phase \in {"open", "closing"} /\ st # "X"
TimeVars == <<now, due, upd, seedT, cycles>>
Judge == av' = StateViols(c', T', b', have', disk', cnt', ulq', sess', ST', seedT', cycles')
                \cup MonoViols(c', c) \ IGNORE

\* updateSeedDuration(now) applied to (status, upd, sf)
SeedUpd(status, u, sf) ==
    IF status # "S" THEN [u |-> -1, sf |-> sf]
    ELSE IF u = -1 THEN [u |-> now, sf |-> sf]
    ELSE [u |-> now, sf |-> sf + (now - u)]

\* -------------------------------------------------------------- download from peers
Wanted == Piece \ (have \cup (IF wr.p # 0 /\ ~wr.stale THEN {wr.p} ELSE {}))

\* startPieceDownloaderFor: any wanted piece; the same piece may be fetched from two peers (end-game)
Pick(s) ==
    /\ Running /\ st = "D" /\ alive[s] /\ pd[s] = 0
    /\ \E p \in Wanted : pd' = [pd EXCEPT ![s] = p] /\ got' = [got EXCEPT ![s] = {}]
    /\ UNCHANGED <<phase, st, have, disk, cnt, alive, late, wr, ulq, c, ps, b, T, sess, ST, bud, clean>> /\ UNCHANGED TimeVars
    /\ Judge

\* handlePieceMessage for an open peer: block bl of piece p arrives from peer s (requested or not: the environment is free;
\* a choke without the fast extension re-queues pending requests, the peer may answer both - that is a second arrival)
Recv(s, p, bl) ==
    /\ Running /\ alive[s] /\ wr.p = 0 /\ bud.rx > 0
    /\ bud' = [bud EXCEPT !.rx = @ - 1]
    /\ ST' = [ST EXCEPT !.rx = @ + 1] /\ sess' = [sess EXCEPT !.dl = @ + 1]
    /\ LET stored == pd[s] = p /\ bl \notin got[s]
           g2 == got[s] \cup {bl}
           done == stored /\ g2 = Blocks(p)
           okset == IF bud.fail > 0 THEN BOOLEAN ELSE {TRUE}
       IN /\ T' = [T EXCEPT !.rx = @ + 1, !.junk = IF stored THEN @ ELSE @ + 1]
          /\ c' = [c EXCEPT !.dl = @ + 1,
                            !.wa = IF stored \/ MUT = "nowaste" THEN @ ELSE @ + 1]
          /\ IF done
             THEN \E ok \in okset :
                    /\ wr' = [p |-> p, s |-> s, ok |-> ok, stale |-> FALSE]
                    /\ pd' = [pd EXCEPT ![s] = 0] /\ got' = [got EXCEPT ![s] = {}]
             ELSE /\ wr' = wr /\ pd' = pd
                  /\ got' = IF stored THEN [got EXCEPT ![s] = g2] ELSE got
    /\ UNCHANGED <<phase, st, have, disk, cnt, alive, late, ulq, ps, b, clean>> /\ UNCHANGED TimeVars
    /\ Judge

\* handlePieceMessage, first branch (pe.Closed): a block that was in the pipe when the client closed the peer.
\* As is: Wasted only.  "late": Downloaded too (the bytes were received).
RecvLate(s) ==
    /\ Running /\ ~alive[s] /\ late[s] > 0 /\ wr.p = 0
    /\ late' = [late EXCEPT ![s] = @ - 1]
    /\ T' = [T EXCEPT !.rx = @ + 1, !.junk = @ + 1]
    /\ ST' = [ST EXCEPT !.rx = @ + 1]
    /\ c' = [c EXCEPT !.wa = @ + 1, !.dl = IF Fixed("late") THEN @ + 1 ELSE @]
    /\ sess' = [sess EXCEPT !.dl = IF Fixed("late") THEN @ + 1 ELSE @]
    /\ UNCHANGED <<phase, st, have, disk, cnt, alive, pd, got, wr, ulq, ps, b, bud, clean>> /\ UNCHANGED TimeVars
    /\ Judge

\* handlePieceMessage, "invalid piece index" branch: Wasted only as is; the peer is closed
RecvInvalid(s) ==
    /\ Running /\ alive[s] /\ wr.p = 0 /\ bud.inv > 0
    /\ bud' = [bud EXCEPT !.inv = @ - 1]
    /\ T' = [T EXCEPT !.rx = @ + 1, !.junk = @ + 1]
    /\ ST' = [ST EXCEPT !.rx = @ + 1]
    /\ c' = [c EXCEPT !.wa = @ + 1, !.dl = IF Fixed("late") THEN @ + 1 ELSE @]
    /\ sess' = [sess EXCEPT !.dl = IF Fixed("late") THEN @ + 1 ELSE @]
    /\ alive' = [alive EXCEPT ![s] = FALSE] /\ pd' = [pd EXCEPT ![s] = 0] /\ got' = [got EXCEPT ![s] = {}]
    /\ UNCHANGED <<phase, st, have, disk, cnt, late, wr, ulq, ps, b, clean>> /\ UNCHANGED TimeVars
    /\ Judge

\* handleWebseedPieceResult: the web seed delivers a whole piece (its buffer has the full piece length: padding is
\* never fetched but, as is, counted).  A piece that is complete already is discarded: Wasted only, as is.
WebPiece(p) ==
    /\ WS /\ Running /\ st = "D" /\ wr.p = 0 /\ bud.rx >= Data(p)
    /\ bud' = [bud EXCEPT !.rx = @ - Data(p)]
    /\ LET n == IF Fixed("pad") THEN Data(p) ELSE NB IN
       IF p \in have
       THEN /\ T' = [T EXCEPT !.rxw = @ + Data(p), !.junk = @ + Data(p)]
            /\ c' = [c EXCEPT !.wa = @ + n, !.dl = IF Fixed("late") THEN @ + n ELSE @]
            /\ wr' = wr
       ELSE /\ T' = [T EXCEPT !.rxw = @ + Data(p)]
            /\ c' = [c EXCEPT !.dl = @ + n]
            /\ \E ok \in (IF bud.fail > 0 THEN BOOLEAN ELSE {TRUE}) : wr' = [p |-> p, s |-> W, ok |-> ok, stale |-> FALSE]
    /\ UNCHANGED <<phase, st, have, disk, cnt, alive, pd, got, late, ulq, ps, b, sess, ST, clean>> /\ UNCHANGED TimeVars
    /\ Judge

\* handlePieceWriteDone
WriteDone ==
    /\ phase # "down" /\ wr.p # 0
    /\ wr' = NoWrite
    /\ LET p == wr.p IN
       IF wr.stale
       THEN \* result of a previous run: ignored (the bytes stay Downloaded, are neither Completed nor Wasted)
            /\ disk' = IF wr.ok THEN disk \cup {p} ELSE disk
            /\ UNCHANGED <<st, have, cnt, alive, pd, got, late, c, T, bud, upd>>
       ELSE IF ~wr.ok
       THEN \* hash failure: Wasted += len(buffer) = the FULL piece length as is; the source is dropped
            /\ c' = [c EXCEPT !.wa = IF MUT = "nohashwaste" THEN @ ELSE @ + (IF Fixed("pad") THEN Data(p) ELSE NB)]
            /\ T' = [T EXCEPT !.bad = @ + Data(p)]
            /\ bud' = [bud EXCEPT !.fail = @ - 1]
            /\ IF wr.s # W
               THEN /\ alive' = [alive EXCEPT ![wr.s] = FALSE]
                    /\ \E k \in 0 .. Min(1, bud.late) : late' = [late EXCEPT ![wr.s] = k]
                    /\ pd' = [pd EXCEPT ![wr.s] = 0] /\ got' = [got EXCEPT ![wr.s] = {}]
               ELSE UNCHANGED <<alive, late, pd, got>>
            /\ UNCHANGED <<st, have, disk, cnt, upd>>
       ELSE \* verified and written
            /\ have' = have \cup {p} /\ disk' = disk \cup {p} /\ cnt' = [cnt EXCEPT ![p] = @ + 1]
            /\ T' = [T EXCEPT !.gain = @ + Data(p)]
            /\ pd' = [s \in Src |-> IF pd[s] = p THEN 0 ELSE pd[s]]          \* other downloaders of p are closed,
            /\ got' = [s \in Src |-> IF pd[s] = p THEN {} ELSE got[s]]       \* their blocks are dropped silently
            /\ st' = IF have' = Piece THEN "S" ELSE st
            /\ LET su == SeedUpd(st', upd, c.sf) IN                          \* checkCompletion -> updateSeedDuration
               /\ upd' = IF have' = Piece THEN su.u ELSE upd
               /\ c' = IF MUT = "prehash" THEN [c EXCEPT !.dl = @ + Data(p)] ELSE c
            /\ UNCHANGED <<alive, late, bud>>
    /\ UNCHANGED <<phase, ulq, ps, b, sess, ST, clean, now, due, seedT, cycles>>
    /\ Judge

\* -------------------------------------------------------------- upload
\* peerwriter.messageWriter: conn.Write of a piece message, then BlockUploaded travels to the loop
Upload ==
    /\ Running /\ have # {} /\ bud.up > 0
    /\ bud' = [bud EXCEPT !.up = @ - 1]
    /\ T' = [T EXCEPT !.tx = @ + 1] /\ ST' = [ST EXCEPT !.tx = @ + 1] /\ ulq' = ulq + 1
    /\ UNCHANGED <<phase, st, have, disk, cnt, alive, pd, got, late, wr, c, ps, b, sess, clean>> /\ UNCHANGED TimeVars
    /\ Judge
UploadCounted ==
    /\ Running /\ ulq > 0
    /\ ulq' = ulq - 1 /\ c' = [c EXCEPT !.ul = @ + 1] /\ sess' = [sess EXCEPT !.ul = @ + 1]
    /\ UNCHANGED <<phase, st, have, disk, cnt, alive, pd, got, late, wr, ps, b, T, ST, bud, clean>> /\ UNCHANGED TimeVars
    /\ Judge

\* -------------------------------------------------------------- stop / start
StopEffects ==
    /\ alive' = [s \in Src |-> FALSE] /\ pd' = [s \in Src |-> 0] /\ got' = [s \in Src |-> {}]
    /\ late' = [s \in Src |-> 0]
    /\ wr' = IF wr.p # 0 THEN [wr EXCEPT !.stale = TRUE] ELSE wr
    /\ T' = [T EXCEPT !.txunc = @ + ulq] /\ ulq' = 0           \* notifications of a closed peer are dropped

Stop ==
    /\ phase = "open" /\ st # "X" /\ bud.stop > 0
    /\ bud' = [bud EXCEPT !.stop = @ - 1]
    /\ st' = "X" /\ StopEffects
    /\ IF Fixed("seed")
       THEN LET su == SeedUpd(st, upd, c.sf) IN c' = [c EXCEPT !.sf = su.sf] /\ upd' = -1
       ELSE c' = c /\ upd' = upd
    /\ UNCHANGED <<phase, have, disk, cnt, ps, b, sess, ST, clean, now, due, seedT, cycles>>
    /\ Judge

Start ==
    /\ phase = "open" /\ st = "X"
    /\ st' = IF have = Piece THEN "S" ELSE "D"
    /\ alive' = [s \in Src |-> TRUE]
    /\ cycles' = cycles + 1
    /\ UNCHANGED <<phase, have, disk, cnt, pd, got, late, wr, ulq, c, ps, b, T, sess, ST, bud, clean, now, due, upd, seedT>>
    /\ Judge

\* -------------------------------------------------------------- persistence
\* Session.updateStats: periodic (ticker of ResumeWriteInterval)
ResumeWrite ==
    /\ phase = "open" /\ ps # c
    /\ ps' = c
    /\ UNCHANGED <<phase, st, have, disk, cnt, alive, pd, got, late, wr, ulq, c, b, T, sess, ST, bud, clean>> /\ UNCHANGED TimeVars
    /\ Judge

\* Session.Close, step 1: updateStats() - the torrents are still running.  "close": written when they have stopped.
CloseWrite ==
    /\ phase = "open" /\ bud.close > 0
    /\ bud' = [bud EXCEPT !.close = @ - 1]
    /\ phase' = "closing" /\ ps' = c
    /\ UNCHANGED <<st, have, disk, cnt, alive, pd, got, late, wr, ulq, c, b, T, sess, ST, clean>> /\ UNCHANGED TimeVars
    /\ Judge
\* Session.Close, step 2: the torrents are closed
CloseStop ==
    /\ phase = "closing"
    /\ phase' = "down" /\ clean' = TRUE /\ StopEffects /\ st' = st
    /\ ps' = IF Fixed("close") /\ MUT # "nopersist" THEN c ELSE IF MUT = "nopersist" THEN b ELSE ps
    /\ UNCHANGED <<have, disk, cnt, c, b, sess, ST, bud>> /\ UNCHANGED TimeVars
    /\ Judge
\* the process dies
Crash ==
    /\ phase \in {"open", "closing"} /\ bud.crash > 0
    /\ bud' = [bud EXCEPT !.crash = @ - 1]
    /\ phase' = "down" /\ clean' = FALSE /\ StopEffects /\ st' = st
    /\ UNCHANGED <<have, disk, cnt, c, ps, b, sess, ST>> /\ UNCHANGED TimeVars
    /\ Judge

\* NewSession on the same database: newTorrent adds the persisted values to zero counters.
\* (the bitfield is persisted with the counters and at stop / completion: C05/C14 judge it; here it is kept)
\* @obligation X07.b  a restart never goes below the persisted value, loses nothing after a clean Close, never double counts
Reload ==
    /\ phase = "down"
    /\ phase' = "open"
    /\ c' = IF MUT = "dbl" THEN [dl |-> ps.dl + ps.dl, ul |-> ps.ul + ps.ul, wa |-> ps.wa + ps.wa, sf |-> ps.sf + ps.sf] ELSE ps
    /\ b' = ps /\ T' = ZT /\ sess' = [dl |-> 0, ul |-> 0] /\ ST' = [rx |-> 0, tx |-> 0]
    /\ wr' = NoWrite /\ ulq' = 0 /\ cnt' = [p \in Piece |-> 0]
    /\ alive' = [s \in Src |-> st # "X"] /\ upd' = -1 /\ seedT' = 0 /\ cycles' = 0
    /\ av' = (StateViols(c', T', b', have, disk, cnt', 0, sess', ST', 0, 0)
              \cup Tag(\E x \in {"dl", "ul", "wa", "sf"} : c'[x] < ps[x], "X07.b.floor")
              \cup Tag(clean /\ c' # c, "X07.b.clean")) \ IGNORE
    /\ UNCHANGED <<st, have, disk, pd, got, late, ps, bud, clean, now, due>>

\* -------------------------------------------------------------- time and SeededFor
Time ==
    /\ phase = "open" /\ now < TMAX /\ ~due
    /\ now' = now + 1 /\ due' = ((now + 1) % PERIOD = 0)
    /\ seedT' = IF st = "S" THEN seedT + 1 ELSE seedT
    /\ UNCHANGED <<phase, st, have, disk, cnt, alive, pd, got, late, wr, ulq, c, ps, b, T, sess, ST, bud, clean, upd, cycles>>
    /\ Judge
\* seedDurationTicker (clears due) or a Stats() call (any time)
SeedTick(ticker) ==
    /\ phase = "open" /\ TMAX > 0 /\ (ticker => due)
    /\ LET su == SeedUpd(st, upd, c.sf) IN
       /\ upd' = su.u /\ c' = [c EXCEPT !.sf = su.sf]
       /\ (upd' # upd \/ c' # c \/ ticker)
    /\ due' = IF ticker THEN FALSE ELSE due
    /\ UNCHANGED <<phase, st, have, disk, cnt, alive, pd, got, late, wr, ulq, ps, b, T, sess, ST, bud, clean, now, seedT, cycles>>
    /\ Judge

Next ==
    \/ \E s \in Src : Pick(s) \/ RecvLate(s) \/ RecvInvalid(s)
    \/ \E s \in Src, p \in Piece : \E bl \in Blocks(p) : Recv(s, p, bl)
    \/ \E p \in Piece : WebPiece(p)
    \/ WriteDone \/ Upload \/ UploadCounted
    \/ Stop \/ Start \/ ResumeWrite \/ CloseWrite \/ CloseStop \/ Crash \/ Reload
    \/ Time \/ \E k \in BOOLEAN : SeedTick(k)

Spec == Init /\ [][Next]_vars

\* -------------------------------------------------------------- invariants
Conforms == av = {}
TypeOK ==
    /\ phase \in {"open", "closing", "down"} /\ st \in {"D", "S", "X"}
    /\ have \subseteq Piece /\ disk \subseteq Piece
    /\ \A x \in {"dl", "ul", "wa", "sf"} : c[x] >= 0 /\ ps[x] >= 0
    /\ ulq >= 0
\* what is persisted was reported at some time: never ahead of the counters of the session that wrote it
PersistedNotAhead == phase # "down" => \A x \in {"dl", "ul", "wa", "sf"} : ps[x] <= c[x] \/ MUT # "none"
Inv == TypeOK /\ Conforms /\ PersistedNotAhead
View == <<phase, st, have, disk, cnt, alive, pd, got, late, wr, ulq, c, ps, b, T, sess, ST, bud, now, due, upd, seedT, cycles, clean>>
=============================================================================
