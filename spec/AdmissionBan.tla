---------------------------- MODULE AdmissionBan ----------------------------
(***************************************************************************)
(* C18, contact obligations: design model of the per-torrent admission     *)
(* state (torrent.go connectedPeerIPs / bannedPeerIPs, the candidate queue,*)
(* dialAddresses) for the LIFETIME of a ban:                               *)
(*   - an IP that sent corrupt data is never dialled again - also not by   *)
(*     the dialAddresses() call that closing its own peer triggers, and    *)
(*     not after the torrent has been stopped and started again (Stop /    *)
(*     Start / Verify keep the torrent object and its ban list);           *)
(*   - the queue keeps one address per IP key (peers of the client's own   *)
(*     /24 have equal priority whatever their port), a later offer of the  *)
(*     same IP under another port replaces the queued one.                 *)
(* BANFIRST   = TRUE : the ban is recorded before the peer is closed       *)
(*              FALSE: the code as it is (closePeer, which dials queued    *)
(*                     addresses, then the ban)                            *)
(* STOPCLEARS = TRUE : mutation "stop() re-creates the ban list"           *)
(* The scenarios of harness/c18/contact.go (kinds banned, banq, banrs,     *)
(* bandup) are behaviours of this model; Trace_Admission judges them with  *)
(* DialViol (banned only grows).                                           *)
(***************************************************************************)
EXTENDS Integers, FiniteSets, TLC
CONSTANTS IPs, Ports, SLOTS, BANFIRST, STOPCLEARS
VARIABLES running, queue, conn, out, banned, corrupt, bad
vars == <<running, queue, conn, out, banned, corrupt, bad>>
Addrs == IPs \X Ports

Init == running = TRUE /\ queue = {} /\ conn = {} /\ out = {} /\ banned = {} /\ corrupt = {} /\ bad = {}

\* dialAddresses(): pop while a dial slot is free; an address whose IP is connected / connecting or banned is dropped
RECURSIVE DialAll(_, _, _, _, _)
DialAll(q, c, o, b, d) ==
    IF q = {} \/ Cardinality(o) >= SLOTS THEN <<q, c, o, d>>
    ELSE LET x == CHOOSE x \in q : TRUE IN
         IF x[1] \in c \/ x[1] \in b THEN DialAll(q \ {x}, c, o, b, d)
         ELSE DialAll(q \ {x}, c \cup {x[1]}, o \cup {x}, b, d \cup {x})
Apply(r, cor) == /\ queue' = r[1] /\ conn' = r[2] /\ out' = r[3]
                 /\ bad' = bad \cup {x \in r[4] : x[1] \in cor}

\* an address arrives from tracker / DHT / PEX / the user (handleNewPeers: banned IPs are filtered, one queue entry per IP)
Offer(a) == /\ running
            /\ LET q1 == IF a[1] \in banned THEN queue ELSE {x \in queue : x[1] # a[1]} \cup {a}
               IN Apply(DialAll(q1, conn, out, banned, {}), corrupt)
            /\ UNCHANGED <<running, banned, corrupt>>
\* the connection ends for any other reason (closePeer)
Disconnect(a) == /\ a \in out
                 /\ Apply(DialAll(queue, conn \ {a[1]}, out \ {a}, banned, {}), corrupt)
                 /\ UNCHANGED <<running, banned, corrupt>>
\* a piece from this peer fails its hash check (handlePieceWriteDone)
Corrupt(a) == /\ a \in out
              /\ corrupt' = corrupt \cup {a[1]}
              /\ banned' = banned \cup {a[1]}
              /\ Apply(DialAll(queue, conn \ {a[1]}, out \ {a}, IF BANFIRST THEN banned' ELSE banned, {}), corrupt')
              /\ UNCHANGED running
Stop == /\ running /\ running' = FALSE /\ queue' = {} /\ conn' = {} /\ out' = {}
        /\ banned' = IF STOPCLEARS THEN {} ELSE banned
        /\ UNCHANGED <<corrupt, bad>>
Start == ~running /\ running' = TRUE /\ UNCHANGED <<queue, conn, out, banned, corrupt, bad>>
Next == Stop \/ Start \/ \E a \in Addrs : Offer(a) \/ Disconnect(a) \/ Corrupt(a)
Spec == Init /\ [][Next]_vars

\* @obligation C18.contact.dial.banned  (for the rest of the torrent's life in the session)
NeverDialBanned == bad = {}
\* @obligation C18.contact.dial.dup
OnePerIP == \A x, y \in out : x[1] = y[1] => x = y
BanForGood == corrupt \subseteq banned
=============================================================================
