SPECIFICATION Spec
CONSTANTS
  L = 5
CHECK_DEADLOCK FALSE
