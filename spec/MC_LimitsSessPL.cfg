SPECIFICATION Spec
CONSTANTS
  NB = 5
  REQQ = 0
  DEFOUT = 3
  MAXOUT = 2
  FAST = TRUE
  STRICT = TRUE
INVARIANT PipelineBound
INVARIANT Partition
CHECK_DEADLOCK FALSE
