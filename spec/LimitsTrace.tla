------------------------------ MODULE LimitsTrace ------------------------------
(***************************************************************************)
(* Common machinery of the C17 trace specifications (Trace_Limits*.tla).   *)
(*                                                                         *)
(* The file trace.ndjson holds many histories; each starts with an "Init"  *)
(* line and the file ends with an "End" line.  l is the next line to read.  *)
(* A failed obligation does not block a step: its tag is stored in `viol`   *)
(* (sticky; vl = line at which it was set).                                 *)
(*                                                                         *)
(* A history is ACCEPTED iff SOME placement of the internal steps of its    *)
(* trace spec explains all its lines with viol = "".  Hang/Crash lines are  *)
(* terminal: the driver stops recording the history there, the tag they set *)
(* is reported at the next Init/End line as  @@VERDICT <line> <tag>  (the   *)
(* prefix before the Hang/Crash line was explained cleanly) and checking    *)
(* continues with the next history.                                         *)
(*                                                                         *)
(* TLC registers: 1 = furthest line reached on a clean path, 2 = furthest   *)
(* line reached at all, 3 = <<l, vl, tag>> of the violating path that got   *)
(* furthest (ties: the one that stayed clean longest).                      *)
(*   strict configuration (CONSTRAINT CleanOnly): violating paths are       *)
(*     pruned; a history without clean explanation stops the run (@@REJECT).*)
(*   diagnostic configuration (no CleanOnly), run on that single history:   *)
(*     clean < any  => it can only be explained with a failed obligation    *)
(*     (verdict, tag from register 3); clean = any => the specification     *)
(*     cannot explain the history at all (driver/spec mismatch, exit 2).    *)
(***************************************************************************)
EXTENDS Integers, Sequences, TLC, Json

VARIABLES l, viol, vl

Trace == ndJsonDeserialize("trace.ndjson")
Ev == Trace[l]
SetOf(q) == {q[i] : i \in 1 .. Len(q)}

TerminalTags == {"C17.rm.handshake", "C17.rm.crash", "C17.cache.crash", "C17.cache.hang", "C17.addr.crash", "C17.sem.crash",
                 "C17.sem.len.stress", "C17.sess.crash", "C17.sess.hang"}

SetViol(v) ==
    /\ viol' = IF viol # "" THEN viol ELSE v
    /\ vl' = IF viol # "" \/ v = "" THEN vl ELSE l
KeepViol == UNCHANGED <<viol, vl>>
Advance == l' = l + 1

TraceInit0 ==
    /\ l = 2 /\ viol = "" /\ vl = 0
    /\ Trace[1].op = "Init"
    /\ TLCSet(1, 1) /\ TLCSet(2, 1) /\ TLCSet(3, <<0, 0, "">>)

\* passing an Init / End line: only clean paths, or paths that ended in a terminal event (verdict printed)
Boundary ==
    /\ Ev.op \in {"Init", "End"}
    /\ \/ viol = ""
       \/ viol \in TerminalTags /\ PrintT("@@VERDICT " \o ToString(vl) \o " " \o viol)
    /\ viol' = "" /\ vl' = 0 /\ Advance

Max(a, b) == IF a > b THEN a ELSE b
HighWater ==
    /\ TLCSet(2, Max(TLCGet(2), l))
    /\ IF viol = "" THEN TLCSet(1, Max(TLCGet(1), l))
       ELSE LET r == TLCGet(3) IN
            IF l > r[1] \/ (l = r[1] /\ vl > r[2]) THEN TLCSet(3, <<l, vl, viol>>) ELSE TRUE
CleanOnly == viol = "" \/ viol \in TerminalTags

TraceAccepted ==
    LET clean == TLCGet(1) any == TLCGet(2) v == TLCGet(3) IN
    IF clean = Len(Trace) + 1 THEN TRUE
    ELSE /\ PrintT("@@REJECT " \o ToString(clean - 1) \o " " \o ToString(Len(Trace)))
         /\ PrintT("@@VIOL " \o ToString(v[1] - 1) \o " " \o ToString(any - 1) \o " " \o ToString(v[2]) \o " " \o v[3])
         /\ FALSE
=============================================================================
