SPECIFICATION MCSpec
CONSTANT FixNames = {}
CONSTANT Variant = "padwhole"
INVARIANT Inv
INVARIANT Trust
INVARIANT TrustDisk
CHECK_DEADLOCK FALSE
