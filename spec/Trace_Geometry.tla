--------------------------- MODULE Trace_Geometry ---------------------------
(***************************************************************************)
(* Trace specification: judges the ndjson lines recorded by harness/c02    *)
(* from the REAL geometry code against the flat byte-array oracle of       *)
(* Geometry.tla.  One line = one layout with everything the real code      *)
(* computed for it (sections, piece lengths, block lists, disk contents    *)
(* after Write, read-backs, web-seed jobs, the verifier's bitfield before  *)
(* and after the writes, storage names opened twice) or one create->parse->allocate *)
(* ->verify round trip on a real directory tree.  Lines are independent;   *)
(* each line is judged by the per-line predicate LineViols.                *)
(*                                                                         *)
(* A failed obligation does not block the step.  `viol` holds the set of   *)
(* <<tag, piece, detail>> of ALL obligations the line fails.               *)
(*   Trace_Geometry.cfg      every non-empty verdict is printed ("@@{...}")*)
(*                           and the run continues: one TLC run judges the *)
(*                           whole file (needed because one known defect   *)
(*                           shows up on thousands of layouts)             *)
(*   Trace_Geometry_stop.cfg adds INVARIANT NoViolation (first failure     *)
(*                           stops, TLC prints the state)                  *)
(* Non-enabledness (a line that no disjunct matches) = driver/spec mismatch*)
(* -> TraceAccepted fails -> exit 2, never a verdict.                      *)
(***************************************************************************)
EXTENDS Geometry, Json

VARIABLES l, viol
tvars == <<vars, l, viol>>

Trace == ndJsonDeserialize("trace.ndjson")
Ev == Trace[l]

\* "zero" (the chunks whose content is zero bytes) is optional in a line
ZeroOf(e) == IF "zero" \in DOMAIN e THEN {e.zero[j] : j \in 1 .. Len(e.zero)} ELSE {}
LayOf(e) == Prep([files |-> e.files, pl |-> e.pl, unit |-> e.unit, zero |-> ZeroOf(e)])
Dummy == Prep([files |-> <<<<1, 0>>>>, pl |-> 1, unit |-> 1])

T(c, tag, i, x) == IF c THEN {} ELSE {<<tag, i, x>>}
TagSet(s, i, x) == IF s = "" THEN {} ELSE {<<s, i, x>>}

\* classification of a failed block list: is it exactly what the known stale-Begin defect produces
\* from the sections the code itself built?  (then, and only then, the tag carries /staleBegin)
BlkTag(L, i, tag, rawsecs, bs, obs) ==
    IF tag = "" THEN ""
    ELSE IF SectionsOK(L, i, rawsecs) /\ obs = CalcBlocks(rawsecs, bs, TRUE) /\ obs # CalcBlocks(rawsecs, bs, FALSE)
         THEN tag \o "/staleBegin"
    ELSE tag

\* position of read (off, n) in the canonical enumeration  off = 0.., n = 1..len-off
RdIdx(len, off, n) == off * len - ((off * (off - 1)) \div 2) + n

PieceViolsCommon(L, e, i) ==
    \* @obligation C02.piecelen  every piece has the piece length except a possibly shorter last one
    T(e.plen[i + 1] = PieceLen(L, i), "C02.piecelen", i, e.plen[i + 1])
    \* @obligation C02.sections
    \cup T(SectionsOK(L, i, e.secs[i + 1]), "C02.sections", i, 0)

\* ---- byte-granular line (unit = 1): set formulation of the block obligations, every (off, n) read back
ByteReadPairs(len) == {<<off, n>> \in (0 .. (len - 1)) \X (1 .. len) : off + n <= len}

PieceViolsByte(L, e, i) ==
    LET len == PieceLen(L, i)
        m   == Masked(L, i)
    IN  PieceViolsCommon(L, e, i)
        \cup UNION {TagSet(BlkTag(L, i, BlocksViolSet(L, i, e.blk[k][i + 1], e.bss[k]), e.secs[i + 1], e.bss[k], e.blk[k][i + 1]),
                           i, e.bss[k]) : k \in 1 .. Len(e.bss)}
        \* @obligation C02.read
        \cup (IF Len(e.rd[i + 1]) # (len * (len + 1)) \div 2 THEN {<<"C02.read.count", i, 0>>}
              ELSE UNION {T(e.rd[i + 1][RdIdx(len, q[1], q[2])] = SubSeq(m, q[1] + 1, q[1] + q[2]), "C02.read", i, q[1])
                            : q \in ByteReadPairs(len)})

\* ---- scaled line (unit > 1): interval formulation, run-length encoded reads at boundary offsets
PieceViolsScaled(L, e, i) ==
    PieceViolsCommon(L, e, i)
    \cup UNION {TagSet(BlkTag(L, i, BlocksViolIv(L, i, e.blk[k][i + 1], e.bss[k]), e.secs[i + 1], e.bss[k], e.blk[k][i + 1]),
                       i, e.bss[k]) : k \in 1 .. Len(e.bss)}
    \* (the driver derives its read ranges from the piece length the code reports; a range outside the real piece
    \*  is not judged here, the wrong piece length already is)
    \cup UNION {LET off == e.rds[i + 1][r][1]
                   n   == e.rds[i + 1][r][2]
               IN  IF off < 0 \/ n < 0 \/ off + n > PieceLen(L, i) THEN {}
                   ELSE T(e.rds[i + 1][r][3] = ExpRLE(L, Lo(L, i) + off, Lo(L, i) + off + n), "C02.read", i, off)
                 : r \in 1 .. Len(e.rds[i + 1])}

LayoutViols(e) ==
    LET L  == LayOf(e)
        np == NP(L)
    IN  IF e.hang # 0 THEN {<<"C02.hang", 0, 0>>}
        ELSE IF e.acc = 0 THEN {}                       \* not accepted by metainfo.NewInfo: outside the property
        ELSE IF e.pan # 0 THEN {<<"C02.panic", 0, e.pan>>}
        \* @obligation C02.np  the number of pieces is ceil(total / piece length)
        ELSE IF e.np # np THEN {<<"C02.np", 0, e.np>>}
        ELSE IF Len(e.plen) # np \/ Len(e.secs) # np THEN {<<"C02.np", 0, Len(e.plen)>>}
        ELSE
            (UNION {IF e.mode = "byte" THEN PieceViolsByte(L, e, i) ELSE PieceViolsScaled(L, e, i) : i \in Pieces(L)})
            \* @obligation C02.write  every non-padding byte lands at (file, offset); padding is never written
            \cup T(e.werr = 0, "C02.write.err", 0, e.werr)
            \cup T(e.wpanic = 0, "C02.write.padding", 0, e.wpanic)
            \cup T(e.padopen = 0, "C02.write.padding", 0, e.padopen)      \* the allocator opened a padding file in storage
            \cup T(e.oob = 0, "C02.oob", 0, e.oob)
            \cup T(e.rerr = 0, "C02.read.err", 0, e.rerr)
            \cup UNION {T(e.disk[f] = IF e.mode = "byte" THEN FinalDisk(L)[f] ELSE FinalDiskRLE(L, f), "C02.write.disk", 0, f)
                          : f \in 1 .. NF(L)}
            \* @obligation C02.verify  (lines that carry the verifier's bitfields: vb0 over freshly allocated storage, vb1 after
            \* every piece was written).  Only the direction the property states is judged: content on disk = content of the
            \* piece => reported present.
            \cup (IF "vb1" \notin DOMAIN e THEN {}
                  ELSE IF Len(e.vb0) # np \/ Len(e.vb1) # np THEN {<<"C02.verify.count", 0, Len(e.vb1)>>}
                  ELSE UNION {T(e.vb1[i + 1] = 1, "C02.verify", i, 1)
                                \cup T(AllZeroPiece(L, i) => e.vb0[i + 1] = 1, "C02.verify.zero", i, 0) : i \in Pieces(L)})
            \* @obligation C02.alias  distinct files of the torrent are distinct files on disk (the storage image of "the pieces
            \* cover the concatenation once and only once": no two flat positions share one (path, offset))
            \cup (IF "alias" \notin DOMAIN e THEN {} ELSE T(e.alias = 0, "C02.alias", 0, e.alias))
            \* @obligation C02.jobs.*
            \cup UNION {TagSet(JobsViol(L, e.jobs[j][1], e.jobs[j][2], e.jobs[j][3]), e.jobs[j][1], e.jobs[j][2])
                          : j \in 1 .. Len(e.jobs)}

\* ---- round trip: a torrent created from a directory verifies completely against that same directory
\* Lines of TLC-generated tree cases (MC_GeometryTree) carry  tree  (paths as component ids, in the order the case was
\* handed over: reverse walk order),  tlen  (byte length per path, same order; "files" repeats it) and  kind  (creation
\* argument: "file" | "dir" | "paths"); for them the expected file order is computed HERE (CreatedLens).  Lines of the
\* seeded random trees carry "files" in the driver's own walk order.
\* @obligation C02.roundtrip
TreeLine(e) == "tree" \in DOMAIN e
ExpLens(e, L) == IF TreeLine(e) THEN CreatedLens(e.tree, e.tlen) ELSE [f \in 1 .. Len(L.files) |-> L.files[f][1]]
\* (round-trip trees are tens of kilobytes at unit = 1: only the number of pieces is needed, the per-byte oracle is not built)
RoundTripViols(e) ==
    LET L  == [files |-> e.files, pl |-> e.pl, unit |-> e.unit]
        np == (StartsOf(L, 1, 0)[Len(e.files) + 1] + e.pl * e.unit - 1) \div (e.pl * e.unit)
        AllSet(b) == Len(b) = np /\ \A i \in 1 .. Len(b) : b[i] = 1
    IN  IF e.hang # 0 THEN {<<"C02.hang", 0, 0>>}
        ELSE IF e.pan # 0 THEN {<<"C02.panic", 0, e.pan>>}
        ELSE IF e.acc = 0 THEN {<<"C02.roundtrip.rejected", 0, 0>>}    \* the client rejects its own torrent
        \* @obligation C02.roundtrip.open  the directory the torrent was created from can be opened as the torrent's storage
        \* (verr = 4: the source directory, 5: the fresh copy directory; older lines carry no verr)
        ELSE IF "verr" \in DOMAIN e /\ e.verr # 0
             THEN {<<"C02.roundtrip.open", 0, e.verr>>}
                  \cup T(e.ilen = ExpLens(e, L), "C02.roundtrip.files", 0, 0)
        ELSE T(e.np = np, "C02.np", 0, e.np)
             \cup T(e.ilen = ExpLens(e, L), "C02.roundtrip.files", 0, 0)
             \cup T(e.hashok = 1, "C02.roundtrip.hashes", 0, 0)
             \cup T(AllSet(e.bits), "C02.roundtrip.verify", 0, 0)
             \cup T(e.existing = 1, "C02.roundtrip.existing", 0, 0)
             \cup T(AllSet(e.cbits), "C02.roundtrip.copyverify", 0, 0)
             \cup T(e.same = 1, "C02.roundtrip.copysame", 0, 0)
\* a tree line must be a case of the design spec (driver/spec mismatch otherwise: the step is not enabled)
TreeLineOK(e) == TreeLine(e) => /\ ValidTree(e.tree) /\ KindOK(e.kind, e.tree)
                                /\ Len(e.tlen) = Len(e.tree)
                                /\ e.files = [j \in 1 .. Len(e.tlen) |-> <<e.tlen[j], 0>>]

LineViols(e) == IF e.op = "RT" THEN RoundTripViols(e) ELSE LayoutViols(e)

TraceInit ==
    /\ l = 1 /\ viol = {}
    /\ InitWith(Dummy)
    /\ TLCSet(1, 1)

Report(v) == IF v = {} THEN TRUE ELSE PrintT("@@" \o ToJson([l |-> l, v |-> v]))

TrLine ==
    /\ Ev.op \in {"L", "RT"}
    /\ Ev.op = "RT" => TreeLineOK(Ev)
    /\ LET v == LineViols(Ev)
       IN  /\ viol' = v
           /\ Report(v)
    /\ l' = l + 1
    /\ UNCHANGED vars

TraceNext == l <= Len(Trace) /\ TrLine

TraceSpec == TraceInit /\ [][TraceNext]_tvars

HighWater == TLCSet(1, IF l > TLCGet(1) THEN l ELSE TLCGet(1))
NoViolation == viol = {}
TraceAccepted ==
    LET hw == TLCGet(1) IN
    IF hw = Len(Trace) + 1 THEN TRUE
    ELSE /\ PrintT("@@REJECT " \o ToString(hw - 1) \o " " \o ToString(Len(Trace)))
         /\ FALSE
=============================================================================
