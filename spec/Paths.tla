-------------------------------- MODULE Paths --------------------------------
(***************************************************************************)
(* Property C07: no torrent, however its name and file paths are crafted,  *)
(* makes the client touch a file outside that torrent's own directory; two *)
(* different non-padding files never resolve to the same path; no entry of *)
(* a moved archive is extracted outside its destination.                   *)
(*                                                                         *)
(* Path components are sequences over a symbolic alphabet                  *)
(*   L letter   D dot   S slash   B backslash   Z NUL   P space            *)
(*   U invalid UTF-8 byte   R run of more than 255 letters                 *)
(*   F U+FFFD (written by the cleaner)   X underscore (written by it)      *)
(*                                                                         *)
(* Two layers:                                                             *)
(*  (1) JUDGE: lexical path resolution (Res) and Confined / Distinct -     *)
(*      what any open / create / remove observed in the real code must     *)
(*      satisfy (used by Trace_Paths on recorded paths).                   *)
(*  (2) MODEL of the validation in internal/metainfo/info.go (cleanName,   *)
(*      the ".." check, the join under the name), filestorage.Open and     *)
(*      Session.RemoveTorrent, in two variants: "cur" (code as found) and  *)
(*      "fix" (names "." and ".." rejected, removal uses the cleaned       *)
(*      name).  MC_Paths proves over all small symbolic torrents that the  *)
(*      fixed filter is complete and characterises the holes of "cur".     *)
(***************************************************************************)
EXTENDS Integers, Sequences, FiniteSets, TLC

\* ---------------------------------------------------------------- (1) judge
\* kind of a (symbolic) component for the purposes of resolution
Kind(s) == IF s = <<>> THEN "e"
           ELSE IF s = <<"D">> THEN "d"
           ELSE IF s = <<"D", "D">> THEN "dd"
           ELSE "o"

\* A recorded path is a sequence of [s : symbolic component, id : identity of the concrete string].
\* Lexical resolution against a directory (a sequence of identities): what filepath.Join(dir, p) denotes.
RECURSIVE Res(_, _)
Res(stack, p) ==
    IF p = <<>> THEN stack
    ELSE LET c == Head(p)
             k == Kind(c.s)
         IN IF k \in {"e", "d"} THEN Res(stack, Tail(p))
            ELSE IF k = "dd" THEN Res(IF stack = <<>> THEN <<>> ELSE SubSeq(stack, 1, Len(stack) - 1), Tail(p))
            ELSE Res(Append(stack, c.id), Tail(p))

IsPrefix(a, b) == Len(a) <= Len(b) /\ SubSeq(b, 1, Len(a)) = a
\* @obligation C07.confined  every path the client opens / creates lies strictly inside the torrent's own directory
Confined(own, p) == LET r == Res(own, p) IN IsPrefix(own, r) /\ Len(r) > Len(own)
\* @obligation C07.remove    nothing that existed outside the torrent's own directory disappears
Outside(own, abspath) == ~IsPrefix(own, abspath)

\* directories as identity sequences u = <<root, data, id>>: the data directory is <<u[1], u[2]>>, the own directory of a
\* torrent is the data directory (layout without the torrent-id level) or <<u[1], u[2], u[3]>>
RootOf(u) == <<u[1], u[2]>>
OwnOf(u, withid) == IF withid = 1 THEN u ELSE RootOf(u)

\* ---------------------------------------------------------------- (2) model of the code
\* cleanName: invalid UTF-8 -> U+FFFD, trim to 255 bytes (a long run stays a run, never "." or ".."), "/" -> "_"
\* Symbols that exist only to make two DIFFERENT raw components clean to the SAME component (family W / MC_PathsDup):
\*   X  a literal underscore (what "/" is replaced by)      F  a literal U+FFFD (what an invalid byte is replaced by)
\*   V  an invalid UTF-8 byte different from U               Q  a run of > 255 letters that differs from R only in the
\*   K  the BitComet padding-file name prefix                   part that trimming to 255 bytes (extension kept) cuts out
CleanSym(x) == IF x \in {"U", "V"} THEN "F" ELSE IF x = "S" THEN "X" ELSE IF x = "Q" THEN "R" ELSE x
Clean(c) == [i \in 1 .. Len(c) |-> CleanSym(c[i])]

\* strings.TrimSpace
RECURSIVE TrimL(_)
TrimL(c) == IF c # <<>> /\ Head(c) = "P" THEN TrimL(Tail(c)) ELSE c
RECURSIVE TrimR(_)
TrimR(c) == IF c # <<>> /\ c[Len(c)] = "P" THEN TrimR(SubSeq(c, 1, Len(c) - 1)) ELSE c
Trim(c) == TrimR(TrimL(c))

\* filepath.Join of cleaned components = lexical Clean of a RELATIVE path (leading ".." are kept)
RECURSIVE CleanRel(_, _)
CleanRel(acc, p) ==
    IF p = <<>> THEN acc
    ELSE LET c == Head(p)
             k == Kind(c)
         IN IF k \in {"e", "d"} THEN CleanRel(acc, Tail(p))
            ELSE IF k = "dd" /\ acc # <<>> /\ Kind(acc[Len(acc)]) # "dd" THEN CleanRel(SubSeq(acc, 1, Len(acc) - 1), Tail(p))
            ELSE CleanRel(Append(acc, c), Tail(p))
JoinRel(parts) == CleanRel(<<>>, parts)     \* <<>> stands for "."

\* a raw name containing "/" is several components for filepath.Join (Session.RemoveTorrent joins the RAW name)
RECURSIVE SplitS(_, _)
SplitS(cur, c) == IF c = <<>> THEN <<cur>>
                  ELSE IF Head(c) = "S" THEN <<cur>> \o SplitS(<<>>, Tail(c))
                  ELSE SplitS(Append(cur, Head(c)), Tail(c))

\* A symbolic torrent: name (a component, or <<>> for absent/empty: the code then uses the hex info hash),
\* files: sequence of paths (sequence of components); <<>> = single-file torrent.
HashName == <<"L">>
EffName(t) == IF t.name = <<>> THEN HashName ELSE t.name

\* ALTERNATIVE SOURCES.  The metainfo may carry a second value for the name ("name.utf-8") and for every path
\* ("path.utf-8"); with the utf8 flag (metainfo.New, resume versions 2 and 3) a NON-EMPTY alternative replaces the plain
\* value (infoType.overrideUTF8Keys).  at = [name, files, n8 : [has, v], f8 : Seq([has, v])].
\* The value that is VALIDATED must be the value that is USED: everything below (Accepts, OpenNames, ...) is applied
\* to Effective(at, utf8); Plain(at) is what a validator running before the override would see.
Plain(at) == [name |-> at.name, files |-> at.files]
Effective(at, utf8) ==
    IF ~utf8 THEN Plain(at)
    ELSE [name  |-> IF at.n8.has = 1 /\ at.n8.v # <<>> THEN at.n8.v ELSE at.name,
          files |-> [i \in 1 .. Len(at.files) |-> IF at.f8[i].has = 1 /\ at.f8[i].v # <<>> THEN at.f8[i].v ELSE at.files[i]]]

\* the names handed to Storage.Open (before duplicate detection)
Joined(t) ==
    LET n == Clean(EffName(t)) IN
    IF t.files = <<>> THEN << <<n>> >>
    ELSE [i \in 1 .. Len(t.files) |-> JoinRel(<<n>> \o [k \in 1 .. Len(t.files[i]) |-> Clean(t.files[i][k])])]
OpenNames(t) == Joined(t)

\* NewInfo: which torrents are accepted
Accepts(t, variant) ==
    /\ \A i \in 1 .. Len(t.files) : \A j \in 1 .. Len(t.files[i]) : Trim(t.files[i][j]) # <<"D", "D">>
    /\ variant = "fix" => Kind(Trim(Clean(EffName(t)))) \notin {"d", "dd"}
    \* duplicate detection on the joined cleaned paths
    /\ LET jn == Joined(t) IN \A i, j \in 1 .. Len(jn) : i # j => jn[i] # jn[j]

\* PADDING FILES AND DUPLICATE DETECTION.  A file is MARKED as padding by attr "p" (attr[i] = 1) or by the BitComet
\* convention (last path component begins with K).  Marked files are hidden (never opened, exempt from the duplicate
\* check) only when the metainfo is parsed with the pad flag (metainfo.New, resume version 3); resume records of
\* version 1 and 2 are parsed with pad = FALSE (torrent/session_load.go) and there EVERY file is a real file on disk.
\* attr = <<>> stands for "no file carries the attribute".
HasAttr(attr, i) == i <= Len(attr) /\ attr[i] = 1
BCName(p) == p # <<>> /\ p[Len(p)] # <<>> /\ p[Len(p)][1] = "K"
Marked(t, attr, i) == HasAttr(attr, i) \/ BCName(t.files[i])
Hidden(t, attr, padmode, i) == padmode /\ Marked(t, attr, i)
\* the files that reach Storage.Open
Real(t, attr, padmode) == {i \in 1 .. Len(t.files) : ~Hidden(t, attr, padmode, i)}
\* the raw relative path of file i (what path.Join of the UNcleaned components denotes)
RawJoined(t) == [i \in 1 .. Len(t.files) |-> JoinRel(<<EffName(t)>> \o t.files[i])]
\* NewInfo with padding: variants of the duplicate check
\*   "cur" / "fix"  on the joined CLEANED paths, among the files that are real in this mode        (the code)
\*   "rawdup"       on the joined RAW components (two raw paths that clean to one path pass)        (design alternative)
\*   "padskip"      marked files are exempt whatever the mode (real files pass unchecked, pad off)  (design alternative)
AcceptsP(t, attr, padmode, variant) ==
    /\ \A i \in 1 .. Len(t.files) : \A j \in 1 .. Len(t.files[i]) : Trim(t.files[i][j]) # <<"D", "D">>
    /\ variant \in {"fix", "rawdup", "padskip"} => Kind(Trim(Clean(EffName(t)))) \notin {"d", "dd"}
    /\ LET jn  == IF variant = "rawdup" THEN RawJoined(t) ELSE Joined(t)
           chk == IF variant = "padskip" THEN {i \in 1 .. Len(t.files) : ~Marked(t, attr, i)} ELSE Real(t, attr, padmode)
       IN \A i, j \in chk : i # j => jn[i] # jn[j]
\* in the model a symbolic component is its own identity (the letters are specific characters)
AsPath(comps) == [i \in 1 .. Len(comps) |-> [s |-> comps[i], id |-> comps[i]]]
UM == << <<"#r">>, <<"#d">>, <<"#i">> >>

ModelConfined(t, withid) == LET on == OpenNames(t) IN \A i \in 1 .. Len(on) : Confined(OwnOf(UM, withid), AsPath(on[i]))
ModelDistinct(t, withid) ==
    LET on == OpenNames(t)
        rs == [i \in 1 .. Len(on) |-> Res(OwnOf(UM, withid), AsPath(on[i]))]
    IN \A i, j \in 1 .. Len(on) : i # j => rs[i] # rs[j]
\* @obligation C07.distinct  two different files that reach the disk never resolve to the same path
ModelDistinctP(t, attr, padmode, withid) ==
    LET on == OpenNames(t)
        rs == [i \in 1 .. Len(on) |-> Res(OwnOf(UM, withid), AsPath(on[i]))]
    IN \A i, j \in Real(t, attr, padmode) : i # j => rs[i] # rs[j]
\* Session.stopAndRemoveData: with the id level the own directory; without it DataDir joined with the name
\* ("cur": the RAW name, "fix": the cleaned name)
RemoveTarget(t, variant) == IF variant = "cur" THEN AsPath(SplitS(<<>>, EffName(t))) ELSE AsPath(<<Clean(EffName(t))>>)
ModelRemoveOK(t, withid, variant) ==
    IF withid = 1 THEN TRUE
    ELSE LET r == Res(RootOf(UM), RemoveTarget(t, variant)) IN IsPrefix(RootOf(UM), r) /\ Len(r) > 2

\* tar extraction (torrent/session_move_torrent.go readData): name = Join(dir, entry); accepted iff dir + "/" is a prefix
TarAccepts(dir, entry) == LET r == Res(dir, entry) IN IsPrefix(dir, r) /\ Len(r) > Len(dir)

\* ---------------------------------------------------------------- (3) archives with LINK entries
\* An archive is a SEQUENCE of entries; an entry has a type (regular file, directory, symbolic link, hard link) and a link
\* entry carries a target.  Whether one entry escapes can depend on the entries extracted BEFORE it: a link whose NAME is
\* inside the destination but whose TARGET is outside, followed by an entry written THROUGH it (MkdirAll and os.Create
\* follow links).  State of one extraction:  lk = links created so far [at |-> physical path, to |-> physical target],
\* wr = physical paths created / truncated / written,  ok = FALSE once an entry was refused (readData returns).
\* Entry: [name : path, typ : "reg" | "dir" | "sym" | "hard", up : Nat, down : Seq(identity)]; the target of a link entry
\* is the PLACE reached from the destination by going up `up` levels and down the names `down` (the driver writes it as an
\* absolute or as a relative link name - the same place).
\* Variants:  "flat"  (the code as found: every entry, whatever its type, becomes a regular file; no link is ever created)
\*            "links" (design alternative: link entries are recreated, only the entry NAME is checked)
TarS0 == [lk |-> {}, wr |-> {}, ok |-> TRUE]
Place(dir, e) == SubSeq(dir, 1, Len(dir) - e.up) \o e.down
\* physical resolution of an absolute, lexically clean identity sequence: a component that is a link continues at its target
RECURSIVE PhysW(_, _, _, _)
PhysW(lk, done, rest, fuel) ==
    IF rest = <<>> THEN done
    ELSE LET s2 == Append(done, Head(rest)) IN
         IF fuel > 0 /\ \E x \in lk : x.at = s2
         THEN PhysW(lk, <<>>, (CHOOSE x \in lk : x.at = s2).to \o Tail(rest), fuel - 1)
         ELSE PhysW(lk, s2, Tail(rest), fuel)
Phys(lk, abs) == PhysW(lk, <<>>, abs, 4)
TarStep(variant, dir, st, e) ==
    IF ~st.ok THEN st
    ELSE LET lex == Res(dir, AsPath(e.name)) IN
         IF ~(IsPrefix(dir, lex) /\ Len(lex) > Len(dir)) THEN [st EXCEPT !.ok = FALSE]       \* the prefix check on the NAME
         ELSE IF variant = "links" /\ e.typ \in {"sym", "hard"}
              THEN LET at == Append(Phys(st.lk, SubSeq(lex, 1, Len(lex) - 1)), lex[Len(lex)]) IN
                   IF at \in st.wr \/ \E x \in st.lk : x.at = at THEN [st EXCEPT !.ok = FALSE]  \* EEXIST
                   ELSE [st EXCEPT !.lk = @ \cup {[at |-> at, to |-> Place(dir, e)]}]
              ELSE [st EXCEPT !.wr = @ \cup {Phys(st.lk, lex)}]
RECURSIVE TarRun(_, _, _, _)
TarRun(variant, dir, st, ar) == IF ar = <<>> THEN st ELSE TarRun(variant, dir, TarStep(variant, dir, st, Head(ar)), Tail(ar))
Touched(st) == st.wr \cup {x.at : x \in st.lk}
\* @obligation C07.created   nothing is created outside the destination, whatever was extracted before
\* @obligation C07.modified  no file that exists outside the torrent's own directory / the destination is truncated or rewritten
TarConfined(dir, st) == \A w \in Touched(st) : IsPrefix(dir, w) /\ Len(w) > Len(dir)
=============================================================================
