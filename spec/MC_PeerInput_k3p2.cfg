SPECIFICATION MCSpec
CONSTANTS
  N = 4
  NPE = 2
  K = 3
  ASIS = FALSE
  ALPHA = "reduced"
  MAXLEN = 10
  GUARD = TRUE
  AFPARK = FALSE
INVARIANT Inv
PROPERTY MCIsolation
VIEW MCView
CHECK_DEADLOCK FALSE
