SPECIFICATION ASpec
CONSTANTS
  SECS <- Secs_plain4
  BS = 2
  QLENS = {1, 2, 3}
  FAST = FALSE
  AF = FALSE
  REJ = "none"
  UNREQ = TRUE
  ENDS = TRUE
  VARIANT = "asis"
  IGNORE = {"X04.g.fill", "X04.g.stuck", "X04.c.cancel"}
INVARIANT AInvKnown
VIEW AView
CHECK_DEADLOCK FALSE
CONSTRAINT Alive
