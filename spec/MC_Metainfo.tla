---------------------------- MODULE MC_Metainfo ----------------------------
(* Exhaustive configuration of Metainfo:                                   *)
(*  (1) for EVERY small info (negative lengths and "overflow" beyond MAXI  *)
(*      included) the limb-arithmetic WellFormed used by the trace judge   *)
(*      agrees with the plain-integer definition (base BASE is tiny so     *)
(*      that carries occur);                                               *)
(*  (2) for every WELL-FORMED small info the abstract NewPieces loop       *)
(*      terminates without an index error within N + #files section steps  *)
(*      and the produced pieces tile the torrent (DesignInv) - this is     *)
(*      where the work bound used against the real code comes from.        *)
EXTENDS Metainfo
CONSTANTS MaxPL, MaxN, NegLo, LenHi, MaxFiles, BASE, MAXI
LenLo == 0 - NegLo

Infos == UNION {[pl : 0 .. MaxPL, n : 0 .. MaxN, lens : [1 .. k -> LenLo .. LenHi]] : k \in 0 .. MaxFiles}
\* (3) the parser's layout rule over ALL small raw dictionaries, hybrid ones (both "length" and "files") included:
\*     what it accepts is well-formed; the variant that adds "length" to the sum of "files" is not (vacuity guard).
RawDicts == [pl : 0 .. MaxPL, n : 0 .. MaxN, len : LenLo .. LenHi, files : UNION {[1 .. k -> LenLo .. LenHi] : k \in 0 .. 2}]
ASSUME ParserSound(RawDicts, "files-win", MAXI)
ASSUME ~ParserSound(RawDicts, "add", MAXI)
ASSUME \E d \in RawDicts : Len(d.files) > 0 /\ d.len > 0 /\ CodeAccepts(d, "files-win", MAXI)   \* hybrids are accepted at all

PP == [b |-> BASE, imax |-> ToLimbs(BASE, MAXI)]

MCInit ==
    /\ info \in Infos
    /\ st = IF SmallWFViol(info, MAXI) = "" THEN Start(info) ELSE Skip

MCNext == PieceStep \/ (st.pc # "run" /\ UNCHANGED mvars)
MCSpec == MCInit /\ [][MCNext]_mvars

LimbAgree == WFViol(PP, Enc(BASE, info)) = SmallWFViol(info, MAXI)
\* the work judge flags exactly the step counts above the bound
WorkAgree == \A s \in 0 .. (MaxN + MaxFiles + 2) :
                (WorkViol(PP, Enc(BASE, info), ToLimbs(BASE, s)) = "") <=> (s <= info.n + Len(info.lens))
Inv == DesignInv(MAXI) /\ LimbAgree /\ WorkAgree
\* every well-formed info really runs to completion (vacuity guard: some state is "done")
=============================================================================
