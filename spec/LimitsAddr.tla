------------------------------ MODULE LimitsAddr ------------------------------
(***************************************************************************)
(* C17 sub-model AddrList (capacity and per-source counts only; the        *)
(* priority-set semantics is property C18).                                *)
(*                                                                         *)
(* Part A - the counters as the property sees them:                        *)
(*   acfg [max], cnt [Source -> Nat]  (number of stored addresses/source)  *)
(*   @obligation C17.addr.limit    Len() <= max after every call           *)
(*   @obligation C17.addr.balance  Len() = sum of LenSource(s); no count   *)
(*                                 negative; Pop takes exactly one address *)
(*                                 away from the source it reports; Push   *)
(*                                 adds at most len(addrs) to its source   *)
(*                                 and never adds to another source        *)
(* Part B - transcription of addrlist.go (Push with ReplaceOrInsert keyed  *)
(*   by priority, oldest-first eviction, incremental countBySource         *)
(*   arithmetic) checked by TLC to keep count = number of entries per      *)
(*   source and |entries| <= max for all Push/Pop/Reset sequences.         *)
(***************************************************************************)
EXTENDS Integers, FiniteSets, Sequences, TLC

CONSTANTS Sources          \* 1 .. 5  (tracker, dht, pex, manual, incoming)

VARIABLES acfg, cnt
avars == <<acfg, cnt>>

RECURSIVE SumF(_, _)
SumF(f, S) == IF S = {} THEN 0 ELSE LET x == CHOOSE y \in S : TRUE IN f[x] + SumF(f, S \ {x})
Total(c) == SumF(c, Sources)

AddrInitWith(c) == acfg = c /\ cnt = [s \in Sources |-> 0]
AddrResetWith(c) == acfg' = c /\ cnt' = [s \in Sources |-> 0]

\* observed counters (len, c) after Push(src, n addresses)
PushViol(src, n, len, c) ==
    IF len > acfg.max THEN "C17.addr.limit"
    ELSE IF \E s \in Sources : c[s] < 0 THEN "C17.addr.balance.negative"
    ELSE IF len # Total(c) THEN "C17.addr.balance.sum"
    ELSE IF \E s \in Sources \ {src} : c[s] > cnt[s] THEN "C17.addr.balance.othersource"
    ELSE IF c[src] > cnt[src] + n \/ len > Total(cnt) + n THEN "C17.addr.balance.growth"
    ELSE ""

PopViol(has, src, len, c) ==
    IF \E s \in Sources : c[s] < 0 THEN "C17.addr.balance.negative"
    ELSE IF len # Total(c) THEN "C17.addr.balance.sum"
    ELSE IF has # (Total(cnt) > 0) THEN "C17.addr.balance.pop.empty"
    ELSE IF has /\ c # [cnt EXCEPT ![src] = @ - 1] THEN "C17.addr.balance.pop"
    ELSE IF ~has /\ c # cnt THEN "C17.addr.balance.pop"
    ELSE ""

ResetViol(len, c) == IF len # 0 \/ \E s \in Sources : c[s] # 0 THEN "C17.addr.balance.reset" ELSE ""

ASet(c) == cnt' = c /\ UNCHANGED acfg
AddrInv == Total(cnt) <= acfg.max /\ \A s \in Sources : cnt[s] >= 0
=============================================================================
