----------------------------- MODULE MC_Session -----------------------------
(* Exhaustive configurations of Session: every interleaving of K callers over the ids IDS and the port range RANGE.  *)
(* ATOMIC = TRUE  : the intended design - all invariants must hold.                                                  *)
(* ATOMIC = FALSE : the code as it is  - TLC is EXPECTED to find the duplicate-id / remove-vs-add / tracker races    *)
(*                  (props/c14.py requires the violation and keeps the counterexample as a lead for the driver).     *)
EXTENDS Session
CONSTANTS IDS, RANGE, K, ATOMIC, FULL, STORAGE, SPARSE

\* overridden in the configs that explore them (CONSTANT HOLD <- On): HOLD = a caller may hold the writer lock of the
\* database (Session!BeginHold); SPLIT = the expected-fail variant of AddTracker (read and write in two transactions);
\* TRACKERS2 = a second tracker may be added to a torrent that has one (sequential and concurrent AddTracker calls)
HOLD == FALSE
SPLIT == FALSE
TRACKERS2 == FALSE
\* NARROW = only add / remove / AddTracker / plain restart / the lock holder (no injected write failure, no started flag, no
\* damaged records, no CleanDatabase, no counters): what the K = 3 configs of the writer-lock schedules can afford
NARROW == FALSE
\* RUNNING = an add may leave its torrent started also where FULL = FALSE (a running torrent writes its bitfield by id when
\* it is closed: Session!RemClose); EARLY = the expected-fail variant of RemoveTorrent that gives the id back as soon as the
\* record is deleted, before the removed torrent is closed (the code before the repair of round 4)
RUNNING == FALSE
EARLY == FALSE
On == TRUE

P0 == [st |-> [meta |-> TRUE], tiers |-> <<>>, cnt |-> 0]

\* a handle identity that nothing refers to any more (a caller may still hold the handle of a removed torrent);
\* without AddTracker (FULL = FALSE) nobody keeps a handle and a handle is simply named after its port (h = 0)
UsedH  == {torrents[i].h : i \in DOMAIN torrents} \cup {o.h : o \in orphans} \cup {pc[c].h : c \in 1 .. K}
FreshH == CHOOSE n \in 1 .. (2 * K + Cardinality(RANGE) + 2) : n \notin UsedH

MCInit == InitWith([range |-> RANGE, k |-> K, atomic |-> ATOMIC, ret |-> FALSE, env |-> FALSE, sparse |-> SPARSE, split |-> SPLIT,
                   early |-> EARLY])

Step(c) ==
    \/ \E id \in IDS : BeginAdd(c, id, IF FULL THEN FreshH ELSE 0, [explicit |-> TRUE, fail |-> IF STORAGE THEN "any" ELSE "none", p |-> P0])
    \/ \E out \in ports \cup {0} : AddTakeViol(c, out) = "" /\ AddTakeUpd(c, out)
    \/ \E out \in {"dup", "storage", "pass"} : At(c, "Add", "check") /\ AddCheckViol(c, out) = "" /\ AddCheckUpd(c, out)
    \/ \E ok \in (IF FULL /\ ~NARROW THEN BOOLEAN ELSE {TRUE}) : AddWrite(c, ok)
    \/ \E stopped \in (IF (FULL /\ ~NARROW) \/ RUNNING THEN BOOLEAN ELSE {TRUE}) : AddInsert(c, stopped)
    \/ AddStarted(c)
    \/ \E id \in IDS : BeginRemove(c, id)
    \/ RemDetach(c) \/ RemRelease(c)
    \/ \E wr \in BOOLEAN : RemClose(c, wr)
    \* (a failed record delete leaves a record without torrent - the environment's fault, not judged: only explored
    \*  where nothing depends on registry = database, i.e. never in these configs; the trace specification drives it)
    \/ RemDb(c, TRUE)
    \/ FULL /\ ~NARROW /\ \E id \in IDS, op \in {"Start", "Stop"} : BeginFlag(c, op, id)
    \/ \E found \in BOOLEAN : pc[c].step = "lookup" /\ LookupViol(c, found) = "" /\ LookupUpd(c, found)
    \/ FlagApply(c)
    \/ /\ FULL
       /\ \E id \in IDS, valid \in BOOLEAN : (IF id \in DOMAIN db THEN Len(db[id].p.tiers) <= (IF TRACKERS2 THEN 1 ELSE 0) ELSE TRUE) /\ BeginTracker(c, id, "u", valid)
    \/ At(c, "AddTracker", "apply") /\ TrackerUpd(c, TrackerOutcome(c))
    \/ TrackerLive(c)
    \/ TrackerPut(c)
    \/ HOLD /\ (BeginHold(c) \/ EndHold(c))

\* restart equality is asserted on the spot: what is loaded is what the session held (C14.restart)
MCReopen(corrupt) ==
    /\ Quiescent /\ CloseOutcome = "ok"
    /\ ReopenUpd(corrupt) /\ UNCHANGED pc
    /\ Assert(RestartEq(torrents, torrents', corrupt), "C14.restart: loaded registry differs from the closed one")

MCCrashClose ==          \* as-is: Close with a registered torrent that has no record
    /\ Quiescent /\ CloseOutcome = "panic" /\ crashed' = "close"
    /\ UNCHANGED <<cfg, torrents, byih, ports, db, invalid, orphans, reserved, pc>>

MCNext ==
    /\ crashed = ""
    /\ \/ \E c \in Callers : Step(c)
       \/ \E corrupt \in {{}} \cup (IF FULL /\ ~NARROW THEN {{i} : i \in DOMAIN db} ELSE {}) : MCReopen(corrupt)
       \/ MCCrashClose
       \/ FULL /\ ~NARROW /\ Quiescent /\ invalid # {} /\ CleanUpd(ATOMIC) /\ UNCHANGED pc
       \/ FULL /\ ~NARROW /\ Quiescent /\ \E id \in DOMAIN torrents, v \in {0, 1} : BumpUpd(id, v) /\ UNCHANGED pc

MCSpec == MCInit /\ [][MCNext]_vars

\* symmetric roles of callers are not exploited (K is 2)
=============================================================================
