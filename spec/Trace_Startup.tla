---------------------------- MODULE Trace_Startup ----------------------------
(***************************************************************************)
(* Trace specification X09: judges traces recorded by harness/x09 from a   *)
(* real torrent.Session (recording in-memory storage, loop snapshots H1)   *)
(* against Startup.tla.                                                    *)
(* Lines: Init | Cmd(c) | Open(f, exists, err) | Read(p, err) |            *)
(* Env(k, f, good) | Snap(ph, bfnil, have, dv, err, seeding) | Handles(n). *)
(* Goroutine lines (Open / Read) are replayed through the design actions   *)
(* AllocPad / AllocOpen / AllocOpenErr / VerRead / VerReadErr; a Snap line *)
(* is one handled loop event: the expected outcome is computed with the    *)
(* design operators (Decision, AllocReady, VerReady, PadPieces), compared  *)
(* with the observation (obligation tag in viol) and the OBSERVED state is *)
(* adopted, so that the rest of the trace can still be followed.           *)
(* The envelope is the code as it is (FixNames = {}); the decision of the  *)
(* repaired code is accepted as well.                                      *)
(***************************************************************************)
EXTENDS Startup, Json

VARIABLES l, viol, pend
tvars == <<vars, l, viol, pend>>

Trace == ndJsonDeserialize("trace.ndjson")
Ev == Trace[l]
SetOf(q) == {q[i] : i \in 1 .. Len(q)}
CfgOf(e) == [nf |-> e.nf, np |-> e.np, kind |-> e.kind, pf |-> [p \in 1 .. e.np |-> SetOf(e.pf[p])]]

TraceInit ==
    /\ l = 2 /\ viol = "" /\ pend = {}
    /\ Trace[1].op = "Init"
    /\ I0(CfgOf(Trace[1]), Trace[1].fs, SetOf(Trace[1].good))
    /\ TLCSet(1, 1)

\* a failed obligation is printed ("@@VIOL tag line") and the trace is followed further (one TLC pass judges all histories)
Step(v) == l' = l + 1 /\ viol' = "" /\ (v = "" \/ PrintT("@@VIOL " \o v \o " " \o ToString(l)))
TrReset == Ev.op = "Init" /\ R0(CfgOf(Ev), Ev.fs, SetOf(Ev.good)) /\ l' = l + 1 /\ viol' = "" /\ pend' = {}

TrCmd == Ev.op = "Cmd" /\ pend' = pend \cup {Ev.c} /\ UNCHANGED vars /\ Step("")

PadNext == st = "Alloc" /\ ~aerr /\ ai < cfg.nf /\ IsPad(ai + 1)
\* padding files are handled by the allocator without I/O: no line
TrPadSkip == Ev.op \in {"Open", "Snap"} /\ PadNext /\ AllocPad /\ UNCHANGED <<l, viol, pend>>

\* a piece made of padding only is read from the in-memory padding file: no line
PadPieceNext == st = "Verify" /\ ~verr /\ vi < cfg.np /\ (vi + 1) \in PadPieces
TrPadPieceSkip == Ev.op \in {"Read", "Snap"} /\ PadPieceNext /\ VerRead /\ UNCHANGED <<l, viol, pend>>

\* @obligation X09.cancel.stale  no storage I/O of the allocator / verifier outside its own run
\* @obligation X09.alloc.exists  Open reports "exists" iff the file was there
TrOpen ==
    /\ Ev.op = "Open" /\ ~PadNext /\ UNCHANGED pend
    /\ IF st = "Alloc" /\ ~aerr /\ ai < cfg.nf /\ Ev.f = ai + 1
       THEN IF Ev.err THEN AllocOpenErr /\ Step("")
            ELSE AllocOpen(fs[Ev.f] # "absent") /\ Step(IF Ev.exists = (fs[Ev.f] # "absent") THEN "" ELSE "X09.alloc.exists")
       ELSE UNCHANGED vars /\ Step("X09.cancel.stale")

TrRead ==
    /\ Ev.op = "Read" /\ ~PadPieceNext /\ UNCHANGED pend
    /\ IF st = "Verify" /\ ~verr
       THEN \/ Ev.p = vi + 1 /\ (IF Ev.err THEN VerReadErr ELSE VerRead) /\ Step("")
            \/ Ev.p = vi /\ ~Ev.err /\ UNCHANGED vars /\ Step("")
            \/ Ev.p = vi /\ Ev.err /\ verr' = TRUE /\ vi' = vi - 1 /\ vb' = vb \ {vi}
                 /\ UNCHANGED <<cfg, fs, good, bfp, bfs, st, ai, aerr, hasEx, hasMiss, wrong, handles, dv, err, vouched, reads, path>> /\ Step("")
       ELSE UNCHANGED vars /\ Step("X09.cancel.stale")

\* external change of the files while the torrent is stopped; the ground truth (good) comes with the line
TrEnv ==
    /\ Ev.op = "Env" /\ st = "Stopped" /\ UNCHANGED pend
    /\ fs' = [fs EXCEPT ![Ev.f] = CASE Ev.k = "delete" -> "absent" [] Ev.k = "shorten" -> "short"
                                      [] Ev.k = "lengthen" -> "long" [] Ev.k = "restore" -> "ok" [] OTHER -> fs[Ev.f]]
    /\ good' = SetOf(Ev.good)
    \* a content change at unchanged size ("corrupt") is not detectable: the stored bitfield keeps vouching (by design)
    \* so is a replacement by a file of the recorded size (restore of an intact-sized file); appended bytes leave the recorded range alone
    /\ vouched' = IF Ev.k \in {"corrupt", "lengthen"} \/ (Ev.k = "restore" /\ fs[Ev.f] = "ok") THEN vouched
                  ELSE (vouched \ PiecesOf(Ev.f)) \cup (vouched \cap PadPieces)
    /\ UNCHANGED <<cfg, bfp, bfs, st, ai, aerr, hasEx, hasMiss, wrong, vi, verr, vb, handles, dv, err, reads, path>>
    /\ Step("")

\* one handled loop event: adopt the observed loop state
Loop(nst, nvouched, npath, restart) ==
    /\ st' = nst /\ bfp' = ~Ev.bfnil /\ bfs' = SetOf(Ev.have) /\ dv' = Ev.dv /\ err' = Ev.err
    /\ vouched' = nvouched /\ path' = npath
    /\ handles' = IF nst \in {"Stopping", "Stopped"} THEN 0 ELSE handles
    /\ IF restart
       THEN ai' = 0 /\ aerr' = FALSE /\ hasEx' = FALSE /\ hasMiss' = FALSE /\ wrong' = FALSE /\ vi' = 0 /\ verr' = FALSE /\ vb' = {} /\ reads' = 0
       ELSE UNCHANGED <<ai, aerr, hasEx, hasMiss, wrong, vi, verr, vb, reads>>
    /\ UNCHANGED <<cfg, fs, good>>

Hv == SetOf(Ev.have)
DecisionFixed == IF aerr THEN "err" ELSE IF bfp /\ ~hasMiss /\ ~wrong THEN "trust"
                 ELSE IF ~hasEx THEN (IF dv THEN "freshstop" ELSE "fresh") ELSE "verify"
\* @obligation X09.trust  (see Startup.tla) judged on the bitfield a torrent starts running with
\* @obligation X09.seed   a complete bitfield means Seeding, an incomplete one Downloading
RunViol(vch) == IF Ev.bfnil THEN "X09.trust.nobitfield"
                ELSE IF ~(Hv \subseteq (vch \cup PadPieces)) THEN "X09.trust"
                ELSE IF Ev.seeding # (Hv = Piece) THEN "X09.seed" ELSE ""

\* @obligation X09.err.alloc / X09.err.verify  an I/O error of the allocator / verifier stops the torrent with that error
\* @obligation X09.check.skipped  existing data and no usable bitfield: a hash check precedes running
\* @obligation X09.nocheck  stored bitfield present and nothing missing: no hash check
\* @obligation X09.check.partial / X09.check.complete  verification reads every piece and finds exactly the matching ones
\* @obligation X09.verifycmd  the Verify command re-checks (bitfield dropped) and ends Stopped
TrSnap ==
    /\ Ev.op = "Snap" /\ ~PadNext /\ ~PadPieceNext /\ UNCHANGED pend
    /\ LET o == Ev.ph IN
       IF o = st /\ Ev.bfnil = ~bfp /\ Hv = bfs /\ Ev.dv = dv
       THEN UNCHANGED vars /\ Step("")
       ELSE IF st = "Stopping" /\ o = "Stopping" /\ Ev.dv /\ ~dv /\ "verify" \in pend
       THEN Loop("Stopping", vouched, path, FALSE) /\ Step("")
       ELSE IF st \in {"Stopped", "Stopping"} /\ o = "Alloc"
       THEN /\ (st = "Stopping" /\ dv) \/ "start" \in pend \/ (st = "Stopped" /\ "verify" \in pend /\ Ev.dv)
            /\ Loop("Alloc", vouched, "", TRUE)
            /\ Step(IF Ev.dv /\ ~Ev.bfnil THEN "X09.verifycmd.bitfield" ELSE IF ~Ev.dv /\ ((~Ev.bfnil) # bfp \/ Hv # bfs) THEN "X09.start.bitfield" ELSE "")
       ELSE IF st = "Stopping" /\ o = "Stopped"
       THEN /\ Loop("Stopped", vouched, path, FALSE)
            /\ Step(IF dv THEN "X09.verifycmd.lost" ELSE "")
       ELSE IF st = "Alloc" /\ o = "Stopping"
       THEN IF Ev.err = "alloc" THEN aerr /\ Loop("Stopping", vouched, path, FALSE) /\ Step("")
            ELSE IF Ev.err # "" THEN Loop("Stopping", vouched, path, FALSE) /\ Step("X09.err.other")
            ELSE IF dv /\ ~Ev.dv
                 THEN /\ AllocReady /\ Loop("Stopping", PadPieces, "fresh", FALSE)
                      /\ Step(IF Decision \notin {"freshstop"} /\ DecisionFixed # "freshstop" THEN "X09.verifycmd.nocheck"
                              ELSE IF Ev.bfnil \/ ~(Hv \subseteq PadPieces) THEN "X09.trust" ELSE "")
                 ELSE /\ ("stop" \in pend \/ "verify" \in pend)
                      /\ Loop("Stopping", vouched, path, FALSE) /\ Step("")
       ELSE IF st = "Alloc" /\ o = "Run"
       THEN /\ AllocReady
            /\ LET d == Decision
                   vch == IF d \in {"fresh", "freshstop"} THEN PadPieces ELSE vouched
               IN /\ Loop("Run", vch, IF d = "trust" THEN "trust" ELSE "fresh", FALSE)
                  /\ Step(IF d = "err" THEN "X09.err.alloc"
                          ELSE IF d = "verify" THEN "X09.check.skipped"
                          ELSE IF d = "freshstop" THEN "X09.verifycmd.running"
                          ELSE RunViol(vch))
       ELSE IF st = "Alloc" /\ o = "Verify"
       THEN /\ AllocReady
            /\ Loop("Verify", vouched, path, FALSE)
            /\ Step(IF aerr THEN "X09.err.alloc"
                    ELSE IF Decision = "verify" \/ DecisionFixed = "verify" THEN (IF Ev.bfnil THEN "" ELSE "X09.trust.stale")
                    ELSE IF Decision = "trust" THEN "X09.nocheck" ELSE "X09.decide")
       ELSE IF st = "Verify" /\ o = "Run"
       THEN /\ Loop("Run", vb, "verified", FALSE)
            /\ Step(IF verr THEN "X09.err.verify"
                    ELSE IF vi # cfg.np THEN "X09.check.partial"
                    ELSE IF dv THEN "X09.verifycmd.running"
                    ELSE IF RunViol(vb) # "" THEN RunViol(vb)
                    ELSE IF Hv # vb THEN "X09.check.complete" ELSE "")
       ELSE IF st = "Verify" /\ o = "Stopping"
       THEN IF Ev.err = "verify" THEN verr /\ Loop("Stopping", vouched, path, FALSE) /\ Step("")
            ELSE IF Ev.err # "" THEN Loop("Stopping", vouched, path, FALSE) /\ Step("X09.err.other")
            ELSE IF dv /\ ~Ev.dv
                 THEN /\ Loop("Stopping", vb, "verified", FALSE)
                      /\ Step(IF verr THEN "X09.err.verify" ELSE IF vi # cfg.np THEN "X09.check.partial"
                              ELSE IF Ev.bfnil \/ ~(Hv \subseteq vb) THEN "X09.trust"
                              ELSE IF Hv # vb THEN "X09.check.complete" ELSE "")
                 ELSE /\ ("stop" \in pend \/ "verify" \in pend)
                      \* @obligation X09.cancel.trust  nothing is taken over from an aborted check
                      /\ Loop("Stopping", vouched, path, FALSE) /\ Step(IF ~Ev.bfnil THEN "X09.cancel.trust" ELSE "")
       ELSE IF st = "Run" /\ o = "Stopping"
       THEN /\ ("stop" \in pend \/ "verify" \in pend)
            /\ Loop("Stopping", vouched, path, FALSE)
            /\ Step(IF Ev.err # "" THEN "X09.err.other" ELSE IF (~Ev.bfnil) # bfp \/ Hv # bfs THEN "X09.stop.bitfield" ELSE "")
       ELSE FALSE

\* @obligation X09.handles  no storage handle stays open once the torrent is Stopped (sampled by the driver at rest)
TrHandles ==
    /\ Ev.op = "Handles" /\ UNCHANGED <<vars, pend>>
    /\ Step(IF st = "Stopped" /\ Ev.n # 0 THEN "X09.handles"
            ELSE IF st = "Run" /\ Ev.n # Cardinality(NonPad) THEN "X09.handles.running" ELSE "")

TraceNext ==
    /\ l <= Len(Trace)
    /\ \/ TrReset \/ TrCmd \/ TrPadSkip \/ TrPadPieceSkip \/ TrOpen \/ TrRead \/ TrEnv \/ TrSnap \/ TrHandles

TraceSpec == TraceInit /\ [][TraceNext]_tvars

HighWater == TLCSet(1, IF l > TLCGet(1) THEN l ELSE TLCGet(1))
NoViolation == viol = ""
TraceAccepted ==
    LET hw == TLCGet(1) IN
    IF hw = Len(Trace) + 1 THEN TRUE
    ELSE /\ PrintT("@@REJECT " \o ToString(hw - 1) \o " " \o ToString(Len(Trace)))
         /\ FALSE
=============================================================================
