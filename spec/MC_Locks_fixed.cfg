SPECIFICATION Spec
CONSTANTS
  TorrentSeq <- T1
  NClients = 3
  Choices <- ChoicesQ
  BgSeq <- BgOne
  Fixed = {"StartAll", "StopAll", "resolveAndAddPeer", "moveTorrent", "reserveID", "cleanLive", "cleanReset", "compactLocks", "dhtDropOnStop"}
  Budget = 0
  Unbuffered = {}
  SrcOver <- NoOver
  Allowed <- PairsAndCoreTriples
INVARIANT TypeOK
INVARIANT NoLockup
CHECK_DEADLOCK FALSE
