---------------------------- MODULE Trace_Webseed ----------------------------
(***************************************************************************)
(* Trace specification: judges ndjson histories recorded by harness/x06    *)
(* from the REAL urldownloader.URLDownloader.Run (driven through gates in  *)
(* the http.Client, an observable buffer pool and the result channel)      *)
(* against the envelope of Webseed.tla, PART 1.                            *)
(*                                                                         *)
(* One line per observable step.  Inputs of the driver: Resp, Read (the    *)
(* bytes it let through), StopAt, Close, CWrite / CRel (consumer).         *)
(* Outputs of the code: Get, Req, Deliver, Rel, Ended, Final.  The shadow  *)
(* state follows the observation; every violated tag is printed            *)
(* ("@@VIOL tag line") and the judge goes on.  "Init" resets.              *)
(***************************************************************************)
EXTENDS Webseed, Json

VARIABLES l
tvars == <<allvars, l>>

Trace == ndJsonDeserialize("trace.ndjson")
Ev == Trace[l]

CfgOf(e) == [np |-> e.np, npeers |-> 0, nsrc |-> 1, limit |-> 1, seq |-> FALSE, edge |-> {}, have0 |-> {},
             pl |-> e.pl, total |-> e.total, capd |-> 1, ri |-> 1, b |-> e.b, e |-> e.e,
             files |-> [k \in 1 .. Len(e.files) |-> [start |-> e.files[k][1], len |-> e.files[k][2], pad |-> e.files[k][3] = 1]]]

TraceInit ==
    /\ l = 2
    /\ Trace[1].op = "Init"
    /\ WInitWith(CfgOf(Trace[1]))
    /\ TLCSet(1, 1)

Note(S) == \A t \in S : PrintT("@@VIOL " \o t \o " " \o ToString(l))
Step == l' = l + 1
Known(k) == k \in 1 .. Len(own)

TrReset == Ev.op = "Init" /\ WResetWith(CfgOf(Ev)) /\ Step

TrStart == Ev.op = "Start" /\ WStartUpd(cfg.b, cfg.e) /\ Step
TrGet == Ev.op = "Get" /\ Note(WGetViols \cup Tag(Ev.buf # Len(own) + 1, "X06.machinery.bufid")) /\ WGetUpd /\ Step
TrRel == Ev.op = "Rel" /\ Known(Ev.buf) /\ Note(WRelViols(Ev.buf)) /\ WRelUpd(Ev.buf) /\ Step
TrCWrite == Ev.op = "CWrite" /\ Known(Ev.buf) /\ Note(CWriteViols(Ev.buf)) /\ CWriteUpd(Ev.buf) /\ Step
TrCRel == Ev.op = "CRel" /\ Known(Ev.buf) /\ Note(CRelViols(Ev.buf)) /\ CRelUpd(Ev.buf) /\ Step
TrReq == Ev.op = "Req" /\ Note(WReqViols(Ev.f, Ev.lo, Ev.hi)) /\ WReqUpd(Ev.f, Ev.lo, Ev.hi) /\ Step
TrResp == Ev.op = "Resp" /\ WRespUpd(Ev.status, Ev.off, Ev.terr) /\ Step
TrRead == Ev.op = "Read" /\ Note(WReadViols(Ev.n, Ev.err)) /\ WReadUpd(Ev.n, Ev.err) /\ Step
TrStall == Ev.op = "Stall" /\ UNCHANGED allvars /\ Step
TrDeliver ==
    /\ Ev.op = "Deliver"
    /\ IF Ev.err = 1
       THEN Note(WErrViols) /\ WErrUpd
       ELSE IF Known(Ev.buf)
            THEN Note(WDataViols(Ev.idx, Ev.buf, Ev.done, Ev.eq)) /\ WDataUpd(Ev.idx, Ev.buf, Ev.done)
            ELSE Note({"X06.a.owner"}) /\ UNCHANGED allvars          \* a buffer that never came from the pool
    /\ Step
\* the driver closes exactly when ReadCurrent() >= i, like piecepicker.WebseedStopAt
TrStopAt ==
    /\ Ev.op = "StopAt"
    /\ Note(WStopAtViols(Ev.i, Ev.cur) \cup Tag(Ev.closed # (Ev.cur >= Ev.i), "X06.machinery.stopat"))
    /\ IF Ev.closed = (src[S1].cur >= Ev.i)
       THEN WStopAtUpd(Ev.i, Ev.insend)
       ELSE IF Ev.closed THEN WCloseUpd
       ELSE /\ ws' = [q \in Piece |-> IF q >= Ev.i /\ ws[q] = S1 THEN 0 ELSE ws[q]]
            /\ src' = [src EXCEPT ![S1].e = Ev.i, ![S1].cur = Ev.cur]
            /\ dn' = [dn EXCEPT !.over = -1]
            /\ UNCHANGED <<PRest, own, svars>>
    /\ Step
TrClose == Ev.op = "Close" /\ WCloseUpd /\ Step
TrEnded == Ev.op = "Ended" /\ Note(WEndedViols) /\ WEndedUpd /\ Step
\* end of a scenario: the goroutine must be gone (the driver closes what is still running), none may be left
TrFinal ==
    /\ Ev.op = "Final"
    /\ Note(Tag(dn.st # "ended", "X06.c.hang") \cup Tag(Ev.gor > 0, "X06.c.goroutine"))
    /\ UNCHANGED allvars /\ Step
TrHang == Ev.op = "Hang" /\ Note({"X06.c.hang"}) /\ UNCHANGED allvars /\ Step
TrCrash == Ev.op = "Crash" /\ Note({"X06.crash"}) /\ UNCHANGED allvars /\ Step
TrForeign == Ev.op = "Foreign" /\ Note({"X06.a.owner"}) /\ UNCHANGED allvars /\ Step

TraceNext ==
    /\ l <= Len(Trace)
    /\ \/ TrReset \/ TrStart \/ TrGet \/ TrRel \/ TrCWrite \/ TrCRel \/ TrReq \/ TrResp \/ TrRead \/ TrStall
       \/ TrDeliver \/ TrStopAt \/ TrClose \/ TrEnded \/ TrFinal \/ TrHang \/ TrCrash \/ TrForeign

TraceSpec == TraceInit /\ [][TraceNext]_tvars

HighWater == TLCSet(1, IF l > TLCGet(1) THEN l ELSE TLCGet(1))
TraceAccepted ==
    LET hw == TLCGet(1) IN
    IF hw = Len(Trace) + 1 THEN TRUE
    ELSE /\ PrintT("@@REJECT " \o ToString(hw - 1) \o " " \o ToString(Len(Trace)))
         /\ FALSE
=============================================================================
