SPECIFICATION TraceSpec
CONSTRAINT HighWater
INVARIANT NoViolation
INVARIANT TraceInv
POSTCONDITION TraceAccepted
CHECK_DEADLOCK FALSE
