------------------------------ MODULE MC_Webseed ------------------------------
(***************************************************************************)
(* Exhaustive configurations of Webseed.tla, PART 2: the web-seed sources  *)
(* of one torrent in the event loop, every interleaving of                 *)
(*   - a source is started on a range chosen by PickWebseed (any range the *)
(*     picker's envelope admits, ranges stolen from another source),       *)
(*   - a downloader delivers its current piece (stale results discarded,   *)
(*     the last piece closes it) or reports an error (disabled, retry      *)
(*     timer armed),                                                       *)
(*   - the piece writer finishes: hash fine / corrupt (source disabled),   *)
(*   - one peer downloads pieces, also inside a web seed's range (StopAt), *)
(*   - stop / start of the torrent with a piece write in flight (its       *)
(*     result is consumed late), the retry timers tick and fire.           *)
(* VARIANT "asis": the retry handler of the unchanged tree; "fixed": the   *)
(* handler of fixes/X06-webseed-retry.diff.                                *)
(***************************************************************************)
EXTENDS Webseed
CONSTANTS NP, NSRC, CAPD, RI, VARIANT, NSTOPS, NERRS

VARIABLE cnt          \* [stops, errs] budget of Stop and Error events
mvars == <<allvars, cnt>>

MCfg == [np |-> NP, npeers |-> 1, nsrc |-> NSRC, limit |-> 1, seq |-> FALSE, edge |-> {}, have0 |-> {},
         pl |-> 1, total |-> NP, files |-> <<[start |-> 0, len |-> NP, pad |-> FALSE]>>, capd |-> CAPD, ri |-> RI]

MInit == WInitWith(MCfg) /\ cnt = [stops |-> 0, errs |-> 0]

Loop(A) == A /\ UNCHANGED cnt
\* actions of the picker that do not touch the sources
Quiet(A) == A /\ UNCHANGED <<svars, wvars, cnt>>

MNext ==
    \/ \E s \in Src, b \in 0 .. NP, e \in 0 .. NP : Loop(LStart(s, b, e))
    \/ \E s \in Src : Loop(LPiece(s))
    \/ \E s \in Src : /\ cnt.errs < NERRS /\ LError(s) /\ cnt' = [cnt EXCEPT !.errs = @ + 1]
    \/ Loop(LWriteOK) \/ Loop(LWriteBad)
    \/ /\ cnt.stops < NSTOPS /\ late = 0 /\ LStop /\ cnt' = [cnt EXCEPT !.stops = @ + 1]
    \/ Loop(LRestart) \/ Loop(LLateWrite) \/ Loop(LTick)
    \/ \E s \in Src : Loop(LRetry(VARIANT, s))
    \* one peer: connects, has everything, is unchoked, downloads (possibly stealing from a web seed's range)
    \/ /\ run
       /\ \/ \E pe \in Peer : Quiet(Connect(pe)) \/ Quiet(Unchoke(pe)) \/ Quiet(PieceComplete(pe))
          \/ \E pe \in Peer, p \in Piece : Quiet(Have(pe, p))
          \* (a peer steals only pieces beyond the current one of a web seed: peerStealsFromWebseed)
          \/ \E pe \in Peer, r \in {q \in Piece : Free(q)} : Quiet(Pick(pe, r, FALSE))

MSpec == MInit /\ [][MNext]_mvars
MLiveSpec == MSpec /\ WF_mvars(Loop(LTick)) /\ \A s \in 1 .. NSRC : WF_mvars(Loop(LRetry(VARIANT, s)))
\* Webseed!RetryNotForgotten with a constant bound (TLC)
MRetryNotForgotten == \A s \in 1 .. NSRC : (sst[s].dis /\ sst[s].tmr >= 0) ~> ~sst[s].dis

MInv == ActiveExact /\ DisabledIdle /\ BufLedger /\ Inv /\ bout >= 0 /\ active >= 0
\* vacuity: must be violated
NeverRetried == \A s \in Src : ~(sst[s].err /\ ~sst[s].dis /\ ~src[s].active)
NeverAllDone == \E p \in Piece : ~done[p]
MView == <<done, writing, having, requested, ws, conn, choking, af, dl, src, wr, sst, active, run, bout, late, cnt>>
=============================================================================
