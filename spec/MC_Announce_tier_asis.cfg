SPECIFICATION MCSpec
CONSTANTS
  NT = 1
  NM = 3
  UDP = FALSE
  CMIN = 2
  BO = 3
  IVALS <- IvSmall
  ASIS = {"tier"}
  CIDS = {0}
  ENV = {"need", "complete", "flip", "expire", "stop"}
INVARIANT Inv
PROPERTY Live
CHECK_DEADLOCK FALSE
