SPECIFICATION LiveSpec
CONSTANTS
  NP = 2
  PLEN <- Plen_11
  BSZ = 1
  CONNS = {1}
  FASTS = {TRUE}
  DEV = {}
  MINE0 = {{}}
PROPERTY EventuallyQuiet
CHECK_DEADLOCK FALSE
