SPECIFICATION MCSpec
CONSTANTS
  N = 4
  NPE = 2
  K = 7
  ASIS = FALSE
  ALPHA = "af"
  MAXLEN = 10
  GUARD = TRUE
  AFPARK = FALSE
INVARIANT Inv
PROPERTY MCIsolation
VIEW MCView
CHECK_DEADLOCK FALSE
