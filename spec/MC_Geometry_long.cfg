SPECIFICATION MCSpecStatic
CONSTANTS
  MaxFiles = 3
  MaxLen = 6
  MaxPL = 7
  BSS = {2, 3}
INVARIANT Thm1
INVARIANT Thm2
INVARIANT Thm3
INVARIANT Thm4
INVARIANT Thm5
INVARIANT Thm6
INVARIANT Thm7
CHECK_DEADLOCK FALSE
