SPECIFICATION ASpec
CONSTANTS
  PL = 2
  FILES <- G_two
  RB = 1
  RE = 4
  MAXCH = 2
  VARIANT = "fixed"
  IGNORE = {}
  MODES = {"206", "500", "terr", "200"}
  NSTOP = 1
  NCLOSE = 1
  NERR = 1
INVARIANT AInv
CHECK_DEADLOCK FALSE
