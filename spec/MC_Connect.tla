----------------------------- MODULE MC_Connect -----------------------------
(* Exhaustive configurations of Connect: a small universe of scripted      *)
(* remote sides x every interleaving of arrivals, handshake results,       *)
(* disconnects, bans, completion and stop/start at any point.              *)
EXTENDS Connect
CONSTANTS MAXACC, MAXDIAL, BLOCKED, DEV, UNIVERSE

In(k, ip) == [dir |-> "in", ip |-> ip, key |-> k]
Ad(k, ip) == [ip |-> ip, key |-> k]
S(ok, id) == [ok |-> ok, id |-> id]
Own == 0

\* universe 1: duplicate IP (in/in and in/out), duplicate peer id (in/in and in/out), bad handshake, own id
InU1 == {In(1, 1), In(2, 1), In(3, 2), In(4, 3)}
AdU1 == {Ad(1, 2), Ad(2, 4), Ad(3, 4)}
Scr1 == (In(1, 1) :> S(TRUE, 1)) @@ (In(2, 1) :> S(TRUE, 2)) @@ (In(3, 2) :> S(TRUE, 1)) @@ (In(4, 3) :> S(FALSE, 9))
        @@ (OutConn(Ad(1, 2)) :> S(TRUE, 1)) @@ (OutConn(Ad(2, 4)) :> S(TRUE, Own)) @@ (OutConn(Ad(3, 4)) :> S(FALSE, 9))
\* universe 2: more honest peers than slots on both sides
InU2 == {In(1, 1), In(2, 2), In(3, 3)}
AdU2 == {Ad(1, 4), Ad(2, 5), Ad(3, 5), Ad(4, 3)}
Scr2 == (In(1, 1) :> S(TRUE, 1)) @@ (In(2, 2) :> S(TRUE, 2)) @@ (In(3, 3) :> S(TRUE, 3))
        @@ (OutConn(Ad(1, 4)) :> S(TRUE, 4)) @@ (OutConn(Ad(2, 5)) :> S(TRUE, 5)) @@ (OutConn(Ad(3, 5)) :> S(FALSE, 9))
        @@ (OutConn(Ad(4, 3)) :> S(TRUE, 3))

InU == IF UNIVERSE = 1 THEN InU1 ELSE InU2
AdU == IF UNIVERSE = 1 THEN AdU1 ELSE AdU2
Scr == IF UNIVERSE = 1 THEN Scr1 ELSE Scr2

MCInit ==
    /\ cfg = [maxAccept |-> MAXACC, maxDial |-> MAXDIAL, own |-> Own, blocked |-> BLOCKED, dev |-> DEV]
    /\ scr = Scr
    /\ run = FALSE /\ acc = FALSE /\ completed = FALSE
    /\ queue = {} /\ outHS = {} /\ inHS = {} /\ peers = {} /\ connIPs = {} /\ peerIDs = {} /\ banned = {}
    /\ pend = {} /\ open = {}

MCNext ==
    /\ UNCHANGED <<cfg, scr>>
    /\ \/ FStart \/ FListen \/ FStop
       \/ \E A \in (SUBSET AdU) \ {{}} : FAdd(A)
       \/ \E s \in InU : FArrive(s) \/ FAccept(s) \/ FRefuse(s)
       \/ \E s \in inHS, ok \in BOOLEAN : FInDone(s, ok)
       \/ \E c \in outHS, ok \in BOOLEAN : FOutDone(c, ok)
       \/ \E p \in peers, ban \in BOOLEAN : FPeerGone(p, ban)
       \/ \E K \in SUBSET peers : FComplete(K)

MCSpec == MCInit /\ [][MCNext]_vars
=============================================================================
