------------------------------ MODULE MC_MSE ------------------------------
(* Exhaustive configurations of MSE.tla.                                                          *)
(*   MODE "all"    : the union of the three families below (one TLC run)                          *)
(*   MODE "pads"   : bare streams, every combination of the four pads x first-read sizes          *)
(*   MODE "neg"    : bare streams, every offer x selection policy x key mode x payload size       *)
(*   MODE "policy" : btconn.Dial / Accept under every consistent policy against every peer kind   *)
(*   MODE "frag"   : bare streams, long pads (PADS_FRAG) x fragmentation classes of the first read *)
(*                   (MSE!FragFr); the cases are printed (fam "frag") and replayed by harness/c12 *)
EXTENDS MSE, Json
CONSTANTS MODE, PADS_AB, PADS_CD, FULLFR, PADS_FRAG

Base == [dk |-> "raw", ck |-> "raw", enable |-> TRUE, force |-> FALSE, forceIn |-> FALSE, provide |-> 3, ia |-> 0,
         keymode |-> "same", selpol |-> "preferRC4", trunc |-> FALSE, loose |-> FALSE]

PadScenarios ==
    IF FULLFR THEN {Base}
    ELSE {[Base EXCEPT !.selpol = "preferRC4", !.ia = 68], [Base EXCEPT !.selpol = "preferPlain", !.ia = 0]}

\* fragmentation family: one scenario (distinct from the pad scenarios by its payload size)
FragScenario == [Base EXCEPT !.selpol = "preferRC4", !.ia = 1]
FragScenarios == IF PADS_FRAG = {} THEN {} ELSE {FragScenario}
\* every (PadA, PadB) x (first read of B against PadA, first read of A against PadB): exactly what MCNext explores for FragScenario
FragCases == UNION {{[fam |-> "frag", padA |-> pp[1], padB |-> pp[2], frB |-> fb, frA |-> fa,
                      clB |-> FragClass(pp[1], fb), clA |-> FragClass(pp[2], fa)] :
                        fb \in FragFr(pp[1]), fa \in FragFr(pp[2])} : pp \in PADS_FRAG \X PADS_FRAG}

NegScenarios ==
    {[Base EXCEPT !.provide = p, !.selpol = sp, !.keymode = km, !.ia = n, !.loose = lo] :
        p \in 0 .. 3, sp \in SelPols, km \in KeyModes, n \in {0, 1, 68, 65535, 65536}, lo \in BOOLEAN}

\* consistent (disable, force) settings of the dialer: enable=FALSE means DisableOutgoingEncryption
RainDialers == {[Base EXCEPT !.dk = "rain", !.enable = en, !.force = f] : en \in BOOLEAN, f \in BOOLEAN} \ 
               {[Base EXCEPT !.dk = "rain", !.enable = FALSE, !.force = TRUE]}
OtherDialers == {[Base EXCEPT !.dk = "plain"]} \cup {[Base EXCEPT !.dk = "raw", !.provide = p, !.ia = BT] : p \in 1 .. 3}
WithAcceptor(s) ==
    {[s EXCEPT !.ck = "rain", !.forceIn = f, !.keymode = km] : f \in BOOLEAN, km \in {"same", "unknown"}}
    \cup (IF s.dk = "rain"
          THEN {[s EXCEPT !.ck = "plainonly"]}
               \cup {[s EXCEPT !.ck = k, !.selpol = sp, !.loose = lo] : k \in {"mse", "any"}, sp \in SelPols, lo \in BOOLEAN}
               \cup {[s EXCEPT !.ck = k, !.keymode = "unknown"] : k \in {"mse", "any"}}
               \cup {[s EXCEPT !.ck = "any", !.trunc = TRUE], [s EXCEPT !.ck = "mse", !.selpol = "preferPlain", !.trunc = TRUE]}
          ELSE {})
PolicyScenarios == UNION {WithAcceptor(s) : s \in RainDialers \cup OtherDialers}

\* session-level matrix (harness/c12 -mode ses): a real torrent.Session with every consistent setting of the outgoing
\* switches (and both values of ForceIncomingEncryption, `sfi`, which must not matter for dialing) against a raw listener
\* of every scripted kind; keymode "unknown" = a listener that refuses every MSE handshake and every plaintext one
SesScenarios == {s \in PolicyScenarios : /\ s.dk = "rain" /\ s.ck \in {"plainonly", "mse", "any"}
                                          /\ ~s.loose /\ ~s.trunc /\ s.selpol = "preferRC4"
                                          /\ (s.keymode = "unknown" => s.ck = "mse")}

Scenarios == CASE MODE = "pads" -> PadScenarios
               [] MODE = "neg" -> NegScenarios
               [] MODE = "policy" -> PolicyScenarios
               [] MODE = "frag" -> FragScenarios
               [] OTHER -> PadScenarios \cup NegScenarios \cup PolicyScenarios \cup FragScenarios      \* "all"

\* the dense pad sets are used for the pad scenarios; PadA,PadB in {0, 511} and PadC = PadD = 255 for the negotiation / policy scenarios
PadsAB == IF sc \in PadScenarios THEN PADS_AB ELSE IF sc \in FragScenarios THEN PADS_FRAG ELSE {0, 511}
PadsCD == IF sc \in PadScenarios THEN PADS_CD ELSE {255}

Max(S) == CHOOSE x \in S : \A y \in S : y <= x
ASSUME \A s \in Scenarios : ScOK(s)

\* the scan bound is exactly 512: every pad 0..512 is found for every first-read size, 513 never is
ASSUME \A pad \in 0 .. 512 : \A fr \in 96 .. Min2(FirstBuf, 96 + pad) :
           ScanFinds(fr, 96 + pad, 8, ScanA - fr) /\ ScanFinds(fr, 96 + pad, 20, ScanB - fr)
\* the printed fragmentation cases contain, for both directions, a long pad with the first read ending before / inside it
ASSUME PADS_FRAG # {} => \A side \in {"A", "B"} : \E x \in FragCases :
           LET pad == IF side = "A" THEN x.padB ELSE x.padA
               cl  == IF side = "A" THEN x.clA ELSE x.clB
           IN pad >= Max(ScanEdgePads) /\ cl \in {"key", "inpad"}
ASSUME \A fr \in 96 .. FirstBuf : ~ScanFinds(fr, 96 + 513, 8, ScanA - fr) /\ ~ScanFinds(fr, 96 + 513, 20, ScanB - fr)

\* first-read sizes: all of them, or the boundary-dense selection
FrChoices(av) ==
    LET hi == Min2(FirstBuf, av) IN
    IF FULLFR THEN 96 .. hi
    ELSE FragFr(hi - 96)          \* = {96, (96 + hi) \div 2, hi - 1, hi} \cap (96 .. hi): every fragmentation class

\* the policy matrix is also printed (one JSON object per scenario): harness/c12 replays it against btconn
MCInit == \E s \in Scenarios : /\ InitWith(s)
                                /\ (s \in PolicyScenarios => PrintT("@@" \o ToJson(s)))
                                /\ (s \in FragScenarios => \A x \in FragCases : PrintT("@@" \o ToJson(x)))
                                /\ (s \in SesScenarios => \A fi \in BOOLEAN : PrintT("@@" \o ToJson([fam |-> "ses", sc |-> s, sfi |-> fi])))

MCNext ==
    \/ DPlainStart \/ DPlainRead \/ A4 \/ A5 \/ A6 \/ DBtRead
    \/ CPeek \/ B3 \/ B4
    \/ \E pad \in PadsAB : A1(pad) \/ B2(pad)
    \/ \E pad \in PadsCD : A3(pad) \/ B5(pad)
    \/ \E fr \in FrChoices(Avail(ba)) : A2(fr)
    \/ \E fr \in FrChoices(Avail(ab)) : B1(fr)
    \/ (Avail(ba) < 96 /\ A2(96)) \/ (Avail(ab) < 96 /\ B1(96))      \* the EOF branches
    \/ Terminated

MCSpec == MCInit /\ [][MCNext]_vars

\* every run ends with a result on both sides (a hang would be a deadlock of this specification)
Live == <>[](Done)

=============================================================================
