SPECIFICATION QSpec
CONSTANTS
  Readers = {1, 2}
  KeySet = {1, 2}
  Sizes = {1, 2, 3}
  MAX = 2
  PAR = 1
  NCALLS = 2
  FIXED = FALSE
  ERRS = {FALSE}
  TTL = FALSE
  CLEAR = FALSE
INVARIANT QInv
INVARIANT PNoCrash
PROPERTY Refines
CHECK_DEADLOCK FALSE
