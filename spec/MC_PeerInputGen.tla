--------------------------- MODULE MC_PeerInputGen ---------------------------
(***************************************************************************)
(* TLC as generator (E-gen) of attack scenarios for harness/c08: label     *)
(* (torrent state held by the driver's gates), number of attackers, list   *)
(* of (peer, class), optional position of Stop.  Run with -simulate.       *)
(***************************************************************************)
EXTENDS MC_PeerInput
VARIABLES lab, klen, stopped

gvars == <<vars, nmsg, h, lab, klen, stopped>>

Labels == {"meta", "alloc", "verify", "down", "seed", "stopping"}

GenInit ==
    /\ lab \in Labels /\ klen \in 1 .. MAXLEN /\ stopped = FALSE
    /\ \E k \in 1 .. NPE :
          InitWith([n |-> N, npe |-> k, maxmsg |-> 65536, asis |-> FALSE], IF lab = "stopping" THEN "down" ELSE lab)
    /\ nmsg = 0 /\ h = << >>

\* one random successor per step (RandomElement): -simulate then costs one state per message
\* (the dummy dependence on the state keeps TLC from evaluating the random draws once as constants)
Dice(k) == RandomElement(1 .. (k + 0 * nmsg))
PickClass == IF Dice(3) = 1 THEN RandomElement({c \in Queueable \cup {"unchoke", "interested"} : nmsg >= 0})
             ELSE RandomElement({c \in Classes : nmsg >= 0})

GenNext ==
    /\ nmsg < klen
    /\ UNCHANGED <<lab, klen>>
    /\ IF lab = "stopping" /\ ~stopped /\ Dice(5) = 1
       THEN /\ stopped' = TRUE /\ UNCHANGED nmsg
            /\ Stop /\ Note([pe |-> 0, cls |-> "@stop"])
       ELSE /\ nmsg' = nmsg + 1 /\ UNCHANGED stopped
            /\ LET p == RandomElement(Peers)  c == PickClass
               IN Recv(p, c) /\ Note([pe |-> p, cls |-> c])

GenSpec == GenInit /\ [][GenNext]_gvars

\* printed once at start-up: the alphabet with the design verdicts
ASSUME PrintT("@@" \o ToJson([classes |-> [c \in Classes |-> Verdicts(c)]]))

GenPrint == IF nmsg = klen
            THEN PrintT("@@" \o ToJson([lab |-> lab, npe |-> cfg.npe, h |-> h]))
            ELSE TRUE

=============================================================================
