--------------------------- MODULE MC_PeerInputGen ---------------------------
(***************************************************************************)
(* TLC as generator (E-gen) of attack scenarios for harness/c08: label     *)
(* (torrent state held by the driver's gates), number of attackers, list   *)
(* of (peer, class), optional position of Stop.  Run with -simulate.       *)
(***************************************************************************)
EXTENDS MC_PeerInput
VARIABLES lab, klen, stopped, role

gvars == <<vars, nmsg, h, lab, klen, stopped, role>>

Labels == {"meta", "alloc", "verify", "down", "seed", "stopping"}

GenInit ==
    /\ lab \in Labels /\ klen \in 1 .. MAXLEN /\ stopped = FALSE
    \* role "source": attacker 1 first becomes a piece source (a Starter message, unchoke); afterwards its request-timeout
    \* timer is part of the environment (fire / delivery interleaved with its messages, choke / unchoke favoured)
    \* role "afsource" (round 3): attacker 1 first grants allowed-fast pieces and then becomes a piece source while it is
    \* still choking: the download is an allowed-fast download; choke / unchoke / blocks of the download favoured afterwards
    /\ role \in {"any1", "any2", "source", "afsource"}
    /\ role \in {"source", "afsource"} => lab \in {"down", "stopping", "verify"}      \* states in which a download can start (now / at replay)
    /\ \E k \in 1 .. NPE :
          InitWith([n |-> N, npe |-> k, maxmsg |-> 65536, asis |-> FALSE, guard |-> TRUE, afpark |-> FALSE], IF lab = "stopping" THEN "down" ELSE lab)
    /\ nmsg = 0 /\ h = << >>

\* one random successor per step (RandomElement): -simulate then costs one state per message
\* (the dummy dependence on the state keeps TLC from evaluating the random draws once as constants)
Dice(k) == RandomElement(1 .. (k + 0 * nmsg))
PickClass == CASE Dice(6) = 1 -> RandomElement({c \in PexFam : nmsg >= 0})       \* generated ut_pex families
               [] OTHER -> IF Dice(3) = 1 THEN RandomElement({c \in Queueable \cup {"unchoke", "interested"} : nmsg >= 0})
                           ELSE RandomElement({c \in Core : nmsg >= 0})
Armed == {p \in Peers : peer[p].st = "open" /\ peer[p].tm = "armed" /\ nmsg >= 0}
Fired == {p \in Peers : peer[p].st = "open" /\ peer[p].tm = "fired" /\ nmsg >= 0}

GenNext ==
    /\ nmsg < klen
    /\ UNCHANGED <<lab, klen, role>>
    /\ IF lab = "stopping" /\ ~stopped /\ Dice(5) = 1
       THEN /\ stopped' = TRUE /\ UNCHANGED nmsg
            /\ Stop /\ Note([pe |-> 0, cls |-> "@stop"])
       ELSE IF Armed # {} /\ Dice(2) = 1
       THEN /\ UNCHANGED <<nmsg, stopped>>
            /\ \E p \in {RandomElement(Armed)} : TimerFire(p) /\ Note([pe |-> p, cls |-> "@fire"])
       ELSE IF Fired # {} /\ Dice(3) = 1
       THEN /\ UNCHANGED <<nmsg, stopped>>
            /\ \E p \in {RandomElement(Fired)} : SnubDeliver(p) /\ Note([pe |-> p, cls |-> "@snub"])
       ELSE IF role \in {"source", "afsource"} /\ nmsg >= 2 /\ peer[1].st = "open" /\ Dice(12) = 1
       THEN /\ UNCHANGED <<nmsg, stopped>>
            /\ Disconnect(1) /\ Note([pe |-> 1, cls |-> "@disconnect"])
       ELSE /\ nmsg' = nmsg + 1 /\ UNCHANGED stopped
            \* a random draw is bound by \E over a singleton: a LET definition would be evaluated (drawn) again at
            \* every reference, and the recorded history would not be the one the model executed
            /\ \E p \in {IF role \in {"source", "afsource"} /\ (nmsg < 2 \/ Dice(2) = 1) THEN 1 ELSE RandomElement(Peers)} :
               \E c \in {CASE role = "source" /\ nmsg = 0 -> RandomElement({x \in Starter : nmsg >= 0})
                           [] role = "source" /\ nmsg = 1 -> "unchoke"
                           [] role = "source" /\ p = 1 /\ Dice(2) = 1 -> RandomElement({x \in {"choke", "unchoke"} : nmsg >= 0})
                           [] role = "afsource" /\ nmsg = 0 -> RandomElement({x \in AfGrant : nmsg >= 0})
                           [] role = "afsource" /\ nmsg = 1 -> RandomElement({x \in Starter \ {"have.last"} : nmsg >= 0})
                           [] role = "afsource" /\ p = 1 /\ Dice(3) # 1
                                -> RandomElement({x \in {"choke", "unchoke", "piece.alljunk", "unchoke", "choke"} : nmsg >= 0})
                           [] OTHER -> PickClass} :
                  Recv(p, c) /\ Note([pe |-> p, cls |-> c])

GenSpec == GenInit /\ [][GenNext]_gvars

\* printed once at start-up: the alphabet with the design verdicts
ASSUME PrintT("@@" \o ToJson([classes |-> [c \in Classes |-> Verdicts(c)]]))

GenPrint == IF nmsg = klen
            THEN PrintT("@@" \o ToJson([lab |-> lab, npe |-> cfg.npe, role |-> role, h |-> h]))
            ELSE TRUE

=============================================================================
