SPECIFICATION Spec
CONSTANTS
  NB = 5
  REQQ = 0
  DEFOUT = 3
  MAXOUT = 2
  FAST = TRUE
  STRICT = FALSE
INVARIANT PipelineBound
CHECK_DEADLOCK FALSE
