SPECIFICATION Spec
CONSTANTS
  NB = 5
  REQQ = 0
  DEFOUT = 3
  MAXOUT = 2
  FAST = TRUE
  STRICT = FALSE
  REQUEUE = FALSE
  HOSTILE = FALSE
  GUARD = FALSE
INVARIANT WireBound
CONSTRAINT Small
CHECK_DEADLOCK FALSE
