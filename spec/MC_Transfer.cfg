SPECIFICATION MCSpec
CONSTANTS
  NP = 2
  NB = 2
  Peers = {"h", "l"}
  Liars = {"l"}
  Sources = {"w"}
  LyingSources = {"w"}
  EndgameLimit = 2
  MaxStops = 1
  MaxFaults = 1
INVARIANT Inv
CHECK_DEADLOCK FALSE
