---------------------------- MODULE MC_WireConc ----------------------------
(* Exhaustive: every interleaving of Build/Flush of 2..MaxConns concurrent handshakes keeps every connection's      *)
(* handshake exact; every complete interleaving is printed ("@@" + JSON) and replayed by harness/c11 (case "chs")   *)
(* into real btconn.Accept calls whose transport holds the first Write pending (Build = the call has reached its    *)
(* Write, Flush = the transport takes the bytes).                                                                   *)
EXTENDS WireConc, Json
PrintDone == AllDone => PrintT("@@" \o ToJson([n |-> n, sched |-> sched]))
MCInv == Private /\ PrintDone
=============================================================================
