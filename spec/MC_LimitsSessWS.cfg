SPECIFICATION Spec
CONSTANTS
  K = 4
  CAPS = 3
  CAPD = 2
  FIXED = TRUE
INVARIANT SourcesBound
INVARIANT ActiveBound
INVARIANT ActiveExact
CHECK_DEADLOCK FALSE
