SPECIFICATION PSpec
CONSTANTS
  Sources = {1, 2}
  MAXITEMS = 2
  Prios = {1, 2, 3}
  MAXPUSH = 3
CONSTRAINT Bound
INVARIANT PInv
CHECK_DEADLOCK FALSE
